import Pymc.Proofs.ClientLocal
/-! Helper lemmas for C01: calls and sequences of calls over a connection that may break at any byte. -/
namespace Framing
open Bytes Readers Wire Exchange Client

theorem broken_quiet {p : List Ev} (h : broken p) : quiet p := by
  cases p with
  | nil => trivial
  | cons e t =>
    cases e with
    | data b => cases b <;> simp_all [broken, isFault, quiet]
    | eintr => simp [broken, isFault] at h
    | err c => trivial

theorem quiet_split {post : List Ev} (h : quiet post) :
    ∃ q post', post = q ++ post' ∧ Drained q ∧ broken post' := by
  induction post with
  | nil => exact ⟨[], [], rfl, ⟨rfl, trivial⟩, trivial⟩
  | cons e t ih =>
    cases e with
    | data b =>
      simp only [quiet] at h; subst h
      exact ⟨[], _, rfl, ⟨rfl, trivial⟩, by simp [broken, isFault]⟩
    | eintr =>
      obtain ⟨q, p', rfl, hq, hp⟩ := ih h
      exact ⟨.eintr :: q, p', rfl, ⟨hq.1, hq.2⟩, hp⟩
    | err c => exact ⟨[], _, rfl, ⟨rfl, trivial⟩, by simp [broken, isFault]⟩

theorem quiet_append {w p : List Ev} (hw : Drained w) (hp : broken p) : quiet (w ++ p) := by
  rw [drained_iff_all_eintr] at hw
  induction w with
  | nil => exact broken_quiet hp
  | cons e t ih =>
    have := hw e (by simp); subst this
    exact ih (fun e he => hw e (by simp [he]))

theorem clean_of_append {a b : List Ev} (h : clean (a ++ b)) : clean a ∧ clean b := by
  induction a with
  | nil => exact ⟨trivial, h⟩
  | cons e t ih =>
    cases e with
    | data x => exact ⟨⟨h.1, (ih h.2).1⟩, (ih h.2).2⟩
    | eintr => exact ih h
    | err c => exact h.elim

/-- a fault-free prefix of `X ++ P`, where `P` is empty or starts with a fault, lies within `X` -/
theorem prefix_before_fault {cons u X P : List Ev} (h : cons ++ u = X ++ P) (hc : clean cons)
    (hP : broken P) : ∃ w, X = cons ++ w ∧ u = w ++ P := by
  induction cons generalizing X with
  | nil => exact ⟨X, rfl, h⟩
  | cons e cs ih =>
    cases X with
    | nil =>
      cases P with
      | nil => simp at h
      | cons p ps =>
        simp only [List.nil_append, List.cons_append, List.cons.injEq] at h
        obtain ⟨rfl, -⟩ := h
        cases e with
        | data b => cases b <;> simp_all [broken, isFault, clean]
        | eintr => simp [broken, isFault] at hP
        | err c => exact hc.elim
    | cons x X' =>
      simp only [List.cons_append, List.cons.injEq] at h
      obtain ⟨rfl, h'⟩ := h
      have hcs : clean cs := (clean_of_append (a := [e]) (b := cs) hc).2
      obtain ⟨w, rfl, rfl⟩ := ih h' hcs
      exact ⟨w, rfl, rfl⟩

/-- the three ways a pipe `X ++ P` (`X` fault-free, `P` empty or starting with a fault) can relate to
what the call is owed -/
inductive Decomp (cfg : Cfg) (c : Call) (X : List Ev) : Prop
  | stale : joinData X = [] → Decomp cfg c X
  | full : (owed cfg c).Matches (joinData X) → Decomp cfg c X
  | cut (more : Bytes) : more ≠ [] → (owed cfg c).Matches (joinData X ++ more) → Decomp cfg c X

theorem decomp_of_faultFramed {cfg : Cfg} {c : Call} {left own : List Ev} (hl : quiet left)
    (hff : FaultFramed cfg c own) :
    ∃ X P, left ++ own = X ++ P ∧ clean X ∧ broken P ∧ Decomp cfg c X := by
  obtain ⟨ql, l', rfl, hql, hl'⟩ := quiet_split hl
  obtain ⟨pre, post, rfl, hpre, hcase⟩ := hff
  cases l' with
  | cons f junk =>
    exact ⟨ql, f :: junk ++ (pre ++ post), by simp, hql.2, hl', .stale hql.1⟩
  | nil =>
    rcases hcase with ⟨hm, hq⟩ | ⟨⟨more, hne, hm⟩, hb⟩
    · obtain ⟨q, p', rfl, hq1, hp'⟩ := quiet_split hq
      refine ⟨ql ++ pre ++ q, p', by simp, clean_append (clean_append hql.2 hpre) hq1.2, hp', .full ?_⟩
      simp only [joinData_append, hql.1, hq1.1, List.nil_append, List.append_nil]; exact hm
    · refine ⟨ql ++ pre, post, by simp, clean_append hql.2 hpre, hb, .cut more hne ?_⟩
      simp only [joinData_append, hql.1, List.nil_append]; exact hm

theorem call_quiet (cfg : Cfg) (ie so : Bool) (c : Call) (sc : Script) (left own : List Ev)
    (hleft : so = true → quiet left) (hff : FaultFramed cfg c own)
    (hopen : (call cfg ie so c { sc with evs := available so left own }).sockOpen = true) :
    quiet (call cfg ie so c { sc with evs := available so left own }).unread := by
  -- a closed socket has an empty pipe
  have hav : ∃ l, quiet l ∧ available so left own = l ++ own := by
    cases so with
    | true => exact ⟨left, hleft rfl, rfl⟩
    | false => exact ⟨[], trivial, rfl⟩
  obtain ⟨l, hl, hav⟩ := hav
  rw [hav] at hopen ⊢
  obtain ⟨X, P, hXP, hX, hP, hd⟩ := decomp_of_faultFramed hl hff
  rw [hXP] at hopen ⊢
  obtain ⟨cons, he, hcons, run⟩ := call_local cfg ie so c sc (X ++ P) hopen
  dsimp only at he run hopen ⊢
  obtain ⟨w, rfl, hu⟩ := prefix_before_fault he.symm hcons hP
  have hw : clean w := (clean_of_append hX).2
  rw [hu]
  refine quiet_append ⟨?_, hw⟩ hP
  cases hd with
  | stale hj => rw [joinData_append] at hj; simp at hj; exact hj.2
  | full hm =>
    have h1 := run w
    have hopen1 : (call cfg ie so c { sc with evs := cons ++ w }).sockOpen = true := by
      rw [h1]; exact hopen
    have := call_clean cfg ie so c { sc with evs := cons ++ w } ⟨hX, hm⟩ hopen1
    rw [h1] at this
    exact this.1
  | cut more hne hm =>
    exfalso
    have h1 := run (w ++ [.data more])
    have hopen1 : (call cfg ie so c { sc with evs := cons ++ (w ++ [.data more]) }).sockOpen = true := by
      rw [h1]; exact hopen
    have hwf : WellFramed cfg c (cons ++ (w ++ [.data more])) := by
      refine ⟨?_, ?_⟩
      · rw [← List.append_assoc]; exact clean_append hX ⟨hne, trivial⟩
      · rw [← List.append_assoc, joinData_append]; simpa [joinData] using hm
    have := call_clean cfg ie so c { sc with evs := cons ++ (w ++ [.data more]) } hwf hopen1
    rw [h1] at this
    have hj := this.1
    simp [joinData_append, joinData] at hj
    exact hne hj.2

theorem faultFramed_of_wellFramed {cfg : Cfg} {c : Call} {evs : List Ev} (h : WellFramed cfg c evs) :
    FaultFramed cfg c evs :=
  ⟨evs, [], by simp, h.1, .inl ⟨h.2, trivial⟩⟩

theorem runFrom_quiet (cfg : Cfg) (ie : Bool) (so : Bool) (left : List Ev) (calls : List (Call × Script))
    (hinv : so = true → quiet left) (hff : ∀ cs ∈ calls, FaultFramed cfg cs.1 cs.2.evs) :
    ∀ o ∈ runFrom cfg ie so left calls, o.sockOpen = true → quiet o.unread := by
  induction calls generalizing so left with
  | nil => simp [runFrom]
  | cons cs rest ih =>
    obtain ⟨c, sc⟩ := cs
    have hq := call_quiet cfg ie so c sc left sc.evs hinv (hff (c, sc) (by simp))
    simp only [runFrom, List.mem_cons, forall_eq_or_imp]
    exact ⟨hq, ih _ _ hq (fun cs h => hff cs (by simp [h]))⟩

/-! ## the tagged run over a connection that may break -/

theorem readable_of_quiet {l o : List TEv} (hl : quiet (l.map (·.2))) :
    ∀ te ∈ readable (l ++ o), te.2 = .eintr ∨ te ∈ o := by
  induction l with
  | nil =>
    intro te hte
    right
    induction o with
    | nil => simp [readable] at hte
    | cons x t ih =>
      simp only [List.nil_append, readable] at hte ih ⊢
      split at hte
      · simp at hte
      · simp only [List.mem_cons] at hte ⊢
        rcases hte with h | h
        · exact .inl h
        · exact .inr (ih h)
  | cons x t ih =>
    obtain ⟨k, e⟩ := x
    intro te hte
    cases e with
    | data b =>
      simp only [List.map_cons, quiet] at hl; subst hl
      simp [readable, isFault] at hte
    | eintr =>
      simp only [List.map_cons, quiet] at hl
      simp only [List.cons_append, readable, isFault, Bool.false_eq_true, if_false, List.mem_cons] at hte
      rcases hte with rfl | h
      · exact .inl rfl
      · exact ih hl te h
    | err c => simp [readable, isFault] at hte

theorem mem_readable_of_clean_prefix {p r : List TEv} (hc : clean (p.map (·.2))) :
    ∀ te ∈ p, te ∈ readable (p ++ r) := by
  induction p with
  | nil => simp
  | cons x t ih =>
    obtain ⟨k, e⟩ := x
    intro te hte
    cases e with
    | data b =>
      simp only [List.map_cons, clean] at hc
      cases b with
      | nil => exact absurd rfl hc.1
      | cons y ys =>
        simp only [List.cons_append, readable, isFault, Bool.false_eq_true, if_false, List.mem_cons] at hte ⊢
        rcases hte with h | h
        · exact .inl h
        · exact .inr (ih hc.2 te h)
    | eintr =>
      simp only [List.map_cons, clean] at hc
      simp only [List.cons_append, readable, isFault, Bool.false_eq_true, if_false, List.mem_cons] at hte ⊢
      rcases hte with h | h
      · exact .inl h
      · exact .inr (ih hc te h)
    | err c => exact hc.elim

/-- the facts about one step of the tagged run when the connection may break -/
structure StepFactsF (st : Step) : Prop where
  split : st.consumed ++ st.leftover = st.avail
  left : st.leftover.map (·.2) = st.out.unread
  own : ∀ te ∈ readable st.avail, te.1 = st.idx ∨ te.2 = .eintr
  taken : st.out.sockOpen = true → ∀ te ∈ st.consumed, te ∈ readable st.avail

theorem runTaggedFrom_factsF (cfg : Cfg) (ie : Bool) (k : Nat) (so : Bool) (left : List TEv)
    (calls : List (Call × Script))
    (hinv : so = true → quiet (left.map (·.2)))
    (hff : ∀ cs ∈ calls, FaultFramed cfg cs.1 cs.2.evs) :
    ∀ st ∈ runTaggedFrom cfg ie k so left calls, StepFactsF st := by
  induction calls generalizing k so left with
  | nil => simp [runTaggedFrom]
  | cons cs rest ih =>
    obtain ⟨c, sc⟩ := cs
    simp only [runTaggedFrom, List.mem_cons, forall_eq_or_imp]
    generalize hav : available so left (sc.evs.map fun e => (k, e)) = avail
    have hmap : avail.map (·.2) = available so (left.map (·.2)) sc.evs := by
      rw [← hav, map_available]; simp [Function.comp_def]
    have hq := call_quiet cfg ie so c sc (left.map (·.2)) sc.evs hinv (hff (c, sc) (by simp))
    have hloc := call_local cfg ie so c sc (available so (left.map (·.2)) sc.evs)
    unfold CallLocal at hloc
    dsimp only at hloc
    rw [← hmap] at hq hloc
    generalize ho : call cfg ie so c { sc with evs := avail.map (·.2) } = o at hq hloc
    have hsuf : o.unread <:+ avail.map (·.2) := by
      rw [← ho]; exact call_suffix cfg ie so c _
    have hleft := map_drop_of_suffix (·.2) avail o.unread hsuf
    have hown : ∀ te ∈ readable avail, te.1 = k ∨ te.2 = .eintr := by
      intro te hte
      rw [← hav] at hte
      cases so with
      | false =>
        simp only [available, Bool.false_eq_true, if_false] at hte
        rcases readable_of_quiet (l := []) trivial te hte with h | h
        · exact .inr h
        · obtain ⟨e, -, rfl⟩ := List.mem_map.mp h; exact .inl rfl
      | true =>
        simp only [available, if_true] at hte
        rcases readable_of_quiet (hinv rfl) te hte with h | h
        · exact .inr h
        · obtain ⟨e, -, rfl⟩ := List.mem_map.mp h; exact .inl rfl
    have htaken : o.sockOpen = true →
        ∀ te ∈ avail.take (avail.length - o.unread.length), te ∈ readable avail := by
      intro hopen
      obtain ⟨cons, he, hc, -⟩ := hloc hopen
      have hlen : (avail.map (·.2)).length = cons.length + o.unread.length := by
        rw [he]; simp
      have hcons : (avail.take (avail.length - o.unread.length)).map (·.2) = cons := by
        rw [List.map_take, he]
        have : avail.length - o.unread.length = cons.length := by simp at hlen; omega
        rw [this, List.take_left]
      have := mem_readable_of_clean_prefix (p := avail.take (avail.length - o.unread.length))
        (r := avail.drop (avail.length - o.unread.length)) (by rw [hcons]; exact hc)
      rwa [List.take_append_drop] at this
    refine ⟨⟨List.take_append_drop _ _, hleft, hown, htaken⟩, ?_⟩
    apply ih
    · intro hopen; rw [hleft]; exact hq hopen
    · exact fun cs h => hff cs (by simp [h])
end Framing
