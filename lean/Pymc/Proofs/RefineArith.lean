import Pymc.Proofs.RefineLine
/-! C05 for incr/decr. -/
namespace Exchange
open Bytes Wire

theorem pyIntDigits_digits (b : Bytes) (acc : Option Nat) (h : ∀ x ∈ b, isDigit x = true) :
    pyIntDigits b false acc =
      if b = [] then acc else some (b.foldl (fun a d => a * 10 + (d.toNat - 48)) (acc.getD 0)) := by
  induction b generalizing acc with
  | nil => simp [pyIntDigits]
  | cons c r ih =>
    have hc : isDigit c = true := h c (by simp)
    simp only [pyIntDigits, hc, if_true]
    rw [ih _ (fun x hx => h x (by simp [hx]))]
    by_cases hr : r = []
    · subst hr; simp
    · simp [hr]

theorem pyInt_digits (b : Bytes) (hne : b ≠ []) (h : ∀ x ∈ b, isDigit x = true) :
    pyInt b = some ((decVal b : Nat) : Int) := by
  cases b with
  | nil => exact absurd rfl hne
  | cons d r =>
    have hd := (isDigit_iff d).1 (h d (by simp))
    have h1 : d ≠ 45 := by rintro rfl; revert hd; decide
    have h2 : d ≠ 43 := by rintro rfl; revert hd; decide
    have : pyInt (d :: r) = (pyIntDigits (d :: r) false none).map fun n => (n : Int) := by
      unfold pyInt
      split
      · rename_i heq; cases heq; exact absurd rfl h1
      · rename_i heq; cases heq; exact absurd rfl h2
      · rfl
    rw [this, pyIntDigits_digits _ _ h]
    simp [decVal]

theorem pyInt_natDec (n : Nat) : pyInt (natDec n) = some (n : Int) := by
  rw [pyInt_digits _ (natDec_ne_nil n) (natDec_mem_isDigit n), decVal_natDec]

theorem natDec_ne_NOT_FOUND (n : Nat) : ¬ natDec n = [78, 79, 84, 95, 70, 79, 85, 78, 68] := by
  intro h
  have := natDec_mem_isDigit n 78 (by rw [h]; simp)
  revert this; decide

theorem raiseErrors_nonNumeric :
    raiseErrors (ofString "CLIENT_ERROR cannot increment or decrement non-numeric value") =
      some (.clientError (ofString "cannot increment or decrement non-numeric value")) := by
  have h : (ofString "CLIENT_ERROR cannot increment or decrement non-numeric value").idxOf? SP = some 12 := by
    rw [lit_nonNumericLine]; decide
  rw [raiseErrors_eq]
  simp only [afterFirstSpace, h]
  simp
end Exchange

namespace Client
open Bytes Wire Exchange Readers AbsMap ApiSpec

theorem applyLoud_arith (s : St) (incr : Bool) (w : Bytes) (d : Nat) (nr : Bool) :
    (∃ n, (applyLoud s (.arith incr w d nr)).2 = .number n) ∨
    (applyLoud s (.arith incr w d nr)).2 = .notFound ∨
    (applyLoud s (.arith incr w d nr)).2 = .nonNumeric := by
  simp only [applyLoud]
  cases live (settle s) w with
  | none => simp
  | some it =>
    simp only
    cases parseNat it.data with
    | none => simp
    | some cur =>
      simp only
      split
      · simp
      · exact .inl ⟨_, rfl⟩

theorem refines_arith (cfg : Cfg) (s : St) (incr : Bool) (k : Key.K) (delta : IntArg) (noreply : Bool)
    (hk : KeyOK cfg k) (hd : NonNegArg delta) :
    onServer cfg s (.arith incr k delta noreply) =
      ((spec cfg s (.arith incr k delta noreply)).1, (spec cfg s (.arith incr k delta noreply)).2,
        sockAfter (.arith incr k delta noreply) (spec cfg s (.arith incr k delta noreply)).2) := by
  have hill : encodeArith cfg incr k delta noreply = .error .illegalInput →
      (spec cfg s (.arith incr k delta noreply)) = (s, .error .illegalInput) →
      onServer cfg s (.arith incr k delta noreply) =
      ((spec cfg s (.arith incr k delta noreply)).1, (spec cfg s (.arith incr k delta noreply)).2,
        sockAfter (.arith incr k delta noreply) (spec cfg s (.arith incr k delta noreply)).2) := by
    intro henc hs
    rw [onServer_not_sent]
    · simp [call, henc, early, hs, sockAfter]
    · simp [call, henc, early]
  cases hck : checkKey cfg k with
  | error e =>
    cases e
    exact hill (by simp [encodeArith, hck, bind, Except.bind]) (by simp [spec, hck])
  | ok w =>
    cases delta with
    | nonInt => exact hill (encodeArith_nonInt cfg incr k noreply) (by simp [spec, hck, checkInteger])
    | int d =>
    have hd0 : 0 ≤ d := hd d rfl
    have hw : w ≠ [] := fun h => hk (h ▸ hck)
    have hv := checkKey_validKey hck hw
    have henc : encodeArith cfg incr k (.int d) noreply = .ok (arithCmd incr w d noreply) := by
      simp [encodeArith, hck, checkInteger, bind, Except.bind, pure, Except.pure]
    have hparse : parseAll [arithCmd incr w d noreply].flatten.length [arithCmd incr w d noreply].flatten =
        some [.arith incr w d.toNat noreply] := by
      simpa using parseAll_single (parsesAs_of fun rest => C02_parse_arithCmd incr w d noreply rest hv hd0)
    simp only [spec, hck, checkInteger]
    cases noreply with
    | true =>
      rw [onServer_misc_quiet cfg s _ [arithCmd incr w d true] _ [.arith incr w d.toNat true] _ _
        (fun evs => by simp only [call, henc]; rfl) hparse (applyAll_single _ _)]
      · simp [sockAfter]
      · simp [Server.renderAll, apply_quiet s (.arith incr w d.toNat true) rfl, Server.render]
    | false =>
      have happ : AbsMap.apply s (.arith incr w d.toNat false) = applyLoud s (.arith incr w d.toNat false) :=
        apply_loud _ _ rfl
      rcases applyLoud_arith s incr w d.toNat false with ⟨n, h⟩ | h | h
      · rw [onServer_misc_loud cfg s _ [arithCmd incr w d false] _ [.arith incr w d.toNat false] _ _ [natDec n]
          (fun evs => by simp only [call, henc]; rfl) hparse (applyAll_single _ _)]
        · simp [happ, h, pyInt_natDec, natDec_ne_NOT_FOUND, sockAfter]
        · simp [Server.renderAll, happ, h, Server.render, joinLines]
        · simpa using plain_natDec n
        · rfl
      · rw [onServer_misc_loud cfg s _ [arithCmd incr w d false] _ [.arith incr w d.toNat false] _ _
          [ofString "NOT_FOUND"]
          (fun evs => by simp only [call, henc]; rfl) hparse (applyAll_single _ _)]
        · simp [happ, h, sockAfter]
        · simp [Server.renderAll, happ, h, Server.render, joinLines]
        · simpa using plain_NOT_FOUND
        · rfl
      · have hp1 : parseAll (arithCmd incr w d false).length (arithCmd incr w d false) =
            some [.arith incr w d.toNat false] := by simpa using hparse
        rw [onServer_misc_error cfg s _ (arithCmd incr w d false) _ (.arith incr w d.toNat false)
          (ofString "CLIENT_ERROR cannot increment or decrement non-numeric value") _
          (fun evs => by simp only [call, henc]; rfl) hp1
          (by rw [happ, h]; rfl) (by rw [lit_nonNumericLine]; decide) raiseErrors_nonNumeric]
        simp [happ, h, sockAfter]
end Client
