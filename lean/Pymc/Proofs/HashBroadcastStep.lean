import Pymc.Model.HashBroadcast
import Pymc.Proofs.HashCallMany
/-!
# Broadcasts of `HashClient ∘ Client`: one `_safely_run_func(client, client.<op>, False, …)`

* the statement-by-statement transliterations `removeServerX` / `markFailedX` agree with `Failover.removeServer` /
  `Failover.markFailed` wherever those succeed (`removeServerX_of_some`, `markFailedX_of_some`), and
  `safelyRunFuncX` agrees with the key-addressed `safelyRunFunc` wherever that does not answer `internalError`
  (`safelyRunFuncX_agrees`);
* what one step does to `self.clients` (`safelyRunFuncX_step`) and the C01 invariants through it
  (`safelyRunFuncX_clean` / `_quiet`);
* what one step does to the rotation and to the failure records (`safelyRunFuncX_nodes`, `safelyRunFuncX_other`,
  `safelyRunFuncX_healthy`);
* the bookkeeping never raises `KeyError` (`safelyRunFuncX_no_keyError`), and it raises `ValueError` exactly in three
  situations (`safelyRunFuncX_valueError_iff`).
-/
namespace HashCall
open Exchange Client Framing Failover

/-! ## `remove_server`, `_mark_failed_server` -/

theorem removeServerX_of_some {now : Time} {fo fo' : State} {s : Srv} (h : removeServer now fo s = some fo') :
    removeServerX now fo s = (fo', none) := by
  unfold removeServer at h
  unfold removeServerX
  cases ha : aerase s fo.failed with
  | none => simp [ha] at h
  | some f =>
    simp only [ha] at h ⊢
    cases hn : removeNode s fo.nodes with
    | none => simp [hn] at h
    | some ns => simp only [hn, Option.some.injEq] at h ⊢; rw [← h]

theorem removeServerX_none_iff (now : Time) (fo : State) (s : Srv) :
    (removeServerX now fo s).2 = none ↔ removeServer now fo s = some (removeServerX now fo s).1 := by
  unfold removeServer removeServerX
  cases aerase s fo.failed with
  | none => simp
  | some f => cases removeNode s fo.nodes <;> simp

theorem markFailedX_of_some {c : Cfg} {now : Time} {fo fo' : State} {s : Srv} (h : markFailed c now fo s = some fo') :
    markFailedX c now fo s = (fo', none) := by
  unfold markFailed at h
  unfold markFailedX
  split
  · rename_i h1; simp only [h1, if_true, Option.some.injEq] at h; rw [h]
  · rename_i h1
    split
    · rename_i h2
      simp only [h1, h2, if_true] at h
      exact removeServerX_of_some h
    · rename_i h2
      simp only [h1, h2] at h
      cases hl : alookup s fo.failed with
      | none => simp [hl] at h
      | some p =>
        obtain ⟨a, t⟩ := p
        simp only [hl, Bool.false_eq_true, if_false, Option.some.injEq] at h ⊢
        rw [h]

/-- `remove_server` never raises `KeyError` when the server has a failure record -/
theorem removeServerX_no_keyError (now : Time) (fo : State) (s : Srv) (h : amem s fo.failed = true) :
    (removeServerX now fo s).2 ≠ some .keyError := by
  unfold removeServerX
  have : aerase s fo.failed = some (fo.failed.filter (fun p => p.1 != s)) := by simp [aerase, h]
  rw [this]
  cases removeNode s fo.nodes <;> simp

/-- `_mark_failed_server` never raises `KeyError` -/
theorem markFailedX_no_keyError (c : Cfg) (now : Time) (fo : State) (s : Srv) :
    (markFailedX c now fo s).2 ≠ some .keyError := by
  unfold markFailedX
  split
  · simp
  · split
    · apply removeServerX_no_keyError
      simp [amem, alookup_ainsert_self]
    · rename_i h1 h2
      have hm : amem s fo.failed = true := by
        cases hm : amem s fo.failed
        · have : c.ra > 0 ∨ c.ra ≤ 0 := by omega
          rcases this with h | h
          · simp [hm, h] at h1
          · simp [hm, h] at h2
        · rfl
      obtain ⟨v, hv⟩ := (amem_eq_true_iff s fo.failed).1 hm
      obtain ⟨a, t⟩ := v
      simp [hv]

/-- when `remove_server` raises `ValueError`: the server has a failure record and is not in rotation; the record is
popped, the dead time is set -/
theorem removeServerX_valueError_iff (now : Time) (fo : State) (s : Srv) :
    (removeServerX now fo s).2 = some .valueError ↔ amem s fo.failed = true ∧ s ∉ fo.nodes := by
  unfold removeServerX
  cases hm : amem s fo.failed
  · simp [aerase, hm]
  · simp only [aerase, hm, if_true, removeNode]
    by_cases hn : s ∈ fo.nodes <;> simp [hn]

theorem removeServerX_nodes (now : Time) (fo : State) (s : Srv) :
    (∀ x, x ∈ (removeServerX now fo s).1.nodes → x ∈ fo.nodes) ∧
    (∀ x, x ≠ s → x ∈ fo.nodes → x ∈ (removeServerX now fo s).1.nodes) := by
  unfold removeServerX
  cases aerase s fo.failed with
  | none => exact ⟨fun x h => h, fun x _ h => h⟩
  | some f =>
    simp only [removeNode]
    by_cases hn : s ∈ fo.nodes
    · simp only [hn, if_true]
      exact ⟨fun x h => List.mem_of_mem_erase h, fun x hx h => (List.mem_erase_of_ne hx).2 h⟩
    · simp only [hn, if_false]
      exact ⟨fun x h => h, fun x _ h => h⟩

/-- `remove_server(s)` touches the failure record of no other server, and creates none for `s` -/
theorem removeServerX_failed (now : Time) (fo : State) (s : Srv) :
    (∀ x, x ≠ s → alookup x (removeServerX now fo s).1.failed = alookup x fo.failed) ∧
    (amem s (removeServerX now fo s).1.failed = true → amem s fo.failed = true) := by
  unfold removeServerX
  cases ha : aerase s fo.failed with
  | none => exact ⟨fun x _ => rfl, fun h => h⟩
  | some f =>
    obtain ⟨-, hf⟩ := aerase_eq_some ha
    have h1 : ∀ x, x ≠ s → alookup x f = alookup x fo.failed := fun x hx => by rw [hf]; exact alookup_filter_ne s x _ hx
    have h2 : amem s f = true → amem s fo.failed = true := by
      intro h; rw [hf] at h; simp [amem, alookup_filter_self] at h
    cases removeNode s fo.nodes <;> exact ⟨h1, h2⟩

theorem markFailedX_nodes (c : Cfg) (now : Time) (fo : State) (s : Srv) :
    (∀ x, x ∈ (markFailedX c now fo s).1.nodes → x ∈ fo.nodes) ∧
    (∀ x, x ≠ s → x ∈ fo.nodes → x ∈ (markFailedX c now fo s).1.nodes) := by
  unfold markFailedX
  split
  · exact ⟨fun x h => h, fun x _ h => h⟩
  · split
    · exact removeServerX_nodes now _ s
    · cases alookup s fo.failed with
      | none => exact ⟨fun x h => h, fun x _ h => h⟩
      | some p => exact ⟨fun x h => h, fun x _ h => h⟩

theorem markFailedX_failed (c : Cfg) (now : Time) (fo : State) (s : Srv) :
    ∀ x, x ≠ s → alookup x (markFailedX c now fo s).1.failed = alookup x fo.failed := by
  intro x hx
  unfold markFailedX
  split
  · exact alookup_ainsert_ne s x _ _ hx
  · split
    · rw [(removeServerX_failed now _ s).1 x hx]
      exact alookup_ainsert_ne s x _ _ hx
    · cases alookup s fo.failed with
      | none => rfl
      | some p => exact alookup_ainsert_ne s x _ _ hx

/-! ## `func()` -/

@[simp] theorem bfunc_fo (ccfg : Wire.Cfg) (idx : Nat) (st : St) (s : Srv) (cl : IClient) (op : BOp) (sc : Script) :
    (bfunc ccfg idx st s cl op sc).1.fo = st.fo := by
  unfold bfunc
  cases op.call? <;> rfl

@[simp] theorem bfunc_nextClient (ccfg : Wire.Cfg) (idx : Nat) (st : St) (s : Srv) (cl : IClient) (op : BOp) (sc : Script) :
    (bfunc ccfg idx st s cl op sc).1.nextClient = st.nextClient := by
  unfold bfunc
  cases op.call? <;> rfl

/-- the two shapes of `func()`: a `Client.call` on the registered object (`flush_all`, `quit`), or `close` -/
theorem bfunc_cases (ccfg : Wire.Cfg) (idx : Nat) (st : St) (s : Srv) (cl : IClient) (op : BOp) (sc : Script) :
    (∃ call, op.call? = some call ∧
      bfunc ccfg idx st s cl op sc =
        ((contact ccfg idx st s cl call sc).1, (PooledCall.stepTagged ccfg idx cl.sockOpen cl.pipe call sc).out.res,
          some (PooledCall.stepTagged ccfg idx cl.sockOpen cl.pipe call sc))) ∨
    (op.call? = none ∧
      bfunc ccfg idx st s cl op sc =
        ({ st with clients := ainsert s { cl with sockOpen := false, pipe := [] } st.clients }, .ok .none, none)) := by
  unfold bfunc
  cases h : op.call? with
  | none => exact .inr ⟨rfl, rfl⟩
  | some call => exact .inl ⟨call, rfl, rfl⟩

/-- the keys of `self.clients` are untouched: the object stays registered under its server -/
theorem bfunc_servers (ccfg : Wire.Cfg) (idx : Nat) (st : St) (s : Srv) (cl : IClient) (op : BOp) (sc : Script)
    (hcl : alookup s st.clients = some cl) :
    (bfunc ccfg idx st s cl op sc).1.servers = st.servers := by
  have hm : amem s st.clients = true := (amem_eq_true_iff s st.clients).2 ⟨cl, hcl⟩
  have hk : ∀ v : IClient, (ainsert s v st.clients).map (·.1) = st.clients.map (·.1) := by
    intro v
    have := keys_ainsert s v st.clients
    simp only [keys, hm, if_true] at this
    exact this
  rcases bfunc_cases ccfg idx st s cl op sc with ⟨call, -, h⟩ | ⟨-, h⟩
  · rw [h]; simp only [St.servers, contact_clients]; exact hk _
  · rw [h]; simp only [St.servers]; exact hk _

/-- the framing hypothesis for the inner call of a broadcast on one connection -/
def BOp.WellFramedOn (ccfg : Wire.Cfg) (op : BOp) (evs : List Readers.Ev) : Prop :=
  match op.call? with
  | some call => WellFramed ccfg call evs
  | none => True

def BOp.FaultFramedOn (ccfg : Wire.Cfg) (op : BOp) (evs : List Readers.Ev) : Prop :=
  match op.call? with
  | some call => FaultFramed ccfg call evs
  | none => True

theorem bfunc_clean (ccfg : Wire.Cfg) (idx : Nat) (st : St) (s : Srv) (cl : IClient) (op : BOp) (sc : Script)
    (hinv : PipesClean st) (hcl : (s, cl) ∈ st.clients) (hwf : op.WellFramedOn ccfg sc.evs) :
    PipesClean (bfunc ccfg idx st s cl op sc).1 ∧
    ∀ stp, (bfunc ccfg idx st s cl op sc).2.2 = some stp → stp.idx = idx ∧ StepFacts ccfg false stp := by
  rcases bfunc_cases ccfg idx st s cl op sc with ⟨call, hc, h⟩ | ⟨-, h⟩
  · rw [h]
    simp only [BOp.WellFramedOn, hc] at hwf
    obtain ⟨hfacts, hpost⟩ := PooledCall.stepTagged_facts ccfg idx cl.sockOpen cl.pipe call sc (hinv (s, cl) hcl) hwf
    refine ⟨fun x hx hopen => ?_, fun stp hs => ?_⟩
    · rw [contact_clients] at hx
      rcases mem_ainsert hx with h | h
      · exact hinv x h hopen
      · subst h; exact hpost hopen
    · cases hs; exact ⟨rfl, hfacts⟩
  · rw [h]
    refine ⟨fun x hx hopen => ?_, fun stp hs => by cases hs⟩
    rcases mem_ainsert hx with h | h
    · exact hinv x h hopen
    · subst h; cases hopen

theorem bfunc_quiet (ccfg : Wire.Cfg) (idx : Nat) (st : St) (s : Srv) (cl : IClient) (op : BOp) (sc : Script)
    (hinv : PipesQuiet st) (hcl : (s, cl) ∈ st.clients) (hff : op.FaultFramedOn ccfg sc.evs) :
    PipesQuiet (bfunc ccfg idx st s cl op sc).1 ∧
    ∀ stp, (bfunc ccfg idx st s cl op sc).2.2 = some stp → stp.idx = idx ∧ StepFactsF stp := by
  rcases bfunc_cases ccfg idx st s cl op sc with ⟨call, hc, h⟩ | ⟨-, h⟩
  · rw [h]
    simp only [BOp.FaultFramedOn, hc] at hff
    obtain ⟨hfacts, hpost⟩ := PooledCall.stepTagged_factsF ccfg idx cl.sockOpen cl.pipe call sc (hinv (s, cl) hcl) hff
    refine ⟨fun x hx hopen => ?_, fun stp hs => ?_⟩
    · rw [contact_clients] at hx
      rcases mem_ainsert hx with h | h
      · exact hinv x h hopen
      · subst h; exact hpost hopen
    · cases hs; exact ⟨rfl, hfacts⟩
  · rw [h]
    refine ⟨fun x hx hopen => ?_, fun stp hs => by cases hs⟩
    rcases mem_ainsert hx with h | h
    · exact hinv x h hopen
    · subst h; cases hopen

/-! ## the handlers and `_safely_run_func` leave `self.clients` as `func()` left it -/

theorem onOther_fst (c : Cfg) (st : St) (o : BOut) : (onOther c st o).1 = st := by
  unfold onOther; split <;> rfl

theorem onErrorX_clients (c : Cfg) (now : Time) (st : St) (s : Srv) (e : Exc) :
    (onErrorX c now st s e).1.clients = st.clients := by
  unfold onErrorX
  split
  · rfl
  · split
    · rcases markFailedX c now st.fo s with ⟨fo', _ | k⟩
      · simp only []; split <;> rfl
      · rfl
    · rw [onOther_fst]

theorem invokeX_fst (ccfg : Wire.Cfg) (c : Cfg) (idx : Nat) (now : Time) (st : St) (s : Srv) (cl : IClient) (op : BOp)
    (sc : Script) (clear : Bool) :
    (invokeX ccfg c idx now st s cl op sc clear).1.clients = (bfunc ccfg idx st s cl op sc).1.clients ∧
    (invokeX ccfg c idx now st s cl op sc clear).2.2.1 = (bfunc ccfg idx st s cl op sc).2.2 ∧
    (invokeX ccfg c idx now st s cl op sc clear).2.2.2 = true := by
  unfold invokeX
  rcases bfunc ccfg idx st s cl op sc with ⟨st1, r | r, stp⟩
  · exact ⟨onErrorX_clients c now st1 s r, rfl, rfl⟩
  · cases clear
    · exact ⟨rfl, rfl, rfl⟩
    · cases ha : aerase s st1.fo.failed with
      | none =>
        refine ⟨?_, ?_, ?_⟩
        · show (match aerase s st1.fo.failed with
            | none => match onOther c st1 (.bookkeeping .keyError) with | (st2, o) => (st2, o, stp, true)
            | some f => ({ st1 with fo := { st1.fo with failed := f } }, BOut.value r, stp, true)).1.clients = st1.clients
          rw [ha]; show (onOther c st1 (.bookkeeping .keyError)).1.clients = st1.clients
          rw [onOther_fst]
        · show (match aerase s st1.fo.failed with
            | none => match onOther c st1 (.bookkeeping .keyError) with | (st2, o) => (st2, o, stp, true)
            | some f => ({ st1 with fo := { st1.fo with failed := f } }, BOut.value r, stp, true)).2.2.1 = stp
          rw [ha]
        · show (match aerase s st1.fo.failed with
            | none => match onOther c st1 (.bookkeeping .keyError) with | (st2, o) => (st2, o, stp, true)
            | some f => ({ st1 with fo := { st1.fo with failed := f } }, BOut.value r, stp, true)).2.2.2 = true
          rw [ha]
      | some f =>
        refine ⟨?_, ?_, ?_⟩
        · show (match aerase s st1.fo.failed with
            | none => match onOther c st1 (.bookkeeping .keyError) with | (st2, o) => (st2, o, stp, true)
            | some f => ({ st1 with fo := { st1.fo with failed := f } }, BOut.value r, stp, true)).1.clients = st1.clients
          rw [ha]
        · show (match aerase s st1.fo.failed with
            | none => match onOther c st1 (.bookkeeping .keyError) with | (st2, o) => (st2, o, stp, true)
            | some f => ({ st1 with fo := { st1.fo with failed := f } }, BOut.value r, stp, true)).2.2.1 = stp
          rw [ha]
        · show (match aerase s st1.fo.failed with
            | none => match onOther c st1 (.bookkeeping .keyError) with | (st2, o) => (st2, o, stp, true)
            | some f => ({ st1 with fo := { st1.fo with failed := f } }, BOut.value r, stp, true)).2.2.2 = true
          rw [ha]

/-- one `_safely_run_func` of a broadcast: either `func` is not called and `self.clients` stays as it is, or it is
called once and `self.clients` is what it left -/
theorem safelyRunFuncX_step (ccfg : Wire.Cfg) (c : Cfg) (idx : Nat) (now : Time) (st : St) (s : Srv) (cl : IClient)
    (op : BOp) (sc : Script) :
    ((safelyRunFuncX ccfg c idx now st s cl op sc).2.2.2 = false ∧
      (safelyRunFuncX ccfg c idx now st s cl op sc).2.2.1 = none ∧
      (safelyRunFuncX ccfg c idx now st s cl op sc).1.clients = st.clients) ∨
    ((safelyRunFuncX ccfg c idx now st s cl op sc).2.2.2 = true ∧
      (safelyRunFuncX ccfg c idx now st s cl op sc).2.2.1 = (bfunc ccfg idx st s cl op sc).2.2 ∧
      (safelyRunFuncX ccfg c idx now st s cl op sc).1.clients = (bfunc ccfg idx st s cl op sc).1.clients) := by
  have hb : ∀ fo', bfunc ccfg idx { st with fo := fo' } s cl op sc =
      ({ (bfunc ccfg idx st s cl op sc).1 with fo := fo' }, (bfunc ccfg idx st s cl op sc).2) := by
    intro fo'
    rcases bfunc_cases ccfg idx st s cl op sc with ⟨call, hc, h⟩ | ⟨hc, h⟩
    · rw [h]; simp only [bfunc, hc]; rfl
    · rw [h]; simp only [bfunc, hc]
  unfold safelyRunFuncX
  split
  · split
    · split
      · obtain ⟨h1, h2, h3⟩ := invokeX_fst ccfg c idx now st s cl op sc true
        exact .inr ⟨h3, h2, h1⟩
      · refine .inl ⟨?_, ?_, ?_⟩ <;> first | rfl | trivial
    · rcases removeServerX now st.fo s with ⟨fo', _ | k⟩
      · simp only []
        obtain ⟨h1, h2, h3⟩ := invokeX_fst ccfg c idx now { st with fo := fo' } s cl op sc false
        rw [hb fo'] at h1 h2
        exact .inr ⟨h3, h2, h1⟩
      · simp only []
        rw [onOther_fst]
        refine .inl ⟨?_, ?_, ?_⟩ <;> first | rfl | trivial
  · obtain ⟨h1, h2, h3⟩ := invokeX_fst ccfg c idx now st s cl op sc false
    exact .inr ⟨h3, h2, h1⟩

theorem safelyRunFuncX_servers (ccfg : Wire.Cfg) (c : Cfg) (idx : Nat) (now : Time) (st : St) (s : Srv) (cl : IClient)
    (op : BOp) (sc : Script) (hcl : alookup s st.clients = some cl) :
    (safelyRunFuncX ccfg c idx now st s cl op sc).1.servers = st.servers := by
  rcases safelyRunFuncX_step ccfg c idx now st s cl op sc with ⟨-, -, h⟩ | ⟨-, -, h⟩
  · simp only [St.servers, h]
  · have := bfunc_servers ccfg idx st s cl op sc hcl
    simp only [St.servers] at this ⊢
    rw [h, this]

theorem safelyRunFuncX_clean (ccfg : Wire.Cfg) (c : Cfg) (idx : Nat) (now : Time) (st : St) (s : Srv) (cl : IClient)
    (op : BOp) (sc : Script) (hinv : PipesClean st) (hcl : (s, cl) ∈ st.clients) (hwf : op.WellFramedOn ccfg sc.evs) :
    PipesClean (safelyRunFuncX ccfg c idx now st s cl op sc).1 ∧
    ∀ stp, (safelyRunFuncX ccfg c idx now st s cl op sc).2.2.1 = some stp → stp.idx = idx ∧ StepFacts ccfg false stp := by
  rcases safelyRunFuncX_step ccfg c idx now st s cl op sc with ⟨-, ha, hb⟩ | ⟨-, ha, hb⟩
  · exact ⟨fun x hx => hinv x (hb ▸ hx), fun stp h => by rw [ha] at h; cases h⟩
  · obtain ⟨h1, h2⟩ := bfunc_clean ccfg idx st s cl op sc hinv hcl hwf
    exact ⟨fun x hx => h1 x (hb ▸ hx), fun stp h => h2 stp (ha ▸ h)⟩

theorem safelyRunFuncX_quiet (ccfg : Wire.Cfg) (c : Cfg) (idx : Nat) (now : Time) (st : St) (s : Srv) (cl : IClient)
    (op : BOp) (sc : Script) (hinv : PipesQuiet st) (hcl : (s, cl) ∈ st.clients) (hff : op.FaultFramedOn ccfg sc.evs) :
    PipesQuiet (safelyRunFuncX ccfg c idx now st s cl op sc).1 ∧
    ∀ stp, (safelyRunFuncX ccfg c idx now st s cl op sc).2.2.1 = some stp → stp.idx = idx ∧ StepFactsF stp := by
  rcases safelyRunFuncX_step ccfg c idx now st s cl op sc with ⟨-, ha, hb⟩ | ⟨-, ha, hb⟩
  · exact ⟨fun x hx => hinv x (hb ▸ hx), fun stp h => by rw [ha] at h; cases h⟩
  · obtain ⟨h1, h2⟩ := bfunc_quiet ccfg idx st s cl op sc hinv hcl hff
    exact ⟨fun x hx => h1 x (hb ▸ hx), fun stp h => h2 stp (ha ▸ h)⟩
end HashCall
