import Pymc.Model.Framing
import Pymc.Proofs.ReadersEintr
/-! Helper lemmas for C01: structural facts about the reply loops that hold for *every* input
(errors close, what is left unread is a suffix of what was available, result lengths). -/
namespace Exchange
open Bytes Readers Wire

/-! ## the readers leave a suffix of the events -/

theorem readline_suffix (acc buf : Bytes) (evs : List Ev) {rest line : Bytes} {evs' : List Ev}
    (h : readline acc buf evs = .ok (rest, line, evs')) : evs' <:+ evs := by
  fun_induction readline acc buf evs with
  | case1 => simp at h; rw [← h.2.2]; exact List.suffix_refl _
  | case2 => simp at h; rw [← h.2.2]; exact List.suffix_refl _
  | case3 => simp at h
  | case4 => simp at h
  | case5 acc buf _ _ b r _ ih => exact (ih h).trans (List.suffix_cons _ _)
  | case6 acc buf _ _ r ih => exact (ih h).trans (List.suffix_cons _ _)
  | case7 => simp at h

theorem readvalueLoop_suffix (acc buf : Bytes) (rlen : Int) (evs : List Ev) {rest v : Bytes}
    {evs' : List Ev} (h : readvalueLoop acc buf rlen evs = .ok (rest, v, evs')) : evs' <:+ evs := by
  fun_induction readvalueLoop acc buf rlen evs with
  | case1 => simp at h
  | case2 => simp at h
  | case3 _ _ _ _ _ _ b r _ ih => exact (ih h).trans (List.suffix_cons _ _)
  | case4 _ _ _ _ _ _ r ih => exact (ih h).trans (List.suffix_cons _ _)
  | case5 => simp at h
  | case6 => simp at h
  | case7 => simp at h; rw [← h.2.2]; exact List.suffix_refl _
  | case8 => simp at h; rw [← h.2.2]; exact List.suffix_refl _

theorem readsegment_suffix (tok buf : Bytes) (evs : List Ev) {rest seg : Bytes} {evs' : List Ev}
    (h : readsegment tok buf evs = .ok (rest, seg, evs')) : evs' <:+ evs := by
  fun_induction readsegment tok buf evs with
  | case1 => simp at h; rw [← h.2.2]; exact List.suffix_refl _
  | case2 => simp at h
  | case3 => simp at h
  | case4 => rename_i ih; exact (ih h).trans (List.suffix_cons _ _)
  | case5 => rename_i ih; exact (ih h).trans (List.suffix_cons _ _)
  | case6 => simp at h

/-! ## the loops: an error closes, the unread events are a suffix, result lengths -/

theorem storeLoop_error_closed (verb : SVerb) (n : Nat) (buf : Bytes) (evs : List Ev)
    (acc : List (Option Bool)) {e : Exc} (h : (storeLoop verb n buf evs acc).res = .error e) :
    (storeLoop verb n buf evs acc).closed = true := by
  induction n generalizing buf evs acc with
  | zero => simp [storeLoop] at h
  | succ n ih =>
    simp only [storeLoop] at h ⊢
    split
    · rfl
    · rename_i rest line evs' hr
      simp only [hr] at h
      split
      · rfl
      · rename_i hre
        simp only [hre] at h
        split
        · rename_i v hv; simp only [hv] at h; exact ih _ _ _ h
        · rfl

theorem storeLoop_ok_open (verb : SVerb) (n : Nat) (buf : Bytes) (evs : List Ev)
    (acc : List (Option Bool)) {r : List (Option Bool)}
    (h : (storeLoop verb n buf evs acc).res = .ok r) :
    (storeLoop verb n buf evs acc).closed = false ∧ r.length = acc.length + n := by
  induction n generalizing buf evs acc with
  | zero => simp [storeLoop] at h ⊢; simp [h]
  | succ n ih =>
    simp only [storeLoop] at h ⊢
    split
    · rename_i hr; simp [hr] at h
    · rename_i rest line evs' hr
      simp only [hr] at h
      split
      · rename_i hre; simp [hre] at h
      · rename_i hre
        simp only [hre] at h
        split
        · rename_i v hv; simp only [hv] at h
          have := ih _ _ _ h
          simp at this; exact ⟨this.1, by omega⟩
        · rename_i hv; simp [hv] at h

theorem storeLoop_suffix (verb : SVerb) (n : Nat) (buf : Bytes) (evs : List Ev)
    (acc : List (Option Bool)) : (storeLoop verb n buf evs acc).unread <:+ evs := by
  induction n generalizing buf evs acc with
  | zero => simp [storeLoop]
  | succ n ih =>
    simp only [storeLoop]
    split
    · exact List.nil_suffix
    · rename_i rest line evs' hr
      have hs := readline_suffix _ _ _ hr
      split
      · exact hs
      · split
        · exact (ih _ _ _).trans hs
        · exact hs

theorem miscLoop_error_closed (tok : Option Bytes) (n : Nat) (buf : Bytes) (evs : List Ev)
    (acc : List Bytes) {e : Exc} (h : (miscLoop tok n buf evs acc).res = .error e) :
    (miscLoop tok n buf evs acc).closed = true := by
  induction n generalizing buf evs acc with
  | zero => simp [miscLoop] at h
  | succ n ih =>
    simp only [miscLoop] at h ⊢
    split
    · rfl
    · rename_i rest line evs' hr
      simp only [hr] at h
      split
      · rfl
      · rename_i hre
        simp only [hre] at h
        exact ih _ _ _ h

theorem miscLoop_ok_open (tok : Option Bytes) (n : Nat) (buf : Bytes) (evs : List Ev)
    (acc : List Bytes) {r : List Bytes} (h : (miscLoop tok n buf evs acc).res = .ok r) :
    (miscLoop tok n buf evs acc).closed = false ∧ r.length = acc.length + n := by
  induction n generalizing buf evs acc with
  | zero => simp [miscLoop] at h ⊢; simp [h]
  | succ n ih =>
    simp only [miscLoop] at h ⊢
    split
    · rename_i hr; simp [hr] at h
    · rename_i rest line evs' hr
      simp only [hr] at h
      split
      · rename_i hre; simp [hre] at h
      · rename_i hre
        simp only [hre] at h
        have := ih _ _ _ h
        simp at this; exact ⟨this.1, by omega⟩

theorem miscLoop_suffix (tok : Option Bytes) (n : Nat) (buf : Bytes) (evs : List Ev)
    (acc : List Bytes) : (miscLoop tok n buf evs acc).unread <:+ evs := by
  induction n generalizing buf evs acc with
  | zero => simp [miscLoop]
  | succ n ih =>
    simp only [miscLoop]
    split
    · exact List.nil_suffix
    · rename_i rest line evs' hr
      have hs : evs' <:+ evs := by
        cases tok with
        | none => exact readline_suffix _ _ _ hr
        | some t => exact readsegment_suffix _ _ _ hr
      split
      · exact hs
      · exact (ih _ _ _).trans hs

end Exchange
