import Pymc.Proofs.CallFaults
/-! Helper lemmas for C01: nothing that comes after the first fault in the pipe influences a call —
whether it returns or raises. -/
namespace Exchange
open Bytes Readers Wire Framing

@[simp] theorem cut_nil : cutAtFault [] = [] := rfl
@[simp] theorem cut_eof (r : List Ev) : cutAtFault (.data [] :: r) = [.data []] := rfl
@[simp] theorem cut_err (c : Nat) (r : List Ev) : cutAtFault (.err c :: r) = [.err c] := rfl
@[simp] theorem cut_eintr (r : List Ev) : cutAtFault (.eintr :: r) = .eintr :: cutAtFault r := rfl
theorem cut_data (b : Bytes) (r : List Ev) (hb : b ≠ []) :
    cutAtFault (.data b :: r) = .data b :: cutAtFault r := by
  cases b with
  | nil => exact absurd rfl hb
  | cons x t => rfl

theorem readline_cut (acc buf : Bytes) (evs : List Ev) :
    readline acc buf (cutAtFault evs) = mapUnread cutAtFault (readline acc buf evs) := by
  fun_induction readline acc buf evs with
  | case1 acc buf evs hc => rw [readline.eq_def]; simp [hc]
  | case2 acc buf evs hc p hp => rw [readline.eq_def]; simp [hc, hp]
  | case3 acc buf hc hn => rw [readline.eq_def]; simp [hc, hn]
  | case4 acc buf hc hn r => rw [readline.eq_def]; simp [hc, hn]
  | case5 acc buf hc hn b r hb ih =>
    rw [← ih, cut_data b r (fun e => hb e)]
    conv => lhs; rw [readline.eq_def]
    cases b with
    | nil => exact absurd rfl hb
    | cons x t => simp [hc, hn]
  | case6 acc buf hc hn r ih =>
    rw [← ih, cut_eintr]
    conv => lhs; rw [readline.eq_def]
    simp [hc, hn]
  | case7 acc buf hc hn c r => rw [readline.eq_def]; simp [hc, hn]

theorem readvalueLoop_cut (acc buf : Bytes) (rlen : Int) (evs : List Ev) :
    readvalueLoop acc buf rlen (cutAtFault evs) =
      mapUnread cutAtFault (readvalueLoop acc buf rlen evs) := by
  fun_induction readvalueLoop acc buf rlen evs with
  | case1 acc buf rlen hgt => simp only [gt_iff_lt, Int.sub_pos] at hgt; rw [readvalueLoop.eq_def]; simp [hgt]
  | case2 acc buf rlen hgt r => simp only [gt_iff_lt, Int.sub_pos] at hgt; rw [readvalueLoop.eq_def]; simp [hgt]
  | case3 acc buf rlen hgt acc' rlen' b r hb ih =>
    rw [← ih, cut_data b r (fun e => hb e)]
    conv => lhs; rw [readvalueLoop.eq_def]
    simp only [gt_iff_lt, Int.sub_pos] at hgt
    cases b with
    | nil => exact absurd rfl hb
    | cons x t => simp [hgt, acc', rlen']
  | case4 acc buf rlen hgt acc' rlen' r ih =>
    rw [← ih, cut_eintr]
    conv => lhs; rw [readvalueLoop.eq_def]
    simp only [gt_iff_lt, Int.sub_pos] at hgt
    simp [hgt, acc', rlen']
  | case5 acc buf rlen hgt c r => simp only [gt_iff_lt, Int.sub_pos] at hgt; rw [readvalueLoop.eq_def]; simp [hgt]
  | case6 buf evs hgt => rw [readvalueLoop.eq_def, if_neg hgt]; simp
  | case7 acc buf evs hne hgt => rw [readvalueLoop.eq_def, if_neg hgt]; simp [hne]
  | case8 acc buf rlen evs hgt hne1 => rw [readvalueLoop.eq_def, if_neg hgt]; simp [hne1]

theorem readsegment_cut (tok buf : Bytes) (evs : List Ev) :
    readsegment tok buf (cutAtFault evs) = mapUnread cutAtFault (readsegment tok buf evs) := by
  fun_induction readsegment tok buf evs with
  | case1 buf evs p hp => rw [readsegment.eq_def]; simp [hp]
  | case2 buf hn => rw [readsegment.eq_def]; simp [hn]
  | case3 buf hn r => rw [readsegment.eq_def]; simp [hn]
  | case4 buf hn b r hb ih =>
    rw [← ih, cut_data b r (fun e => hb e)]
    conv => lhs; rw [readsegment.eq_def]
    cases b with
    | nil => exact absurd rfl hb
    | cons x t => simp [hn]
  | case5 buf hn r ih =>
    rw [← ih, cut_eintr]
    conv => lhs; rw [readsegment.eq_def]
    simp [hn]
  | case6 buf hn c r => rw [readsegment.eq_def]; simp [hn]

/-! ## loops -/

/-- the same outcome, with the unread events cut at the first fault -/
def cutOut {α} (o : Out α) : Out α := { o with unread := cutAtFault o.unread }

theorem storeLoop_cut (verb : SVerb) (n : Nat) (buf : Bytes) (evs : List Ev) (acc : List (Option Bool)) :
    storeLoop verb n buf (cutAtFault evs) acc = cutOut (storeLoop verb n buf evs acc) := by
  induction n generalizing buf evs acc with
  | zero => rfl
  | succ n ih =>
    simp only [storeLoop, readline_cut]
    rcases readline [] buf evs with e | ⟨rest, line, evs'⟩
    · rfl
    · simp only [mapUnread_ok]
      rcases raiseErrors line with _ | e
      · rcases storeResultValue verb line with _ | v
        · rfl
        · exact ih _ _ _
      · rfl

theorem miscLoop_cut (tok : Option Bytes) (n : Nat) (buf : Bytes) (evs : List Ev) (acc : List Bytes) :
    miscLoop tok n buf (cutAtFault evs) acc = cutOut (miscLoop tok n buf evs acc) := by
  induction n generalizing buf evs acc with
  | zero => rfl
  | succ n ih =>
    cases tok with
    | none =>
      simp only [miscLoop, readline_cut]
      rcases readline [] buf evs with e | ⟨rest, line, evs'⟩
      · rfl
      · simp only [mapUnread_ok]
        rcases raiseErrors line with _ | e
        · exact ih _ _ _
        · rfl
    | some t =>
      simp only [miscLoop, readsegment_cut]
      rcases readsegment t buf evs with e | ⟨rest, line, evs'⟩
      · rfl
      · simp only [mapUnread_ok]
        rcases raiseErrors line with _ | e
        · exact ih _ _ _
        · rfl

/-- the same step, with the events not yet received cut at the first fault -/
def cutStep : Out (List FetchEntry) ⊕ FetchSt → Out (List FetchEntry) ⊕ FetchSt
  | .inl o => .inl (cutOut o)
  | .inr s => .inr (s.1, cutAtFault s.2.1, s.2.2)

theorem fetchStep_cut (kind : FetchKind) (wanted : List Bytes) (buf : Bytes) (evs : List Ev)
    (acc : List FetchEntry) :
    fetchStep kind wanted buf (cutAtFault evs) acc = cutStep (fetchStep kind wanted buf evs acc) := by
  unfold fetchStep
  rw [readline_cut]
  rcases readline [] buf evs with e | ⟨rest, line, evs'⟩
  · rfl
  · simp only [mapUnread_ok]
    rcases raiseErrors line with _ | e
    · dsimp only
      split
      · rfl
      · split
        · split
          · rfl
          · rcases pyInt ((Key.pySplitWs line).getD 3 []) with _ | size
            · rfl
            · dsimp only
              have hv : readvalue rest size (cutAtFault evs') =
                  mapUnread cutAtFault (readvalue rest size evs') := readvalueLoop_cut _ _ _ _
              rw [hv]
              rcases readvalue rest size evs' with e | ⟨rest', data, evs''⟩
              · rfl
              · simp only [mapUnread_ok]
                split
                · rfl
                · rcases pyInt ((Key.pySplitWs line).getD 2 []) with _ | flags
                  · rfl
                  · rfl
        · split
          · split <;> rfl
          · split
            · split <;> rfl
            · rfl
    · rfl

theorem fetchLoop_cut (kind : FetchKind) (wanted : List Bytes) (fuel : Nat) (buf : Bytes)
    (evs : List Ev) (acc : List FetchEntry) :
    fetchLoop kind wanted fuel buf (cutAtFault evs) acc = cutOut (fetchLoop kind wanted fuel buf evs acc) := by
  induction fuel generalizing buf evs acc with
  | zero => simp [fetchLoop_zero, cutOut]
  | succ fuel ih =>
    rw [fetchLoop_succ, fetchLoop_succ, fetchStep_cut]
    rcases fetchStep kind wanted buf evs acc with o | s
    · rfl
    · simp only [cutStep, stepK]
      exact ih _ _ _

theorem pending_cut_le (buf : Bytes) (evs : List Ev) : pending buf (cutAtFault evs) ≤ pending buf evs := by
  induction evs with
  | nil => exact Nat.le_refl _
  | cons e r ih =>
    cases e with
    | data b =>
      cases b with
      | nil => simp [pending, joinData]; omega
      | cons x t =>
        simp only [cutAtFault, pending, joinData, List.length_append, List.length_cons] at ih ⊢; omega
    | eintr => simp only [cutAtFault, pending, joinData, List.length_cons] at ih ⊢; omega
    | err c => simp [pending, joinData]; omega
end Exchange
