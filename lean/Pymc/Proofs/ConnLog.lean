import Pymc.Model.Conn
/-!
# Helper lemmas about the log judgments of `Pymc/Model/Conn.lean`

`createdIds`, `closedIds`, `ownedBy`, `isClosed`, `leaked` under `++`; "junk" segments (the events of addresses
that were abandoned: only `created`/`nodelay`/`close`, every created id closed inside the segment).
-/
namespace Conn

/-- `omega` does not look through `abbrev Id := Nat` -/
macro "idomega" : tactic => `(tactic| ((try simp only [Conn.Id] at *) <;> omega))

/-- raw sockets that some TLS wrapper took ownership of -/
def rawIds (log : List Ev) : List Id := log.filterMap fun | .wrapped _ r => some r | _ => none

/-- ids created by the log that are not closed by the end of it -/
def openIds (log : List Ev) : List Id := (createdIds log).filter fun id => !isClosed log id

@[simp] theorem createdIds_nil : createdIds [] = [] := rfl
@[simp] theorem closedIds_nil : closedIds [] = [] := rfl
@[simp] theorem rawIds_nil : rawIds [] = [] := rfl
@[simp] theorem ownedBy_nil (r : Id) : ownedBy [] r = none := rfl

theorem createdIds_append (a b : List Ev) : createdIds (a ++ b) = createdIds a ++ createdIds b := by
  simp [createdIds, List.filterMap_append]
theorem closedIds_append (a b : List Ev) : closedIds (a ++ b) = closedIds a ++ closedIds b := by
  simp [closedIds, List.filterMap_append]
theorem rawIds_append (a b : List Ev) : rawIds (a ++ b) = rawIds a ++ rawIds b := by
  simp [rawIds, List.filterMap_append]
theorem ownedBy_append (a b : List Ev) (r : Id) : ownedBy (a ++ b) r = (ownedBy a r).or (ownedBy b r) := by
  simp [ownedBy, List.findSome?_append]

theorem createdIds_cons (e : Ev) (l : List Ev) : createdIds (e :: l) = createdIds [e] ++ createdIds l :=
  createdIds_append [e] l
theorem closedIds_cons (e : Ev) (l : List Ev) : closedIds (e :: l) = closedIds [e] ++ closedIds l :=
  closedIds_append [e] l
theorem rawIds_cons (e : Ev) (l : List Ev) : rawIds (e :: l) = rawIds [e] ++ rawIds l :=
  rawIds_append [e] l

theorem ownedBy_cons (e : Ev) (l : List Ev) (r : Id) : ownedBy (e :: l) r = (ownedBy [e] r).or (ownedBy l r) :=
  ownedBy_append [e] l r

theorem ownedBy_eq_none_of_not_raw {log : List Ev} {r : Id} (h : r ∉ rawIds log) : ownedBy log r = none := by
  induction log with
  | nil => rfl
  | cons e l ih =>
    rw [rawIds_cons] at h
    have h2 : r ∉ rawIds l := fun hh => h (List.mem_append_right _ hh)
    have h1 : r ∉ rawIds [e] := fun hh => h (List.mem_append_left _ hh)
    rw [ownedBy_cons, ih h2]
    cases e <;> simp [ownedBy, rawIds] at h1 ⊢
    intro hh; exact absurd hh.symm h1

theorem ownedBy_some_mem {log : List Ev} {r w : Id} (h : ownedBy log r = some w) : Ev.wrapped w r ∈ log := by
  induction log with
  | nil => simp at h
  | cons e l ih =>
    rw [ownedBy_cons] at h
    cases h1 : ownedBy [e] r with
    | none => rw [h1] at h; exact List.mem_cons_of_mem _ (ih h)
    | some w' =>
      rw [h1] at h
      cases e <;> simp [ownedBy] at h1
      simp at h
      obtain ⟨h2, h3⟩ := h1
      subst h2 h3 h
      exact List.mem_cons_self

theorem mem_rawIds {log : List Ev} {r : Id} : r ∈ rawIds log ↔ ∃ w, Ev.wrapped w r ∈ log := by
  simp only [rawIds, List.mem_filterMap]
  constructor
  · rintro ⟨e, he, h⟩
    cases e <;> simp at h
    subst h; exact ⟨_, he⟩
  · rintro ⟨w, h⟩; exact ⟨_, h, rfl⟩

theorem mem_closedIds {log : List Ev} {id : Id} : id ∈ closedIds log ↔ Ev.close id ∈ log := by
  simp only [closedIds, List.mem_filterMap]
  constructor
  · rintro ⟨e, he, h⟩
    cases e <;> simp at h
    subst h; exact he
  · intro h; exact ⟨_, h, rfl⟩

theorem mem_createdIds {log : List Ev} {id : Id} :
    id ∈ createdIds log ↔ (∃ a, Ev.created id a ∈ log) ∨ (∃ r, Ev.wrapped id r ∈ log) := by
  simp only [createdIds, List.mem_filterMap]
  constructor
  · rintro ⟨e, he, h⟩
    cases e <;> simp at h
    · subst h; exact .inl ⟨_, he⟩
    · subst h; exact .inr ⟨_, he⟩
  · rintro (⟨a, h⟩ | ⟨r, h⟩)
    · exact ⟨_, h, rfl⟩
    · exact ⟨_, h, rfl⟩

theorem ownedBy_append_of_not_raw {a : List Ev} (b : List Ev) {r : Id} (h : r ∉ rawIds a) :
    ownedBy (a ++ b) r = ownedBy b r := by
  rw [ownedBy_append, ownedBy_eq_none_of_not_raw h]; rfl

theorem ownedBy_append_of_some {a : List Ev} (b : List Ev) {r w : Id} (h : ownedBy a r = some w) :
    ownedBy (a ++ b) r = some w := by
  rw [ownedBy_append, h]; rfl

theorem isClosed_iff {log : List Ev} {id : Id} :
    isClosed log id = true ↔ id ∈ closedIds log ∨ ∃ w, ownedBy log id = some w ∧ w ∈ closedIds log := by
  unfold isClosed
  cases h : ownedBy log id <;> simp

theorem isClosed_of_mem {log : List Ev} {id : Id} (h : id ∈ closedIds log) : isClosed log id = true :=
  isClosed_iff.2 (.inl h)

/-- closure is stable under later events -/
theorem isClosed_append_left {a : List Ev} (b : List Ev) {id : Id} (h : isClosed a id = true) :
    isClosed (a ++ b) id = true := by
  rcases isClosed_iff.1 h with h | ⟨w, h1, h2⟩
  · exact isClosed_iff.2 (.inl (by rw [closedIds_append]; exact List.mem_append_left _ h))
  · exact isClosed_iff.2 (.inr ⟨w, ownedBy_append_of_some b h1, by rw [closedIds_append]; exact List.mem_append_left _ h2⟩)

/-- closure inside a later segment carries over when the earlier log never wrapped that id -/
theorem isClosed_append_right {a b : List Ev} {id : Id} (hr : id ∉ rawIds a) (h : isClosed b id = true) :
    isClosed (a ++ b) id = true := by
  rcases isClosed_iff.1 h with h | ⟨w, h1, h2⟩
  · exact isClosed_iff.2 (.inl (by rw [closedIds_append]; exact List.mem_append_right _ h))
  · exact isClosed_iff.2 (.inr ⟨w, by rw [ownedBy_append_of_not_raw b hr]; exact h1,
      by rw [closedIds_append]; exact List.mem_append_right _ h2⟩)

theorem leaked_eq_nil_iff {log : List Ev} {sock : Option Id} :
    leaked log sock = [] ↔ ∀ id ∈ createdIds log,
      isClosed log id = true ∨ sock = some id ∨ ∃ w, ownedBy log id = some w ∧ sock = some w := by
  unfold leaked
  rw [List.filter_eq_nil_iff]
  constructor
  · intro h id hid
    have := h id hid
    cases hc : isClosed log id
    · right
      by_cases hs : sock = some id
      · exact .inl hs
      · right
        cases ho : ownedBy log id with
        | none => simp [hc, hs, ho] at this
        | some w => simp [hc, hs, ho] at this; exact ⟨w, rfl, this⟩
    · exact .inl rfl
  · intro h id hid
    rcases h id hid with h | h | ⟨w, h1, h2⟩
    · simp [h]
    · simp [h]
    · simp [h1, h2]

theorem mem_openIds {log : List Ev} {id : Id} : id ∈ openIds log ↔ id ∈ createdIds log ∧ isClosed log id = false := by
  simp [openIds]

/-- `leaked = []` says exactly: everything still open is `self.sock` or the raw socket owned by it -/
theorem leaked_eq_nil_iff_open {log : List Ev} {sock : Option Id} :
    leaked log sock = [] ↔ ∀ id ∈ openIds log, sock = some id ∨ ∃ w, ownedBy log id = some w ∧ sock = some w := by
  rw [leaked_eq_nil_iff]
  constructor
  · intro h id hid
    rw [mem_openIds] at hid
    rcases h id hid.1 with h | h
    · rw [h] at hid; exact absurd hid.2 (by simp)
    · exact h
  · intro h id hid
    cases hc : isClosed log id
    · exact .inr (h id (mem_openIds.2 ⟨hid, hc⟩))
    · exact .inl rfl

theorem isClosed_append_eq {A T : List Ev} {id : Id} (h1 : id ∉ rawIds A) (h2 : id ∉ closedIds A)
    (h3 : ∀ w, ownedBy T id = some w → w ∉ closedIds A) : isClosed (A ++ T) id = isClosed T id := by
  cases h : isClosed T id
  · cases h' : isClosed (A ++ T) id
    · rfl
    · rcases isClosed_iff.1 h' with hc | ⟨w, hw1, hw2⟩
      · rw [closedIds_append] at hc
        rcases List.mem_append.1 hc with hc | hc
        · exact absurd hc h2
        · rw [isClosed_of_mem hc] at h; exact absurd h (by simp)
      · rw [ownedBy_append_of_not_raw T h1] at hw1
        rw [closedIds_append] at hw2
        rcases List.mem_append.1 hw2 with hc | hc
        · exact absurd hc (h3 w hw1)
        · rw [isClosed_iff.2 (.inr ⟨w, hw1, hc⟩)] at h; exact absurd h (by simp)
  · exact isClosed_append_right h1 h

/-- ids of an earlier log that all end up closed contribute nothing to the open set of `A ++ B` -/
theorem openIds_append_fresh {A B : List Ev} (hA : ∀ id ∈ createdIds A, isClosed (A ++ B) id = true)
    (hB : ∀ id ∈ createdIds B, id ∉ rawIds A ∧ id ∉ closedIds A ∧ ∀ w, ownedBy B id = some w → w ∉ closedIds A) :
    openIds (A ++ B) = openIds B := by
  unfold openIds
  rw [createdIds_append, List.filter_append]
  have h1 : (createdIds A).filter (fun id => !isClosed (A ++ B) id) = [] := by
    rw [List.filter_eq_nil_iff]; intro id hid; simp [hA id hid]
  rw [h1, List.nil_append]
  apply List.filter_congr
  intro id hid
  obtain ⟨a, b, c⟩ := hB id hid
  rw [isClosed_append_eq a b c]


/-! ## prefixes -/

theorem prefix_append_cases {α} {l a b : List α} (h : l <+: a ++ b) : l <+: a ∨ ∃ t, t <+: b ∧ l = a ++ t := by
  induction a generalizing l with
  | nil => right; exact ⟨l, by simpa using h, by simp⟩
  | cons x a ih =>
    rw [List.cons_append, List.prefix_cons_iff] at h
    rcases h with rfl | ⟨t, rfl, ht⟩
    · left; exact List.nil_prefix
    · rcases ih ht with h1 | ⟨t', h1, rfl⟩
      · left; exact (List.prefix_cons_inj x).2 h1
      · right; exact ⟨t', h1, rfl⟩

theorem createdIds_prefix {pre l : List Ev} (h : pre <+: l) : createdIds pre <+: createdIds l :=
  List.IsPrefix.filterMap _ h

theorem openIds_length_le_created (l : List Ev) : (openIds l).length ≤ (createdIds l).length :=
  List.length_filter_le _ _

theorem openIds_length_le_of_prefix {pre l : List Ev} (h : pre <+: l) : (openIds pre).length ≤ (createdIds l).length :=
  Nat.le_trans (openIds_length_le_created pre) (createdIds_prefix h).length_le

theorem length_filter_le_of_imp {α} {p q : α → Bool} (h : ∀ x, p x = true → q x = true) (l : List α) :
    (l.filter p).length ≤ (l.filter q).length := by
  induction l with
  | nil => simp
  | cons x l ih =>
    simp only [List.filter_cons]
    cases hp : p x <;> cases hq : q x
    · simpa using ih
    · simp; omega
    · have := h x hp; rw [hq] at this; exact absurd this (by simp)
    · simpa using ih

/-- events that create nothing cannot enlarge the open set -/
theorem openIds_append_quiet_le {A x : List Ev} (hx : createdIds x = []) :
    (openIds (A ++ x)).length ≤ (openIds A).length := by
  unfold openIds
  rw [createdIds_append, hx, List.append_nil]
  apply length_filter_le_of_imp
  intro id h
  cases hc : isClosed A id
  · rfl
  · rw [isClosed_append_left x hc] at h; exact h

/-- at no point of the log are more than `k` of its sockets open -/
def Safe (k : Nat) (log : List Ev) : Prop := ∀ pre, pre <+: log → (openIds pre).length ≤ k

/-- no socket is closed before it exists: at every point of the log the closed ids are among the created ones -/
def ClosesOrdered (log : List Ev) : Prop := ∀ pre, pre <+: log → ∀ id ∈ closedIds pre, id ∈ createdIds pre

theorem closedIds_prefix {pre l : List Ev} (h : pre <+: l) : closedIds pre <+: closedIds l :=
  List.IsPrefix.filterMap _ h

/-! ## junk segments -/

def Ev.junk (lo hi : Id) : Ev → Prop
  | .created id _ => lo ≤ id ∧ id < hi
  | .nodelay id => lo ≤ id ∧ id < hi
  | .close id => lo ≤ id ∧ id < hi
  | _ => False

/-- events of abandoned addresses: only `created`/`nodelay`/`close` with ids in `[lo, hi)`, all created ids closed -/
structure Junk (lo hi : Id) (evs : List Ev) : Prop where
  shape : ∀ e ∈ evs, e.junk lo hi
  closed : ∀ id ∈ createdIds evs, id ∈ closedIds evs
  safe : Safe 1 evs
  ordered : ClosesOrdered evs
  nodup : (closedIds evs).Nodup

theorem Junk.nil (lo : Id) : Junk lo lo [] :=
  ⟨by simp, by simp, by intro pre h; simp at h; subst h; simp [openIds],
    by intro pre h; simp at h; subst h; simp, by simp⟩

theorem Ev.junk_mono {lo hi lo' hi' : Id} (h1 : lo' ≤ lo) (h2 : hi ≤ hi') {e : Ev} (h : e.junk lo hi) : e.junk lo' hi' := by
  cases e <;> simp only [Ev.junk] at h ⊢ <;> first | exact h.elim | (constructor <;> idomega)

theorem Junk.mono {lo hi lo' hi' : Id} {evs : List Ev} (h : Junk lo hi evs) (h1 : lo' ≤ lo) (h2 : hi ≤ hi') :
    Junk lo' hi' evs := ⟨fun e he => Ev.junk_mono h1 h2 (h.shape e he), h.closed, h.safe, h.ordered, h.nodup⟩

theorem Junk.rawIds {lo hi : Id} {evs : List Ev} (h : Junk lo hi evs) : rawIds evs = [] := by
  rw [List.eq_nil_iff_forall_not_mem]
  intro r hr
  obtain ⟨w, hw⟩ := mem_rawIds.1 hr
  exact h.shape _ hw

theorem Junk.created_range {lo hi : Id} {evs : List Ev} (h : Junk lo hi evs) {id : Id} (hid : id ∈ createdIds evs) :
    lo ≤ id ∧ id < hi := by
  rcases mem_createdIds.1 hid with ⟨a, ha⟩ | ⟨r, hr⟩
  · exact h.shape _ ha
  · exact (h.shape _ hr).elim

theorem Junk.closed_range {lo hi : Id} {evs : List Ev} (h : Junk lo hi evs) {id : Id} (hid : id ∈ closedIds evs) :
    lo ≤ id ∧ id < hi := h.shape _ (mem_closedIds.1 hid)

theorem Junk.ownedBy {lo hi : Id} {evs : List Ev} (h : Junk lo hi evs) (r : Id) : ownedBy evs r = none :=
  ownedBy_eq_none_of_not_raw (by rw [h.rawIds]; simp)

/-- a junk segment followed by anything that only uses later ids: the junk no longer shows in the open set -/
theorem Junk.openIds_append {lo mid : Id} {a t : List Ev} (ha : Junk lo mid a)
    (ht : ∀ id ∈ createdIds t, mid ≤ id) : openIds (a ++ t) = openIds t := by
  apply openIds_append_fresh
  · intro id hid
    exact isClosed_append_left t (isClosed_of_mem (ha.closed id hid))
  · intro id hid
    have h1 := ht id hid
    have hc : ∀ x, mid ≤ x → x ∉ closedIds a := by
      intro x hx hm; have := ha.closed_range hm; idomega
    refine ⟨by rw [ha.rawIds]; simp, hc id h1, ?_⟩
    intro w hw
    exact hc w (ht w (mem_createdIds.2 (.inr ⟨id, ownedBy_some_mem hw⟩)))

theorem Junk.append {lo mid hi : Id} {a b : List Ev} (ha : Junk lo mid a) (hb : Junk mid hi b) (h1 : lo ≤ mid) (h2 : mid ≤ hi) :
    Junk lo hi (a ++ b) := by
  refine ⟨?_, ?_, ?_, ?_, ?_⟩
  · intro e he
    rcases List.mem_append.1 he with he | he
    · exact Ev.junk_mono (Nat.le_refl _) h2 (ha.shape e he)
    · exact Ev.junk_mono h1 (Nat.le_refl _) (hb.shape e he)
  · intro id hid
    rw [createdIds_append] at hid
    rw [closedIds_append]
    rcases List.mem_append.1 hid with h | h
    · exact List.mem_append_left _ (ha.closed id h)
    · exact List.mem_append_right _ (hb.closed id h)
  · intro pre hpre
    rcases prefix_append_cases hpre with h | ⟨t, ht, rfl⟩
    · exact ha.safe pre h
    · rw [ha.openIds_append]
      · exact hb.safe t ht
      · intro id hid
        exact (hb.created_range ((createdIds_prefix ht).subset hid)).1
  · intro pre hpre id hid
    rcases prefix_append_cases hpre with h | ⟨t, ht, rfl⟩
    · exact ha.ordered pre h id hid
    · rw [closedIds_append] at hid
      rw [createdIds_append]
      rcases List.mem_append.1 hid with h | h
      · exact List.mem_append_left _ (ha.ordered a (List.prefix_refl a) id h)
      · exact List.mem_append_right _ (hb.ordered t ht id h)
  · rw [closedIds_append, List.nodup_append]
    refine ⟨ha.nodup, hb.nodup, ?_⟩
    intro x hx y hy hxy
    have := ha.closed_range hx
    have := hb.closed_range hy
    idomega

end Conn
