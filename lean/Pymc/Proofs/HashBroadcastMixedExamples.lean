import Pymc.Proofs.HashBroadcastExamples
import Pymc.Proofs.HashBroadcastMixedKeyed
import Pymc.Proofs.HashBroadcastClose
/-! Concrete mixed histories (key-addressed calls interleaved with broadcasts) of `HashClient ∘ Client`: non-vacuity of
`C13_hash_broadcast_mixed_*` (`Pymc/Props/C13.lean`) and `C01_hash_broadcast_close_closes_all_*` (`Pymc/Props/C01.lean`), and
the witnesses of what `close()` leaves open.  Replayed on the real `HashClient` by `harness/hashbroadcast_close_replay.py`. -/
namespace HashBroadcastExamples
open Bytes Readers Wire Exchange Client Framing Failover HashCall C01Examples PooledCallExamples HashCallExamples

/-- `get k` at time `t`, routed by the preference order `[0, 1]`, over a connection that is refused / broken -/
def getDown0 (t : Nat) : BCall (List Srv) :=
  .keyed { op := .cmd [0, 1] getK { connectFails := some (.sock 61), sendFails := some (.sock 32), evs := [.data endLine] },
           now := t }
/-- `get k` at time `t`, preference order `[0, 1]`, answered with the value -/
def getUp (t : Nat) : BCall (List Srv) :=
  .keyed { op := .cmd [0, 1] getK { evs := [.data getReply] }, now := t }

/-! ## key-addressed calls in the states broadcasts leave behind -/

/-- `retry_attempts = 1, retry_timeout = 1, dead_timeout = 5`, server 0 down until the last call:
0.–3. t=0,2,4,6: `flush_all()` four times (`siegeCalls`): server 0 is marked, retried, evicted (dead since 4) and — out of
   rotation — marked and retried again: `failed = {0: (1, 6)}`, `dead = {0: 4}`, rotation `[1]`;
4. t=10: `get k`: `_retry_dead` brings server 0 back (a new client object, number 2) *with its used-up failure record*; the key
   goes to it; `_safely_run_func` finds the attempts used up → `remove_server(0)` (in rotation: no error), final probe refused
   → marked again, out of rotation again (dead since 10);
5. t=12: `flush_all()`: retry of server 0 → attempts 1;
6. t=14: `flush_all()`: attempts used up, out of rotation → `remove_server(0)` inside the `try` pops the record, sets the dead
   time to 14 and raises the `ValueError`, swallowed: the state a half-finished `remove_server` leaves;
7. t=21: `get k`: server 0, up again, is revived (client object 3) and serves the key. -/
def mixedCalls : List (BCall (List Srv)) :=
  siegeCalls.take 4 ++ [getDown0 10, .broadcast flushOp srv0Down 12, .broadcast flushOp srv0Down 14, getUp 21]

theorem demo_mixed :
    xSummary (runB {} cfgIgnore prefRoute (init [0, 1] 0) 0 mixedCalls) =
      [(.inr .done, [(0, some 0), (1, some 1)]), (.inr .done, [(0, some 0), (1, some 1)]),
       (.inr .done, [(0, some 0), (1, some 1)]), (.inr .done, [(0, some 0), (1, some 1)]),
       (.inl .default, [(0, some 2)]),
       (.inr .done, [(0, some 2), (1, some 1)]),
       (.inr .done, [(0, none), (1, some 1)]),
       (.inl (.value (.bytes [120])), [(0, some 3)])] ∧
    xState (runB {} cfgIgnore prefRoute (init [0, 1] 0) 0 (mixedCalls.take 4)) =
      ({ nodes := [1], failed := [(0, 1, 6)], dead := [(0, 4)], lastDeadCheck := 0 }, [(0, 0, false, 0), (1, 1, true, 0)]) ∧
    xState (runB {} cfgIgnore prefRoute (init [0, 1] 0) 0 (mixedCalls.take 5)) =
      ({ nodes := [1], failed := [(0, 0, 10)], dead := [(0, 10)], lastDeadCheck := 10 },
        [(0, 2, false, 0), (1, 1, true, 0)]) ∧
    xState (runB {} cfgIgnore prefRoute (init [0, 1] 0) 0 (mixedCalls.take 7)) =
      ({ nodes := [1], failed := [], dead := [(0, 14)], lastDeadCheck := 10 }, [(0, 2, false, 0), (1, 1, true, 0)]) ∧
    xState (runB {} cfgIgnore prefRoute (init [0, 1] 0) 0 mixedCalls) =
      ({ nodes := [1, 0], failed := [], dead := [], lastDeadCheck := 21 }, [(0, 3, true, 0), (1, 1, true, 0)]) := by
  refine ⟨by decide +kernel, by decide +kernel, by decide +kernel, by decide +kernel, by decide +kernel⟩

/-! ## `close()` that does not close everything -/

/-- `retry_attempts = 1, retry_timeout = 1, dead_timeout = 5`, `ignore_exc = False` (`cfgStrict`), server 0 down throughout, the
clock never goes back:
0. t=0: `get k` with preference order `[1, 0]` → server 1, served: client 1 holds a socket;
1.–4. t=0,2,4,6: `flush_all()`: server 0 refuses the connection each time — marked; retried; evicted and the final probe
   refused (a new failure record for a server that is out of rotation); retried — and the `OSError` escapes each time, so
   server 1 is never reached;
5. t=8: `close()`: the attempts of server 0 are used up → `remove_server(0)` inside the `try`: the record is popped, the dead
   time set to 8, `hasher.remove_node` raises `ValueError`; `except Exception` re-raises it; the loop of `close()` ends and
   `client.close()` is never called on the client of server 1, **which keeps its socket**. -/
def closeEscCalls : List (BCall (List Srv)) :=
  [.keyed { op := .cmd [1, 0] getK { evs := [.data getReply] }, now := 0 },
   .broadcast flushOp srv0Down 0, .broadcast flushOp srv0Down 2, .broadcast flushOp srv0Down 4, .broadcast flushOp srv0Down 6,
   .broadcast .close silent 8]

theorem chrono_closeEsc : ChronoB 0 closeEscCalls := by
  simp [ChronoB, closeEscCalls, BCall.now]

theorem demo_closeEsc :
    xSummary (runB {} cfgStrict prefRoute (init [0, 1] 0) 0 closeEscCalls) =
      [(.inl (.value (.bytes [120])), [(1, some 1)]),
       (.inr (.raised 0 (.sock 61)), [(0, some 0)]), (.inr (.raised 0 (.sock 61)), [(0, some 0)]),
       (.inr (.raised 0 (.sock 61)), [(0, some 0)]), (.inr (.raised 0 (.sock 61)), [(0, some 0)]),
       (.inr (.bookkeeping 0 .valueError), [(0, none)])] ∧
    xState (runB {} cfgStrict prefRoute (init [0, 1] 0) 0 (closeEscCalls.take 5)) =
      ({ nodes := [1], failed := [(0, 1, 6)], dead := [(0, 4)], lastDeadCheck := 0 }, [(0, 0, false, 0), (1, 1, true, 0)]) ∧
    xState (runB {} cfgStrict prefRoute (init [0, 1] 0) 0 closeEscCalls) =
      ({ nodes := [1], failed := [], dead := [(0, 8)], lastDeadCheck := 0 }, [(0, 0, false, 0), (1, 1, true, 0)]) ∧
    -- the same history with `ignore_exc = True`: the `ValueError` is swallowed, the loop goes on, everything is closed
    xSummary (runB {} cfgIgnore prefRoute (init [0, 1] 0) 0 closeEscCalls) =
      [(.inl (.value (.bytes [120])), [(1, some 1)]),
       (.inr .done, [(0, some 0), (1, some 1)]), (.inr .done, [(0, some 0), (1, some 1)]),
       (.inr .done, [(0, some 0), (1, some 1)]), (.inr .done, [(0, some 0), (1, some 1)]),
       (.inr .done, [(0, none), (1, some 1)])] ∧
    xState (runB {} cfgIgnore prefRoute (init [0, 1] 0) 0 closeEscCalls) =
      ({ nodes := [1], failed := [], dead := [(0, 8)], lastDeadCheck := 0 }, [(0, 0, false, 0), (1, 1, false, 0)]) := by
  refine ⟨by decide +kernel, by decide +kernel, by decide +kernel, by decide +kernel, by decide +kernel⟩

/-! ## a socket held by a client whose server has a failure record, and the clock -/

/-- `incr k 1`, preference order `[0, 1]`, answered by the line `x`: `int(b"x")` raises `ValueError` *after* the exchange has
returned — the socket stays open -/
def incrJunk (t : Nat) : BCall (List Srv) :=
  .keyed { op := .cmd [0, 1] (.arith true (.bytes [107]) (.int 1) false) { evs := [.data [120, 13, 10]] }, now := t }

/-- `retry_attempts = 1, retry_timeout = 1`, `ignore_exc = True` (`cfgIgnore`):
0. t=0: `get k` → server 0, refused: marked (`failed = {0: (0, 0)}`), the `OSError` swallowed;
1. t=2: `incr k` → server 0, the retry (window elapsed): connected, the reply `x` makes `int()` raise `ValueError` after the
   exchange — not an `OSError`: the record stays as it is, **and client 0 holds a socket**;
2. t=`tclose`: `close()`.  At `tclose = 2` the window has elapsed: `client.close()` is called, the record popped.  At
   `tclose = 1` — the clock went back — the client is inside its retry window: `_safely_run_func` returns `False` without
   calling `client.close()`, and client 0 keeps its socket although `close()` returned normally. -/
def lateCalls (tclose : Nat) : List (BCall (List Srv)) := [getDown0 0, incrJunk 2, .broadcast .close silent tclose]

theorem chrono_late : ChronoB 0 (lateCalls 2) := by
  simp [ChronoB, lateCalls, getDown0, incrJunk, BCall.now]

theorem not_chrono_late : ¬ ChronoB 0 (lateCalls 1) := by
  simp [ChronoB, lateCalls, getDown0, incrJunk, BCall.now]

theorem demo_late :
    xState (runB {} cfgIgnore prefRoute (init [0, 1] 0) 0 ((lateCalls 2).take 2)) =
      ({ nodes := [0, 1], failed := [(0, 0, 0)], dead := [], lastDeadCheck := 0 }, [(0, 0, true, 0), (1, 1, false, 0)]) ∧
    xSummary (runB {} cfgIgnore prefRoute (init [0, 1] 0) 0 (lateCalls 2)) =
      [(.inl .default, [(0, some 0)]), (.inl .default, [(0, some 0)]), (.inr .done, [(0, some 0), (1, some 1)])] ∧
    xState (runB {} cfgIgnore prefRoute (init [0, 1] 0) 0 (lateCalls 2)) =
      ({ nodes := [0, 1], failed := [], dead := [], lastDeadCheck := 0 }, [(0, 0, false, 0), (1, 1, false, 0)]) ∧
    xSummary (runB {} cfgIgnore prefRoute (init [0, 1] 0) 0 (lateCalls 1)) =
      [(.inl .default, [(0, some 0)]), (.inl .default, [(0, some 0)]), (.inr .done, [(0, none), (1, some 1)])] ∧
    xState (runB {} cfgIgnore prefRoute (init [0, 1] 0) 0 (lateCalls 1)) =
      ({ nodes := [0, 1], failed := [(0, 0, 0)], dead := [], lastDeadCheck := 0 }, [(0, 0, true, 0), (1, 1, false, 0)]) := by
  refine ⟨by decide +kernel, by decide +kernel, by decide +kernel, by decide +kernel, by decide +kernel⟩

end HashBroadcastExamples
