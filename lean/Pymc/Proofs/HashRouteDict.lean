import Pymc.Model.HashRoute
/-!
# Helper lemmas for C12 — the insertion-ordered `dict` (`dictUpdate`, `fetchBatch`)

`lookup d k` is `d.get(k)` on the association-list model of a Python `dict`: the value of the first
entry whose key is `k` (`List.find?`).
-/
namespace HashRoute
variable {V : Type}

/-- `d.get(k)`: the value of the first entry with key `k` -/
def lookup (d : List (Key.K × V)) (k : Key.K) : Option V :=
  (d.find? (fun e => e.1 = k)).map (·.2)

/-- the keys of a dict, in insertion order -/
abbrev dkeys (d : List (Key.K × V)) : List Key.K := d.map (·.1)

/-- `d[k] = v` — the body of the loop in `dictUpdate` -/
def dictSet (d : List (Key.K × V)) (k : Key.K) (v : V) : List (Key.K × V) :=
  if d.any (·.1 = k) then d.map fun e => if e.1 = k then (k, v) else e else d ++ [(k, v)]

theorem dictUpdate_nil (d : List (Key.K × V)) : dictUpdate d [] = d := rfl
theorem dictUpdate_cons (d : List (Key.K × V)) (e : Key.K × V) (kv : List (Key.K × V)) :
    dictUpdate d (e :: kv) = dictUpdate (dictSet d e.1 e.2) kv := rfl

@[simp] theorem lookup_nil (k : Key.K) : lookup ([] : List (Key.K × V)) k = none := rfl

theorem lookup_cons (e : Key.K × V) (d : List (Key.K × V)) (k : Key.K) :
    lookup (e :: d) k = if e.1 = k then some e.2 else lookup d k := by
  unfold lookup
  by_cases h : e.1 = k <;> simp [h]

theorem any_key_iff (d : List (Key.K × V)) (k : Key.K) :
    (d.any (·.1 = k)) = true ↔ k ∈ dkeys d := by
  simp only [List.any_eq_true, decide_eq_true_eq, List.mem_map]

theorem lookup_eq_none_iff (d : List (Key.K × V)) (k : Key.K) : lookup d k = none ↔ k ∉ dkeys d := by
  induction d with
  | nil => simp
  | cons e d ih =>
    rw [lookup_cons]
    by_cases h : e.1 = k
    · simp [h]
    · simp only [h, if_false, ih, dkeys, List.map_cons, List.mem_cons, not_or]
      exact ⟨fun h' => ⟨fun hk => h hk.symm, h'⟩, fun h' => h'.2⟩

theorem mem_of_lookup {d : List (Key.K × V)} {k : Key.K} {v : V} (h : lookup d k = some v) :
    (k, v) ∈ d := by
  induction d with
  | nil => simp at h
  | cons e d ih =>
    rw [lookup_cons] at h
    by_cases hk : e.1 = k
    · simp only [hk, if_true, Option.some.injEq] at h
      obtain ⟨a, b⟩ := e
      simp only at hk h
      subst hk h
      exact List.mem_cons_self
    · simp only [hk, if_false] at h
      exact List.mem_cons_of_mem _ (ih h)

theorem lookup_of_mem {d : List (Key.K × V)} {k : Key.K} {v : V} (hd : (dkeys d).Nodup)
    (h : (k, v) ∈ d) : lookup d k = some v := by
  induction d with
  | nil => simp at h
  | cons e d ih =>
    rw [lookup_cons]
    simp only [dkeys, List.map_cons, List.nodup_cons] at hd
    rcases List.mem_cons.mp h with rfl | h'
    · simp
    · have : e.1 ≠ k := by
        intro hk
        exact hd.1 (hk ▸ List.mem_map.mpr ⟨(k, v), h', rfl⟩)
      simp only [this, if_false]
      exact ih hd.2 h'

/-! ## one assignment -/

theorem dkeys_dictSet (d : List (Key.K × V)) (k : Key.K) (v : V) :
    dkeys (dictSet d k v) = if k ∈ dkeys d then dkeys d else dkeys d ++ [k] := by
  unfold dictSet
  by_cases h : k ∈ dkeys d
  · rw [if_pos ((any_key_iff d k).mpr h), if_pos h]
    simp only [dkeys, List.map_map]
    apply List.map_congr_left
    intro e _
    by_cases he : e.1 = k <;> simp [he]
  · have : ¬ (d.any (·.1 = k)) = true := fun h' => h ((any_key_iff d k).mp h')
    rw [if_neg this, if_neg h]
    simp [dkeys]

theorem mem_dkeys_dictSet (d : List (Key.K × V)) (k k' : Key.K) (v : V) :
    k' ∈ dkeys (dictSet d k v) ↔ k' = k ∨ k' ∈ dkeys d := by
  rw [dkeys_dictSet]
  by_cases h : k ∈ dkeys d
  · rw [if_pos h]
    exact ⟨.inr, fun h' => h'.elim (fun e => e ▸ h) id⟩
  · rw [if_neg h]; simp only [List.mem_append, List.mem_singleton]
    exact or_comm

theorem nodup_dkeys_dictSet {d : List (Key.K × V)} (hd : (dkeys d).Nodup) (k : Key.K) (v : V) :
    (dkeys (dictSet d k v)).Nodup := by
  rw [dkeys_dictSet]
  by_cases h : k ∈ dkeys d
  · rw [if_pos h]; exact hd
  · rw [if_neg h]
    exact List.nodup_append.mpr ⟨hd, by simp, by
      intro a ha b hb
      rw [List.mem_singleton] at hb
      subst hb
      intro hab; subst hab; exact h ha⟩

theorem mem_dictSet {d : List (Key.K × V)} {k : Key.K} {v : V} {e : Key.K × V}
    (h : e ∈ dictSet d k v) : e = (k, v) ∨ e ∈ d := by
  unfold dictSet at h
  split at h
  · obtain ⟨e', he', rfl⟩ := List.mem_map.mp h
    by_cases hk : e'.1 = k
    · simp [hk]
    · simp [hk, he']
  · rcases List.mem_append.mp h with h | h
    · exact .inr h
    · exact .inl (List.mem_singleton.mp h)

theorem lookup_map_set (d : List (Key.K × V)) (k k' : Key.K) (v : V) :
    lookup (d.map fun e => if e.1 = k then (k, v) else e) k' =
      if k' = k then (if k ∈ dkeys d then some v else none) else lookup d k' := by
  induction d with
  | nil => simp
  | cons e d ih =>
    rw [List.map_cons, lookup_cons, ih, lookup_cons]
    simp only [dkeys, List.map_cons, List.mem_cons]
    by_cases h1 : e.1 = k
    · by_cases h2 : k' = k
      · subst h2; simp [h1]
      · have : ¬ k = k' := fun h => h2 h.symm
        have : ¬ e.1 = k' := fun h => h2 (h ▸ h1.symm ▸ rfl)
        simp [*]
    · by_cases h2 : k' = k
      · subst h2
        have : ¬ k' = e.1 := fun h => h1 h.symm
        simp only [h1, this, if_false, if_true, false_or]
      · simp [h1, h2]

theorem lookup_append (d d' : List (Key.K × V)) (k : Key.K) :
    lookup (d ++ d') k = (lookup d k).or (lookup d' k) := by
  induction d with
  | nil => simp
  | cons e d ih =>
    rw [List.cons_append, lookup_cons, lookup_cons, ih]
    by_cases h : e.1 = k <;> simp [h]

theorem lookup_dictSet (d : List (Key.K × V)) (k k' : Key.K) (v : V) :
    lookup (dictSet d k v) k' = if k' = k then some v else lookup d k' := by
  unfold dictSet
  by_cases h : k ∈ dkeys d
  · rw [if_pos ((any_key_iff d k).mpr h), lookup_map_set, if_pos h]
  · have : ¬ (d.any (·.1 = k)) = true := fun h' => h ((any_key_iff d k).mp h')
    rw [if_neg this, lookup_append, lookup_cons, lookup_nil]
    by_cases hk : k' = k
    · subst hk
      rw [(lookup_eq_none_iff d k').mpr h]; simp
    · have : ¬ k = k' := fun h => hk h.symm
      simp [hk, this]

/-! ## `dict.update` -/

theorem nodup_dkeys_dictUpdate {d : List (Key.K × V)} (hd : (dkeys d).Nodup) (kv : List (Key.K × V)) :
    (dkeys (dictUpdate d kv)).Nodup := by
  induction kv generalizing d with
  | nil => exact hd
  | cons e kv ih => rw [dictUpdate_cons]; exact ih (nodup_dkeys_dictSet hd _ _)

theorem mem_dkeys_dictUpdate (d kv : List (Key.K × V)) (k : Key.K) :
    k ∈ dkeys (dictUpdate d kv) ↔ k ∈ dkeys d ∨ k ∈ dkeys kv := by
  induction kv generalizing d with
  | nil => simp [dictUpdate_nil]
  | cons e kv ih =>
    rw [dictUpdate_cons, ih, mem_dkeys_dictSet]
    simp only [dkeys, List.map_cons, List.mem_cons]
    constructor
    · rintro ((h | h) | h)
      · exact .inr (.inl h)
      · exact .inl h
      · exact .inr (.inr h)
    · rintro (h | h | h)
      · exact .inl (.inr h)
      · exact .inl (.inl h)
      · exact .inr h

theorem mem_dictUpdate {d kv : List (Key.K × V)} {e : Key.K × V} (h : e ∈ dictUpdate d kv) :
    e ∈ d ∨ e ∈ kv := by
  induction kv generalizing d with
  | nil => exact .inl h
  | cons e' kv ih =>
    rw [dictUpdate_cons] at h
    rcases ih h with h | h
    · rcases mem_dictSet h with h | h
      · exact .inr (h ▸ List.mem_cons_self)
      · exact .inl h
    · exact .inr (List.mem_cons_of_mem _ h)

/-- a key not mentioned in the update keeps its value -/
theorem lookup_dictUpdate_of_not_mem (d kv : List (Key.K × V)) (k : Key.K) (h : k ∉ dkeys kv) :
    lookup (dictUpdate d kv) k = lookup d k := by
  induction kv generalizing d with
  | nil => rfl
  | cons e kv ih =>
    simp only [dkeys, List.map_cons, List.mem_cons, not_or] at h
    rw [dictUpdate_cons, ih _ h.2, lookup_dictSet, if_neg h.1]

/-- an update all of whose entries are read off one function `f`: updated keys get `f k` -/
theorem lookup_dictUpdate_of_fun (f : Key.K → Option V) (d kv : List (Key.K × V)) (k : Key.K)
    (hf : ∀ e ∈ kv, f e.1 = some e.2) :
    lookup (dictUpdate d kv) k = if k ∈ dkeys kv then f k else lookup d k := by
  induction kv generalizing d with
  | nil => simp [dictUpdate_nil]
  | cons e kv ih =>
    rw [dictUpdate_cons, ih _ (fun e' he' => hf e' (List.mem_cons_of_mem _ he')), lookup_dictSet]
    simp only [dkeys, List.map_cons, List.mem_cons]
    by_cases h1 : k ∈ List.map (·.1) kv
    · simp [h1]
    · by_cases h2 : k = e.1
      · subst h2; simp [h1, hf e List.mem_cons_self]
      · simp [h1, h2]

/-- general "last assignment wins" rule -/
theorem lookup_dictUpdate (d kv : List (Key.K × V)) (k : Key.K) :
    lookup (dictUpdate d kv) k = (lookup kv.reverse k).or (lookup d k) := by
  induction kv generalizing d with
  | nil => simp [dictUpdate_nil]
  | cons e kv ih =>
    rw [dictUpdate_cons, ih, lookup_dictSet, List.reverse_cons, lookup_append, lookup_cons, lookup_nil]
    generalize lookup kv.reverse k = o
    by_cases h : k = e.1
    · subst h; cases o <;> simp
    · have : ¬ e.1 = k := fun h' => h h'.symm
      cases o <;> simp [h, this]

/-! ## one server's answer -/

theorem mem_fetchBatch {st : Stores V} {s : Srv} {b : List Key.K} {e : Key.K × V}
    (h : e ∈ fetchBatch st s b) : e.1 ∈ b ∧ st s e.1 = some e.2 := by
  unfold fetchBatch at h
  rcases mem_dictUpdate h with h | h
  · simp at h
  · obtain ⟨k, hk, he⟩ := List.mem_filterMap.mp h
    cases hv : st s k with
    | none => simp [hv] at he
    | some v =>
      simp only [hv, Option.map_some, Option.some.injEq] at he
      subst he
      exact ⟨hk, hv⟩

theorem mem_dkeys_fetchBatch (st : Stores V) (s : Srv) (b : List Key.K) (k : Key.K) :
    k ∈ dkeys (fetchBatch st s b) ↔ k ∈ b ∧ (st s k).isSome := by
  unfold fetchBatch
  rw [mem_dkeys_dictUpdate]
  simp only [dkeys, List.map_nil, List.not_mem_nil, false_or, List.mem_map, List.mem_filterMap]
  constructor
  · rintro ⟨e, ⟨k', hk', he⟩, hek⟩
    cases hv : st s k' with
    | none => simp [hv] at he
    | some v =>
      simp only [hv, Option.map_some, Option.some.injEq] at he
      subst he
      subst hek
      exact ⟨hk', by simp [hv]⟩
  · rintro ⟨hk, hs⟩
    obtain ⟨v, hv⟩ := Option.isSome_iff_exists.mp hs
    exact ⟨(k, v), ⟨k, hk, by simp [hv]⟩, rfl⟩

theorem nodup_dkeys_fetchBatch (st : Stores V) (s : Srv) (b : List Key.K) :
    (dkeys (fetchBatch st s b)).Nodup :=
  nodup_dkeys_dictUpdate (by simp) _

/-- a server's answer to a batch: the stored value for requested keys, a miss for the others -/
theorem lookup_fetchBatch (st : Stores V) (s : Srv) (b : List Key.K) (k : Key.K) :
    lookup (fetchBatch st s b) k = if k ∈ b then st s k else none := by
  by_cases h : k ∈ dkeys (fetchBatch st s b)
  · obtain ⟨hb, hs⟩ := (mem_dkeys_fetchBatch st s b k).mp h
    obtain ⟨e, he, rfl⟩ := List.mem_map.mp h
    rw [lookup_of_mem (nodup_dkeys_fetchBatch st s b) (v := e.2) he, if_pos hb, (mem_fetchBatch he).2]
  · rw [(lookup_eq_none_iff _ _).mpr h]
    rw [mem_dkeys_fetchBatch] at h
    by_cases hb : k ∈ b
    · rw [if_pos hb]
      cases hv : st s k with
      | none => rfl
      | some v => exact absurd ⟨hb, by simp [hv]⟩ h
    · rw [if_neg hb]

/-- merging one server's answer into the accumulated result -/
theorem lookup_merge (st : Stores V) (acc : List (Key.K × V)) (s : Srv) (b : List Key.K) (k : Key.K) :
    lookup (dictUpdate acc (fetchBatch st s b)) k =
      if k ∈ b ∧ (st s k).isSome then st s k else lookup acc k := by
  rw [lookup_dictUpdate_of_fun (st s) _ _ _ (fun e he => (mem_fetchBatch he).2)]
  simp only [mem_dkeys_fetchBatch]

end HashRoute
