import Pymc.Proofs.ConnSeq
/-!
# Which address is used: `connect` / `connectOrig` evaluated at the first preparable address
-/
namespace Conn

/-- for address `j` the calls `socket()`, `setsockopt(TCP_NODELAY)` (if configured) and `wrap_socket` (if configured)
all succeed -/
def Preparable (cfg : Cfg) (p : Plan) (j : Nat) : Prop :=
  p.socket j = false ∧ (cfg.noDelay = true → p.nodelay j = false) ∧ (cfg.tls = true → p.wrap j = false)

/-- none of `settimeout(connect_timeout)`, the keepalive `setsockopt`s (if configured), `connect`,
`settimeout(timeout)` raises -/
def Phase2Fine (cfg : Cfg) (p : Plan) : Prop :=
  p.settimeoutConnect = false ∧ (cfg.keepalive = true → p.keepalive = false) ∧ p.connect = false ∧
    p.settimeoutIo = false

theorem prepOk_iff {cfg : Cfg} {p : Plan} {j : Nat} : prepOk cfg p j = true ↔ Preparable cfg p j := by
  obtain ⟨u, nd, tls, ka⟩ := cfg
  cases nd <;> cases tls <;> cases h1 : p.socket j <;> cases h2 : p.nodelay j <;> cases h3 : p.wrap j <;>
    simp [prepOk, Preparable, h1, h2, h3]

theorem prepOk_false_iff {cfg : Cfg} {p : Plan} {j : Nat} : prepOk cfg p j = false ↔ ¬ Preparable cfg p j := by
  rw [← prepOk_iff]; simp

theorem p2Ok_iff {cfg : Cfg} {p : Plan} : p2Ok cfg p = true ↔ Phase2Fine cfg p := by
  obtain ⟨u, nd, tls, ka⟩ := cfg
  cases ka <;> cases h1 : p.settimeoutConnect <;> cases h2 : p.keepalive <;> cases h3 : p.connect <;>
    cases h4 : p.settimeoutIo <;> simp [p2Ok, Phase2Fine, h1, h2, h3, h4]

/-- lines 407–431 once the loop has produced socket `s` for address `i` -/
def finish (cfg : Cfg) (p : Plan) (st : St) (evl : List Ev) (n' s i : Nat) : St × Except Err Unit × List Ev :=
  match phase2 cfg p s i with
  | (.ok (), ev) => ({ sock := some s, next := n' }, .ok (), closeEvs st.sock ++ evl ++ ev ++ [.assign s])
  | (.error e, ev) => ({ sock := none, next := n' }, .error e, closeEvs st.sock ++ evl ++ ev)

theorem finish_ok {cfg : Cfg} {p : Plan} (h : p2Ok cfg p = true) (st : St) (evl : List Ev) (n' s i : Nat) :
    finish cfg p st evl n' s i = ({ sock := some s, next := n' }, .ok (),
      closeEvs st.sock ++ evl ++ ([Ev.settimeout s .connect] ++ kaSeg cfg.keepalive s ++
        [Ev.connect s i, Ev.settimeout s .io]) ++ [.assign s]) := by
  simp [finish, phase2_ok h]

/-- TCP, `getaddrinfo` fine, `j` the first preparable address -/
theorem connect_first {cfg : Cfg} {p : Plan} (st : St) {j : Nat} (hu : cfg.unix = false) (hg : p.gai = false)
    (hj : j < p.naddr) (hok : prepOk cfg p j = true) (hleast : ∀ i, i < j → prepOk cfg p i = false) :
    ∃ junk m, st.next ≤ m ∧ Junk st.next m junk ∧
      connect cfg p st =
        finish cfg p st (junk ++ okSeg cfg.noDelay cfg.tls m j) (nextOf cfg.tls m) (sockOf cfg.tls m) j ∧
      connectOrig cfg p st =
        match lastErr cfg p (List.range j) none with
        | some e => ({ sock := none, next := nextOf cfg.tls m }, .error e,
            closeEvs st.sock ++ (junk ++ okSeg cfg.noDelay cfg.tls m j))
        | none => finish cfg p st (junk ++ okSeg cfg.noDelay cfg.tls m j) (nextOf cfg.tls m) (sockOf cfg.tls m) j := by
  obtain ⟨junk, m, hle, hjunk, h1, h2⟩ := addrLoopOrig_split (List.range j) j (List.range' (j + 1) (p.naddr - j - 1))
    st.next none (fun i hi => hleast i (List.mem_range.1 hi)) hok
  rw [← range_split hj] at h1 h2
  refine ⟨junk, m, hle, hjunk, ?_, ?_⟩
  · unfold connect; rw [connectWith_tcp st hu hg h1]; rfl
  · unfold connectOrig; rw [connectWith_tcp st hu hg h2]
    cases lastErr cfg p (List.range j) none <;> rfl

/-- TCP, `getaddrinfo` fine, no address can be prepared -/
theorem connect_allfail {cfg : Cfg} {p : Plan} (st : St) (hu : cfg.unix = false) (hg : p.gai = false)
    (hall : ∀ i, i < p.naddr → prepOk cfg p i = false) :
    ∃ junk n', st.next ≤ n' ∧ Junk st.next n' junk ∧
      connect cfg p st = ({ sock := none, next := n' },
        .error ((lastErr cfg p (List.range p.naddr) none).getD .gai), closeEvs st.sock ++ junk) ∧
      connectOrig cfg p st = connect cfg p st := by
  have hall' : ∀ i ∈ List.range p.naddr, prepOk cfg p i = false := fun i hi => hall i (List.mem_range.1 hi)
  obtain ⟨evl, n', h1, hle, hjunk⟩ := addrLoop_allfail (List.range p.naddr) st.next none hall'
  have h2 := addrLoopOrig_allfail (List.range p.naddr) st.next none hall'
  refine ⟨evl, n', hle, hjunk, ?_, ?_⟩
  · unfold connect; rw [connectWith_tcp st hu hg h1]
    cases lastErr cfg p (List.range p.naddr) none <;> rfl
  · rw [h1] at h2
    unfold connect connectOrig; rw [connectWith_tcp st hu hg h1, connectWith_tcp st hu hg h2]

theorem connect_outcome' {cfg : Cfg} {p : Plan} {st st' : St} {r : Except Err Unit} {log : List Ev}
    (h : connect cfg p st = (st', r, log)) :
    Outcome (cfg.noDelay && !cfg.unix) (cfg.tls && !cfg.unix) cfg.keepalive st st' r log := by
  have := connect_outcome cfg p st
  rw [h] at this
  exact this

/-- events that happen before the socket is handed to phase 2 -/
def Ev.setupOnly : Ev → Prop
  | .connect _ _ => False
  | .settimeout _ _ => False
  | .keepalive _ => False
  | .assign _ => False
  | _ => True

theorem setupOnly_pre {o : Option Id} {lo m : Nat} {junk : List Ev} (hj : Junk lo m junk) (nd tls : Bool) (a : Nat) :
    ∀ e ∈ closeEvs o ++ junk ++ okSeg nd tls m a, e.setupOnly := by
  intro e he
  simp only [List.mem_append] at he
  rcases he with (he | he) | he
  · cases o <;> simp [closeEvs] at he
    rcases he with rfl | rfl <;> simp [Ev.setupOnly]
  · have := hj.shape e he
    cases e <;> simp_all [Ev.junk, Ev.setupOnly]
  · cases nd <;> cases tls <;> simp [okSeg] at he <;> rcases he with rfl | rfl | rfl <;> simp [Ev.setupOnly] <;>
      simp_all [Ev.setupOnly]

theorem phase2_fail_eq {cfg : Cfg} {p : Plan} (h : p2Ok cfg p = false) (s a : Nat) :
    phase2 cfg p s a = (.error (p2Err cfg p), p2Mid cfg p s a ++ [Ev.close s]) := by
  obtain ⟨u, nd, tls, ka⟩ := cfg
  cases ka <;> cases h1 : p.settimeoutConnect <;> cases h2 : p.keepalive <;> cases h3 : p.connect <;>
    cases h4 : p.settimeoutIo <;> simp_all [p2Ok, phase2, p2Err, p2Mid, kaSeg]

theorem p2Mid_connect {cfg : Cfg} {p : Plan} {s a id x : Nat} (h : Ev.connect id x ∈ p2Mid cfg p s a) :
    id = s ∧ x = a := by
  obtain ⟨u, nd, tls, ka⟩ := cfg
  cases ka <;> cases h1 : p.settimeoutConnect <;> cases h2 : p.keepalive <;> cases h3 : p.connect <;>
    simp_all [p2Mid, kaSeg]

/-- the socket prepared by the original loop and then forgotten because a stale error is raised -/
theorem orig_leak {o : Option Id} {lo m : Nat} {junk : List Ev} (hj : Junk lo m junk) (hle : lo ≤ m)
    (hwf : ∀ t, o = some t → t < lo) (nd tls : Bool) (a : Nat) :
    m ∈ leaked (closeEvs o ++ (junk ++ okSeg nd tls m a)) none := by
  have hcl : ∀ x, m ≤ x → x ∉ closedIds (closeEvs o ++ (junk ++ okSeg nd tls m a)) := by
    intro x hx hmem
    simp only [closedIds_append, closedIds_closeEvs, closedIds_okSeg, List.mem_append, Option.mem_toList,
      List.not_mem_nil, or_false] at hmem
    rcases hmem with hmem | hmem
    · have := hwf x hmem; idomega
    · have := hj.closed_range hmem; idomega
  have hown : ownedBy (closeEvs o ++ (junk ++ okSeg nd tls m a)) m = if tls = true then some (m + 1) else none := by
    rw [ownedBy_append_of_not_raw _ (by simp), ownedBy_append_of_not_raw _ (by simp [hj.rawIds]), ownedBy_okSeg]
    simp
  have hnc : isClosed (closeEvs o ++ (junk ++ okSeg nd tls m a)) m = false := by
    cases hh : isClosed (closeEvs o ++ (junk ++ okSeg nd tls m a)) m
    · rfl
    · rcases isClosed_iff.1 hh with h | ⟨w, h1, h2⟩
      · exact absurd h (hcl m (Nat.le_refl _))
      · rw [hown] at h1
        cases tls <;> simp at h1
        subst h1
        exact absurd h2 (hcl (m + 1) (Nat.le_succ _))
  unfold leaked
  rw [List.mem_filter]
  refine ⟨by cases tls <;> simp [createdIds_append, createdIds_okSeg], ?_⟩
  rw [hnc, hown]
  cases tls <;> simp

end Conn
