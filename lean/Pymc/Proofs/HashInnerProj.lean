import Pymc.Model.HashInner
import Pymc.Proofs.HashCallProj
/-!
# `HashClient ∘ <inner object>` refines the abstract failover model `Failover`

The development of `HashCallProj.lean` with the registered object as a parameter (`HashInner.Inner`): forgetting the
registered objects (`St.proj`) commutes with `_retry_dead` / `_get_client` / `_safely_run_func`, and one composed call
`callG` whose key passes `check_key_helper` is one abstract `Failover.stepOp … (.runCmd rk)` in the environment in which
the contacted server does what the invocation did (`callG_proj`).  The only hypothesis is `Cover` — every node in
rotation has an object registered in `self.clients` — an invariant of the composed model (`cover_callG`, `cover_init`).
Nothing here looks inside `Inner.step`.
-/
namespace HashInner
open Exchange Client Framing Failover
open HashCall (alookup_ainsert mem_ainsert removeServer_nodes markFailed_nodes)

variable {I : Inner}

/-- every node in rotation has a registered object -/
def Cover (st : St I) : Prop := ∀ s ∈ st.fo.nodes, ∃ x, alookup s st.clients = some x

theorem newClient_lookup (st : St I) (s x : Srv) :
    alookup x (newClient st s).clients =
      if x = s then some { id := st.nextObj, st := I.fresh } else alookup x st.clients :=
  alookup_ainsert s x _ _

@[simp] theorem newClient_fo (st : St I) (s : Srv) : (newClient st s).fo = st.fo := rfl

/-! ## the constructor -/

theorem initClients_fo (l : List Srv) (st : St I) : (initClients l st).fo = st.fo := by
  induction l generalizing st with
  | nil => rfl
  | cons s r ih => simp [initClients, ih]

theorem initClients_lookup (l : List Srv) (st : St I) (x : Srv)
    (h : x ∈ l ∨ ∃ o, alookup x st.clients = some o) : ∃ o, alookup x (initClients l st).clients = some o := by
  induction l generalizing st with
  | nil =>
    rcases h with h | h
    · simp at h
    · exact h
  | cons s r ih =>
    simp only [initClients]
    apply ih
    by_cases hx : x = s
    · right; rw [newClient_lookup]; simp [hx]
    · rcases h with h | h
      · left; simpa [hx] using h
      · right; rw [newClient_lookup]; simpa [hx] using h

theorem init_proj (I : Inner) (servers : List Srv) (t0 : Time) : (init I servers t0).proj = Failover.init servers t0 :=
  initClients_fo _ _

theorem cover_init (I : Inner) (servers : List Srv) (t0 : Time) : Cover (init I servers t0) := by
  intro s hs
  have hfo : (init I servers t0).fo = Failover.init servers t0 := init_proj I servers t0
  rw [hfo] at hs
  exact initClients_lookup servers _ s (.inl ((dedup_mem s servers).mp hs))

/-! ## `_retry_dead` -/

theorem reviveAll_proj (l : List Srv) (st : St I) : (reviveAll l st).map St.proj = Failover.reviveAll l st.fo := by
  induction l generalizing st with
  | nil => rfl
  | cons s r ih =>
    simp only [reviveAll, Failover.reviveAll]
    cases aerase s st.fo.dead with
    | none => rfl
    | some d => exact ih _

theorem retryDead_proj (c : Cfg) (now : Time) (st : St I) :
    (retryDead c now st).map St.proj = Failover.retryDead c now st.fo := by
  unfold retryDead Failover.retryDead
  by_cases h : now - st.fo.lastDeadCheck > c.dt
  · simp only [h, if_true]
    rw [← reviveAll_proj]
    cases reviveAll _ st <;> rfl
  · simp only [h, if_false]; rfl

theorem retryIfDead_proj (c : Cfg) (now : Time) (st : St I) :
    (retryIfDead c now st).map St.proj = Failover.retryIfDead c now st.fo := by
  unfold retryIfDead Failover.retryIfDead
  cases st.fo.dead.isEmpty
  · exact retryDead_proj c now st
  · rfl

/-- what reviving does to `self.clients`: entries are kept or replaced by fresh objects, and every entry present before
is present after -/
structure Refreshed (st st1 : St I) : Prop where
  mem : ∀ x ∈ st1.clients, x ∈ st.clients ∨ x.2.st = I.fresh
  keep : ∀ s, (∃ o, alookup s st.clients = some o) → ∃ o, alookup s st1.clients = some o

theorem refreshed_refl (st : St I) : Refreshed st st := ⟨fun _ h => .inl h, fun _ h => h⟩

theorem refreshed_newClient (st : St I) (s : Srv) : Refreshed st (newClient st s) := by
  refine ⟨fun x hx => ?_, fun y hy => ?_⟩
  · rcases mem_ainsert hx with h | h
    · exact .inl h
    · subst h; exact .inr rfl
  · rw [newClient_lookup]
    by_cases h : y = s
    · simp [h]
    · simpa [h] using hy

theorem refreshed_trans {a b d : St I} (h1 : Refreshed a b) (h2 : Refreshed b d) : Refreshed a d := by
  refine ⟨fun x hx => ?_, fun s hs => h2.keep s (h1.keep s hs)⟩
  rcases h2.mem x hx with h | h
  · exact h1.mem x h
  · exact .inr h

theorem initClients_refreshed (l : List Srv) (st : St I) : Refreshed st (initClients l st) := by
  induction l generalizing st with
  | nil => exact refreshed_refl _
  | cons s r ih => exact refreshed_trans (refreshed_newClient st s) (ih _)

theorem reviveAll_spec (l : List Srv) (st st1 : St I) (h : reviveAll l st = some st1) :
    Refreshed st st1 ∧ (∀ x ∈ st1.fo.nodes, x ∈ st.fo.nodes ∨ x ∈ l) ∧
      (∀ x ∈ l, ∃ o, alookup x st1.clients = some o) := by
  induction l generalizing st with
  | nil =>
    simp only [reviveAll, Option.some.injEq] at h
    subst h
    exact ⟨refreshed_refl _, fun x hx => .inl hx, fun x hx => by simp at hx⟩
  | cons s r ih =>
    simp only [reviveAll] at h
    cases hd : aerase s st.fo.dead with
    | none => simp [hd] at h
    | some d =>
      simp only [hd] at h
      obtain ⟨h1, h2, h3⟩ := ih _ h
      have hr : Refreshed st { newClient st s with fo := { st.fo with nodes := addNode s st.fo.nodes, dead := d } } :=
        ⟨(refreshed_newClient st s).mem, (refreshed_newClient st s).keep⟩
      refine ⟨refreshed_trans hr h1, fun x hx => ?_, fun x hx => ?_⟩
      · rcases h2 x hx with h | h
        · rcases (addNode_mem s x st.fo.nodes).mp h with h | h
          · right; simp [h]
          · exact .inl h
        · right; simp [h]
      · rcases List.mem_cons.mp hx with hx | hx
        · subst hx
          exact h1.keep x ⟨{ id := st.nextObj, st := I.fresh }, by
            show alookup x (newClient st x).clients = _
            rw [newClient_lookup]; simp⟩
        · exact h3 x hx

theorem retryIfDead_spec {c : Cfg} {now : Time} {st st1 : St I} (h : retryIfDead c now st = some st1) (hc : Cover st) :
    Refreshed st st1 ∧ Cover st1 := by
  unfold retryIfDead at h
  split at h
  · cases h; exact ⟨refreshed_refl _, hc⟩
  · unfold retryDead at h
    split at h
    · cases hr : reviveAll ((st.fo.dead.filter (fun p => decide (now - p.2 > c.dt))).map Prod.fst) st with
      | none => simp [hr] at h
      | some st' =>
        simp only [hr, Option.some.injEq] at h
        subst h
        obtain ⟨h1, h2, h3⟩ := reviveAll_spec _ _ _ hr
        refine ⟨⟨h1.mem, h1.keep⟩, fun s hs => ?_⟩
        rcases h2 s hs with h | h
        · exact h1.keep s (hc s h)
        · exact h3 s h
    · cases h; exact ⟨refreshed_refl _, hc⟩

theorem retryIfDead_refreshed {c : Cfg} {now : Time} {st st1 : St I} (h : retryIfDead c now st = some st1) :
    Refreshed st st1 := by
  unfold retryIfDead at h
  split at h
  · cases h; exact refreshed_refl _
  · unfold retryDead at h
    split at h
    · cases hr : reviveAll ((st.fo.dead.filter (fun p => decide (now - p.2 > c.dt))).map Prod.fst) st with
      | none => simp [hr] at h
      | some st' =>
        simp only [hr, Option.some.injEq] at h
        subst h
        obtain ⟨h1, -, -⟩ := reviveAll_spec _ _ _ hr
        exact ⟨h1.mem, h1.keep⟩
    · cases h; exact refreshed_refl _

/-! ## `_get_client` -/

def Got.proj : Got I → Failover.Got
  | .client s _ => .client s
  | .noClient => .noClient
  | .allDown => .allDown
  | .internalError => .internalError

theorem getClient_proj {Key : Type} (c : Cfg) (route : List Srv → Key → Option Srv) (hlaw : RouteLaw route) (now : Time)
    (st : St I) (key : Key) (hc : Cover st) :
    Failover.getClient c route now st.fo key = ((getClient c route now st key).1.fo, (getClient c route now st key).2.proj) ∧
    Refreshed st (getClient c route now st key).1 ∧ Cover (getClient c route now st key).1 ∧
    (∀ s x, (getClient c route now st key).2 = .client s x → alookup s (getClient c route now st key).1.clients = some x) := by
  have hp := retryIfDead_proj c now st
  unfold getClient Failover.getClient
  cases hr : retryIfDead c now st with
  | none =>
    rw [hr] at hp
    simp only [← hp, Option.map_none]
    exact ⟨rfl, refreshed_refl _, hc, fun s x h => by cases h⟩
  | some st1 =>
    rw [hr] at hp
    obtain ⟨h1, h2⟩ := retryIfDead_spec hr hc
    simp only [← hp, Option.map_some, St.proj]
    cases hro : route st1.fo.nodes key with
    | none => cases c.ignoreExc <;> exact ⟨rfl, h1, h2, fun s x h => by cases h⟩
    | some s =>
      obtain ⟨o, ho⟩ := h2 s (hlaw.mem _ _ _ hro)
      simp only [ho]
      exact ⟨rfl, h1, h2, fun s' x' h => by cases h; exact ho⟩

theorem getClient_refreshed {Key : Type} (c : Cfg) (route : List Srv → Key → Option Srv) (now : Time) (st : St I) (key : Key) :
    Refreshed st (getClient c route now st key).1 ∧
    (∀ s x, (getClient c route now st key).2 = .client s x → (s, x) ∈ (getClient c route now st key).1.clients) := by
  unfold getClient
  cases hr : retryIfDead c now st with
  | none => exact ⟨refreshed_refl _, fun s x h => by cases h⟩
  | some st1 =>
    have h1 := retryIfDead_refreshed hr
    simp only []
    cases route st1.fo.nodes key with
    | none => cases c.ignoreExc <;> exact ⟨h1, fun s x h => by cases h⟩
    | some s =>
      simp only []
      cases ho : alookup s st1.clients with
      | none => exact ⟨h1, fun s x h => by cases h⟩
      | some o => exact ⟨h1, fun s' x' h => by cases h; exact mem_of_alookup ho⟩

/-! ## `_safely_run_func` -/

@[simp] theorem contact_fo (ccfg : Wire.Cfg) (idx : Nat) (now fin : Time) (st : St I) (s : Srv) (x : Obj I) (call : Call)
    (sc : Script) : (contact ccfg idx now fin st s x call sc).1.fo = st.fo := rfl

theorem contact_obs (ccfg : Wire.Cfg) (idx : Nat) (now fin : Time) (st : St I) (s : Srv) (x : Obj I) (call : Call)
    (sc : Script) : (contact ccfg idx now fin st s x call sc).2 = (I.step ccfg idx now fin x.st call sc).2 := rfl

theorem contact_clients (ccfg : Wire.Cfg) (idx : Nat) (now fin : Time) (st : St I) (s : Srv) (x : Obj I) (call : Call)
    (sc : Script) :
    (contact ccfg idx now fin st s x call sc).1.clients =
      ainsert s { x with st := (I.step ccfg idx now fin x.st call sc).1 } st.clients := rfl

/-- the outcome of the invocation, or `ok` when no server was contacted -/
def outcomeOfInner (I : Inner) : Option I.Obs → Outcome
  | some o => outcomeOf I (I.res o)
  | none => .ok

def contactsOfInner (I : Inner) (s : Srv) (now : Time) : Option I.Obs → List Contact
  | some o => [(s, now, outcomeOf I (I.res o))]
  | none => []

theorem clsOutcome_ne_ok (k : ExcClass) : clsOutcome k ≠ .ok := by
  cases k <;> exact fun h => by cases h

theorem onError_proj (c : Cfg) (now : Time) (st : St I) (s : Srv) (e : I.E) (cs : List Contact) :
    Failover.onError c now st.fo s (clsOutcome (I.cls e)) cs =
      ((onError c now st s e).1.fo, absRes I c (onError c now st s e).2, cs) := by
  unfold onError Failover.onError
  cases hk : I.cls e with
  | base => cases hi : c.ignoreExc <;> simp [absRes, hk, hi, clsOutcome]
  | oserror =>
    simp only [clsOutcome]
    cases markFailed c now st.fo s with
    | none => simp [absRes]
    | some fo' => cases hi : c.ignoreExc <;> simp [absRes, hk, clsOutcome]
  | other => cases hi : c.ignoreExc <;> simp [absRes, hk, hi, clsOutcome]

theorem invoke_fst (ccfg : Wire.Cfg) (c : Cfg) (idx : Nat) (now fin : Time) (st : St I) (s : Srv) (x : Obj I) (call : Call)
    (sc : Script) (clear : Bool) :
    (invoke ccfg c idx now fin st s x call sc clear).2.2 = some (I.step ccfg idx now fin x.st call sc).2 ∧
    (invoke ccfg c idx now fin st s x call sc clear).1.clients = (contact ccfg idx now fin st s x call sc).1.clients ∧
    (invoke ccfg c idx now fin st s x call sc clear).1.nextObj = st.nextObj := by
  unfold invoke
  simp only [contact_obs]
  cases I.res (I.step ccfg idx now fin x.st call sc).2 with
  | ok r =>
    cases clear
    · exact ⟨rfl, rfl, rfl⟩
    · simp only [if_true]
      cases aerase s (contact ccfg idx now fin st s x call sc).1.fo.failed <;> exact ⟨rfl, rfl, rfl⟩
  | error e =>
    refine ⟨rfl, ?_⟩
    simp only [onError]
    split
    · exact ⟨rfl, rfl⟩
    · split
      · exact ⟨rfl, rfl⟩
      · split <;> exact ⟨rfl, rfl⟩
    · split <;> exact ⟨rfl, rfl⟩

/-- the plain invocation (`result = func(…); return result` with the handlers) is `Failover.invoke` -/
theorem invoke_proj_plain (ccfg : Wire.Cfg) (c : Cfg) (idx : Nat) (now fin : Time) (st : St I) (s : Srv) (x : Obj I)
    (call : Call) (sc : Script) :
    Failover.invoke c now (fun _ => outcomeOfInner I (invoke ccfg c idx now fin st s x call sc false).2.2) st.fo s =
      ((invoke ccfg c idx now fin st s x call sc false).1.fo, absRes I c (invoke ccfg c idx now fin st s x call sc false).2.1,
        contactsOfInner I s now (invoke ccfg c idx now fin st s x call sc false).2.2) := by
  rw [(invoke_fst ccfg c idx now fin st s x call sc false).1]
  unfold invoke Failover.invoke
  simp only [contact_obs, outcomeOfInner, contactsOfInner]
  cases hres : I.res (I.step ccfg idx now fin x.st call sc).2 with
  | ok r => simp [outcomeOf, absRes]
  | error e =>
    have h := onError_proj c now (contact ccfg idx now fin st s x call sc).1 s e [(s, now, clsOutcome (I.cls e))]
    simp only [contact_fo] at h
    simp only [outcomeOf]
    cases ho : clsOutcome (I.cls e) with
    | ok => exact absurd ho (clsOutcome_ne_ok _)
    | oserror => rw [ho] at h; simpa using h
    | othererror => rw [ho] at h; simpa using h

theorem safelyRunFunc_step (ccfg : Wire.Cfg) (c : Cfg) (idx : Nat) (now fin : Time) (st : St I) (s : Srv) (x : Obj I)
    (call : Call) (sc : Script) :
    ((safelyRunFunc ccfg c idx now fin st s x call sc).2.2 = none ∧
      (safelyRunFunc ccfg c idx now fin st s x call sc).1.clients = st.clients) ∨
    ((safelyRunFunc ccfg c idx now fin st s x call sc).2.2 = some (I.step ccfg idx now fin x.st call sc).2 ∧
      (safelyRunFunc ccfg c idx now fin st s x call sc).1.clients = (contact ccfg idx now fin st s x call sc).1.clients) := by
  unfold safelyRunFunc
  split
  · split
    · split
      · exact .inr ⟨(invoke_fst ..).1, (invoke_fst ..).2.1⟩
      · exact .inl ⟨rfl, rfl⟩
    · split
      · exact .inl ⟨rfl, rfl⟩
      · exact .inr ⟨(invoke_fst ..).1, (invoke_fst ..).2.1⟩
  · exact .inr ⟨(invoke_fst ..).1, (invoke_fst ..).2.1⟩

theorem safelyRunFunc_proj (ccfg : Wire.Cfg) (c : Cfg) (idx : Nat) (now fin : Time) (st : St I) (s : Srv) (x : Obj I)
    (call : Call) (sc : Script) :
    Failover.safelyRunFunc c now (fun _ => outcomeOfInner I (safelyRunFunc ccfg c idx now fin st s x call sc).2.2) st.fo s =
      ((safelyRunFunc ccfg c idx now fin st s x call sc).1.fo, absRes I c (safelyRunFunc ccfg c idx now fin st s x call sc).2.1,
        contactsOfInner I s now (safelyRunFunc ccfg c idx now fin st s x call sc).2.2) := by
  unfold safelyRunFunc Failover.safelyRunFunc
  cases hf : alookup s st.fo.failed with
  | none => exact invoke_proj_plain ccfg c idx now fin st s x call sc
  | some p =>
    obtain ⟨attempts, failedTime⟩ := p
    simp only []
    by_cases h1 : attempts < c.ra
    · simp only [h1, if_true]
      by_cases h2 : now - failedTime > c.rt
      · simp only [h2, if_true]
        rw [(invoke_fst ccfg c idx now fin st s x call sc true).1]
        unfold invoke
        simp only [contact_obs, outcomeOfInner, contactsOfInner]
        cases hres : I.res (I.step ccfg idx now fin x.st call sc).2 with
        | ok r =>
          simp only [outcomeOf, if_true, contact_fo]
          cases aerase s st.fo.failed <;> simp [absRes]
        | error e =>
          have h := onError_proj c now (contact ccfg idx now fin st s x call sc).1 s e [(s, now, clsOutcome (I.cls e))]
          simp only [contact_fo] at h
          simp only [outcomeOf]
          cases ho : clsOutcome (I.cls e) with
          | ok => exact absurd ho (clsOutcome_ne_ok _)
          | oserror => rw [ho] at h; simpa using h
          | othererror => rw [ho] at h; simpa using h
      · simp only [h2, if_false]; simp [absRes, contactsOfInner]
    · simp only [h1, if_false]
      cases hrm : removeServer now st.fo s with
      | none => simp [absRes, contactsOfInner]
      | some fo' => exact invoke_proj_plain ccfg c idx now fin { st with fo := fo' } s x call sc

/-! ## nodes only leave the rotation during `_safely_run_func` -/

theorem onError_nodes (c : Cfg) (now : Time) (st : St I) (s : Srv) (e : I.E) :
    (∀ x ∈ (onError c now st s e).1.fo.nodes, x ∈ st.fo.nodes) ∧ (onError c now st s e).1.clients = st.clients := by
  unfold onError
  split
  · exact ⟨fun x hx => hx, rfl⟩
  · cases hm : markFailed c now st.fo s with
    | none => exact ⟨fun x hx => hx, rfl⟩
    | some fo' => cases c.ignoreExc <;> exact ⟨markFailed_nodes hm, rfl⟩
  · split <;> exact ⟨fun x hx => hx, rfl⟩

theorem invoke_nodes (ccfg : Wire.Cfg) (c : Cfg) (idx : Nat) (now fin : Time) (st : St I) (s : Srv) (x : Obj I) (call : Call)
    (sc : Script) (clear : Bool) :
    ∀ y ∈ (invoke ccfg c idx now fin st s x call sc clear).1.fo.nodes, y ∈ st.fo.nodes := by
  unfold invoke
  simp only []
  split
  · split
    · split <;> exact fun y hy => hy
    · exact fun y hy => hy
  · exact (onError_nodes c now _ s _).1

theorem safelyRunFunc_nodes (ccfg : Wire.Cfg) (c : Cfg) (idx : Nat) (now fin : Time) (st : St I) (s : Srv) (x : Obj I)
    (call : Call) (sc : Script) :
    ∀ y ∈ (safelyRunFunc ccfg c idx now fin st s x call sc).1.fo.nodes, y ∈ st.fo.nodes := by
  unfold safelyRunFunc
  split
  · split
    · split
      · exact invoke_nodes ccfg c idx now fin st s x call sc true
      · exact fun y hy => hy
    · split
      · exact fun y hy => hy
      · rename_i fo' hrm
        intro y hy
        exact removeServer_nodes hrm y (invoke_nodes ccfg c idx now fin { st with fo := fo' } s x call sc false y hy)
  · exact invoke_nodes ccfg c idx now fin st s x call sc false

/-! ## one composed call is one abstract call -/

/-- the shape of one composed call -/
theorem callG_cases {Key : Type} (ccfg : Wire.Cfg) (c : Cfg) (route : List Srv → Key → Option Srv) (st : St I) (idx : Nat)
    (now fin : Time) (rk : Key) (call : Call) (sc : Script) :
    (HashCall.keyOk ccfg call = false ∧ callG ccfg c route st idx now fin rk call sc = (st, { res := .illegalKey })) ∨
    (HashCall.keyOk ccfg call = true ∧
      ((∃ r, (getClient c route now st rk).2.proj = r ∧ (∀ s, r ≠ .client s) ∧
          (callG ccfg c route st idx now fin rk call sc).1 = (getClient c route now st rk).1 ∧
          (callG ccfg c route st idx now fin rk call sc).2.inner = none ∧
          absRes I c (callG ccfg c route st idx now fin rk call sc).2.res =
            (match r with | .allDown => .raisedAllDown | .noClient => .default | _ => .internalError) ∧
          isIllegalKey (callG ccfg c route st idx now fin rk call sc).2.res = false) ∨
       (∃ s x, (getClient c route now st rk).2 = .client s x ∧
          callG ccfg c route st idx now fin rk call sc =
            ((safelyRunFunc ccfg c idx now fin (getClient c route now st rk).1 s x call sc).1,
             { res := (safelyRunFunc ccfg c idx now fin (getClient c route now st rk).1 s x call sc).2.1,
               server := some s,
               obj := (safelyRunFunc ccfg c idx now fin (getClient c route now st rk).1 s x call sc).2.2.map fun _ => x.id,
               inner := (safelyRunFunc ccfg c idx now fin (getClient c route now st rk).1 s x call sc).2.2 })))) := by
  unfold callG
  cases hk : HashCall.keyOk ccfg call
  · exact .inl ⟨rfl, rfl⟩
  · refine .inr ⟨rfl, ?_⟩
    simp only [Bool.not_true, Bool.false_eq_true, if_false]
    rcases hg : getClient c route now st rk with ⟨st1, g⟩
    cases g with
    | client s x => exact .inr ⟨s, x, rfl, rfl⟩
    | noClient => exact .inl ⟨_, rfl, (fun s h => by cases h), rfl, rfl, rfl, rfl⟩
    | allDown => exact .inl ⟨_, rfl, (fun s h => by cases h), rfl, rfl, rfl, rfl⟩
    | internalError => exact .inl ⟨_, rfl, (fun s h => by cases h), rfl, rfl, rfl, rfl⟩

theorem onError_res_ne (c : Cfg) (now : Time) (st : St I) (s : Srv) (e : I.E) :
    isIllegalKey (onError c now st s e).2 = false := by
  unfold onError
  split
  · rfl
  · split
    · rfl
    · split <;> rfl
  · split <;> rfl

theorem invoke_res_ne (ccfg : Wire.Cfg) (c : Cfg) (idx : Nat) (now fin : Time) (st : St I) (s : Srv) (x : Obj I) (call : Call)
    (sc : Script) (clear : Bool) : isIllegalKey (invoke ccfg c idx now fin st s x call sc clear).2.1 = false := by
  unfold invoke
  simp only []
  split
  · split
    · split <;> rfl
    · rfl
  · exact onError_res_ne _ _ _ _ _

theorem safelyRunFunc_res_ne (ccfg : Wire.Cfg) (c : Cfg) (idx : Nat) (now fin : Time) (st : St I) (s : Srv) (x : Obj I)
    (call : Call) (sc : Script) : isIllegalKey (safelyRunFunc ccfg c idx now fin st s x call sc).2.1 = false := by
  unfold safelyRunFunc
  split
  · split
    · split
      · exact invoke_res_ne ..
      · rfl
    · split
      · rfl
      · exact invoke_res_ne ..
  · exact invoke_res_ne ..

/-- the result is `illegalKey` exactly when the key check failed -/
theorem callG_illegal {Key : Type} (ccfg : Wire.Cfg) (c : Cfg) (route : List Srv → Key → Option Srv) (st : St I) (idx : Nat)
    (now fin : Time) (rk : Key) (call : Call) (sc : Script) :
    isIllegalKey (callG ccfg c route st idx now fin rk call sc).2.res = !HashCall.keyOk ccfg call := by
  rcases callG_cases ccfg c route st idx now fin rk call sc with ⟨hk, h⟩ | ⟨hk, ⟨r, -, -, -, -, -, hne⟩ | ⟨s, x, -, h⟩⟩
  · rw [h, hk]; rfl
  · rw [hk, hne]; rfl
  · rw [hk, h]
    exact safelyRunFunc_res_ne ccfg c idx now fin (getClient c route now st rk).1 s x call sc

/-- **one composed call is one abstract call.**  A call whose key is rejected by `check_key_helper` leaves the state
alone; any other call is `Failover.stepOp` for the event `_run_cmd(rk)` at the same time in the environment where the
contacted server does what the invocation of its registered object did: same bookkeeping state afterwards, same result
(in the vocabulary of the abstract model), same contact log. -/
theorem callG_proj {Key : Type} (ccfg : Wire.Cfg) (c : Cfg) (route : List Srv → Key → Option Srv) (hlaw : RouteLaw route)
    (st : St I) (idx : Nat) (now fin : Time) (rk : Key) (call : Call) (sc : Script) (hc : Cover st) :
    (HashCall.keyOk ccfg call = false → callG ccfg c route st idx now fin rk call sc = (st, { res := .illegalKey })) ∧
    (HashCall.keyOk ccfg call = true →
      Failover.stepOp c route st.proj
          { now := now, env := fun _ => outcomeOfObs (callG ccfg c route st idx now fin rk call sc).2, op := .runCmd rk } =
        ((callG ccfg c route st idx now fin rk call sc).1.proj, absRes I c (callG ccfg c route st idx now fin rk call sc).2.res,
          contactsOfObs now (callG ccfg c route st idx now fin rk call sc).2)) := by
  obtain ⟨hg, -, -, -⟩ := getClient_proj c route hlaw now st rk hc
  rcases callG_cases ccfg c route st idx now fin rk call sc with ⟨hk, h⟩ | ⟨hk, ⟨r, hr, hnc, h1, h2, h3, -⟩ | ⟨s, x, hgc, h⟩⟩
  · exact ⟨fun _ => h, (fun h' => by rw [hk] at h'; cases h')⟩
  · refine ⟨(fun h' => by rw [hk] at h'; cases h'), fun _ => ?_⟩
    simp only [Failover.stepOp, Failover.runCmd, St.proj, hg, hr, h1]
    have hcs : contactsOfObs now (callG ccfg c route st idx now fin rk call sc).2 = [] := by
      simp only [contactsOfObs, h2]
      split <;> simp_all
    rw [hcs, h3]
    cases r with
    | client s => exact absurd rfl (hnc s)
    | noClient => rfl
    | allDown => rfl
    | internalError => rfl
  · refine ⟨(fun h' => by rw [hk] at h'; cases h'), fun _ => ?_⟩
    have hp := safelyRunFunc_proj ccfg c idx now fin (getClient c route now st rk).1 s x call sc
    simp only [Failover.stepOp, Failover.runCmd, St.proj, hg, hgc, Got.proj]
    rw [h]
    simp only [outcomeOfObs, contactsOfObs]
    generalize safelyRunFunc ccfg c idx now fin (getClient c route now st rk).1 s x call sc = out at hp
    obtain ⟨st2, r, ob⟩ := out
    cases ob with
    | none => simpa [outcomeOfInner, contactsOfInner] using hp
    | some o => simpa [outcomeOfInner, contactsOfInner] using hp

/-- `Cover` is an invariant of the composed model -/
theorem cover_callG {Key : Type} (ccfg : Wire.Cfg) (c : Cfg) (route : List Srv → Key → Option Srv) (hlaw : RouteLaw route)
    (st : St I) (idx : Nat) (now fin : Time) (rk : Key) (call : Call) (sc : Script) (hc : Cover st) :
    Cover (callG ccfg c route st idx now fin rk call sc).1 := by
  obtain ⟨-, -, hcov, hcl⟩ := getClient_proj c route hlaw now st rk hc
  rcases callG_cases ccfg c route st idx now fin rk call sc with ⟨hk, h⟩ | ⟨hk, ⟨r, hr, hnc, h1, -⟩ | ⟨s, x, hgc, h⟩⟩
  · rw [h]; exact hc
  · rw [h1]; exact hcov
  · rw [h]
    intro y hy
    have hy' := safelyRunFunc_nodes ccfg c idx now fin (getClient c route now st rk).1 s x call sc y hy
    obtain ⟨cy, hcy⟩ := hcov y hy'
    rcases safelyRunFunc_step ccfg c idx now fin (getClient c route now st rk).1 s x call sc with ⟨-, h2⟩ | ⟨-, h2⟩
    · exact ⟨cy, by simp only [h2]; exact hcy⟩
    · simp only [h2, contact_clients, alookup_ainsert]
      by_cases hys : y = s
      · simp [hys]
      · exact ⟨cy, by simp [hys, hcy]⟩
end HashInner
