import Pymc.Proofs.HashBroadcastKeys
import Pymc.Proofs.HashCallManyProj
/-!
# Mixed histories of `HashClient ∘ Client` (key-addressed calls and broadcasts): the bookkeeping invariants

`Book c st`: the bookkeeping state is well-formed in the sense of the abstract model (`Failover.WF`: rotation and dead dict
without duplicates, no failure record under `retry_attempts = 0`, a dead server is out of rotation) and every server in
rotation has a client object registered in `self.clients` (`Cover`).

* `Book` holds of a fresh `HashClient` (`book_init`);
* it is kept by every statement of `_safely_run_func` as a broadcast runs it (`book_safelyRunFuncX`) — including the state
  `remove_server` leaves behind when `hasher.remove_node` raises half-way (`_failed_clients.pop` and
  `_dead_clients[s] = now` done, hasher unchanged: `wf_removeServerX`), whether that happens inside the `try` or inside the
  `except OSError` handler (`wf_markFailedX`) —, hence by a whole broadcast (`book_broadcastH`);
* from a state with `Book`, no key-addressed call — single-key, `get_many` / `gets_many`, `set_many`, `delete_many` — ends in
  `internalError`, and `Book` holds afterwards (`callM_book`); no hypothesis on the outcome of the call is needed (the
  projection onto the abstract model needs `projOK`; the invariants do not);
* hence along every mixed history from `init` (`runB_book`, `runB_no_internal`).
-/
namespace HashCall
open Exchange Client Framing Failover

/-- the bookkeeping invariants of the composed state -/
structure Book (c : Cfg) (st : St) : Prop where
  wf : Failover.WF c st.fo
  cover : Cover st

theorem book_init (c : Cfg) (servers : List Srv) (t0 : Time) : Book c (init servers t0) :=
  ⟨by rw [show (init servers t0).fo = Failover.init servers t0 from init_proj servers t0]; exact wf_init c servers t0,
    cover_init servers t0⟩

/-! ## `remove_server` / `_mark_failed_server`, statement by statement, keep the bookkeeping well-formed -/

theorem aerase_nil_of {β : Type} {s : Srv} {l f : List (Srv × β)} (h : aerase s l = some f) (hl : l = []) : f = [] := by
  subst hl
  simp [aerase, amem, alookup] at h

/-- `remove_server(s)`: whether it returns, raises `KeyError` at once, or raises `ValueError` after the two dict
statements — the state it leaves is well-formed -/
theorem wf_removeServerX {c : Cfg} (now : Time) {fo : State} (s : Srv) (h : WF c fo) : WF c (removeServerX now fo s).1 := by
  unfold removeServerX
  cases ha : aerase s fo.failed with
  | none => exact h
  | some f =>
    obtain ⟨-, hf⟩ := aerase_eq_some ha
    simp only []
    unfold removeNode
    by_cases hn : s ∈ fo.nodes
    · simp only [hn, if_true]
      have := wf_evict (now := now) s h
      rw [hf]
      exact this
    · simp only [hn, if_false]
      refine ⟨h.nodesNodup, keys_ainsert_nodup _ _ _ h.deadNodup, fun h0 => aerase_nil_of ha (h.raZero h0), ?_⟩
      intro x td hx
      by_cases hxs : x = s
      · subst hxs; exact hn
      · rw [alookup_ainsert_ne s x _ _ hxs] at hx
        exact h.deadOut x td hx

/-- `_mark_failed_server(s)`: whatever it does — a first record, one more attempt, or (`retry_attempts = 0`) a
`remove_server` that may raise half-way — the state it leaves is well-formed -/
theorem wf_markFailedX {c : Cfg} (now : Time) {fo : State} (s : Srv) (h : WF c fo) : WF c (markFailedX c now fo s).1 := by
  unfold markFailedX
  split
  · rename_i h1
    simp only [Bool.and_eq_true, decide_eq_true_eq] at h1
    exact ⟨h.nodesNodup, h.deadNodup, fun h0 => by omega, h.deadOut⟩
  · split
    · rename_i h1 h2
      simp only [Bool.and_eq_true, decide_eq_true_eq, Bool.not_eq_true'] at h2
      -- `retry_attempts = 0`: the record just made is popped again by `remove_server`
      have hra : c.ra = 0 := by omega
      have hnil := h.raZero hra
      have hl : alookup s (ainsert s (0, now) fo.failed) = some (0, now) := alookup_ainsert_self _ _ _
      have hfil : (ainsert s (0, now) fo.failed).filter (fun p => p.1 != s) = [] := by
        rw [filter_ainsert_self, hnil]; rfl
      unfold removeServerX
      simp only [aerase_of_lookup hl, hfil]
      unfold removeNode
      by_cases hn : s ∈ fo.nodes
      · simp only [hn, if_true]
        have := wf_evict (now := now) s h
        simp only [evict, hnil, List.filter_nil] at this
        exact this
      · simp only [hn, if_false]
        refine ⟨h.nodesNodup, keys_ainsert_nodup _ _ _ h.deadNodup, fun _ => rfl, ?_⟩
        intro x td hx
        by_cases hxs : x = s
        · subst hxs; exact hn
        · rw [alookup_ainsert_ne s x _ _ hxs] at hx
          exact h.deadOut x td hx
    · cases hl : alookup s fo.failed with
      | none => exact h
      | some p =>
        obtain ⟨a, t⟩ := p
        refine ⟨h.nodesNodup, h.deadNodup, fun h0 => ?_, h.deadOut⟩
        have := h.raZero h0
        rw [this] at hl
        simp [alookup] at hl

/-- popping a failure record -/
theorem wf_pop {c : Cfg} {fo : State} {s : Srv} {f : List (Srv × Nat × Time)} (h : WF c fo)
    (ha : aerase s fo.failed = some f) : WF c { fo with failed := f } :=
  ⟨h.nodesNodup, h.deadNodup, fun h0 => aerase_nil_of ha (h.raZero h0), h.deadOut⟩

/-! ## one `_safely_run_func` of a broadcast -/

theorem wf_onErrorX {c : Cfg} (now : Time) (st : St) (s : Srv) (e : Exc) (h : WF c st.fo) :
    WF c (onErrorX c now st s e).1.fo := by
  unfold onErrorX
  split
  · exact h
  · split
    · have hm := wf_markFailedX now s h
      rcases hmf : markFailedX c now st.fo s with ⟨fo', _ | k⟩
      · rw [hmf] at hm
        simp only []
        split <;> exact hm
      · rw [hmf] at hm
        exact hm
    · rw [onOther_fst]; exact h

theorem wf_invokeX {c : Cfg} (ccfg : Wire.Cfg) (idx : Nat) (now : Time) (st : St) (s : Srv) (cl : IClient) (op : BOp)
    (sc : Script) (clear : Bool) (h : WF c st.fo) : WF c (invokeX ccfg c idx now st s cl op sc clear).1.fo := by
  have hfo := bfunc_fo ccfg idx st s cl op sc
  unfold invokeX
  generalize bfunc ccfg idx st s cl op sc = b at hfo ⊢
  obtain ⟨st1, e | r, stp⟩ := b
  · simp only [] at hfo ⊢
    exact wf_onErrorX now st1 s e (hfo ▸ h)
  · simp only [] at hfo ⊢
    cases clear
    · simp only [Bool.false_eq_true, if_false]
      rw [hfo]; exact h
    · simp only [if_true]
      cases ha : aerase s st1.fo.failed with
      | none =>
        simp only []
        rw [onOther_fst, hfo]; exact h
      | some f =>
        simp only []
        exact wf_pop (hfo ▸ h) ha

theorem wf_safelyRunFuncX {c : Cfg} (ccfg : Wire.Cfg) (idx : Nat) (now : Time) (st : St) (s : Srv) (cl : IClient) (op : BOp)
    (sc : Script) (h : WF c st.fo) : WF c (safelyRunFuncX ccfg c idx now st s cl op sc).1.fo := by
  unfold safelyRunFuncX
  split
  · split
    · split
      · exact wf_invokeX ccfg idx now st s cl op sc true h
      · exact h
    · have hr := wf_removeServerX now s h
      rcases hrm : removeServerX now st.fo s with ⟨fo', _ | k⟩
      · rw [hrm] at hr
        simp only []
        exact wf_invokeX ccfg idx now { st with fo := fo' } s cl op sc false hr
      · rw [hrm] at hr
        simp only []
        rw [onOther_fst]
        exact hr
  · exact wf_invokeX ccfg idx now st s cl op sc false h

/-- registering a client object under a key keeps every key registered -/
theorem keeps_ainsert {st : St} (s : Srv) (v : IClient) (y : Srv) (h : ∃ cl, alookup y st.clients = some cl) :
    ∃ cl, alookup y (ainsert s v st.clients) = some cl := by
  rw [alookup_ainsert]
  by_cases hy : y = s
  · simp [hy]
  · simpa [hy] using h

theorem safelyRunFuncX_keeps (ccfg : Wire.Cfg) (c : Cfg) (idx : Nat) (now : Time) (st : St) (s : Srv) (cl : IClient)
    (op : BOp) (sc : Script) (y : Srv) (h : ∃ cl', alookup y st.clients = some cl') :
    ∃ cl', alookup y (safelyRunFuncX ccfg c idx now st s cl op sc).1.clients = some cl' := by
  rcases safelyRunFuncX_step ccfg c idx now st s cl op sc with ⟨-, -, h2⟩ | ⟨-, -, h2⟩
  · rw [h2]; exact h
  · rw [h2]
    rcases bfunc_cases ccfg idx st s cl op sc with ⟨call, -, hb⟩ | ⟨-, hb⟩
    · rw [hb]; exact contact_keeps ccfg idx st s cl call sc y h
    · rw [hb]; exact keeps_ainsert s _ y h

/-- **one `_safely_run_func` of a broadcast keeps the bookkeeping invariants** -/
theorem book_safelyRunFuncX {c : Cfg} (ccfg : Wire.Cfg) (idx : Nat) (now : Time) (st : St) (s : Srv) (cl : IClient)
    (op : BOp) (sc : Script) (h : Book c st) : Book c (safelyRunFuncX ccfg c idx now st s cl op sc).1 := by
  refine ⟨wf_safelyRunFuncX ccfg idx now st s cl op sc h.wf, fun x hx => ?_⟩
  have hx' := (safelyRunFuncX_onlyTouches ccfg c idx now st s cl op sc).sub x hx
  exact safelyRunFuncX_keeps ccfg c idx now st s cl op sc x (h.cover x hx')

/-- **a broadcast keeps the bookkeeping invariants**, however it ends -/
theorem book_broadcastH {c : Cfg} (ccfg : Wire.Cfg) (st : St) (idx : Nat) (now : Time) (op : BOp) (scripts : Srv → Script)
    (h : Book c st) : Book c (broadcastH ccfg c st idx now op scripts).1 :=
  (bloop_inv (Book c) (fun _ => True) ccfg c idx now op scripts
    (fun st s cl hinv _ => ⟨book_safelyRunFuncX ccfg idx now st s cl op (scripts s) hinv, fun _ _ => trivial⟩)
    st st.servers h).1

end HashCall
