import Pymc.Model.Aws
import Pymc.Proofs.WireDec
import Pymc.Proofs.WireLit
import Pymc.Proofs.ReadersSegment
import Pymc.Proofs.AwsSplit
/-! Helper lemmas for C19: where the end token `\n\r\nEND\r\n` first occurs in a rendered reply, and what
`_get_nodes_list` makes of the segment before it. -/
namespace Aws
open Bytes Wire Readers

theorem lit_END : ofString "END" = [69, 78, 68] := by rw [ofString_eq]; decide
theorem lit_ERROR : ofString "ERROR" = [69, 82, 82, 79, 82] := by rw [ofString_eq]; decide
theorem lit_CONFIG : ofString "CONFIG cluster 0 " =
    [67, 79, 78, 70, 73, 71, 32, 99, 108, 117, 115, 116, 101, 114, 32, 48, 32] := by
  rw [ofString_eq]; decide

theorem endToken_eq : endToken = [10, 13, 10, 69, 78, 68, 13, 10] := by
  simp [endToken, lit_END, LF, CR, CRLF]

/-! ## skipping over bytes that cannot start the token -/

theorem findSub_endToken_skip (a : UInt8) (rest : Bytes) (h : a ≠ LF) :
    findSub endToken (a :: rest) = (findSub endToken rest).map (· + 1) := by
  have h' : ¬ (10 : UInt8) = a := fun e => h (by simp [LF, ← e])
  simp [findSub, endToken_eq, List.isPrefixOf, h']

theorem findSub_endToken_skip_LF (b : UInt8) (rest : Bytes) (h : b ≠ CR) :
    findSub endToken (LF :: b :: rest) = (findSub endToken (b :: rest)).map (· + 1) := by
  have h' : ¬ (13 : UInt8) = b := fun e => h (by simp [CR, ← e])
  simp [findSub, endToken_eq, List.isPrefixOf, h', LF]

theorem findSub_endToken_skip_many (p rest : Bytes) (h : ∀ x ∈ p, x ≠ LF) :
    findSub endToken (p ++ rest) = (findSub endToken rest).map (· + p.length) := by
  induction p with
  | nil => simp
  | cons a p ih =>
    rw [List.cons_append, findSub_endToken_skip a _ (h a (by simp)), ih (fun x hx => h x (by simp [hx]))]
    cases findSub endToken rest <;> simp; omega

theorem findSub_endToken_here (extra : Bytes) : findSub endToken (endToken ++ extra) = some 0 := by
  simp [findSub, endToken_eq, List.isPrefixOf]

/-- after a line feed, a line without line breaks, then the token: the token is found right after the line -/
theorem findSub_endToken_line (l extra : Bytes) (hl : ∀ x ∈ l, x ≠ LF ∧ x ≠ CR) :
    findSub endToken (LF :: (l ++ (endToken ++ extra))) = some (l.length + 1) := by
  cases l with
  | nil =>
    have : endToken ++ extra = LF :: (CR :: LF :: 69 :: 78 :: 68 :: 13 :: 10 :: extra) := by
      simp [endToken_eq, LF, CR]
    rw [List.nil_append, this, findSub_endToken_skip_LF LF _ (by decide), ← this,
      findSub_endToken_here]
    rfl
  | cons c l' =>
    rw [List.cons_append, findSub_endToken_skip_LF c _ (hl c (by simp)).2, ← List.cons_append,
      findSub_endToken_skip_many (c :: l') _ (fun x hx => (hl x hx).1), findSub_endToken_here]
    simp

theorem natDec_no_LF (n : Nat) : ∀ x ∈ natDec n, x ≠ LF := fun x hx => by
  have := isDigit_ne (natDec_mem_isDigit n x hx); simpa [LF] using this.2.2.1

/-- the bytes of a rendered reply before the end token -/
def replyPre (version : Nat) (nodes : List Node) : Bytes :=
  (ofString "CONFIG cluster 0 " ++
      natDec (natDec version ++ [LF] ++ configLine nodes ++ [LF]).length ++ [CR]) ++
    LF :: (natDec version ++ LF :: configLine nodes)

theorem renderReply_eq (version : Nat) (nodes : List Node) :
    renderReply version nodes = replyPre version nodes ++ endToken := by
  simp [renderReply, replyPre, endToken, CRLF, CR, LF]

/-- header, line feed, a non-empty first line that does not start with CR, line feed, last line, token -/
theorem findSub_endToken_two_lines (head V line extra : Bytes) (hhead : ∀ x ∈ head, x ≠ LF)
    (hVne : V ≠ []) (hV : ∀ x ∈ V, x ≠ LF ∧ x ≠ CR) (hl : ∀ x ∈ line, x ≠ LF ∧ x ≠ CR) :
    findSub endToken ((head ++ LF :: (V ++ LF :: line)) ++ (endToken ++ extra)) =
      some (head ++ LF :: (V ++ LF :: line)).length := by
  cases V with
  | nil => exact absurd rfl hVne
  | cons d v =>
    have e : (head ++ LF :: (d :: v ++ LF :: line)) ++ (endToken ++ extra) =
        head ++ (LF :: d :: (v ++ (LF :: (line ++ (endToken ++ extra))))) := by simp
    have e2 : d :: (v ++ (LF :: (line ++ (endToken ++ extra)))) =
        (d :: v) ++ (LF :: (line ++ (endToken ++ extra))) := by simp
    rw [e, findSub_endToken_skip_many _ _ hhead, findSub_endToken_skip_LF d _ (hV d (by simp)).2, e2,
      findSub_endToken_skip_many (d :: v) _ (fun x hx => (hV x hx).1), findSub_endToken_line _ _ hl]
    simp; omega

/-- the first occurrence of the end token in a rendered reply (followed by anything) is at its end -/
theorem findSub_renderReply (version : Nat) (nodes : List Node) (extra : Bytes)
    (hl : ∀ x ∈ configLine nodes, x ≠ LF ∧ x ≠ CR) :
    findSub endToken (renderReply version nodes ++ extra) = some (replyPre version nodes).length := by
  have hV : ∀ x ∈ natDec version, x ≠ LF ∧ x ≠ CR := fun x hx => by
    have := isDigit_ne (natDec_mem_isDigit version x hx)
    exact ⟨by simpa [LF] using this.2.2.1, by simpa [CR] using this.2.1⟩
  have hhead : ∀ x ∈ ofString "CONFIG cluster 0 " ++
      natDec (natDec version ++ [LF] ++ configLine nodes ++ [LF]).length ++ [CR], x ≠ LF := by
    intro x hx
    simp only [List.mem_append, List.mem_singleton] at hx
    rcases hx with (hx | hx) | rfl
    · rw [lit_CONFIG] at hx; revert x; decide
    · exact natDec_no_LF _ x hx
    · decide
  rw [renderReply_eq, List.append_assoc, replyPre]
  exact findSub_endToken_two_lines _ _ _ _ hhead (natDec_ne_nil version) hV hl

theorem splitSegment_of_findSub (tok pre extra : Bytes)
    (h : findSub tok (pre ++ tok ++ extra) = some pre.length) :
    splitSegment tok (pre ++ tok ++ extra) = some (pre, extra) := by
  rw [List.append_assoc] at h ⊢
  simp [splitSegment, h]

theorem splitSegment_renderReply (version : Nat) (nodes : List Node) (extra : Bytes)
    (hl : ∀ x ∈ configLine nodes, x ≠ LF ∧ x ≠ CR) :
    splitSegment endToken (renderReply version nodes ++ extra) = some (replyPre version nodes, extra) := by
  have := findSub_renderReply version nodes extra hl
  rw [renderReply_eq] at this ⊢
  exact splitSegment_of_findSub _ _ _ this
end Aws
