import Pymc.Proofs.PoolConcTimed
/-! State invariant of the timed micro-step model of pool.py (stamps written inside the lock hold). -/
set_option linter.unusedSimpArgs false
namespace PoolConcT
open PoolConc

/-- a thread owes one of the three clock/stamp statements only at the program counter that follows the
`PoolConc` micro-step after which pool.py executes it (all three are strictly inside a `with self._lock`) -/
def PendOk (s : TState) (u : Tid) : Prop :=
  match s.pend u with
  | .none => True
  | .readNow => ∃ f, (s.base.th u).pc = .getLoop f
  | .stampGet o => ∃ f, (s.base.th u).pc = .getRel o f
  | .stampRel _ => (s.base.th u).pc = .relRel

structure InvT (s : TState) : Prop where
  base : Inv s.base
  pendOk : ∀ u, PendOk s u
  nowLe : ∀ t, s.now t ≤ s.clock
  stampLe : ∀ o, s.lastUsed o ≤ s.clock

theorem invT_init (programs : List Program) (m i : Nat) : InvT (initT programs m i) where
  base := inv_init programs m
  pendOk := by intro u; simp [PendOk, initT]
  nowLe := by intro t; simp [initT]
  stampLe := by intro o; simp [initT]

theorem pendAfter_ok {b b' : State} {t : Tid} {lb : Label} (hs : step b t lb = some b') :
    match pendAfter (b.th t).pc (b.th t).prog lb with
    | .none => True
    | .readNow => ∃ f, (b'.th t).pc = .getLoop f
    | .stampGet o => ∃ f, (b'.th t).pc = .getRel o f
    | .stampRel _ => (b'.th t).pc = .relRel := by
  step_cases hs
  all_goals (simp only [goto, finish, setTh, close]; simp_all [pendAfter])

theorem pendOk_lock {s : TState} (h : InvT s) (u : Tid) (hp : s.pend u ≠ .none) : s.base.lock = some u := by
  have := h.pendOk u
  unfold PendOk at this
  apply (h.base.mutex u).mp
  split at this
  · next e => exact absurd e hp
  · obtain ⟨f, e⟩ := this; rw [e]; rfl
  · obtain ⟨f, e⟩ := this; rw [e]; rfl
  · rw [this]; rfl

theorem invT_step {s s' : TState} {l : TLabel} (h : InvT s) (hs : stepT false s l = some s') : InvT s' := by
  cases stepRel_of_stepT hs with
  | tick d =>
    exact ⟨h.base, h.pendOk, fun t => Nat.le_trans (h.nowLe t) (Nat.le_add_right _ _),
      fun o => Nat.le_trans (h.stampLe o) (Nat.le_add_right _ _)⟩
  | base t lb b l hl hp hb =>
    refine ⟨inv_step _ _ _ _ h.base hb, ?_, h.nowLe, h.stampLe⟩
    intro u
    by_cases hu : u = t
    · subst hu
      have := pendAfter_ok hb
      simp only [PendOk, upd, if_true]
      exact this
    · have h1 := h.pendOk u
      simp only [PendOk, upd, hu, if_false, th_other_step hb u hu] at h1 ⊢
      exact h1
  | readNow t hp =>
    refine ⟨h.base, ?_, ?_, h.stampLe⟩
    · intro u
      by_cases hu : u = t
      · subst hu; simp [PendOk, upd]
      · have h1 := h.pendOk u
        simp only [PendOk, upd, hu, if_false] at h1 ⊢
        exact h1
    · intro u
      by_cases hu : u = t
      · subst hu; simp [upd]
      · simp only [upd, hu, if_false]; exact h.nowLe u
  | stampGet t o hp =>
    refine ⟨h.base, ?_, h.nowLe, ?_⟩
    · intro u
      by_cases hu : u = t
      · subst hu; simp [PendOk, upd]
      · have h1 := h.pendOk u
        simp only [PendOk, upd, hu, if_false] at h1 ⊢
        exact h1
    · intro x
      by_cases hx : x = o
      · subst hx; simp only [upd, if_true]; exact h.nowLe t
      · simp only [upd, hx, if_false]; exact h.stampLe x
  | stampRel t o hp _ =>
    refine ⟨h.base, ?_, h.nowLe, ?_⟩
    · intro u
      by_cases hu : u = t
      · subst hu; simp [PendOk, upd]
      · have h1 := h.pendOk u
        simp only [PendOk, upd, hu, if_false] at h1 ⊢
        exact h1
    · intro x
      by_cases hx : x = o
      · subst hx; simp [upd]
      · simp only [upd, hx, if_false]; exact h.stampLe x
  | leaveFirst t o b _ ho _ _ => exact absurd ho (by decide)

theorem invT_run {s s' : TState} {ls : List TLabel} (h : InvT s) (hr : runT false s ls = some s') : InvT s' := by
  induction ls generalizing s with
  | nil => simp [runT] at hr; subst hr; exact h
  | cons l rest ih =>
    simp only [runT] at hr
    cases h1 : stepT false s l with
    | none => simp [h1] at hr
    | some s1 => simp only [h1] at hr; exact ih (invT_step h h1) hr

theorem invT_reachable {programs : List Program} {m i : Nat} {s : TState} (h : ReachableT programs m i s) : InvT s := by
  obtain ⟨ls, hr⟩ := h
  exact invT_run (invT_init programs m i) hr

/-- `idle_timeout` never changes -/
theorem idleTimeout_step {outside : Bool} {s s' : TState} {l : TLabel} (hs : stepT outside s l = some s') :
    s'.idleTimeout = s.idleTimeout := by
  cases stepRel_of_stepT hs <;> rfl

/-- the clock never goes back -/
theorem clock_mono_step {outside : Bool} {s s' : TState} {l : TLabel} (hs : stepT outside s l = some s') :
    s.clock ≤ s'.clock := by
  cases stepRel_of_stepT hs <;> simp

end PoolConcT
