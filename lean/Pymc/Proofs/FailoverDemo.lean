import Pymc.Model.Failover
/-! Concrete configurations and histories used by the non-vacuity examples and the counterexample of C13. -/
namespace Failover

/-- `retry_attempts=2, retry_timeout=10, dead_timeout=60`, exceptions propagate -/
def demoCfg : Cfg := { ra := 2, rt := 10, dt := 60, ignoreExc := false }

/-- the same with `ignore_exc=True` -/
def demoCfgIgnore : Cfg := { ra := 2, rt := 10, dt := 60, ignoreExc := true }

/-- no retries: `retry_attempts=0` -/
def demoCfgNoRetry : Cfg := { ra := 0, rt := 10, dt := 60, ignoreExc := false }

/-- a single-key call at time `t` on a key preferring server 0 then 1, while server 0 raises OSError -/
def getDown (t : Time) : Event (List Srv) :=
  { now := t, env := fun s => if s = 0 then .oserror else .ok, op := .runCmd [0, 1] }

/-- the same call while every server is healthy -/
def getUp (t : Time) : Event (List Srv) :=
  { now := t, env := fun _ => .ok, op := .runCmd [0, 1] }

/-- a `set_many` of one key at time `t` while server 0 raises OSError -/
def setManyDown (t : Time) : Event (List Srv) :=
  { now := t, env := fun s => if s = 0 then .oserror else .ok, op := .setMany [[0, 1]] }

/-- server 0 down from the start, one call at each of the listed times -/
def demoHistory : List (Event (List Srv)) := [0, 5, 11, 12, 22, 22, 22, 30, 90, 200].map getDown

/-- the log of a history from the two-server client built at time 0 -/
def demoLog (c : Cfg) (evs : List (Event (List Srv))) : List Contact :=
  contactsOf (run c prefRoute (init [0, 1] 0) evs).2

def demoState (c : Cfg) (evs : List (Event (List Srv))) : State :=
  (run c prefRoute (init [0, 1] 0) evs).1

end Failover
