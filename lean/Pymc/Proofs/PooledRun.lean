import Pymc.Proofs.PooledStep
/-!
# Sequential pool: runs.  The state after the first `n` calls of a history `evs` from `s` is
`(run cfg s (evs.take n)).1`; the observation of call number `i` (0-based) is `(run cfg s evs).2[i]?`.
-/
namespace Pooled

variable {cfg : Cfg} {s : St}

theorem run_cons_fst (now : Nat) (b : Body) (rest : List (Nat × Body)) :
    (run cfg s ((now, b) :: rest)).1 = (run cfg (call cfg s now b).1 rest).1 := rfl

theorem run_cons_snd (now : Nat) (b : Body) (rest : List (Nat × Body)) :
    (run cfg s ((now, b) :: rest)).2 = (call cfg s now b).2 :: (run cfg (call cfg s now b).1 rest).2 := rfl

theorem run_append_fst (a b : List (Nat × Body)) :
    (run cfg s (a ++ b)).1 = (run cfg (run cfg s a).1 b).1 := by
  induction a generalizing s with
  | nil => rfl
  | cons e a ih => obtain ⟨now, bd⟩ := e; simp only [List.cons_append, run_cons_fst, ih]

theorem run_append_snd (a b : List (Nat × Body)) :
    (run cfg s (a ++ b)).2 = (run cfg s a).2 ++ (run cfg (run cfg s a).1 b).2 := by
  induction a generalizing s with
  | nil => rfl
  | cons e a ih =>
    obtain ⟨now, bd⟩ := e
    simp only [List.cons_append, run_cons_fst, run_cons_snd, ih]

theorem run_length (evs : List (Nat × Body)) : (run cfg s evs).2.length = evs.length := by
  induction evs generalizing s with
  | nil => rfl
  | cons e a ih => obtain ⟨now, bd⟩ := e; simp [run_cons_snd, ih]

/-- the state after `i+1` calls is the state after `i` calls followed by call number `i` -/
theorem run_take_succ {evs : List (Nat × Body)} {i now : Nat} {b : Body} (h : evs[i]? = some (now, b)) :
    (run cfg s (evs.take (i + 1))).1 = (call cfg (run cfg s (evs.take i)).1 now b).1 := by
  rw [List.take_add_one, h, run_append_fst]
  rfl

/-- past the end of the history nothing changes -/
theorem run_take_none {evs : List (Nat × Body)} {i : Nat} (h : evs[i]? = none) :
    (run cfg s (evs.take (i + 1))).1 = (run cfg s (evs.take i)).1 := by
  rw [List.take_add_one, h]; simp

/-- observation number `i` is the observation of call number `i` made from the state after `i` calls -/
theorem run_obs {evs : List (Nat × Body)} {i now : Nat} {b : Body} (h : evs[i]? = some (now, b)) :
    (run cfg s evs).2[i]? = some (call cfg (run cfg s (evs.take i)).1 now b).2 := by
  induction evs generalizing s i with
  | nil => simp at h
  | cons e a ih =>
    obtain ⟨now', bd⟩ := e
    cases i with
    | zero =>
      simp only [List.getElem?_cons_zero, Option.some.injEq, Prod.mk.injEq] at h
      obtain ⟨rfl, rfl⟩ := h
      simp [run_cons_snd]; rfl
    | succ i =>
      simp only [List.getElem?_cons_succ] at h
      simp only [run_cons_snd, List.getElem?_cons_succ, List.take_succ_cons, run_cons_fst]
      exact ih h

/-- conversely every observation comes from an event -/
theorem run_obs_inv {evs : List (Nat × Body)} {i : Nat} {o : CallObs} (h : (run cfg s evs).2[i]? = some o) :
    ∃ now b, evs[i]? = some (now, b) ∧ o = (call cfg (run cfg s (evs.take i)).1 now b).2 := by
  have hi : i < evs.length := by
    have := (List.getElem?_eq_some_iff.mp h).1
    rwa [run_length] at this
  have he : evs[i]? = some (evs[i].1, evs[i].2) := by simp [hi]
  refine ⟨_, _, he, ?_⟩
  rw [run_obs he] at h
  exact (Option.some.inj h).symm

theorem inv_run (evs : List (Nat × Body)) (h : Inv s) : Inv (run cfg s evs).1 := by
  induction evs generalizing s with
  | nil => exact h
  | cons e a ih => obtain ⟨now, bd⟩ := e; rw [run_cons_fst]; exact ih (inv_call now bd h)

theorem inv_at (evs : List (Nat × Body)) (n : Nat) : Inv (run cfg {} (evs.take n)).1 :=
  inv_run _ inv_init

/-- `closed` only grows along a run -/
theorem closed_mono (h : Inv s) (evs : List (Nat × Body)) {n m k : Nat} (hnm : n ≤ m)
    (hk : k ∈ (run cfg s (evs.take n)).1.closed) : k ∈ (run cfg s (evs.take m)).1.closed := by
  induction hnm with
  | refl => exact hk
  | @step m _ ih =>
    cases he : evs[m]? with
    | none => rw [run_take_none he]; exact ih
    | some e =>
      obtain ⟨now, b⟩ := e
      rw [run_take_succ he]
      obtain ⟨l, hl⟩ := (call_facts (cfg := cfg) now b (inv_run (evs.take m) h)).1
      rw [hl]; exact List.mem_append_left _ ih

/-- `nextConn` only grows along a run -/
theorem nextConn_mono (h : Inv s) (evs : List (Nat × Body)) {n m : Nat} (hnm : n ≤ m) :
    (run cfg s (evs.take n)).1.nextConn ≤ (run cfg s (evs.take m)).1.nextConn := by
  induction hnm with
  | refl => exact Nat.le_refl _
  | @step m _ ih =>
    cases he : evs[m]? with
    | none => rw [run_take_none he]; exact ih
    | some e =>
      obtain ⟨now, b⟩ := e
      rw [run_take_succ he]
      exact Nat.le_trans ih (call_facts (cfg := cfg) now b (inv_run (evs.take m) h)).2.1

/-- a connection that is closed after `n` calls carries no later call -/
theorem closed_never_io (h : Inv s) (evs : List (Nat × Body)) {n j k : Nat} (hnj : n ≤ j)
    (hk : k ∈ (run cfg s (evs.take n)).1.closed) {o : CallObs} (ho : (run cfg s evs).2[j]? = some o) :
    o.io ≠ some k := by
  obtain ⟨now, b, he, rfl⟩ := run_obs_inv ho
  intro hio
  exact (call_facts (cfg := cfg) now b (inv_run (evs.take j) h)).2.2.1 k hio (closed_mono h evs hnj hk)

end Pooled
