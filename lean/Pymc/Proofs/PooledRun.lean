import Pymc.Proofs.PooledStep
/-!
# Sequential pool: runs.  The state after the first `n` calls of a history `evs` from `s` is
`(runT cfg s (evs.take n)).1`; the observation of call number `i` (0-based) is `(runT cfg s evs).2[i]?`.
-/
namespace Pooled

variable {cfg : Cfg} {s : St}

theorem runT_cons_fst (now fin : Nat) (b : Body) (rest : List (Nat × Nat × Body)) :
    (runT cfg s ((now, fin, b) :: rest)).1 = (runT cfg (callT cfg s now fin b).1 rest).1 := rfl

theorem runT_cons_snd (now fin : Nat) (b : Body) (rest : List (Nat × Nat × Body)) :
    (runT cfg s ((now, fin, b) :: rest)).2 = (callT cfg s now fin b).2 :: (runT cfg (callT cfg s now fin b).1 rest).2 := rfl

theorem runT_append_fst (a b : List (Nat × Nat × Body)) :
    (runT cfg s (a ++ b)).1 = (runT cfg (runT cfg s a).1 b).1 := by
  induction a generalizing s with
  | nil => rfl
  | cons e a ih => obtain ⟨now, fin, bd⟩ := e; simp only [List.cons_append, runT_cons_fst, ih]

theorem runT_append_snd (a b : List (Nat × Nat × Body)) :
    (runT cfg s (a ++ b)).2 = (runT cfg s a).2 ++ (runT cfg (runT cfg s a).1 b).2 := by
  induction a generalizing s with
  | nil => rfl
  | cons e a ih =>
    obtain ⟨now, fin, bd⟩ := e
    simp only [List.cons_append, runT_cons_fst, runT_cons_snd, ih]

theorem runT_length (evs : List (Nat × Nat × Body)) : (runT cfg s evs).2.length = evs.length := by
  induction evs generalizing s with
  | nil => rfl
  | cons e a ih => obtain ⟨now, fin, bd⟩ := e; simp [runT_cons_snd, ih]

/-- the state after `i+1` calls is the state after `i` calls followed by call number `i` -/
theorem runT_take_succ {evs : List (Nat × Nat × Body)} {i now fin : Nat} {b : Body} (h : evs[i]? = some (now, fin, b)) :
    (runT cfg s (evs.take (i + 1))).1 = (callT cfg (runT cfg s (evs.take i)).1 now fin b).1 := by
  rw [List.take_add_one, h, runT_append_fst]
  rfl

/-- past the end of the history nothing changes -/
theorem runT_take_none {evs : List (Nat × Nat × Body)} {i : Nat} (h : evs[i]? = none) :
    (runT cfg s (evs.take (i + 1))).1 = (runT cfg s (evs.take i)).1 := by
  rw [List.take_add_one, h]; simp

/-- observation number `i` is the observation of call number `i` made from the state after `i` calls -/
theorem runT_obs {evs : List (Nat × Nat × Body)} {i now fin : Nat} {b : Body} (h : evs[i]? = some (now, fin, b)) :
    (runT cfg s evs).2[i]? = some (callT cfg (runT cfg s (evs.take i)).1 now fin b).2 := by
  induction evs generalizing s i with
  | nil => simp at h
  | cons e a ih =>
    obtain ⟨now', fin', bd⟩ := e
    cases i with
    | zero =>
      simp only [List.getElem?_cons_zero, Option.some.injEq, Prod.mk.injEq] at h
      obtain ⟨rfl, rfl, rfl⟩ := h
      simp [runT_cons_snd]; rfl
    | succ i =>
      simp only [List.getElem?_cons_succ] at h
      simp only [runT_cons_snd, List.getElem?_cons_succ, List.take_succ_cons, runT_cons_fst]
      exact ih h

/-- conversely every observation comes from an event -/
theorem runT_obs_inv {evs : List (Nat × Nat × Body)} {i : Nat} {o : CallObs} (h : (runT cfg s evs).2[i]? = some o) :
    ∃ now fin b, evs[i]? = some (now, fin, b) ∧ o = (callT cfg (runT cfg s (evs.take i)).1 now fin b).2 := by
  have hi : i < evs.length := by
    have := (List.getElem?_eq_some_iff.mp h).1
    rwa [runT_length] at this
  have he : evs[i]? = some (evs[i].1, evs[i].2.1, evs[i].2.2) := by simp [hi]
  refine ⟨_, _, _, he, ?_⟩
  rw [runT_obs he] at h
  exact (Option.some.inj h).symm

theorem inv_runT (evs : List (Nat × Nat × Body)) (h : Inv s) : Inv (runT cfg s evs).1 := by
  induction evs generalizing s with
  | nil => exact h
  | cons e a ih => obtain ⟨now, fin, bd⟩ := e; rw [runT_cons_fst]; exact ih (inv_callT now fin bd h)

theorem inv_at (evs : List (Nat × Nat × Body)) (n : Nat) : Inv (runT cfg {} (evs.take n)).1 :=
  inv_runT _ inv_init

/-- `closed` only grows along a run -/
theorem closed_mono (h : Inv s) (evs : List (Nat × Nat × Body)) {n m k : Nat} (hnm : n ≤ m)
    (hk : k ∈ (runT cfg s (evs.take n)).1.closed) : k ∈ (runT cfg s (evs.take m)).1.closed := by
  induction hnm with
  | refl => exact hk
  | @step m _ ih =>
    cases he : evs[m]? with
    | none => rw [runT_take_none he]; exact ih
    | some e =>
      obtain ⟨now, fin, b⟩ := e
      rw [runT_take_succ he]
      obtain ⟨l, hl⟩ := (callT_facts (cfg := cfg) now fin b (inv_runT (evs.take m) h)).1
      rw [hl]; exact List.mem_append_left _ ih

/-- `nextConn` only grows along a run -/
theorem nextConn_mono (h : Inv s) (evs : List (Nat × Nat × Body)) {n m : Nat} (hnm : n ≤ m) :
    (runT cfg s (evs.take n)).1.nextConn ≤ (runT cfg s (evs.take m)).1.nextConn := by
  induction hnm with
  | refl => exact Nat.le_refl _
  | @step m _ ih =>
    cases he : evs[m]? with
    | none => rw [runT_take_none he]; exact ih
    | some e =>
      obtain ⟨now, fin, b⟩ := e
      rw [runT_take_succ he]
      exact Nat.le_trans ih (callT_facts (cfg := cfg) now fin b (inv_runT (evs.take m) h)).2.1

/-- a connection that is closed after `n` calls carries no later call -/
theorem closed_never_io (h : Inv s) (evs : List (Nat × Nat × Body)) {n j k : Nat} (hnj : n ≤ j)
    (hk : k ∈ (runT cfg s (evs.take n)).1.closed) {o : CallObs} (ho : (runT cfg s evs).2[j]? = some o) :
    o.io ≠ some k := by
  obtain ⟨now, fin, b, he, rfl⟩ := runT_obs_inv ho
  intro hio
  exact (callT_facts (cfg := cfg) now fin b (inv_runT (evs.take j) h)).2.2.1 k hio (closed_mono h evs hnj hk)

/-- an instantaneous call as a timed one -/
def lift (e : Nat × Body) : Nat × Nat × Body := (e.1, e.1, e.2)

theorem run_eq_runT (evs : List (Nat × Body)) : run cfg s evs = runT cfg s (evs.map lift) := by
  induction evs generalizing s with
  | nil => rfl
  | cons e a ih =>
    obtain ⟨now, b⟩ := e
    simp only [run, runT, List.map_cons, lift, call, ih]

theorem run_take_eq (evs : List (Nat × Body)) (n : Nat) :
    run cfg s (evs.take n) = runT cfg s ((evs.map lift).take n) := by
  rw [run_eq_runT, List.map_take]

theorem lift_get {evs : List (Nat × Body)} {i now : Nat} {b : Body} (h : evs[i]? = some (now, b)) :
    (evs.map lift)[i]? = some (now, now, b) := by
  simp [h, lift]

end Pooled
