import Pymc.Model.HashPooledCallMany
import Pymc.Proofs.HashPooledCall
import Pymc.Proofs.HashInnerMany
/-!
# `HashClient ∘ PooledClient ∘ Client`, multi-key operations: the invariants of the pools

The generic development for general calls (`HashInnerMany.lean`: `callGM_inv`, `runGM_inv`, `getManyG_final`,
`setManyG_final`) instantiated with the pooled contact (`HashPooledCall.pooled`): every batch that reaches a server is one
`PooledCall.callP` on the pool registered for it, so

* C01: `PooledCall.PipesClean` / `PipesQuiet` are invariants of every registered pool through `get_many` / `gets_many`,
  `set_many` and `delete_many`, and every inner `Client.call` of public call `i` sees only what call `i` provoked
  (`runMP_clean`, `runMP_quiet`) — a batch of legal keys is owed one fetch reply whatever it holds
  (`HashCall.owed_batchCall`), so the framing hypothesis is `HashCall.MOp.WellFramed` / `FaultFramed`, about the scripts;
* C09: `PoolOK` (coherence and `Pooled.Inv`) is an invariant of every registered pool (`runMP_poolsOK`); one pooled call on
  a pool that satisfies it conserves the pool (`PooledCall.callP_conserved`: nobody is checked out afterwards; the client
  of a call that raised is closed and gone, its connection is closed; the client of a call that returned is the idle
  client again), for every contact of a public call (`runMP_contacts`) and — for `get_many` / `set_many` — of the pool
  registered for the batch's server when the public call is over (`callMP_final`).
-/
namespace PooledCall
open Exchange Client Framing

/-- in a pool in which nobody is checked out and at most one client is idle, `get()` that hands out a client leaves no
idle client and exactly that client checked out -/
theorem get_shape {cfg : Pooled.Cfg} {s s1 : St} {now : Nat} {cl : IClient} (hu : s.used = []) (hf : s.free.length ≤ 1)
    (h : get cfg s now = (s1, some cl)) : s1.free = [] ∧ s1.used = [cl] := by
  obtain ⟨free, used, nc, nn, closed⟩ := s
  simp only at hu hf
  subst hu
  match free, hf with
  | [], _ =>
    simp only [get, popFresh, List.length_nil, List.nil_append] at h
    split at h
    · simp at h
    · simp only [Prod.mk.injEq, Option.some.injEq] at h
      obtain ⟨rfl, rfl⟩ := h
      exact ⟨rfl, rfl⟩
  | [c0], _ =>
    by_cases hfr : Pooled.clock cfg now - c0.lastUsed ≤ cfg.idleTimeout
    · simp only [get, popFresh, hfr, if_true, List.nil_append, Prod.mk.injEq, Option.some.injEq] at h
      obtain ⟨rfl, rfl⟩ := h
      exact ⟨rfl, rfl⟩
    · simp only [get, popFresh, hfr, if_false, List.length_nil, List.nil_append] at h
      split at h
      · simp at h
      · simp only [Prod.mk.injEq, Option.some.injEq] at h
        obtain ⟨rfl, rfl⟩ := h
        exact ⟨rfl, rfl⟩

/-- **what one pooled call leaves behind** in its pool `p'`, given what it showed (`po`): nobody is checked out; if the
method raised, no client is idle (the one that served was destroyed), it has no socket any more, and the connection
its commands went out on is closed; if the method returned, the client that served is the idle client again, as the
call left it; if the pool could not hand out a client, none served -/
structure Conserved (p' : St) (po : PObs) : Prop where
  used_nil : p'.used = []
  failed : ∀ e, po.res = some (.error e) →
    p'.free = [] ∧ po.sockOpenAfter = false ∧ po.connAfter = none ∧ ∀ k, po.io = some k → k ∈ p'.closed
  healthy : ∀ r, po.res = some (.ok r) →
    ∃ x, p'.free = [x] ∧ po.client = some x.id ∧ x.sockOpen = po.sockOpenAfter ∧ x.conn = po.connAfter
  exhausted : po.res = none → po.client = none

/-- one call of a `PooledClient(ignore_exc=False)` other than `quit` on a pool in which nobody is checked out and at
most one client is idle conserves the pool -/
theorem callP_conserved (ccfg : Wire.Cfg) (pcfg : Pooled.Cfg) (s : St) (idx now fin : Nat) (c : Call) (sc : Script)
    (hu : s.used = []) (hf : s.free.length ≤ 1) (hq : isQuit c = false) :
    Conserved (callP ccfg pcfg false s idx now fin c sc).1 (callP ccfg pcfg false s idx now fin c sc).2 := by
  rcases hg : get pcfg s now with ⟨s1, _ | cl⟩
  · obtain ⟨h1, -⟩ := get_none hg
    simp only [callP, hg]
    exact ⟨by rw [h1, hu], (fun e h => by cases h), (fun r h => by cases h), fun _ => rfl⟩
  · obtain ⟨h1, h2⟩ := get_shape hu hf hg
    obtain ⟨free1, used1, nc1, nn1, closed1⟩ := s1
    simp only at h1 h2
    subst h1; subst h2
    simp only [callP, hg, hq, Bool.false_eq_true, if_false]
    generalize stepTagged ccfg idx cl.sockOpen cl.pipe c sc = st
    rcases hres : st.out.res with e | r
    · simp only [swallows, Bool.false_and, Bool.false_eq_true, if_false]
      refine ⟨?_, fun e' _ => ⟨?_, rfl, rfl, fun k hk => ?_⟩, (fun r h => by cases h), (fun h => by cases h)⟩
      · simp [destroy, isUsed, dropUsed]
      · simp [destroy, isUsed, dropUsed]
      · simp only at hk
        simp only [destroy, isUsed, dropUsed, List.any_cons, List.any_nil, decide_true, Bool.or_false, if_true]
        by_cases hio : (st.out.sent.isSome || st.out.connected) = true
        · rw [if_pos hio] at hk
          cases hso : st.out.sockOpen <;> simp [hk, Pooled.connList]
        · rw [if_neg hio] at hk; cases hk
    · refine ⟨?_, (fun e' h => by cases h), fun r' _ => ?_, (fun h => by cases h)⟩
      · simp [release, isUsed, dropUsed]
      · simp only [release, isUsed, dropUsed, List.any_cons, List.any_nil, decide_true, Bool.or_false, if_true,
          List.nil_append]
        exact ⟨_, rfl, rfl, rfl, rfl⟩
end PooledCall

namespace HashPooledCall
open Exchange Client Framing Failover HashInner
open HashCall (MOp batchCall owed_batchCall)

variable {pcfg : Pooled.Cfg}

theorem mem_stepsOf {ob : MPObs pcfg} {stp : Step} (h : stp ∈ stepsOf ob) : ∃ po ∈ pobsOf ob, po.step = some stp := by
  unfold stepsOf at h
  obtain ⟨po, hpo, hs⟩ := List.mem_filterMap.mp h
  exact ⟨po, hpo, hs⟩

theorem mem_pools_of_alookup {st : St pcfg} {s : Srv} {x : Obj (pooled pcfg)} (h : alookup s st.clients = some x) :
    (s, x.id, x.st) ∈ pools st :=
  List.mem_map.mpr ⟨(s, x), mem_of_alookup h, rfl⟩

/-! ## C01: the pipes of the idle inner clients -/

/-- the inner `Client.call` of a pooled call, if any, carries the tag `idx` and has the C01 facts -/
def StepClean (ccfg : Wire.Cfg) (idx : Nat) (po : PooledCall.PObs) : Prop :=
  ∀ stp, po.step = some stp → stp.idx = idx ∧ StepFacts ccfg false stp

def StepQuiet (idx : Nat) (po : PooledCall.PObs) : Prop :=
  ∀ stp, po.step = some stp → stp.idx = idx ∧ StepFactsF stp

theorem stepsOK_clean {RK : Type} (ccfg : Wire.Cfg) (idx : Nat) (now fin : Time) (op : MOp RK) (hwf : op.WellFramed ccfg) :
    StepsOK (I := pooled pcfg) ccfg PooledCall.PipesClean (StepClean ccfg idx) idx now fin op := by
  cases op with
  | cmd rk call sc => exact fun p hp => PooledCall.callP_clean ccfg pcfg false p idx now fin call sc hp hwf
  | getMany gets ks scripts =>
    intro s bks hne hleg p hp
    refine PooledCall.callP_clean ccfg pcfg false p idx now fin (batchCall gets bks) (scripts s) hp ⟨(hwf s).1, ?_⟩
    rw [owed_batchCall ccfg gets bks hne hleg]
    exact (hwf s).2
  | setMany items expire noreply flags scripts =>
    exact fun s b p hp => PooledCall.callP_clean ccfg pcfg false p idx now fin _ _ hp (hwf s b)
  | deleteMany ks noreply =>
    exact fun x hx p hp => PooledCall.callP_clean ccfg pcfg false p idx now fin _ _ hp (hwf x hx)

theorem stepsOK_quiet {RK : Type} (ccfg : Wire.Cfg) (idx : Nat) (now fin : Time) (op : MOp RK) (hff : op.FaultFramed ccfg) :
    StepsOK (I := pooled pcfg) ccfg PooledCall.PipesQuiet (StepQuiet idx) idx now fin op := by
  cases op with
  | cmd rk call sc => exact fun p hp => PooledCall.callP_quiet ccfg pcfg false p idx now fin call sc hp hff
  | getMany gets ks scripts =>
    intro s bks hne hleg p hp
    obtain ⟨pre, post, h1, h2, h3⟩ := hff s
    refine PooledCall.callP_quiet ccfg pcfg false p idx now fin (batchCall gets bks) (scripts s) hp ⟨pre, post, h1, h2, ?_⟩
    rw [owed_batchCall ccfg gets bks hne hleg]
    exact h3
  | setMany items expire noreply flags scripts =>
    exact fun s b p hp => PooledCall.callP_quiet ccfg pcfg false p idx now fin _ _ hp (hff s b)
  | deleteMany ks noreply =>
    exact fun x hx p hp => PooledCall.callP_quiet ccfg pcfg false p idx now fin _ _ hp (hff x hx)

theorem runMP_clean {RK : Type} (ccfg : Wire.Cfg) (c : Cfg) (route : List Srv → RK → Option Srv) (st : St pcfg) (k : Nat)
    (calls : List (MPCall RK)) (hinv : PipesClean st) (hwf : ∀ mc ∈ calls, mc.op.WellFramed ccfg) :
    PipesClean (runMP ccfg pcfg c route st k calls).1 ∧
    ∀ i ob, (runMP ccfg pcfg c route st k calls).2[i]? = some ob → ∀ stp ∈ stepsOf ob,
      stp.idx = k + i ∧ StepFacts ccfg false stp := by
  obtain ⟨h1, h2⟩ := runGM_inv (I := pooled pcfg) ccfg c route st k calls PooledCall.PipesClean (fun idx _ => StepClean ccfg idx)
    PooledCall.pipesClean_init (fun mc hmc idx => stepsOK_clean ccfg idx mc.now mc.fin mc.op (hwf mc hmc)) hinv
  refine ⟨h1, fun i ob hi stp hstp => ?_⟩
  obtain ⟨po, hpo, hs⟩ := mem_stepsOf hstp
  obtain ⟨mc, -, hq⟩ := h2 i ob hi
  exact hq po hpo stp hs

theorem runMP_quiet {RK : Type} (ccfg : Wire.Cfg) (c : Cfg) (route : List Srv → RK → Option Srv) (st : St pcfg) (k : Nat)
    (calls : List (MPCall RK)) (hinv : PipesQuiet st) (hff : ∀ mc ∈ calls, mc.op.FaultFramed ccfg) :
    PipesQuiet (runMP ccfg pcfg c route st k calls).1 ∧
    ∀ i ob, (runMP ccfg pcfg c route st k calls).2[i]? = some ob → ∀ stp ∈ stepsOf ob,
      stp.idx = k + i ∧ StepFactsF stp := by
  obtain ⟨h1, h2⟩ := runGM_inv (I := pooled pcfg) ccfg c route st k calls PooledCall.PipesQuiet (fun idx _ => StepQuiet idx)
    PooledCall.pipesQuiet_init (fun mc hmc idx => stepsOK_quiet ccfg idx mc.now mc.fin mc.op (hff mc hmc)) hinv
  refine ⟨h1, fun i ob hi stp hstp => ?_⟩
  obtain ⟨po, hpo, hs⟩ := mem_stepsOf hstp
  obtain ⟨mc, -, hq⟩ := h2 i ob hi
  exact hq po hpo stp hs

/-! ## C09: the pool invariants and conservation -/

/-- the `_run_cmd` family does not contain `quit` (a broadcast operation of `HashClient`, not modelled) -/
def NoQuit {RK : Type} : MOp RK → Prop
  | .cmd _ call _ => PooledCall.isQuit call = false
  | _ => True

/-- the operation is `get_many` / `gets_many` or `set_many`: every server is handed at most one batch -/
def batched {RK : Type} : MOp RK → Bool
  | .getMany .. => true
  | .setMany .. => true
  | _ => false

theorem isQuit_batchCall (gets : Bool) (ks : List Key.K) : PooledCall.isQuit (batchCall gets ks) = false := by
  cases gets <;> rfl

/-- **one contact is a conserving pooled call**: `po` is what one `PooledCall.callP` (without `ignore_exc`, tagged `idx`)
showed on a pool that satisfies the C09 invariants, and the pool it left satisfies them and is conserved -/
def ContactOK (ccfg : Wire.Cfg) (pcfg : Pooled.Cfg) (idx : Nat) (po : PooledCall.PObs) : Prop :=
  ∃ (p : PooledCall.St) (now fin : Nat) (call : Call) (sc : Script), PoolOK p ∧
    po = (PooledCall.callP ccfg pcfg false p idx now fin call sc).2 ∧
    PoolOK (PooledCall.callP ccfg pcfg false p idx now fin call sc).1 ∧
    PooledCall.Conserved (PooledCall.callP ccfg pcfg false p idx now fin call sc).1 po

theorem poolOK_shape {p : PooledCall.St} (h : PoolOK p) : p.used = [] ∧ p.free.length ≤ 1 :=
  ⟨PooledCall.used_nil_of_proj h.2.used_nil, by rw [← PooledCall.free_length_proj]; exact h.2.free_le⟩

theorem contactOK_callP (ccfg : Wire.Cfg) (idx now fin : Nat) (p : PooledCall.St) (call : Call) (sc : Script) (hp : PoolOK p)
    (hq : PooledCall.isQuit call = false) :
    PoolOK (PooledCall.callP ccfg pcfg false p idx now fin call sc).1 ∧
    ContactOK ccfg pcfg idx (PooledCall.callP ccfg pcfg false p idx now fin call sc).2 := by
  have h1 := poolOK_callP (pcfg := pcfg) ccfg false p idx now fin call sc hp
  obtain ⟨hu, hf⟩ := poolOK_shape hp
  exact ⟨h1, p, now, fin, call, sc, hp, rfl, h1, PooledCall.callP_conserved ccfg pcfg p idx now fin call sc hu hf hq⟩

theorem stepsOK_contact {RK : Type} (ccfg : Wire.Cfg) (idx : Nat) (now fin : Time) (op : MOp RK) (hnq : NoQuit op) :
    StepsOK (I := pooled pcfg) ccfg PoolOK (ContactOK ccfg pcfg idx) idx now fin op := by
  cases op with
  | cmd rk call sc => exact fun p hp => contactOK_callP ccfg idx now fin p call sc hp hnq
  | getMany gets ks scripts =>
    exact fun s bks _ _ p hp => contactOK_callP ccfg idx now fin p _ _ hp (isQuit_batchCall gets bks)
  | setMany items expire noreply flags scripts => exact fun s b p hp => contactOK_callP ccfg idx now fin p _ _ hp rfl
  | deleteMany ks noreply => exact fun x _ p hp => contactOK_callP ccfg idx now fin p _ _ hp rfl

theorem stepsOK_poolOK {RK : Type} (ccfg : Wire.Cfg) (idx : Nat) (now fin : Time) (op : MOp RK) :
    StepsOK (I := pooled pcfg) ccfg PoolOK (fun po => pcfg.maxSize ≠ 0 → po.res ≠ none) idx now fin op := by
  have h : ∀ (p : PooledCall.St) (call : Call) (sc : Script), PoolOK p →
      PoolOK (PooledCall.callP ccfg pcfg false p idx now fin call sc).1 ∧
      (pcfg.maxSize ≠ 0 → (PooledCall.callP ccfg pcfg false p idx now fin call sc).2.res ≠ none) :=
    fun p call sc hp => ⟨poolOK_callP ccfg false p idx now fin call sc hp,
      fun hmax => callP_served ccfg false p idx now fin call sc hp hmax⟩
  cases op with
  | cmd rk call sc => exact fun p hp => h p call sc hp
  | getMany gets ks scripts => exact fun s bks _ _ p hp => h p _ _ hp
  | setMany items expire noreply flags scripts => exact fun s b p hp => h p _ _ hp
  | deleteMany ks noreply => exact fun x _ p hp => h p _ _ hp

/-- the C09 invariants hold of every registered pool after every general run, and — if `max_pool_size` allows one
client — every pool that is asked hands one out -/
theorem runMP_poolsOK {RK : Type} (ccfg : Wire.Cfg) (c : Cfg) (route : List Srv → RK → Option Srv) (st : St pcfg) (k : Nat)
    (calls : List (MPCall RK)) (hinv : PoolsOK st) :
    PoolsOK (runMP ccfg pcfg c route st k calls).1 ∧
    (pcfg.maxSize ≠ 0 → ∀ ob ∈ (runMP ccfg pcfg c route st k calls).2, ∀ po ∈ pobsOf ob, po.res ≠ none) := by
  obtain ⟨h1, h2⟩ := runGM_inv (I := pooled pcfg) ccfg c route st k calls PoolOK
    (fun _ _ po => pcfg.maxSize ≠ 0 → po.res ≠ none) poolOK_init
    (fun mc _ idx => stepsOK_poolOK ccfg idx mc.now mc.fin mc.op) hinv
  refine ⟨h1, fun hmax ob hob po hpo => ?_⟩
  obtain ⟨i, hi⟩ := List.getElem?_of_mem hob
  obtain ⟨mc, -, hq⟩ := h2 i ob hi
  exact hq po hpo hmax

/-- every contact of every call of a general run is a conserving pooled call -/
theorem runMP_contacts {RK : Type} (ccfg : Wire.Cfg) (c : Cfg) (route : List Srv → RK → Option Srv) (st : St pcfg) (k : Nat)
    (calls : List (MPCall RK)) (hinv : PoolsOK st) (hnq : ∀ mc ∈ calls, NoQuit mc.op) :
    ∀ i ob, (runMP ccfg pcfg c route st k calls).2[i]? = some ob → ∀ po ∈ pobsOf ob, ContactOK ccfg pcfg (k + i) po := by
  intro i ob hi po hpo
  obtain ⟨mc, -, hq⟩ := (runGM_inv (I := pooled pcfg) ccfg c route st k calls PoolOK (fun idx _ => ContactOK ccfg pcfg idx)
    poolOK_init (fun mc hmc idx => stepsOK_contact ccfg idx mc.now mc.fin mc.op (hnq mc hmc)) hinv).2 i ob hi
  exact hq po hpo

/-- **after a `get_many` / `gets_many` / `set_many`**, returned or raised: for every batch that was sent, the pool of the
`PooledClient` that was invoked is the one registered for the batch's server when the call is over, it satisfies the C09
invariants, and it is conserved with respect to what its pooled call showed -/
theorem callMP_final {RK : Type} (ccfg : Wire.Cfg) (c : Cfg) (route : List Srv → RK → Option Srv) (st : St pcfg) (idx : Nat)
    (mc : MPCall RK) (hb : batched mc.op = true) (hinv : PoolsOK st) :
    ∀ bo ∈ (callMP ccfg pcfg c route st idx mc).2.batches, ∀ po : PooledCall.PObs, bo.inner = some po →
      ∃ (id : Nat) (p' : PooledCall.St), bo.obj = some id ∧ (bo.server, id, p') ∈ pools (callMP ccfg pcfg c route st idx mc).1 ∧
        PoolOK p' ∧ PooledCall.Conserved p' po := by
  obtain ⟨op, now, fin⟩ := mc
  -- one invocation of either loop: a non-`quit` pooled call
  have hkey : ∀ (p post : PooledCall.St) (o : PooledCall.PObs) (call : Call) (sc : Script), PooledCall.isQuit call = false →
      StepRel (pooled pcfg) ccfg idx now fin call sc p post o → PoolOK p → PoolOK post ∧ PooledCall.Conserved post o := by
    intro p post o call sc hq ⟨h1, h2⟩ hp
    have h1' : post = (PooledCall.callP ccfg pcfg false p idx now fin call sc).1 := h1
    have h2' : o = (PooledCall.callP ccfg pcfg false p idx now fin call sc).2 := h2
    obtain ⟨hu, hf⟩ := poolOK_shape hp
    rw [h1', h2']
    exact ⟨poolOK_callP ccfg false p idx now fin call sc hp, PooledCall.callP_conserved ccfg pcfg p idx now fin call sc hu hf hq⟩
  cases op with
  | cmd rk call sc => cases hb
  | deleteMany ks noreply => cases hb
  | getMany gets ks scripts =>
    intro bo hbo po hpo
    have hR : ∀ p p' o, GetRel (pooled pcfg) ccfg idx now fin gets scripts p p' o → PoolOK p → PoolOK p' ∧ PooledCall.Conserved p' o :=
      fun p p' o ⟨s, bks, h⟩ hp => hkey p p' o _ _ (isQuit_batchCall gets bks) h hp
    obtain ⟨x, post, hpx, hr, hobj, hlk⟩ := getManyG_final (I := pooled pcfg) ccfg c route st idx now fin gets ks scripts PoolOK
      poolOK_init (fun p p' o h hp => (hR p p' o h hp).1) hinv bo hbo po hpo
    exact ⟨x.id, post, hobj, mem_pools_of_alookup hlk, hR _ _ _ hr hpx⟩
  | setMany items expire noreply flags scripts =>
    intro bo hbo po hpo
    have hR : ∀ p p' o, SetRel (pooled pcfg) ccfg idx now fin expire noreply flags scripts p p' o → PoolOK p →
        PoolOK p' ∧ PooledCall.Conserved p' o :=
      fun p p' o ⟨s, b, h⟩ hp => hkey p p' o _ _ rfl h hp
    obtain ⟨x, post, hpx, hr, hobj, hlk⟩ := setManyG_final (I := pooled pcfg) ccfg c route st idx now fin items expire noreply
      flags scripts PoolOK poolOK_init (fun p p' o h hp => (hR p p' o h hp).1) hinv bo hbo po hpo
    exact ⟨x.id, post, hobj, mem_pools_of_alookup hlk, hR _ _ _ hr hpx⟩

/-! ## every inner step is the `Client.call` of an invocation of the public call -/

/-- the invocations `(call, script)` a public call can make on a registered object: the operation itself for a
single-key call; `get_many batch` / `gets_many batch` with the script of some server for `get_many`; `set_many batch …`
with the script of some server for that batch for `set_many`; the `delete` of one of the keys with that key's script for
`delete_many` -/
def InvocationOf {RK : Type} : MOp RK → Call → Script → Prop
  | .cmd _ c sc, call, sc' => call = c ∧ sc' = sc
  | .getMany gets _ scripts, call, sc' => ∃ s ks, call = batchCall gets ks ∧ sc' = scripts s
  | .setMany _ expire noreply flags scripts, call, sc' => ∃ s b, call = .setMany b expire noreply flags ∧ sc' = scripts s b
  | .deleteMany ks noreply, call, sc' => ∃ x ∈ ks, call = .delete x.2.1 noreply ∧ sc' = x.2.2

/-- the inner step of a pooled call, if any, is `stepTagged` for that call on some inner client, and the `PooledClient`
method returned or raised what it did -/
theorem callP_step_spec (ccfg : Wire.Cfg) (p : PooledCall.St) (idx now fin : Nat) (call : Call) (sc : Script) :
    ∀ stp, (PooledCall.callP ccfg pcfg false p idx now fin call sc).2.step = some stp →
      (∃ so left, stp = PooledCall.stepTagged ccfg idx so left call sc) ∧
      (PooledCall.callP ccfg pcfg false p idx now fin call sc).2.res = some stp.out.res := by
  intro stp hstp
  constructor
  · rcases PooledCall.callP_spec ccfg pcfg false p idx now fin call sc with ⟨s1, -, hr⟩ | ⟨s1, cl, -, hs, -, -, -⟩
    · rw [hr] at hstp; simp at hstp
    · rw [hs] at hstp
      exact ⟨cl.sockOpen, cl.pipe, (Option.some.inj hstp).symm⟩
  · rcases (PooledCall.callP_res ccfg pcfg false p idx now fin call sc stp hstp).1 with h' | ⟨e, -, hsw, -⟩
    · exact h'
    · rw [swallows_false] at hsw; cases hsw

/-- what a pooled call of public call `idx` with operation `op` shows about its inner step -/
def StepIs {RK : Type} (ccfg : Wire.Cfg) (idx : Nat) (op : MOp RK) (po : PooledCall.PObs) : Prop :=
  ∀ stp, po.step = some stp →
    ∃ so left call sc, InvocationOf op call sc ∧ stp = PooledCall.stepTagged ccfg idx so left call sc ∧
      po.res = some stp.out.res

theorem stepsOK_stepIs {RK : Type} (ccfg : Wire.Cfg) (idx : Nat) (now fin : Time) (op : MOp RK) :
    StepsOK (I := pooled pcfg) ccfg (fun _ => True) (StepIs ccfg idx op) idx now fin op := by
  have h : ∀ (p : PooledCall.St) (call : Call) (sc : Script), InvocationOf op call sc →
      True ∧ StepIs ccfg idx op (PooledCall.callP ccfg pcfg false p idx now fin call sc).2 := by
    intro p call sc hinvoc
    refine ⟨trivial, fun stp hstp => ?_⟩
    obtain ⟨⟨so, left, h1⟩, h2⟩ := callP_step_spec (pcfg := pcfg) ccfg p idx now fin call sc stp hstp
    exact ⟨so, left, call, sc, hinvoc, h1, h2⟩
  cases op with
  | cmd rk call sc => exact fun p _ => h p call sc ⟨rfl, rfl⟩
  | getMany gets ks scripts => exact fun s bks _ _ p _ => h p _ _ ⟨s, bks, rfl, rfl⟩
  | setMany items expire noreply flags scripts => exact fun s b p _ => h p _ _ ⟨s, b, rfl, rfl⟩
  | deleteMany ks noreply => exact fun x hx p _ => h p _ _ ⟨x, hx, rfl, rfl⟩

/-- every inner step of call number `k + i` of a general run is the inner `Client.call` of one of the invocations the
`i`-th operation of the history can make, on some inner client of some registered pool -/
theorem runMP_steps {RK : Type} (ccfg : Wire.Cfg) (c : Cfg) (route : List Srv → RK → Option Srv) (st : St pcfg) (k : Nat)
    (calls : List (MPCall RK)) :
    ∀ i ob, (runMP ccfg pcfg c route st k calls).2[i]? = some ob →
      ∃ mc, calls[i]? = some mc ∧ ∀ po ∈ pobsOf ob, StepIs ccfg (k + i) mc.op po := by
  intro i ob hi
  exact (runGM_inv (I := pooled pcfg) ccfg c route st k calls (fun _ => True) (fun idx mc => StepIs ccfg idx mc.op) trivial
    (fun mc _ idx => stepsOK_stepIs ccfg idx mc.now mc.fin mc.op) (fun _ _ => trivial)).2 i ob hi

/-- if `max_pool_size` allows one client, no general call ends with the pool's `RuntimeError("Too many objects")` -/
theorem runMP_never_too_many {RK : Type} (ccfg : Wire.Cfg) (c : Cfg) (route : List Srv → RK → Option Srv) (st : St pcfg) (k : Nat)
    (calls : List (MPCall RK)) (hinv : PoolsOK st) (hmax : pcfg.maxSize ≠ 0) :
    ∀ ob ∈ (runMP ccfg pcfg c route st k calls).2, ∀ s, ob.res ≠ .raised s .tooManyObjects := by
  intro ob hob s hraised
  have hserved := (runMP_poolsOK ccfg c route st k calls hinv).2 hmax ob hob
  obtain ⟨i, hi⟩ := List.getElem?_of_mem hob
  have hlen := runGM_length (I := pooled pcfg) ccfg c route st k calls
  have hlt : i < calls.length := by
    rw [← hlen]; exact (List.getElem?_eq_some_iff.mp hi).1
  obtain ⟨-, h2⟩ := runGM_split (I := pooled pcfg) ccfg c route st k calls i calls[i] (List.getElem?_eq_getElem hlt)
  have hob' : ob = (callGM ccfg c route (runGM ccfg c route st k (calls.take i)).1 (k + i) calls[i]).2 := by
    have : (runGM ccfg c route st k calls).2[i]? = some ob := hi
    rw [h2] at this
    exact (Option.some.inj this).symm
  rw [hob'] at hraised
  obtain ⟨po, hpo, hres⟩ := callGM_raised (I := pooled pcfg) ccfg c route _ (k + i) calls[i] s PExc.tooManyObjects hraised
  rw [← hob'] at hpo
  have hne := hserved po hpo
  have hres' : resOf po = .error .tooManyObjects := hres
  unfold resOf at hres'
  rcases hp : po.res with _ | (e | r)
  · exact hne hp
  · rw [hp] at hres'; cases hres'
  · rw [hp] at hres'; cases hres'

/-! ## C13: the outcome of a batch -/

/-- the outcome the abstract model is given for a batch is `HashCall.outcomeOf` of what the `PooledClient` method returned
or raised (`othererror` for the pool's `RuntimeError`), `ok` when the server was not contacted -/
theorem bobs_outcome (bo : BPObs pcfg) :
    bo.outcome = match (bo.inner : Option PooledCall.PObs) with
      | some po => outcomeOfP po.res
      | none => .ok := by
  unfold BObs.outcome
  cases bo.inner with
  | none => rfl
  | some po => exact outcomeOf_pooled po
end HashPooledCall
