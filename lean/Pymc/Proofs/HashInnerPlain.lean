import Pymc.Model.HashInner
/-!
# `HashCall` is the instance `HashInner.plain` of the generic model

`HashInner.lean` is the failover code of `HashCall.lean` with the registered object as a parameter.  Instantiated with one
`Client` per server (`HashInner.plain`: an invocation is `PooledCall.stepTagged`), it *is* the model of `HashCall.lean`:
translating states (`toG`), calls (`toGCall`) and observations (`obsMap`) commutes with every function of the model, in
particular with runs (`runG_plain`).  So the two instances of the generic development — `plain` and
`HashPooledCall.pooled` — are the `use_pooling=False` and `use_pooling=True` `HashClient`s.
-/
namespace HashInner
open Exchange Client Framing Failover

/-- a client object of `HashCall` as a registered object of the plain instance -/
def objOf (cl : HashCall.IClient) : Obj plain := ⟨cl.id, ⟨cl.sockOpen, cl.pipe⟩⟩

def entryOf (x : Srv × HashCall.IClient) : Srv × Obj plain := (x.1, objOf x.2)

/-- a state of `HashCall` as a state of the plain instance -/
def toG (st : HashCall.St) : St plain := ⟨st.fo, st.clients.map entryOf, st.nextClient⟩

def resMap : HashCall.HRes → HRes Exc
  | .value r => .value r
  | .default => .default
  | .raised s e => .raised s e
  | .allDown => .allDown
  | .illegalKey => .illegalKey
  | .internalError => .internalError

def obsMap (ob : HashCall.HObs) : HObs plain := ⟨resMap ob.res, ob.server, ob.client, ob.step⟩

def toGCall {Key : Type} (hc : HashCall.HCall Key) : GCall Key := { rk := hc.rk, call := hc.call, sc := hc.sc, now := hc.now }

/-! ## association lists -/

theorem alookup_map (s : Srv) (l : List (Srv × HashCall.IClient)) :
    alookup s (l.map entryOf) = (alookup s l).map objOf := by
  induction l with
  | nil => rfl
  | cons x r ih =>
    obtain ⟨k, v⟩ := x
    simp only [List.map_cons, entryOf, alookup]
    by_cases h : k = s
    · simp [h]
    · simp only [h, if_false]; exact ih

theorem amem_map (s : Srv) (l : List (Srv × HashCall.IClient)) : amem s (l.map entryOf) = amem s l := by
  simp only [amem, alookup_map]
  cases alookup s l <;> rfl

theorem ainsert_map (s : Srv) (v : HashCall.IClient) (l : List (Srv × HashCall.IClient)) :
    ainsert s (objOf v) (l.map entryOf) = (ainsert s v l).map entryOf := by
  unfold ainsert
  rw [amem_map]
  cases amem s l
  · simp [entryOf]
  · simp only [if_true, List.map_map]
    apply List.map_congr_left
    intro x _
    simp only [Function.comp, entryOf]
    by_cases h : x.1 = s <;> simp [h]

/-! ## the functions of the model -/

theorem newClient_plain (st : HashCall.St) (s : Srv) : toG (HashCall.newClient st s) = newClient (toG st) s := by
  simp only [toG, HashCall.newClient, newClient]
  rw [← ainsert_map]
  rfl

theorem initClients_plain (l : List Srv) (st : HashCall.St) :
    toG (HashCall.initClients l st) = initClients l (toG st) := by
  induction l generalizing st with
  | nil => rfl
  | cons s r ih => simp only [HashCall.initClients, initClients, ih, newClient_plain]

theorem init_plain (servers : List Srv) (t0 : Time) : toG (HashCall.init servers t0) = init plain servers t0 :=
  initClients_plain servers _

theorem reviveAll_plain (l : List Srv) (st : HashCall.St) :
    (HashCall.reviveAll l st).map toG = reviveAll l (toG st) := by
  induction l generalizing st with
  | nil => rfl
  | cons s r ih =>
    simp only [HashCall.reviveAll, reviveAll]
    have hfo : (toG st).fo = st.fo := rfl
    rw [hfo]
    cases aerase s st.fo.dead with
    | none => rfl
    | some d =>
      simp only []
      rw [ih]
      congr 1
      have := newClient_plain st s
      simp only [toG] at this ⊢
      rw [← this]

theorem retryDead_plain (c : Cfg) (now : Time) (st : HashCall.St) :
    (HashCall.retryDead c now st).map toG = retryDead c now (toG st) := by
  unfold HashCall.retryDead retryDead
  have hfo : (toG st).fo = st.fo := rfl
  rw [hfo]
  by_cases h : now - st.fo.lastDeadCheck > c.dt
  · simp only [h, if_true]
    rw [← reviveAll_plain]
    cases HashCall.reviveAll _ st <;> rfl
  · simp only [h, if_false]; rfl

theorem retryIfDead_plain (c : Cfg) (now : Time) (st : HashCall.St) :
    (HashCall.retryIfDead c now st).map toG = retryIfDead c now (toG st) := by
  unfold HashCall.retryIfDead retryIfDead
  have hfo : (toG st).fo = st.fo := rfl
  rw [hfo]
  cases st.fo.dead.isEmpty
  · exact retryDead_plain c now st
  · rfl

def gotMap : HashCall.Got → Got plain
  | .client s cl => .client s (objOf cl)
  | .noClient => .noClient
  | .allDown => .allDown
  | .internalError => .internalError

theorem getClient_plain {Key : Type} (c : Cfg) (route : List Srv → Key → Option Srv) (now : Time) (st : HashCall.St)
    (key : Key) :
    getClient c route now (toG st) key =
      (toG (HashCall.getClient c route now st key).1, gotMap (HashCall.getClient c route now st key).2) := by
  unfold getClient HashCall.getClient
  rw [← retryIfDead_plain]
  cases HashCall.retryIfDead c now st with
  | none => rfl
  | some st1 =>
    simp only [Option.map_some]
    have hfo : (toG st1).fo = st1.fo := rfl
    rw [hfo]
    cases route st1.fo.nodes key with
    | none => cases c.ignoreExc <;> rfl
    | some s =>
      simp only []
      have hcl : (toG st1).clients = st1.clients.map entryOf := rfl
      rw [hcl, alookup_map]
      cases alookup s st1.clients <;> rfl

theorem contact_plain (ccfg : Wire.Cfg) (idx : Nat) (now fin : Time) (st : HashCall.St) (s : Srv) (cl : HashCall.IClient)
    (call : Call) (sc : Script) :
    contact ccfg idx now fin (toG st) s (objOf cl) call sc =
      (toG (HashCall.contact ccfg idx st s cl call sc).1, (HashCall.contact ccfg idx st s cl call sc).2) := by
  simp only [contact, HashCall.contact, toG]
  rw [← ainsert_map]
  rfl

theorem cls_plain (e : Exc) : plain.cls e = classOf e := rfl

theorem onError_plain (c : Cfg) (now : Time) (st : HashCall.St) (s : Srv) (e : Exc) :
    onError c now (toG st) s e = (toG (HashCall.onError c now st s e).1, resMap (HashCall.onError c now st s e).2) := by
  unfold onError HashCall.onError
  rw [cls_plain]
  unfold classOf
  have hfo : (toG st).fo = st.fo := rfl
  rw [hfo]
  cases isBaseExc e
  · cases HashCall.isOSError e
    · simp only [Bool.false_eq_true, if_false]
      cases c.ignoreExc <;> rfl
    · simp only [Bool.false_eq_true, if_false, if_true]
      cases markFailed c now st.fo s with
      | none => rfl
      | some fo' => cases c.ignoreExc <;> rfl
  · rfl

theorem invoke_plain (ccfg : Wire.Cfg) (c : Cfg) (idx : Nat) (now fin : Time) (st : HashCall.St) (s : Srv)
    (cl : HashCall.IClient) (call : Call) (sc : Script) (clear : Bool) :
    invoke ccfg c idx now fin (toG st) s (objOf cl) call sc clear =
      (toG (HashCall.invoke ccfg c idx now st s cl call sc clear).1,
        resMap (HashCall.invoke ccfg c idx now st s cl call sc clear).2.1,
        (HashCall.invoke ccfg c idx now st s cl call sc clear).2.2) := by
  unfold invoke HashCall.invoke
  rw [contact_plain]
  simp only []
  have hres : ∀ stp : Step, plain.res stp = stp.out.res := fun _ => rfl
  rw [hres]
  cases (HashCall.contact ccfg idx st s cl call sc).2.out.res with
  | ok r =>
    simp only []
    cases clear
    · rfl
    · simp only [if_true]
      have hfo : (toG (HashCall.contact ccfg idx st s cl call sc).1).fo = (HashCall.contact ccfg idx st s cl call sc).1.fo := rfl
      rw [hfo]
      cases aerase s (HashCall.contact ccfg idx st s cl call sc).1.fo.failed <;> rfl
  | error e =>
    simp only []
    rw [onError_plain]
    rfl

theorem safelyRunFunc_plain (ccfg : Wire.Cfg) (c : Cfg) (idx : Nat) (now fin : Time) (st : HashCall.St) (s : Srv)
    (cl : HashCall.IClient) (call : Call) (sc : Script) :
    safelyRunFunc ccfg c idx now fin (toG st) s (objOf cl) call sc =
      (toG (HashCall.safelyRunFunc ccfg c idx now st s cl call sc).1,
        resMap (HashCall.safelyRunFunc ccfg c idx now st s cl call sc).2.1,
        (HashCall.safelyRunFunc ccfg c idx now st s cl call sc).2.2) := by
  unfold safelyRunFunc HashCall.safelyRunFunc
  have hfo : (toG st).fo = st.fo := rfl
  rw [hfo]
  cases alookup s st.fo.failed with
  | none => exact invoke_plain ..
  | some p =>
    obtain ⟨attempts, failedTime⟩ := p
    simp only []
    by_cases h1 : attempts < c.ra
    · simp only [h1, if_true]
      by_cases h2 : now - failedTime > c.rt
      · simp only [h2, if_true]; exact invoke_plain ..
      · simp only [h2, if_false]; rfl
    · simp only [h1, if_false]
      cases removeServer now st.fo s with
      | none => rfl
      | some fo' => exact invoke_plain ccfg c idx now fin { st with fo := fo' } s cl call sc false

/-- one call of `HashCall` is one call of the plain instance -/
theorem callG_plain {Key : Type} (ccfg : Wire.Cfg) (c : Cfg) (route : List Srv → Key → Option Srv) (st : HashCall.St)
    (idx : Nat) (now fin : Time) (rk : Key) (call : Call) (sc : Script) :
    callG ccfg c route (toG st) idx now fin rk call sc =
      (toG (HashCall.callH ccfg c route st idx now rk call sc).1, obsMap (HashCall.callH ccfg c route st idx now rk call sc).2) := by
  unfold callG HashCall.callH
  cases HashCall.keyOk ccfg call
  · rfl
  · simp only [Bool.not_true, Bool.false_eq_true, if_false]
    rw [getClient_plain]
    rcases HashCall.getClient c route now st rk with ⟨st1, g⟩
    cases g with
    | noClient => rfl
    | allDown => rfl
    | internalError => rfl
    | client s cl =>
      simp only [gotMap]
      rw [safelyRunFunc_plain]
      rcases HashCall.safelyRunFunc ccfg c idx now st1 s cl call sc with ⟨st2, r, stp⟩
      cases stp <;> rfl

/-- **the model of `HashCall.lean` is the plain instance of the generic model**: a run of `HashCall.runH` and the run of
`HashInner.runG` on the translated state and history go through the same states and make the same observations -/
theorem runG_plain {Key : Type} (ccfg : Wire.Cfg) (c : Cfg) (route : List Srv → Key → Option Srv) (st : HashCall.St)
    (k : Nat) (calls : List (HashCall.HCall Key)) :
    runG ccfg c route (toG st) k (calls.map toGCall) =
      (toG (HashCall.runH ccfg c route st k calls).1, (HashCall.runH ccfg c route st k calls).2.map obsMap) := by
  induction calls generalizing st k with
  | nil => rfl
  | cons hc rest ih =>
    simp only [List.map_cons, runG, HashCall.runH]
    have h := callG_plain ccfg c route st k hc.now hc.now hc.rk hc.call hc.sc
    simp only [toGCall] at h ⊢
    rw [h]
    simp only []
    rw [ih]
end HashInner
