import Pymc.Proofs.HashBroadcastErr
/-!
# Broadcasts of `HashClient ∘ Client`: the loop, one public call, histories

* any invariant of the registered client objects that one `_safely_run_func` keeps is kept by the loop (`bloop_inv`), hence
  the C01 invariants by a broadcast (`broadcastH_clean` / `_quiet`), by a general public call (`callB_clean`) and by a
  history that mixes key-addressed calls and broadcasts (`runB_clean` / `runB_quiet`);
* the loop visits the registered clients in registration order, one `_safely_run_func` each, and stops at the first
  exception that escapes (`bloop_visits`);
* the loop brings no server into rotation, and leaves a healthy server — no failure record, no `OSError` from its
  contacts — in rotation and without failure record (`bloop_onlyNodes`, `bloop_healthy`).
-/
namespace HashCall
open Exchange Client Framing Failover

/-! ## the loop: invariants of the registered client objects -/

theorem bloop_inv (Inv : St → Prop) (P : Step → Prop) (ccfg : Wire.Cfg) (c : Cfg) (idx : Nat) (now : Time) (op : BOp)
    (scripts : Srv → Script)
    (hone : ∀ st s cl, Inv st → (s, cl) ∈ st.clients →
      Inv (safelyRunFuncX ccfg c idx now st s cl op (scripts s)).1 ∧
      ∀ stp, (safelyRunFuncX ccfg c idx now st s cl op (scripts s)).2.2.1 = some stp → P stp)
    (st : St) (keys : List Srv) (hinv : Inv st) :
    Inv (bloop ccfg c idx now op scripts st keys).1 ∧
    ∀ ob ∈ (bloop ccfg c idx now op scripts st keys).2.2, ∀ stp, ob.step = some stp → P stp := by
  induction keys generalizing st with
  | nil => exact ⟨hinv, fun ob h => by simp [bloop] at h⟩
  | cons s rest ih =>
    simp only [bloop]
    cases hl : alookup s st.clients with
    | none => exact ih st hinv
    | some cl =>
      obtain ⟨h1, h2⟩ := hone st s cl hinv (mem_of_alookup hl)
      simp only []
      generalize safelyRunFuncX ccfg c idx now st s cl op (scripts s) = r at h1 h2 ⊢
      obtain ⟨st1, o, stp, inv⟩ := r
      simp only [] at h1 h2 ⊢
      split
      · exact ⟨h1, fun ob hob => by simp only [List.mem_singleton] at hob; subst hob; exact h2⟩
      · obtain ⟨h3, h4⟩ := ih st1 h1
        refine ⟨h3, fun ob hob => ?_⟩
        rcases List.mem_cons.mp hob with h | h
        · subst h; exact h2
        · exact h4 ob h

/-- the framing hypothesis of a broadcast, per connection -/
theorem wellFramedOn_of_broadcast {RK : Type} {ccfg : Wire.Cfg} {op : BOp} {scripts : Srv → Script} {now : Time}
    (h : (BCall.broadcast op scripts now : BCall RK).WellFramed ccfg) (s : Srv) : op.WellFramedOn ccfg (scripts s).evs := by
  unfold BCall.WellFramed at h
  unfold BOp.WellFramedOn
  cases hc : op.call? with
  | none => trivial
  | some call => simp only [hc] at h ⊢; exact h s

theorem faultFramedOn_of_broadcast {RK : Type} {ccfg : Wire.Cfg} {op : BOp} {scripts : Srv → Script} {now : Time}
    (h : (BCall.broadcast op scripts now : BCall RK).FaultFramed ccfg) (s : Srv) : op.FaultFramedOn ccfg (scripts s).evs := by
  unfold BCall.FaultFramed at h
  unfold BOp.FaultFramedOn
  cases hc : op.call? with
  | none => trivial
  | some call => simp only [hc] at h ⊢; exact h s

theorem mem_bsteps {ob : BcObs} {stp : Step} (h : stp ∈ ob.steps) : ∃ v ∈ ob.visits, v.step = some stp := by
  unfold BcObs.steps at h
  obtain ⟨v, hv, hs⟩ := List.mem_filterMap.mp h
  exact ⟨v, hv, hs⟩

theorem broadcastH_clean (ccfg : Wire.Cfg) (c : Cfg) (st : St) (idx : Nat) (now : Time) (op : BOp) (scripts : Srv → Script)
    (hinv : PipesClean st) (hwf : ∀ s, op.WellFramedOn ccfg (scripts s).evs) :
    PipesClean (broadcastH ccfg c st idx now op scripts).1 ∧
    ∀ stp ∈ (broadcastH ccfg c st idx now op scripts).2.steps, stp.idx = idx ∧ StepFacts ccfg false stp := by
  obtain ⟨h1, h2⟩ := bloop_inv PipesClean (fun stp => stp.idx = idx ∧ StepFacts ccfg false stp) ccfg c idx now op scripts
    (fun st' s cl hi hcl => safelyRunFuncX_clean ccfg c idx now st' s cl op (scripts s) hi hcl (hwf s)) st st.servers hinv
  refine ⟨h1, fun stp hstp => ?_⟩
  obtain ⟨v, hv, hs⟩ := mem_bsteps hstp
  exact h2 v hv stp hs

theorem broadcastH_quiet (ccfg : Wire.Cfg) (c : Cfg) (st : St) (idx : Nat) (now : Time) (op : BOp) (scripts : Srv → Script)
    (hinv : PipesQuiet st) (hff : ∀ s, op.FaultFramedOn ccfg (scripts s).evs) :
    PipesQuiet (broadcastH ccfg c st idx now op scripts).1 ∧
    ∀ stp ∈ (broadcastH ccfg c st idx now op scripts).2.steps, stp.idx = idx ∧ StepFactsF stp := by
  obtain ⟨h1, h2⟩ := bloop_inv PipesQuiet (fun stp => stp.idx = idx ∧ StepFactsF stp) ccfg c idx now op scripts
    (fun st' s cl hi hcl => safelyRunFuncX_quiet ccfg c idx now st' s cl op (scripts s) hi hcl (hff s)) st st.servers hinv
  refine ⟨h1, fun stp hstp => ?_⟩
  obtain ⟨v, hv, hs⟩ := mem_bsteps hstp
  exact h2 v hv stp hs

/-! ## one public call, histories -/

theorem callB_clean {RK : Type} (ccfg : Wire.Cfg) (c : Cfg) (route : List Srv → RK → Option Srv) (st : St) (idx : Nat)
    (bc : BCall RK) (hinv : PipesClean st) (hwf : bc.WellFramed ccfg) :
    PipesClean (callB ccfg c route st idx bc).1 ∧
    ∀ stp ∈ (callB ccfg c route st idx bc).2.steps, stp.idx = idx ∧ StepFacts ccfg false stp := by
  cases bc with
  | keyed mc => exact callM_clean ccfg c route st idx mc hinv hwf
  | broadcast op scripts now =>
    exact broadcastH_clean ccfg c st idx now op scripts hinv (wellFramedOn_of_broadcast hwf)

theorem callB_quiet {RK : Type} (ccfg : Wire.Cfg) (c : Cfg) (route : List Srv → RK → Option Srv) (st : St) (idx : Nat)
    (bc : BCall RK) (hinv : PipesQuiet st) (hff : bc.FaultFramed ccfg) :
    PipesQuiet (callB ccfg c route st idx bc).1 ∧
    ∀ stp ∈ (callB ccfg c route st idx bc).2.steps, stp.idx = idx ∧ StepFactsF stp := by
  cases bc with
  | keyed mc => exact callM_quiet ccfg c route st idx mc hinv hff
  | broadcast op scripts now =>
    exact broadcastH_quiet ccfg c st idx now op scripts hinv (faultFramedOn_of_broadcast hff)

theorem runB_cons {RK : Type} (ccfg : Wire.Cfg) (c : Cfg) (route : List Srv → RK → Option Srv) (st : St) (k : Nat)
    (bc : BCall RK) (rest : List (BCall RK)) :
    runB ccfg c route st k (bc :: rest) =
      ((runB ccfg c route (callB ccfg c route st k bc).1 (k + 1) rest).1,
       (callB ccfg c route st k bc).2 :: (runB ccfg c route (callB ccfg c route st k bc).1 (k + 1) rest).2) :=
  rfl

theorem runB_length {RK : Type} (ccfg : Wire.Cfg) (c : Cfg) (route : List Srv → RK → Option Srv) (st : St) (k : Nat)
    (calls : List (BCall RK)) : (runB ccfg c route st k calls).2.length = calls.length := by
  induction calls generalizing st k with
  | nil => rfl
  | cons bc rest ih => simp [runB_cons, ih]

/-- the observations of a prefix of the history are a prefix of the observations -/
theorem runB_take {RK : Type} (ccfg : Wire.Cfg) (c : Cfg) (route : List Srv → RK → Option Srv) (st : St) (k : Nat)
    (calls : List (BCall RK)) (n : Nat) :
    (runB ccfg c route st k (calls.take n)).2 = (runB ccfg c route st k calls).2.take n := by
  induction calls generalizing st k n with
  | nil => simp [runB]
  | cons bc rest ih =>
    cases n with
    | zero => simp [runB]
    | succ n => simp [runB_cons, ih]

theorem runB_clean {RK : Type} (ccfg : Wire.Cfg) (c : Cfg) (route : List Srv → RK → Option Srv) (st : St) (k : Nat)
    (calls : List (BCall RK)) (hinv : PipesClean st) (hwf : ∀ bc ∈ calls, bc.WellFramed ccfg) :
    PipesClean (runB ccfg c route st k calls).1 ∧
    ∀ i ob, (runB ccfg c route st k calls).2[i]? = some ob → ∀ stp ∈ ob.steps,
      stp.idx = k + i ∧ StepFacts ccfg false stp := by
  induction calls generalizing st k with
  | nil => exact ⟨hinv, fun i ob h => by simp [runB] at h⟩
  | cons bc rest ih =>
    obtain ⟨h1, h2⟩ := callB_clean ccfg c route st k bc hinv (hwf bc (by simp))
    obtain ⟨h3, h4⟩ := ih (callB ccfg c route st k bc).1 (k + 1) h1 (fun x h => hwf x (by simp [h]))
    rw [runB_cons]
    refine ⟨h3, fun i ob hi stp hst => ?_⟩
    cases i with
    | zero =>
      simp only [List.getElem?_cons_zero, Option.some.injEq] at hi
      subst hi
      exact h2 stp hst
    | succ i =>
      simp only [List.getElem?_cons_succ] at hi
      obtain ⟨ha, hb⟩ := h4 i ob hi stp hst
      exact ⟨by omega, hb⟩

theorem runB_quiet {RK : Type} (ccfg : Wire.Cfg) (c : Cfg) (route : List Srv → RK → Option Srv) (st : St) (k : Nat)
    (calls : List (BCall RK)) (hinv : PipesQuiet st) (hff : ∀ bc ∈ calls, bc.FaultFramed ccfg) :
    PipesQuiet (runB ccfg c route st k calls).1 ∧
    ∀ i ob, (runB ccfg c route st k calls).2[i]? = some ob → ∀ stp ∈ ob.steps,
      stp.idx = k + i ∧ StepFactsF stp := by
  induction calls generalizing st k with
  | nil => exact ⟨hinv, fun i ob h => by simp [runB] at h⟩
  | cons bc rest ih =>
    obtain ⟨h1, h2⟩ := callB_quiet ccfg c route st k bc hinv (hff bc (by simp))
    obtain ⟨h3, h4⟩ := ih (callB ccfg c route st k bc).1 (k + 1) h1 (fun x h => hff x (by simp [h]))
    rw [runB_cons]
    refine ⟨h3, fun i ob hi stp hst => ?_⟩
    cases i with
    | zero =>
      simp only [List.getElem?_cons_zero, Option.some.injEq] at hi
      subst hi
      exact h2 stp hst
    | succ i =>
      simp only [List.getElem?_cons_succ] at hi
      obtain ⟨ha, hb⟩ := h4 i ob hi stp hst
      exact ⟨by omega, hb⟩

/-- on a key-addressed history `runB` is `runM`: same final state, same observations -/
theorem runB_keyed {RK : Type} (ccfg : Wire.Cfg) (c : Cfg) (route : List Srv → RK → Option Srv) (st : St) (k : Nat)
    (calls : List (MCall RK)) :
    runB ccfg c route st k (calls.map MCall.toB) =
      ((runM ccfg c route st k calls).1, (runM ccfg c route st k calls).2.map XObs.keyed) := by
  induction calls generalizing st k with
  | nil => rfl
  | cons mc rest ih =>
    simp only [List.map_cons, runB_cons, runM_cons]
    have h1 : callB ccfg c route st k mc.toB = ((callM ccfg c route st k mc).1, XObs.keyed (callM ccfg c route st k mc).2) := rfl
    rw [h1]
    simp only []
    rw [ih]

/-! ## the loop: who is visited, in which order, and where it stops -/

/-- every key of the list has an entry in `self.clients` -/
def KeysRegistered (st : St) (keys : List Srv) : Prop := ∀ s ∈ keys, s ∈ st.servers

theorem alookup_of_mem_servers {st : St} {s : Srv} (h : s ∈ st.servers) : ∃ cl, alookup s st.clients = some cl :=
  (mem_keys_iff s st.clients).1 h

/-- the visits of the loop over `keys` (all registered): their servers are an initial segment of `keys`, in order; no
visit but the last ends in an escaping exception; the loop runs to its end iff none does, and then everybody was
visited; otherwise the result is the exception of the last visit -/
theorem bloop_visits (ccfg : Wire.Cfg) (c : Cfg) (idx : Nat) (now : Time) (op : BOp) (scripts : Srv → Script)
    (st : St) (keys : List Srv) (hk : KeysRegistered st keys) :
    ∃ n, n ≤ keys.length ∧
      (bloop ccfg c idx now op scripts st keys).2.2.map (·.server) = keys.take n ∧
      (∀ ob ∈ (bloop ccfg c idx now op scripts st keys).2.2.dropLast, ob.out.escapes = false) ∧
      ((bloop ccfg c idx now op scripts st keys).2.1 = .done →
        n = keys.length ∧ ∀ ob ∈ (bloop ccfg c idx now op scripts st keys).2.2, ob.out.escapes = false) ∧
      ((bloop ccfg c idx now op scripts st keys).2.1 ≠ .done →
        ∃ ob, (bloop ccfg c idx now op scripts st keys).2.2.getLast? = some ob ∧ ob.out.escapes = true ∧
          (bloop ccfg c idx now op scripts st keys).2.1 = BRes.ofOut ob.server ob.out) := by
  induction keys generalizing st with
  | nil => exact ⟨0, Nat.le_refl _, rfl, fun ob h => by simp [bloop] at h, fun _ => ⟨rfl, fun ob h => by simp [bloop] at h⟩,
      fun h => (h rfl).elim⟩
  | cons s rest ih =>
    obtain ⟨cl, hl⟩ := alookup_of_mem_servers (hk s (by simp))
    simp only [bloop, hl]
    have hsv := safelyRunFuncX_servers ccfg c idx now st s cl op (scripts s) hl
    generalize safelyRunFuncX ccfg c idx now st s cl op (scripts s) = r at hsv ⊢
    obtain ⟨st1, o, stp, inv⟩ := r
    simp only [] at hsv ⊢
    cases he : o.escapes
    · simp only [Bool.false_eq_true, if_false]
      have hk1 : KeysRegistered st1 rest := fun x hx => by rw [hsv]; exact hk x (by simp [hx])
      obtain ⟨n, hn, h1, h2, h3, h4⟩ := ih st1 hk1
      refine ⟨n + 1, by simp; omega, by simp [h1], ?_, ?_, ?_⟩
      · intro ob hob
        cases hobs : (bloop ccfg c idx now op scripts st1 rest).2.2 with
        | nil => rw [hobs] at hob; simp at hob
        | cons v vs =>
          rw [hobs] at hob h2
          rw [List.dropLast_cons_cons] at hob
          rcases List.mem_cons.mp hob with h | h
          · subst h; exact he
          · exact h2 ob h
      · intro hd
        obtain ⟨ha, hb⟩ := h3 hd
        refine ⟨by simp [ha], fun ob hob => ?_⟩
        rcases List.mem_cons.mp hob with h | h
        · subst h; exact he
        · exact hb ob h
      · intro hd
        obtain ⟨ob, ha, hb, hc⟩ := h4 hd
        refine ⟨ob, ?_, hb, hc⟩
        cases hobs : (bloop ccfg c idx now op scripts st1 rest).2.2 with
        | nil => rw [hobs] at ha; simp at ha
        | cons v vs => rw [hobs] at ha; rw [List.getLast?_cons_cons]; exact ha
    · simp only [if_true]
      refine ⟨1, by simp, by simp, fun ob h => by simp at h, fun hd => ?_, fun _ => ⟨_, rfl, he, rfl⟩⟩
      exfalso
      cases o <;> simp [BOut.escapes] at he <;> simp [BRes.ofOut] at hd

/-! ## the loop: the rotation -/

/-- the loop brings no server into rotation and never touches `_last_dead_check_time`; rotation membership, failure
record and dead time of a server that is not among the keys are as before -/
theorem bloop_onlyNodes (ccfg : Wire.Cfg) (c : Cfg) (idx : Nat) (now : Time) (op : BOp) (scripts : Srv → Script)
    (st : St) (keys : List Srv) :
    (∀ x, x ∈ (bloop ccfg c idx now op scripts st keys).1.fo.nodes → x ∈ st.fo.nodes) ∧
    (bloop ccfg c idx now op scripts st keys).1.fo.lastDeadCheck = st.fo.lastDeadCheck ∧
    (∀ x, x ∉ keys → (x ∈ st.fo.nodes → x ∈ (bloop ccfg c idx now op scripts st keys).1.fo.nodes) ∧
      alookup x (bloop ccfg c idx now op scripts st keys).1.fo.failed = alookup x st.fo.failed ∧
      alookup x (bloop ccfg c idx now op scripts st keys).1.fo.dead = alookup x st.fo.dead) := by
  induction keys generalizing st with
  | nil => exact ⟨fun x h => h, rfl, fun x _ => ⟨fun h => h, rfl, rfl⟩⟩
  | cons s rest ih =>
    simp only [bloop]
    cases hl : alookup s st.clients with
    | none =>
      obtain ⟨h1, h2, h3⟩ := ih st
      exact ⟨h1, h2, fun x hx => h3 x (fun h => hx (by simp [h]))⟩
    | some cl =>
      have ht := safelyRunFuncX_onlyTouches ccfg c idx now st s cl op (scripts s)
      simp only []
      generalize safelyRunFuncX ccfg c idx now st s cl op (scripts s) = r at ht ⊢
      obtain ⟨st1, o, stp, inv⟩ := r
      simp only [] at ht ⊢
      have hx' : ∀ x, x ∉ s :: rest → x ≠ s := fun x hx h => hx (by simp [h])
      split
      · exact ⟨ht.sub, ht.ldc, fun x hx => ⟨ht.keep x (hx' x hx), ht.failed x (hx' x hx), ht.dead x (hx' x hx)⟩⟩
      · obtain ⟨h1, h2, h3⟩ := ih st1
        refine ⟨fun x hx => ht.sub x (h1 x hx), h2.trans ht.ldc, fun x hx => ?_⟩
        obtain ⟨ha, hb, hc⟩ := h3 x (fun h => hx (by simp [h]))
        exact ⟨fun h => ha (ht.keep x (hx' x hx) h), hb.trans (ht.failed x (hx' x hx)), hc.trans (ht.dead x (hx' x hx))⟩

/-- **a healthy server stays**: a server without failure record none of whose visits raises an `OSError` is in
rotation after the loop if it was before, still has no failure record, and its dead time (if any) is untouched -/
theorem bloop_healthy (ccfg : Wire.Cfg) (c : Cfg) (idx : Nat) (now : Time) (op : BOp) (scripts : Srv → Script)
    (st : St) (keys : List Srv) (x : Srv) (hf : amem x st.fo.failed = false)
    (hok : ∀ ob ∈ (bloop ccfg c idx now op scripts st keys).2.2, ob.server = x → ob.oserror = false) :
    (x ∈ st.fo.nodes → x ∈ (bloop ccfg c idx now op scripts st keys).1.fo.nodes) ∧
    amem x (bloop ccfg c idx now op scripts st keys).1.fo.failed = false ∧
    alookup x (bloop ccfg c idx now op scripts st keys).1.fo.dead = alookup x st.fo.dead := by
  induction keys generalizing st with
  | nil => exact ⟨fun h => h, hf, rfl⟩
  | cons s rest ih =>
    simp only [bloop] at hok ⊢
    cases hl : alookup s st.clients with
    | none =>
      simp only [hl] at hok
      exact ih st hf hok
    | some cl =>
      simp only [hl] at hok
      have ht := safelyRunFuncX_onlyTouches ccfg c idx now st s cl op (scripts s)
      have hh := safelyRunFuncX_healthy ccfg c idx now st s cl op (scripts s)
      simp only []
      generalize safelyRunFuncX ccfg c idx now st s cl op (scripts s) = r at ht hh hok ⊢
      obtain ⟨st1, o, stp, inv⟩ := r
      simp only [] at ht hh hok ⊢
      -- the bookkeeping for `x` after this visit is as before
      have hstep : (x ∈ st.fo.nodes → x ∈ st1.fo.nodes) ∧ amem x st1.fo.failed = false ∧
          alookup x st1.fo.dead = alookup x st.fo.dead := by
        by_cases hxs : x = s
        · subst hxs
          have hos : stepOSError stp = false := by
            have := hok ⟨x, cl.id, inv, stp, o⟩ (by split <;> simp) rfl
            exact this
          have hfo := hh hf hos
          rw [hfo]
          exact ⟨fun h => h, hf, rfl⟩
        · refine ⟨ht.keep x hxs, ?_, ht.dead x hxs⟩
          have := ht.failed x hxs
          simp only [amem, this] at hf ⊢
          exact hf
      split
      · exact hstep
      · rename_i hesc
        simp only [hesc] at hok
        obtain ⟨h1, h2, h3⟩ := ih st1 hstep.2.1 (fun ob hob => hok ob (by simp [hob]))
        exact ⟨fun h => h1 (hstep.1 h), h2, h3.trans hstep.2.2⟩
end HashCall
