import Pymc.Proofs.PooledInv
/-!
# Sequential pool: what one `callT` does to a state satisfying `Inv`
-/
namespace Pooled

/-- facts about one call from an `Inv` state that hold for every body -/
theorem callT_facts {cfg : Cfg} {s : St} (now fin : Nat) (b : Body) (h : Inv s) :
    (∃ l, (callT cfg s now fin b).1.closed = s.closed ++ l) ∧
    s.nextConn ≤ (callT cfg s now fin b).1.nextConn ∧
    (∀ k, (callT cfg s now fin b).2.io = some k → k ∉ s.closed) ∧
    (∀ k, (callT cfg s now fin b).2.io = some k → b ≠ .ok → k ∈ (callT cfg s now fin b).1.closed) ∧
    (∀ c k, b = .rejected → (get cfg s now).2 = some c → c.conn = some k →
      k ∈ (callT cfg s now fin b).1.closed) ∧
    (∀ c ∈ (callT cfg s now fin b).1.free, c.lastUsed = clock cfg fin) ∧
    (cfg.maxSize ≠ 0 → (get cfg s now).2.isSome ∧ (callT cfg s now fin b).2.client.isSome) ∧
    (∀ k, b = .ok → (callT cfg s now fin b).2.io = some k →
      ∃ id, (callT cfg s now fin b).2.client = some id ∧
        (callT cfg s now fin b).1.free = [⟨id, some k, clock cfg fin⟩]) := by
  rcases h.shape with ⟨nc, nn, cl, rfl⟩ | ⟨c, nc, nn, cl, rfl⟩
  · obtain ⟨-, -, h3, h4, -, h6, -, -⟩ := h
    simp only at h3 h4 h6
    by_cases hm : cfg.maxSize = 0
    · simp [callT, get_nil, hm]
    · simp only [callT, get_nil, hm, if_false]
      rcases b with _ | (_|_) | (_|_) | _ | _ | (_|_) <;> simp [release, destroy, isUsed, dropUsed, connList]
      all_goals (first | (simp_all; done) | (simp_all; grind) | grind)
  · obtain ⟨-, -, h3, h4, h5, h6, h7, h8⟩ := h
    simp only at h3 h4 h5 h6 h7 h8
    obtain ⟨id, conn, lu⟩ := c
    by_cases hf : clock cfg now - lu ≤ cfg.idleTimeout
    · simp only [callT, get_one, hf, if_true]
      rcases b with _ | (_|_) | (_|_) | _ | _ | (_|_) <;> rcases conn with _ | k <;>
        simp [release, destroy, isUsed, dropUsed, connList]
      all_goals (first | (simp_all; done) | (simp_all; grind) | grind)
    · by_cases hm : cfg.maxSize = 0
      · simp [callT, get_one, hm, hf]
      · simp only [callT, get_one, hm, hf, if_false]
        rcases b with _ | (_|_) | (_|_) | _ | _ | (_|_) <;> rcases conn with _ | k <;>
          simp [release, destroy, isUsed, dropUsed, connList]
        all_goals (first | (simp_all; done) | (simp_all; grind) | grind)

/-- a fresh-enough free client is reused: same client, same connection, nothing allocated -/
theorem callT_reuse {cfg : Cfg} {s : St} (now fin : Nat) (b : Body) (h : Inv s) {id k lu : Nat}
    (hfree : s.free = [⟨id, some k, lu⟩]) (hfresh : clock cfg now - lu ≤ cfg.idleTimeout) :
    (get cfg s now).2 = some ⟨id, some k, lu⟩ ∧
    (callT cfg s now fin b).2.client = some id ∧
    (b ≠ .rejected → (callT cfg s now fin b).2.io = some k) ∧
    (b = .rejected → (callT cfg s now fin b).2.io = none) ∧
    (callT cfg s now fin b).1.nextConn = s.nextConn ∧
    (callT cfg s now fin b).1.nextClient = s.nextClient ∧
    (get cfg s now).1.closed = s.closed := by
  rcases h.shape with ⟨nc, nn, cl, rfl⟩ | ⟨c, nc, nn, cl, rfl⟩
  · simp at hfree
  · simp only [List.cons.injEq, and_true] at hfree
    subst hfree
    simp only [callT, get_one, hfresh, if_true]
    rcases b with _ | (_|_) | (_|_) | _ | _ | (_|_) <;>
      simp [release, destroy, isUsed, dropUsed, connList]

/-- an idle-expired free client is closed by `get`, and the call is served by a new client which
holds no connection yet -/
theorem callT_expire {cfg : Cfg} {s : St} (now fin : Nat) (b : Body) (h : Inv s) {id k lu : Nat}
    (hfree : s.free = [⟨id, some k, lu⟩]) (hexp : ¬ clock cfg now - lu ≤ cfg.idleTimeout) :
    (get cfg s now).1.closed = s.closed ++ [k] ∧
    (get cfg s now).1.free = [] ∧
    k ∈ (callT cfg s now fin b).1.closed ∧
    (callT cfg s now fin b).2.io ≠ some k ∧
    (cfg.maxSize ≠ 0 →
      (get cfg s now).2 = some ⟨s.nextClient, none, clock cfg now⟩ ∧
      (callT cfg s now fin b).2.client = some s.nextClient ∧
      ((b = .ok ∨ b = .quitOk ∨ b = .fail true ∨ b = .failSwallowed true ∨ b = .quitFail true) →
        (callT cfg s now fin b).2.io = some s.nextConn ∧ (callT cfg s now fin b).1.nextConn = s.nextConn + 1) ∧
      ((b = .rejected ∨ b = .fail false ∨ b = .failSwallowed false ∨ b = .quitFail false) →
        (callT cfg s now fin b).2.io = none ∧ (callT cfg s now fin b).1.nextConn = s.nextConn)) := by
  rcases h.shape with ⟨nc, nn, cl, rfl⟩ | ⟨c, nc, nn, cl, rfl⟩
  · simp at hfree
  · simp only [List.cons.injEq, and_true] at hfree
    subst hfree
    have hk : k < nn := h.free_conn_lt _ (List.mem_singleton.mpr rfl) k rfl
    by_cases hm : cfg.maxSize = 0
    · simp [callT, get_one, hm, hexp, connList]
    · simp only [callT, get_one, hm, hexp, if_false]
      rcases b with _ | (_|_) | (_|_) | _ | _ | (_|_) <;>
        simp [release, destroy, isUsed, dropUsed, connList] <;> omega

/-- a `rejected` body never touches a connection -/
theorem callT_rejected_io (cfg : Cfg) (s : St) (now fin : Nat) : (callT cfg s now fin .rejected).2.io = none := by
  unfold callT
  split <;> rfl

theorem clock_fresh {cfg : Cfg} {t1 t2 : Nat} (h : cfg.idleTimeout = 0 ∨ t2 - t1 ≤ cfg.idleTimeout) :
    clock cfg t2 - clock cfg t1 ≤ cfg.idleTimeout := by
  unfold clock; split <;> omega

theorem clock_expired {cfg : Cfg} {t1 t2 : Nat} (h0 : cfg.idleTimeout ≠ 0) (h : cfg.idleTimeout < t2 - t1) :
    ¬ clock cfg t2 - clock cfg t1 ≤ cfg.idleTimeout := by
  unfold clock; split <;> omega

theorem clock_mono (cfg : Cfg) {t1 t2 : Nat} (h : t1 ≤ t2) : clock cfg t1 ≤ clock cfg t2 := by
  unfold clock; split <;> omega

end Pooled
