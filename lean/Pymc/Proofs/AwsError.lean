import Pymc.Model.Exchange
import Pymc.Proofs.AwsToken
/-! Helper lemmas for C19: what the segment reader and `_raise_errors` make of an `ERROR` reply. -/
namespace Aws
open Bytes Wire Readers Exchange

theorem raiseErrors_ERROR (x : Bytes) : raiseErrors (ofString "ERROR" ++ x) = some .unknownCommand := by
  simp [raiseErrors, startsWith, lit_ERROR, List.isPrefixOf]

theorem findSub_none_of_append {tok s t : Bytes} (h : findSub tok (s ++ t) = none) :
    findSub tok s = none := by
  cases e : findSub tok s with
  | none => rfl
  | some p => rw [findSub_append_of_some e t] at h; cases h

/-- the token never arrives and the peer closes: `MemcacheUnexpectedCloseError` -/
theorem readsegment_absent_eof (tok : Bytes) (evs : List Ev) (rest : List Ev) (buf : Bytes)
    (hc : clean evs) (hnone : findSub tok (buf ++ joinData evs) = none) :
    readsegment tok buf (evs ++ .data [] :: rest) = .error .unexpectedClose := by
  induction evs generalizing buf with
  | nil =>
    have : findSub tok buf = none := by simpa [joinData] using hnone
    rw [List.nil_append, readsegment]; simp [this]
  | cons ev evs ih =>
    have hb : findSub tok buf = none := findSub_none_of_append hnone
    cases ev with
    | data b =>
      have hbne : b ≠ [] := hc.1
      cases b with
      | nil => exact absurd rfl hbne
      | cons x b' =>
        rw [List.cons_append, readsegment]
        · simp only [hb]
          exact ih (buf ++ x :: b') hc.2 (by simpa [joinData, List.append_assoc] using hnone)
        · simp
    | eintr =>
      rw [List.cons_append, readsegment]
      simp only [hb]
      exact ih buf hc (by simpa [joinData] using hnone)
    | err c => exact absurd hc (by simp [clean])

/-- the token never arrives and the events run out (a blocking socket, treated as end-of-stream) -/
theorem readsegment_absent_out (tok : Bytes) (evs : List Ev) (buf : Bytes)
    (hc : clean evs) (hnone : findSub tok (buf ++ joinData evs) = none) :
    readsegment tok buf evs = .error .unexpectedClose := by
  have := readsegment_flat tok buf evs hc
  exact this.2 (by simp [splitSegment, hnone])

theorem miscLoop_of_readsegment_error (tok buf : Bytes) (evs : List Ev) (e : Readers.Err)
    (h : readsegment tok buf evs = .error e) :
    miscLoop (some tok) 1 buf evs [] = ⟨.error (ofReaderErr e), [], true⟩ := by
  simp [miscLoop, h]

theorem findSub_ERROR_CRLF : findSub endToken (ofString "ERROR" ++ CRLF) = none := by
  rw [lit_ERROR, endToken_eq]; decide

/-- a segment of a stream that starts with `ERROR` starts with `ERROR` -/
theorem splitSegment_ERROR (rest seg tail : Bytes)
    (h : splitSegment endToken (ofString "ERROR" ++ rest) = some (seg, tail)) :
    ∃ x, seg = ofString "ERROR" ++ x := by
  have hE : ∀ x ∈ ofString "ERROR", x ≠ LF := by rw [lit_ERROR]; decide
  rw [splitSegment, findSub_endToken_skip_many _ _ hE] at h
  cases hf : findSub endToken rest with
  | none => simp [hf] at h
  | some p =>
    simp only [hf, Option.map_some, Option.some.injEq, Prod.mk.injEq] at h
    refine ⟨rest.take p, ?_⟩
    rw [← h.1]
    simp [lit_ERROR]

theorem lit_CLIENT_ERROR : ofString "CLIENT_ERROR" = [67, 76, 73, 69, 78, 84, 95, 69, 82, 82, 79, 82] := by
  rw [ofString_eq]; decide
theorem lit_SERVER_ERROR : ofString "SERVER_ERROR" = [83, 69, 82, 86, 69, 82, 95, 69, 82, 82, 79, 82] := by
  rw [ofString_eq]; decide

/-- the segment of a rendered reply starts with `CONFIG`: `_raise_errors` lets it through -/
theorem raiseErrors_replyPre (version : Nat) (nodes : List Node) :
    raiseErrors (replyPre version nodes) = none := by
  simp [raiseErrors, startsWith, replyPre, lit_CONFIG, lit_ERROR, lit_CLIENT_ERROR, lit_SERVER_ERROR,
    List.isPrefixOf]
end Aws
