import Pymc.Proofs.ConnPeak
/-!
# Adequacy of the order-insensitive judgments: along a run no socket is closed before it is created, and none twice
-/
namespace Conn

theorem ClosesOrdered.append' {A B : List Ev} (hA : ClosesOrdered A)
    (hB : ∀ pre, pre <+: B → ∀ id ∈ closedIds pre, id ∈ createdIds A ∨ id ∈ createdIds pre) :
    ClosesOrdered (A ++ B) := by
  intro pre hpre id hid
  rcases prefix_append_cases hpre with h | ⟨t, ht, rfl⟩
  · exact hA pre h id hid
  · rw [closedIds_append] at hid
    rw [createdIds_append]
    rcases List.mem_append.1 hid with h | h
    · exact List.mem_append_left _ (hA A (List.prefix_refl A) id h)
    · rcases hB t ht id h with h | h
      · exact List.mem_append_left _ h
      · exact List.mem_append_right _ h

theorem ClosesOrdered.append {A B : List Ev} (hA : ClosesOrdered A) (hB : ClosesOrdered B) : ClosesOrdered (A ++ B) :=
  hA.append' (fun pre hpre id hid => .inr (hB pre hpre id hid))

theorem closesOrdered_of_no_close {T : List Ev} (h : closedIds T = []) : ClosesOrdered T := by
  intro pre hpre id hid
  have := (closedIds_prefix hpre).subset hid
  rw [h] at this; simp at this

/-- a part that closes nothing, then a part that only closes what the first part created -/
theorem closesOrdered_two {X Y : List Ev} (hX : closedIds X = []) (hY : ∀ id ∈ closedIds Y, id ∈ createdIds X) :
    ClosesOrdered (X ++ Y) :=
  (closesOrdered_of_no_close hX).append' (fun _ hpre id hid => .inl (hY id ((closedIds_prefix hpre).subset hid)))

structure Ord (tls : Bool) (L : List Ev) (st : St) : Prop where
  inv : Inv tls L st
  ordered : ClosesOrdered L
  nodup : (closedIds L).Nodup

theorem Inv.sock_open {tls : Bool} {L : List Ev} {st : St} (hI : Inv tls L st) {t : Id} (ht : st.sock = some t) :
    t ∈ createdIds L ∧ t ∉ closedIds L := by
  have h : t ∈ openIds L := by rw [hI.open_exact, ht]; cases tls <;> simp [openOf]
  rw [mem_openIds] at h
  refine ⟨h.1, fun hc => ?_⟩
  rw [isClosed_of_mem hc] at h
  exact absurd h.2 (by simp)

theorem order_extend {tls : Bool} {L junk T : List Ev} {st : St} {m : Nat}
    (hI : Inv tls L st) (hO : ClosesOrdered L) (hN : (closedIds L).Nodup)
    (hle : st.next ≤ m) (hj : Junk st.next m junk)
    (hTo : ClosesOrdered T) (hTn : (closedIds T).Nodup) (hTr : ∀ id ∈ closedIds T, m ≤ id) :
    ClosesOrdered (L ++ (closeEvs st.sock ++ (junk ++ T))) ∧
      (closedIds (L ++ (closeEvs st.sock ++ (junk ++ T)))).Nodup := by
  constructor
  · apply hO.append'
    intro pre hpre id hid
    rcases prefix_append_cases hpre with h | ⟨t2, ht2, rfl⟩
    · left
      have := (closedIds_prefix h).subset hid
      simp only [closedIds_closeEvs, Option.mem_toList] at this
      exact (hI.sock_open this).1
    · rw [closedIds_append] at hid
      rcases List.mem_append.1 hid with h | h
      · left
        simp only [closedIds_closeEvs, Option.mem_toList] at h
        exact (hI.sock_open h).1
      · right
        rw [createdIds_append]
        exact List.mem_append_right _ ((hj.ordered.append hTo) t2 ht2 id h)
  · simp only [closedIds_append, closedIds_closeEvs]
    rw [List.nodup_append]
    refine ⟨hN, ?_, ?_⟩
    · rw [List.nodup_append]
      refine ⟨by cases st.sock <;> simp, ?_, ?_⟩
      · rw [List.nodup_append]
        refine ⟨hj.nodup, hTn, ?_⟩
        intro x hx y hy hxy
        have := hj.closed_range hx
        have := hTr y hy
        idomega
      · intro x hx y hy hxy
        simp only [Option.mem_toList] at hx
        have h1 := hI.sock x hx
        rcases List.mem_append.1 hy with hy | hy
        · have := hj.closed_range hy; idomega
        · have := hTr y hy; idomega
    · intro x hx y hy hxy
      have h1 := hI.closed x hx
      rcases List.mem_append.1 hy with hy | hy
      · simp only [Option.mem_toList] at hy
        subst hxy
        exact (hI.sock_open hy).2 hx
      · rcases List.mem_append.1 hy with hy | hy
        · have := hj.closed_range hy; idomega
        · have := hTr y hy; idomega

theorem Outcome.order {nd tls ka : Bool} {L : List Ev} {st st' : St} {r : Except Err Unit} {log : List Ev}
    (h : Outcome nd tls ka st st' r log) (hI : Inv tls L st) (hO : ClosesOrdered L) (hN : (closedIds L).Nodup) :
    ClosesOrdered (L ++ log) ∧ (closedIds (L ++ log)).Nodup := by
  cases h with
  | early e junk n' hle hj =>
    have := order_extend (T := []) hI hO hN hle hj (closesOrdered_of_no_close rfl) (by simp) (by simp)
    simpa using this
  | late e junk m a mid hle hj hq =>
    have hcl : closedIds (okSeg nd tls m a ++ (mid ++ [Ev.close (sockOf tls m)])) = [sockOf tls m] := by
      simp [closedIds_append, closedIds_okSeg, hq.closedIds]
    have := order_extend (T := okSeg nd tls m a ++ (mid ++ [Ev.close (sockOf tls m)])) hI hO hN hle hj
      (closesOrdered_two (closedIds_okSeg _ _ _ _) (by
        intro id hid
        simp only [closedIds_append, hq.closedIds, closedIds_close1, List.nil_append, List.mem_singleton] at hid
        subst hid
        cases tls <;> simp [createdIds_okSeg, sockOf]))
      (by rw [hcl]; simp)
      (by
        rw [hcl]; intro id hid
        simp only [List.mem_singleton] at hid
        subst hid
        exact (sockOf_range tls m).1)
    simpa [List.append_assoc] using this
  | ok junk m a hle hj =>
    have hcl : closedIds (okSeg nd tls m a ++ okTail ka (sockOf tls m) a) = [] := by
      simp [closedIds_append, closedIds_okSeg]
    have := order_extend (T := okSeg nd tls m a ++ okTail ka (sockOf tls m) a) hI hO hN hle hj
      (closesOrdered_of_no_close hcl) (by rw [hcl]; simp) (by rw [hcl]; simp)
    simpa [okTail, List.append_assoc] using this

theorem close_order {tls : Bool} {L : List Ev} {st : St} (hI : Inv tls L st) (hO : ClosesOrdered L)
    (hN : (closedIds L).Nodup) : ClosesOrdered (L ++ (close st).2) ∧ (closedIds (L ++ (close st).2)).Nodup := by
  have := order_extend (T := []) hI hO hN (Nat.le_refl _) (Junk.nil st.next) (closesOrdered_of_no_close rfl)
    (by simp) (by simp)
  rw [close_eq]
  simpa using this

theorem run_order {cfg : Cfg} (steps : List Step) {L : List Ev} {st : St} (hI : Inv (cfg.tls && !cfg.unix) L st)
    (hO : ClosesOrdered L) (hN : (closedIds L).Nodup) :
    ClosesOrdered (L ++ (run cfg st steps).2) ∧ (closedIds (L ++ (run cfg st steps).2)).Nodup := by
  induction steps generalizing L st with
  | nil => simpa [run] using ⟨hO, hN⟩
  | cons s rest ih =>
    have hI' := step_inv hI s
    have h' : ClosesOrdered (L ++ (step cfg st s).2) ∧ (closedIds (L ++ (step cfg st s).2)).Nodup := by
      cases s with
      | connect p => exact (connect_outcome cfg p st).order hI hO hN
      | close => exact close_order hI hO hN
    have := ih hI' h'.1 h'.2
    simpa [run, List.append_assoc] using this

end Conn
