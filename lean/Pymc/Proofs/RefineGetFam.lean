import Pymc.Proofs.RefineGet
/-! C05 for get / gets / gat / gats / get_many / gets_many: the six public operations. -/
namespace Client
open Bytes Wire Exchange Readers AbsMap ApiSpec

/-- single-key post-processing: look the caller's key up in the result dict -/
def pick {β : Type} (G : β → Res) (dfl : Res) (k : Key.K) (d : List (Key.K × β)) : Res :=
  match d.find? (·.1 = k) with | some (_, it) => G it | none => dfl

theorem pick_map {β γ : Type} (f : β → γ) (G : γ → Res) (dfl : Res) (k : Key.K) (d : List (Key.K × β)) :
    pick (fun it => G (f it)) dfl k d = pick G dfl k (d.map fun kv => (kv.1, f kv.2)) := by
  unfold pick
  rw [List.find?_map]
  have : ((fun (x : Key.K × γ) => decide (x.1 = k)) ∘ fun (kv : Key.K × β) => (kv.1, f kv.2)) =
      fun (x : Key.K × β) => decide (x.1 = k) := rfl
  rw [this]
  cases d.find? (·.1 = k) with
  | none => rfl
  | some p => rfl

/-- single-key post-processing agrees on the two dicts -/
theorem single_post {γ : Type} (fc : Exchange.Item → γ) (fs : AbsMap.Item → γ) (wc : Bool)
    (hf : ∀ p, fc (toItem wc p) = fs p.2) (G : γ → Res) (dfl : Res) (k : Key.K)
    (remap : List (Bytes × Key.K)) (vs : List (Bytes × AbsMap.Item)) :
    pick (fun it => G (fc it)) dfl k (foldDict remap (toItem wc) vs) =
    pick (fun it => G (fs it)) dfl k (foldDict remap Prod.snd vs) := by
  rw [pick_map fc G dfl k, pick_map fs G dfl k, foldDict_map, foldDict_map]
  simp only [hf]

theorem many_post {γ : Type} (fc : Exchange.Item → γ) (fs : AbsMap.Item → γ) (wc : Bool)
    (hf : ∀ p, fc (toItem wc p) = fs p.2)
    (remap : List (Bytes × Key.K)) (vs : List (Bytes × AbsMap.Item)) :
    (foldDict remap (toItem wc) vs).map (fun kv => (kv.1, fc kv.2)) =
    (foldDict remap Prod.snd vs).map (fun kv => (kv.1, fs kv.2)) := by
  rw [foldDict_map, foldDict_map]
  simp only [hf]

theorem refines_get (cfg : Cfg) (s : St) (k : Key.K) (hk : KeyOK cfg k) :
    onServer cfg s (.get k) = ((spec cfg s (.get k)).1, (spec cfg s (.get k)).2, true) := by
  rw [fetch_core cfg s (.get k) .get [k] none
    (pick (fun it => .bytes it.data) .dflt k)
    (pick (fun it => .bytes it.data) .dflt k)
    (fun evs => by
      simp only [call, pick]
      congr 1; funext d
      cases List.find? (fun x => decide (x.fst = k)) d <;> rfl) (by simp) (by simp) (by simpa using hk)
    (fun remap vs => single_post Exchange.Item.data AbsMap.Item.data _ (fun _ => rfl) Res.bytes .dflt k remap vs)]
  simp only [spec, pick]
  cases fetchSpec cfg s _ [k] _ with
  | error err => rfl
  | ok p =>
    obtain ⟨s', d⟩ := p
    dsimp only
    cases List.find? (fun x => decide (x.fst = k)) d <;> rfl

theorem refines_gat (cfg : Cfg) (s : St) (k : Key.K) (e : IntArg) (hk : KeyOK cfg k) :
    onServer cfg s (.gat k e) = ((spec cfg s (.gat k e)).1, (spec cfg s (.gat k e)).2, true) := by
  rw [fetch_core cfg s (.gat k e) .gat [k] (some e)
    (pick (fun it => .bytes it.data) .dflt k)
    (pick (fun it => .bytes it.data) .dflt k)
    (fun evs => by
      simp only [call, pick]
      congr 1; funext d
      cases List.find? (fun x => decide (x.fst = k)) d <;> rfl) (by simp) (by simp) (by simpa using hk)
    (fun remap vs => single_post Exchange.Item.data AbsMap.Item.data _ (fun _ => rfl) Res.bytes .dflt k remap vs)]
  simp only [spec, pick]
  cases fetchSpec cfg s _ [k] _ with
  | error err => rfl
  | ok p =>
    obtain ⟨s', d⟩ := p
    dsimp only
    cases List.find? (fun x => decide (x.fst = k)) d <;> rfl

theorem refines_gets (cfg : Cfg) (s : St) (k : Key.K) (hk : KeyOK cfg k) :
    onServer cfg s (.gets k) = ((spec cfg s (.gets k)).1, (spec cfg s (.gets k)).2, true) := by
  rw [fetch_core cfg s (.gets k) .gets [k] none
    (pick (fun it => .pair it.data (it.cas.getD [])) .dfltPair k)
    (pick (fun it => .pair it.data (natDec it.cas)) .dfltPair k)
    (fun evs => by
      simp only [call, pick]
      congr 1; funext d
      cases List.find? (fun x => decide (x.fst = k)) d <;> rfl) (by simp) (by simp) (by simpa using hk)
    (fun remap vs => single_post (fun it => (it.data, it.cas.getD [])) (fun it => (it.data, natDec it.cas)) _ (fun _ => rfl) (fun c => Res.pair c.1 c.2) .dfltPair k remap vs)]
  simp only [spec, pick]
  cases fetchSpec cfg s _ [k] _ with
  | error err => rfl
  | ok p =>
    obtain ⟨s', d⟩ := p
    dsimp only
    cases List.find? (fun x => decide (x.fst = k)) d <;> rfl

theorem refines_gats (cfg : Cfg) (s : St) (k : Key.K) (e : IntArg) (hk : KeyOK cfg k) :
    onServer cfg s (.gats k e) = ((spec cfg s (.gats k e)).1, (spec cfg s (.gats k e)).2, true) := by
  rw [fetch_core cfg s (.gats k e) .gats [k] (some e)
    (pick (fun it => .pair it.data (it.cas.getD [])) .dfltPair k)
    (pick (fun it => .pair it.data (natDec it.cas)) .dfltPair k)
    (fun evs => by
      simp only [call, pick]
      congr 1; funext d
      cases List.find? (fun x => decide (x.fst = k)) d <;> rfl) (by simp) (by simp) (by simpa using hk)
    (fun remap vs => single_post (fun it => (it.data, it.cas.getD [])) (fun it => (it.data, natDec it.cas)) _ (fun _ => rfl) (fun c => Res.pair c.1 c.2) .dfltPair k remap vs)]
  simp only [spec, pick]
  cases fetchSpec cfg s _ [k] _ with
  | error err => rfl
  | ok p =>
    obtain ⟨s', d⟩ := p
    dsimp only
    cases List.find? (fun x => decide (x.fst = k)) d <;> rfl

theorem refines_getMany (cfg : Cfg) (s : St) (ks : List Key.K) (hk : ∀ k ∈ ks, KeyOK cfg k) :
    onServer cfg s (.getMany ks) = ((spec cfg s (.getMany ks)).1, (spec cfg s (.getMany ks)).2, true) := by
  by_cases hne : ks = []
  · subst hne
    rw [onServer_not_sent]
    · simp [call, spec]
    · simp [call]
  · rw [fetch_core cfg s (.getMany ks) .get ks none
      (fun d => .dict (d.map fun kv => (kv.1, kv.2.data)))
      (fun d => .dict (d.map fun kv => (kv.1, kv.2.data)))
      (fun evs => by simp only [call, hne, if_false]) (by simp) hne hk
      (fun remap vs => congrArg Res.dict
        (many_post Exchange.Item.data AbsMap.Item.data _ (fun _ => rfl) remap vs))]
    simp only [spec, hne, if_false]
    cases fetchSpec cfg s _ ks _ <;> rfl

theorem refines_getsMany (cfg : Cfg) (s : St) (ks : List Key.K) (hk : ∀ k ∈ ks, KeyOK cfg k) :
    onServer cfg s (.getsMany ks) = ((spec cfg s (.getsMany ks)).1, (spec cfg s (.getsMany ks)).2, true) := by
  by_cases hne : ks = []
  · subst hne
    rw [onServer_not_sent]
    · simp [call, spec]
    · simp [call]
  · rw [fetch_core cfg s (.getsMany ks) .gets ks none
      (fun d => .casDict (d.map fun kv => (kv.1, kv.2.data, kv.2.cas.getD [])))
      (fun d => .casDict (d.map fun kv => (kv.1, kv.2.data, natDec kv.2.cas)))
      (fun evs => by simp only [call, hne, if_false]) (by simp) hne hk
      (fun remap vs => congrArg Res.casDict
        (many_post (fun it => (it.data, it.cas.getD [])) (fun it => (it.data, natDec it.cas)) _
          (fun _ => rfl) remap vs))]
    simp only [spec, hne, if_false]
    cases fetchSpec cfg s _ ks _ <;> rfl
end Client
