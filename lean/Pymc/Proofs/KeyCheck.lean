import Pymc.Proofs.KeySplit
/-!
# Helper lemmas for C20: `checkEncoded`, `checkEncodedOrig`, `encodeKey`, UTF-8 arithmetic
-/
namespace Key
open Bytes

/-- decidable equality on results, so that concrete runs can be checked by `decide`
(core has no `DecidableEq (Except ε α)` instance; kept local to `Key` to avoid clashes) -/
instance decEqResult : DecidableEq (Except Err Bytes)
  | .ok a, .ok b =>
    if h : a = b then isTrue (by rw [h]) else isFalse (by intro e; cases e; exact h rfl)
  | .error .illegalInput, .error .illegalInput => isTrue rfl
  | .ok _, .error _ => isFalse (by intro e; cases e)
  | .error _, .ok _ => isFalse (by intro e; cases e)

theorem forbidden_eq (b : UInt8) : forbidden b = (isWs b || decide (b = 0)) := by
  simp [forbidden, isWs]

theorem forbidden_false_iff (b : UInt8) : forbidden b = false ↔ isWs b = false ∧ b ≠ 0 := by
  simp [forbidden_eq]

theorem isWs_ne_zero {b : UInt8} (h : isWs b = true) : b ≠ 0 := by
  intro e; subst e; revert h; decide

/-- "no forbidden byte" split into "no whitespace" and "no NUL" -/
theorem noForbidden_iff (w : Bytes) :
    (∀ b ∈ w, forbidden b = false) ↔ (∀ b ∈ w, isWs b = false) ∧ w.contains 0 = false := by
  constructor
  · intro h
    refine ⟨fun b hb => ((forbidden_false_iff b).1 (h b hb)).1, ?_⟩
    cases hc : w.contains 0 with
    | false => rfl
    | true =>
      have hm : (0 : UInt8) ∈ w := by simpa using hc
      have := ((forbidden_false_iff 0).1 (h 0 hm)).2
      exact absurd rfl this
  · rintro ⟨h1, h2⟩ b hb
    refine (forbidden_false_iff b).2 ⟨h1 b hb, ?_⟩
    rintro rfl
    have : (0 : UInt8) ∉ w := by simpa using h2
    exact this hb

/-- the whitespace test of the fixed code, for a non-empty key -/
theorem wsTest_fixed (key : Bytes) (hne : key ≠ []) :
    (((pySplitWs key).length > 1 || (pySplitWs key ≠ [] && (pySplitWs key).head? ≠ some key)
        || (key ≠ [] && pySplitWs key = [])) = false) ↔ pySplitWs key = [key] := by
  generalize pySplitWs key = parts
  match parts with
  | [] => simp [hne]
  | [p] => simp
  | _ :: _ :: _ => simp

/-- the whitespace test of the original code, when at least one part exists -/
theorem wsTest_orig (key : Bytes) (hp : pySplitWs key ≠ []) :
    (((pySplitWs key).length > 1 || (pySplitWs key ≠ [] && (pySplitWs key).head? ≠ some key))
        = false) ↔ pySplitWs key = [key] := by
  revert hp
  generalize pySplitWs key = parts
  intro hp
  match parts with
  | [] => exact absurd rfl hp
  | [p] => simp
  | _ :: _ :: _ => simp

/-- accepted keys are returned unchanged -/
theorem checkEncoded_ok_eq {pfx enc w : Bytes} (h : checkEncoded pfx enc = .ok w) :
    w = pfx ++ enc := by
  unfold checkEncoded at h
  simp only [] at h
  split at h
  · cases h
  · split at h
    · cases h
    · split at h
      · cases h
      · cases h; rfl

theorem checkEncodedOrig_ok_eq {pfx enc w : Bytes} (h : checkEncodedOrig pfx enc = .ok w) :
    w = pfx ++ enc := by
  unfold checkEncodedOrig at h
  simp only [] at h
  split at h
  · cases h
  · split at h
    · cases h
    · split at h
      · cases h
      · cases h; rfl

/-- shape shared by both versions of the check -/
theorem check_shape (key : Bytes) (c : Bool) :
    ((if key.length > 250 then Except.error Err.illegalInput
      else if c then .error .illegalInput
      else if key.contains 0 then .error .illegalInput else .ok key) = .ok key) ↔
    key.length ≤ 250 ∧ c = false ∧ key.contains 0 = false := by
  by_cases hl : key.length > 250
  · rw [if_pos hl]
    constructor
    · intro h; cases h
    · intro h; omega
  · rw [if_neg hl]
    cases c
    · cases h0 : key.contains 0
      · simp only [Bool.false_eq_true, if_false]
        exact ⟨fun _ => ⟨by omega, trivial, trivial⟩, fun _ => trivial⟩
      · simp only [Bool.false_eq_true, if_false, if_true]
        constructor
        · intro h; cases h
        · intro h; cases h.2.2
    · simp only [if_true]
      constructor
      · intro h; cases h
      · intro h; cases h.2.1

/-- the fixed check on a non-empty prefixed key -/
theorem checkEncoded_ok_iff (pfx enc : Bytes) (hne : pfx ++ enc ≠ []) :
    checkEncoded pfx enc = .ok (pfx ++ enc) ↔
      (pfx ++ enc).length ≤ 250 ∧ ∀ b ∈ pfx ++ enc, forbidden b = false := by
  rw [noForbidden_iff, ← and_iff_right hne (b := ∀ b ∈ pfx ++ enc, isWs b = false),
    ← pySplitWs_eq_singleton_self, ← wsTest_fixed (pfx ++ enc) hne]
  exact check_shape (pfx ++ enc) _

/-- the original check on a prefixed key with at least one non-whitespace byte -/
theorem checkEncodedOrig_ok_iff (pfx enc : Bytes) (hnw : ∃ b ∈ pfx ++ enc, isWs b = false) :
    checkEncodedOrig pfx enc = .ok (pfx ++ enc) ↔
      (pfx ++ enc).length ≤ 250 ∧ ∀ b ∈ pfx ++ enc, forbidden b = false := by
  have hne : pfx ++ enc ≠ [] := by
    obtain ⟨b, hb, _⟩ := hnw
    intro e; rw [e] at hb; cases hb
  have hp : pySplitWs (pfx ++ enc) ≠ [] := by
    intro e
    obtain ⟨b, hb, hws⟩ := hnw
    have := (pySplitWs_eq_nil _).1 e b hb
    simp [hws] at this
  rw [noForbidden_iff, ← and_iff_right hne (b := ∀ b ∈ pfx ++ enc, isWs b = false),
    ← pySplitWs_eq_singleton_self, ← wsTest_orig (pfx ++ enc) hp]
  exact check_shape (pfx ++ enc) _

/-- the two versions coincide when the prefixed key is empty or has a non-whitespace byte -/
theorem checkEncoded_eq_orig (pfx enc : Bytes)
    (h : pfx ++ enc = [] ∨ ∃ b ∈ pfx ++ enc, isWs b = false) :
    checkEncoded pfx enc = checkEncodedOrig pfx enc := by
  have h3 : (decide (pfx ++ enc ≠ []) && decide (pySplitWs (pfx ++ enc) = [])) = false := by
    rcases h with h | ⟨b, hb, hws⟩
    · simp [h]
    · have hp : pySplitWs (pfx ++ enc) ≠ [] := by
        intro e
        have := (pySplitWs_eq_nil _).1 e b hb
        simp [hws] at this
      simp [hp]
  unfold checkEncoded checkEncodedOrig
  simp only [h3, Bool.or_false]

/-- the original code accepts every non-over-long all-whitespace key (the defect) -/
theorem checkEncodedOrig_allWs (pfx enc : Bytes) (hl : (pfx ++ enc).length ≤ 250)
    (hws : ∀ b ∈ pfx ++ enc, isWs b = true) :
    checkEncodedOrig pfx enc = .ok (pfx ++ enc) := by
  have hp : pySplitWs (pfx ++ enc) = [] := (pySplitWs_eq_nil _).2 hws
  have h0 : (pfx ++ enc).contains 0 = false := by
    cases hc : (pfx ++ enc).contains 0 with
    | false => rfl
    | true =>
      have hm : (0 : UInt8) ∈ pfx ++ enc := by simpa using hc
      exact absurd rfl (isWs_ne_zero (hws 0 hm))
  have : ¬ (pfx ++ enc).length > 250 := by omega
  unfold checkEncodedOrig
  simp only [hp, h0]
  rw [if_neg this]
  rfl

/-- the fixed code rejects every non-empty all-whitespace key -/
theorem checkEncoded_allWs (pfx enc : Bytes) (hne : pfx ++ enc ≠ [])
    (hws : ∀ b ∈ pfx ++ enc, isWs b = true) :
    checkEncoded pfx enc = .error .illegalInput := by
  have hp : pySplitWs (pfx ++ enc) = [] := (pySplitWs_eq_nil _).2 hws
  unfold checkEncoded
  simp only [hp]
  by_cases hl : (pfx ++ enc).length > 250
  · rw [if_pos hl]
  · rw [if_neg hl]
    simp only [hne, ne_eq, not_false_eq_true, decide_true, Bool.and_self, Bool.or_true, if_true]

/-- every result is `.ok (pfx ++ enc)` or the single error -/
theorem checkEncoded_cases (pfx enc : Bytes) :
    checkEncoded pfx enc = .ok (pfx ++ enc) ∨ checkEncoded pfx enc = .error .illegalInput := by
  match h : checkEncoded pfx enc with
  | .ok w => left; rw [checkEncoded_ok_eq h]
  | .error .illegalInput => right; rfl

/-- the fixed check, with no side condition: the empty prefixed key passes (pinned behaviour) -/
theorem checkEncoded_ok_iff' (pfx enc : Bytes) :
    checkEncoded pfx enc = .ok (pfx ++ enc) ↔
      (pfx ++ enc).length ≤ 250 ∧ ∀ b ∈ pfx ++ enc, forbidden b = false := by
  by_cases hne : pfx ++ enc = []
  · have h : checkEncoded pfx enc = .ok (pfx ++ enc) := by
      unfold checkEncoded
      simp only [hne]
      rfl
    simp only [h, true_iff]
    rw [hne]
    exact ⟨by simp, fun b hb => by cases hb⟩
  · exact checkEncoded_ok_iff pfx enc hne

theorem checkKey_of_encode {au : Bool} {k : K} {enc : Bytes} (pfx : Bytes)
    (h : encodeKey au k = .ok enc) : checkKey au pfx k = checkEncoded pfx enc := by
  simp [checkKey, h]

theorem checkKeyOrig_of_encode {au : Bool} {k : K} {enc : Bytes} (pfx : Bytes)
    (h : encodeKey au k = .ok enc) : checkKeyOrig au pfx k = checkEncodedOrig pfx enc := by
  simp [checkKeyOrig, h]

theorem checkKey_of_encode_err {au : Bool} {k : K} {e : Err} (pfx : Bytes)
    (h : encodeKey au k = .error e) : checkKey au pfx k = .error e := by
  simp [checkKey, h]

theorem checkKeyOrig_of_encode_err {au : Bool} {k : K} {e : Err} (pfx : Bytes)
    (h : encodeKey au k = .error e) : checkKeyOrig au pfx k = .error e := by
  simp [checkKeyOrig, h]

/-! ## the encoding step -/

theorem encodeAscii_eq_some (cps : List Nat) (b : Bytes) :
    encodeAscii cps = some b ↔ (∀ c ∈ cps, c < 128) ∧ b = cps.map UInt8.ofNat := by
  unfold encodeAscii
  by_cases h : cps.all (· < 128) = true
  · rw [if_pos h]
    have h' : ∀ c ∈ cps, c < 128 := by simpa using h
    simp only [Option.some.injEq]
    exact ⟨fun e => ⟨h', e.symm⟩, fun e => e.2.symm⟩
  · rw [if_neg h]
    have h' : ¬ ∀ c ∈ cps, c < 128 := by simpa using h
    simp [h']

/-- the executable encoder and the declarative `Encodes` agree -/
theorem encodeKey_ok_iff (au : Bool) (k : K) (enc : Bytes) :
    encodeKey au k = .ok enc ↔ Encodes au k enc := by
  cases k with
  | bytes b => simp [encodeKey, Encodes, eq_comm]
  | str cps =>
    cases au with
    | true => simp [encodeKey, Encodes, eq_comm]
    | false =>
      simp only [encodeKey, Encodes, Bool.false_eq_true, if_false]
      rw [← encodeAscii_eq_some]
      cases encodeAscii cps <;> simp

theorem encodeKey_nonascii (cps : List Nat) (h : ∃ c ∈ cps, 128 ≤ c) :
    encodeKey false (.str cps) = .error .illegalInput := by
  have : encodeAscii cps = none := by
    unfold encodeAscii
    rw [if_neg]
    obtain ⟨c, hc, h128⟩ := h
    simp only [List.all_eq_true, decide_eq_true_eq]
    intro hall
    have := hall c hc
    omega
  simp [encodeKey, this]

/-! ## UTF-8 arithmetic -/

theorem utf8Cp_length (c : Nat) :
    (utf8Cp c).length = if c < 0x80 then 1 else if c < 0x800 then 2 else if c < 0x10000 then 3 else 4 := by
  unfold utf8Cp
  split
  · rfl
  · split
    · rfl
    · split <;> rfl

theorem encodeUtf8_ascii (cps : List Nat) (h : ∀ c ∈ cps, c < 128) :
    encodeUtf8 cps = cps.map UInt8.ofNat := by
  induction cps with
  | nil => rfl
  | cons c r ih =>
    have hc : c < 128 := h c (by simp)
    have hr := ih (fun c hc => h c (by simp [hc]))
    unfold encodeUtf8 at hr ⊢
    simp [List.flatMap_cons, hr, utf8Cp, hc]

theorem ofNat_ge_128 (n : Nat) (h : 128 ≤ n % 256) : (128 : UInt8) ≤ UInt8.ofNat n := by
  rw [UInt8.le_iff_toNat_le]
  simp
  omega

theorem utf8Cp_high (c : Nat) (h128 : 128 ≤ c) (hs : scalar c = true) :
    ∀ b ∈ utf8Cp c, (128 : UInt8) ≤ b := by
  have hlt : c < 0x110000 := by
    simp [scalar] at hs; omega
  intro b hb
  unfold utf8Cp at hb
  rw [if_neg (by omega)] at hb
  split at hb
  · simp only [List.mem_cons, List.not_mem_nil, or_false] at hb
    rcases hb with rfl | rfl <;> apply ofNat_ge_128 <;> omega
  · split at hb
    · simp only [List.mem_cons, List.not_mem_nil, or_false] at hb
      rcases hb with rfl | rfl | rfl <;> apply ofNat_ge_128 <;> omega
    · simp only [List.mem_cons, List.not_mem_nil, or_false] at hb
      rcases hb with rfl | rfl | rfl | rfl <;> apply ofNat_ge_128 <;> omega

/-- the model's per-code-point encoder is Lean core's `String.utf8EncodeChar` -/
theorem utf8Cp_core (ch : Char) : utf8Cp ch.val.toNat = String.utf8EncodeChar ch := by
  have hv : ch.val.toNat < 0x110000 := by
    have := ch.valid
    simp only [UInt32.isValidChar, Nat.isValidChar] at this
    omega
  unfold utf8Cp String.utf8EncodeChar
  simp only []
  generalize ch.val.toNat = v at hv
  by_cases h1 : v < 0x80
  · have h1' : v ≤ 127 := by omega
    rw [if_pos h1, if_pos h1']
  · have h1' : ¬ v ≤ 127 := by omega
    rw [if_neg h1, if_neg h1']
    by_cases h2 : v < 0x800
    · have h2' : v ≤ 2047 := by omega
      rw [if_pos h2, if_pos h2']
      have e1 : 0xC0 + v / 64 = v / 64 % 32 + 192 := by omega
      have e2 : 0x80 + v % 64 = v % 64 + 128 := by omega
      rw [e1, e2]
    · have h2' : ¬ v ≤ 2047 := by omega
      rw [if_neg h2, if_neg h2']
      by_cases h3 : v < 0x10000
      · have h3' : v ≤ 65535 := by omega
        rw [if_pos h3, if_pos h3']
        have e1 : 0xE0 + v / 4096 = v / 4096 % 16 + 224 := by omega
        have e2 : 0x80 + v / 64 % 64 = v / 64 % 64 + 128 := by omega
        have e3 : 0x80 + v % 64 = v % 64 + 128 := by omega
        rw [e1, e2, e3]
      · have h3' : ¬ v ≤ 65535 := by omega
        rw [if_neg h3, if_neg h3']
        have e1 : 0xF0 + v / 262144 = v / 262144 % 8 + 240 := by omega
        have e2 : 0x80 + v / 64 % 64 = v / 64 % 64 + 128 := by omega
        have e3 : 0x80 + v % 64 = v % 64 + 128 := by omega
        have e4 : 0x80 + v / 4096 % 64 = v / 4096 % 64 + 128 := by omega
        rw [e1, e2, e3, e4]

/-- the model's string encoder is Lean core's `String.toUTF8` -/
theorem encodeUtf8_core (s : String) :
    encodeUtf8 (s.toList.map (fun ch => ch.val.toNat)) = s.toUTF8.data.toList := by
  have : s.toUTF8 = s.toList.utf8Encode := by
    rw [← String.toByteArray_ofList, String.ofList_toList]; rfl
  rw [this, List.utf8Encode, List.data_toByteArray]
  simp only [encodeUtf8, List.flatMap_map, utf8Cp_core]

theorem forbidden_lt_128 {b : UInt8} (h : forbidden b = true) : b < 128 := by
  simp [forbidden] at h
  rcases h with (((((rfl | rfl) | rfl) | rfl) | rfl) | rfl) | rfl <;> decide
end Key
