import Pymc.Proofs.HashCallMany
import Pymc.Proofs.FailoverRun
/-!
# `HashClient ∘ Client`: general calls (`get_many`, `set_many`, `delete_many`) refine the abstract failover model

* one batch: `_safely_run_func` / `_safely_run_set_many` on the registered client object is the abstract
  `Failover.safelyRunFunc` / `Failover.safelyRunSetMany` in any environment that gives the server the outcome of the
  inner call (`safelyRunFunc_proj_env`, `safelyRunSetMany_proj`; the latter needs "no `BaseException` under
  `ignore_exc`": the abstract `_set_many` swallows every failure, the real one lets a `BaseException` through);
* the first loop (`routeKeysH_proj`, `routeItemsH_proj`): same bookkeeping, the servers of the batches are the assigned
  servers in order of first appearance (`addNodes_nil`: that is `Failover.dedup`);
* the second loop (`runBatchesG_proj`), one call (`callM_proj`), runs (`runM_proj`).
-/
namespace HashCall
open Exchange Client Framing Failover

/-! ## the abstract batch functions look at the environment only at their server -/

theorem absSafelyRunFunc_congr (c : Cfg) (now : Time) (env env' : Srv → Outcome) (st : State) (s : Srv)
    (h : env s = env' s) : Failover.safelyRunFunc c now env st s = Failover.safelyRunFunc c now env' st s := by
  simp only [Failover.safelyRunFunc, Failover.invoke, h]

theorem absSafelyRunSetMany_congr (c : Cfg) (now : Time) (env env' : Srv → Outcome) (st : State) (s : Srv)
    (h : env s = env' s) : Failover.safelyRunSetMany c now env st s = Failover.safelyRunSetMany c now env' st s := by
  simp only [Failover.safelyRunSetMany, Failover.invokeSetMany, Failover.setManyInner, h]

/-- `safelyRunFunc_proj` in any environment that gives `s` the outcome of the inner call -/
theorem safelyRunFunc_proj_env (ccfg : Wire.Cfg) (c : Cfg) (idx : Nat) (now : Time) (st : St) (s : Srv) (cl : IClient)
    (call : Call) (sc : Script) (env : Srv → Outcome)
    (henv : env s = outcomeOfStep (safelyRunFunc ccfg c idx now st s cl call sc).2.2) :
    Failover.safelyRunFunc c now env st.fo s =
      ((safelyRunFunc ccfg c idx now st s cl call sc).1.fo, absRes c (safelyRunFunc ccfg c idx now st s cl call sc).2.1,
        contactsOfStep s now (safelyRunFunc ccfg c idx now st s cl call sc).2.2) := by
  rw [← safelyRunFunc_proj]
  exact absSafelyRunFunc_congr c now _ _ st.fo s henv

/-! ## `_safely_run_set_many` -/

/-- the invocation of `_set_many` inside `_safely_run_set_many` in the abstract model, for both branches -/
def absInvokeSetMany (clear : Bool) (c : Cfg) (now : Time) (env : Srv → Outcome) (st : State) (s : Srv) :
    State × Result × List Contact :=
  match setManyInner c now env s with
  | (none, cs) =>
    if clear then
      match aerase s st.failed with
      | none => (st, .internalError, cs)
      | some f => ({ st with failed := f }, .value, cs)
    else (st, .value, cs)
  | (some o, cs) => Failover.onError c now st s o cs

theorem absSafelyRunSetMany_eq (c : Cfg) (now : Time) (env : Srv → Outcome) (st : State) (s : Srv) :
    Failover.safelyRunSetMany c now env st s =
      match alookup s st.failed with
      | some (attempts, failedTime) =>
        if attempts < c.ra then
          if now - failedTime > c.rt then absInvokeSetMany true c now env st s
          else (st, .default, [])
        else
          match removeServer now st s with
          | none => (st, .internalError, [])
          | some st' => absInvokeSetMany false c now env st' s
      | none => absInvokeSetMany false c now env st s := by
  unfold Failover.safelyRunSetMany absInvokeSetMany Failover.invokeSetMany
  cases alookup s st.failed with
  | none => rcases setManyInner c now env s with ⟨_ | o, cs⟩ <;> rfl
  | some p =>
    obtain ⟨a, ft⟩ := p
    simp only []
    split
    · split
      · rcases setManyInner c now env s with ⟨_ | o, cs⟩ <;> rfl
      · rfl
    · cases removeServer now st s with
      | none => rfl
      | some st' => simp only []; rcases setManyInner c now env s with ⟨_ | o, cs⟩ <;> rfl

theorem excOutcome_ne_ok (e : Exc) : excOutcome e ≠ .ok := by
  unfold excOutcome; split <;> exact fun h => by cases h

theorem setManyInner_ok (c : Cfg) (now : Time) (env : Srv → Outcome) (s : Srv) (h : env s = .ok) :
    setManyInner c now env s = (none, [(s, now, .ok)]) := by
  simp [setManyInner, h]

theorem setManyInner_err (c : Cfg) (now : Time) (env : Srv → Outcome) (s : Srv) (o : Outcome) (h : env s = o)
    (ho : o ≠ .ok) :
    setManyInner c now env s = (if !c.ignoreExc then some o else none, [(s, now, o)]) := by
  unfold setManyInner
  rw [h]
  cases o with
  | ok => exact absurd rfl ho
  | oserror => cases c.ignoreExc <;> rfl
  | othererror => cases c.ignoreExc <;> rfl

theorem invokeSetMany_proj (ccfg : Wire.Cfg) (c : Cfg) (idx : Nat) (now : Time) (st : St) (s : Srv) (cl : IClient)
    (call : Call) (sc : Script) (clear : Bool) (env : Srv → Outcome)
    (henv : env s = outcomeOfStep (invokeSetMany ccfg c idx now st s cl call sc clear).2.2)
    (hok : ¬ (c.ignoreExc = true ∧ escapedBase (invokeSetMany ccfg c idx now st s cl call sc clear).2.1 = true)) :
    absInvokeSetMany clear c now env st.fo s =
      ((invokeSetMany ccfg c idx now st s cl call sc clear).1.fo,
        absRes c (invokeSetMany ccfg c idx now st s cl call sc clear).2.1,
        contactsOfStep s now (invokeSetMany ccfg c idx now st s cl call sc clear).2.2) := by
  rw [(invokeSetMany_fst ccfg c idx now st s cl call sc clear).1] at henv ⊢
  simp only [outcomeOfStep, contactsOfStep] at henv ⊢
  unfold invokeSetMany at hok ⊢
  simp only [contact_step] at hok ⊢
  cases hres : (PooledCall.stepTagged ccfg idx cl.sockOpen cl.pipe call sc).out.res with
  | ok r =>
    rw [hres] at henv
    simp only [outcomeOf] at henv ⊢
    unfold absInvokeSetMany
    rw [setManyInner_ok c now env s henv]
    cases clear
    · simp [absRes]
    · simp only [if_true, contact_fo]
      cases aerase s st.fo.failed <;> simp [absRes]
  | error e =>
    rw [hres] at henv hok
    simp only [outcomeOf] at henv hok ⊢
    unfold absInvokeSetMany
    rw [setManyInner_err c now env s _ henv (excOutcome_ne_ok e)]
    cases hb : isBaseExc e
    · simp only [Bool.false_eq_true, if_false]
      cases hi : c.ignoreExc
      · simp only [Bool.not_false, if_true, Bool.false_eq_true, if_false]
        have h := onError_proj c now (contact ccfg idx st s cl call sc).1 s e [(s, now, excOutcome e)]
        simp only [contact_fo] at h
        exact h
      · simp only [Bool.not_true, Bool.false_eq_true, if_false, if_true]
        cases clear
        · simp [absRes]
        · simp only [if_true, contact_fo]
          cases aerase s st.fo.failed <;> simp [absRes]
    · simp only [hb, if_true] at hok ⊢
      have hi : c.ignoreExc = false := by
        cases hi : c.ignoreExc
        · rfl
        · exact absurd ⟨hi, by simp [escapedBase, hb]⟩ hok
      have ho : excOutcome e = .othererror := by simp [excOutcome, isOSError_of_base hb]
      simp [hi, ho, Failover.onError, absRes, hb]

theorem safelyRunSetMany_proj (ccfg : Wire.Cfg) (c : Cfg) (idx : Nat) (now : Time) (st : St) (s : Srv) (cl : IClient)
    (call : Call) (sc : Script) (env : Srv → Outcome)
    (henv : env s = outcomeOfStep (safelyRunSetMany ccfg c idx now st s cl call sc).2.2)
    (hok : ¬ (c.ignoreExc = true ∧ escapedBase (safelyRunSetMany ccfg c idx now st s cl call sc).2.1 = true)) :
    Failover.safelyRunSetMany c now env st.fo s =
      ((safelyRunSetMany ccfg c idx now st s cl call sc).1.fo, absRes c (safelyRunSetMany ccfg c idx now st s cl call sc).2.1,
        contactsOfStep s now (safelyRunSetMany ccfg c idx now st s cl call sc).2.2) := by
  rw [absSafelyRunSetMany_eq]
  unfold safelyRunSetMany at henv hok ⊢
  cases hf : alookup s st.fo.failed with
  | none =>
    simp only [hf] at henv hok ⊢
    exact invokeSetMany_proj ccfg c idx now st s cl call sc false env henv hok
  | some p =>
    obtain ⟨attempts, failedTime⟩ := p
    simp only [hf] at henv hok ⊢
    by_cases h1 : attempts < c.ra
    · simp only [h1, if_true] at henv hok ⊢
      by_cases h2 : now - failedTime > c.rt
      · simp only [h2, if_true] at henv hok ⊢
        exact invokeSetMany_proj ccfg c idx now st s cl call sc true env henv hok
      · simp only [h2, if_false]; simp [absRes, contactsOfStep]
    · simp only [h1, if_false] at henv hok ⊢
      cases hrm : removeServer now st.fo s with
      | none => simp [absRes, contactsOfStep]
      | some fo' =>
        simp only [hrm] at henv hok ⊢
        exact invokeSetMany_proj ccfg c idx now { st with fo := fo' } s cl call sc false env henv hok

/-! ## nodes only leave the rotation, client objects stay registered -/

theorem invokeSetMany_nodes (ccfg : Wire.Cfg) (c : Cfg) (idx : Nat) (now : Time) (st : St) (s : Srv) (cl : IClient)
    (call : Call) (sc : Script) (clear : Bool) :
    ∀ x ∈ (invokeSetMany ccfg c idx now st s cl call sc clear).1.fo.nodes, x ∈ st.fo.nodes := by
  have hfin : ∀ r : Res, ∀ x ∈
      (if clear then
        match aerase s (contact ccfg idx st s cl call sc).1.fo.failed with
        | none => ((contact ccfg idx st s cl call sc).1, HRes.internalError, some (contact ccfg idx st s cl call sc).2)
        | some f => ({ (contact ccfg idx st s cl call sc).1 with
                        fo := { (contact ccfg idx st s cl call sc).1.fo with failed := f } }, HRes.value r,
                      some (contact ccfg idx st s cl call sc).2)
      else ((contact ccfg idx st s cl call sc).1, HRes.value r, some (contact ccfg idx st s cl call sc).2)).1.fo.nodes,
      x ∈ st.fo.nodes := by
    intro r
    cases clear
    · exact fun x hx => hx
    · simp only [if_true]
      cases aerase s (contact ccfg idx st s cl call sc).1.fo.failed <;> exact fun x hx => hx
  unfold invokeSetMany
  simp only []
  cases hres : (contact ccfg idx st s cl call sc).2.out.res with
  | ok r => exact hfin r
  | error e =>
    simp only []
    split
    · exact fun x hx => hx
    · split
      · exact hfin _
      · exact (onError_nodes c now _ s e).1

theorem safelyRunSetMany_nodes (ccfg : Wire.Cfg) (c : Cfg) (idx : Nat) (now : Time) (st : St) (s : Srv) (cl : IClient)
    (call : Call) (sc : Script) :
    ∀ x ∈ (safelyRunSetMany ccfg c idx now st s cl call sc).1.fo.nodes, x ∈ st.fo.nodes := by
  unfold safelyRunSetMany
  split
  · split
    · split
      · exact invokeSetMany_nodes ccfg c idx now st s cl call sc true
      · exact fun x hx => hx
    · split
      · exact fun x hx => hx
      · rename_i fo' hrm
        intro x hx
        exact removeServer_nodes hrm x (invokeSetMany_nodes ccfg c idx now { st with fo := fo' } s cl call sc false x hx)
  · exact invokeSetMany_nodes ccfg c idx now st s cl call sc false

theorem contact_keeps (ccfg : Wire.Cfg) (idx : Nat) (st : St) (s : Srv) (cl : IClient) (call : Call) (sc : Script) (y : Srv)
    (h : ∃ cl', alookup y st.clients = some cl') : ∃ cl', alookup y (contact ccfg idx st s cl call sc).1.clients = some cl' := by
  rw [contact_clients, alookup_ainsert]
  by_cases hy : y = s
  · simp [hy]
  · simpa [hy] using h

theorem safelyRunFunc_keeps (ccfg : Wire.Cfg) (c : Cfg) (idx : Nat) (now : Time) (st : St) (s : Srv) (cl : IClient)
    (call : Call) (sc : Script) (y : Srv) (h : ∃ cl', alookup y st.clients = some cl') :
    ∃ cl', alookup y (safelyRunFunc ccfg c idx now st s cl call sc).1.clients = some cl' := by
  rcases safelyRunFunc_step ccfg c idx now st s cl call sc with ⟨-, h2⟩ | ⟨-, h2⟩
  · rw [h2]; exact h
  · rw [h2]; exact contact_keeps ccfg idx st s cl call sc y h

theorem safelyRunSetMany_keeps (ccfg : Wire.Cfg) (c : Cfg) (idx : Nat) (now : Time) (st : St) (s : Srv) (cl : IClient)
    (call : Call) (sc : Script) (y : Srv) (h : ∃ cl', alookup y st.clients = some cl') :
    ∃ cl', alookup y (safelyRunSetMany ccfg c idx now st s cl call sc).1.clients = some cl' := by
  rcases safelyRunSetMany_step ccfg c idx now st s cl call sc with ⟨-, h2⟩ | ⟨-, h2⟩
  · rw [h2]; exact h
  · rw [h2]; exact contact_keeps ccfg idx st s cl call sc y h

/-! ## the second loop -/

theorem contactsOfBatches_cons (now : Time) (bo : BatchObs) (obs : List BatchObs) :
    contactsOfBatches now (bo :: obs) = contactsOfStep bo.server now bo.step ++ contactsOfBatches now obs := by
  simp only [contactsOfBatches, List.flatMap_cons]
  cases bo.step <;> rfl

theorem outcome_eq (bo : BatchObs) : bo.outcome = outcomeOfStep bo.step := by
  unfold BatchObs.outcome outcomeOfStep
  cases bo.step <;> rfl

/-- what the abstract second loop is to return for the observation of the composed one -/
def absBatchRes (c : Cfg) (r : HRes) (obs : List BatchObs) : Sum Result (List (Srv × Bool)) :=
  match r with
  | .value _ => .inr (obs.map fun bo => (bo.server, bo.served))
  | r => .inl (absRes c r)

theorem absRes_stops (c : Cfg) (r : HRes) (h1 : ∀ v, r ≠ .value v) (h2 : r ≠ .default)
    (hok : ¬ (c.ignoreExc = true ∧ escapedBase r = true)) : absRes c r ≠ .value ∧ absRes c r ≠ .default := by
  cases r with
  | value v => exact absurd rfl (h1 v)
  | default => exact absurd rfl h2
  | raised s e =>
    simp only [absRes]
    by_cases h : (c.ignoreExc && isBaseExc e) = true
    · simp only [Bool.and_eq_true] at h
      exact absurd ⟨h.1, by simpa [escapedBase] using h.2⟩ hok
    · simp only [h]
      exact ⟨(fun h => by cases h), (fun h => by cases h)⟩
  | allDown => exact ⟨(fun h => by cases h), (fun h => by cases h)⟩
  | illegalKey => exact ⟨(fun h => by cases h), (fun h => by cases h)⟩
  | internalError => exact ⟨(fun h => by cases h), (fun h => by cases h)⟩

theorem absRunBatches_stop (runOne : State → Srv → State × Result × List Contact) (st st1 : State) (b : Srv) (bs : List Srv)
    (r : Result) (cs : List Contact) (h : runOne st b = (st1, r, cs)) (h1 : r ≠ .value) (h2 : r ≠ .default) :
    Failover.runBatches runOne st (b :: bs) = (st1, .inl r, cs) := by
  cases r <;> first | exact absurd rfl h1 | exact absurd rfl h2 | simp only [Failover.runBatches, h]

/-- **the second loop of a multi-key call is the second loop of the abstract model**, in any environment that gives
every contacted server the outcome of its inner call, provided the loop was not ended by a `BaseException` under
`ignore_exc` -/
theorem runBatchesG_proj {β γ : Type} (c : Cfg) (now : Time)
    (runOne : St → Srv → IClient → β → St × HRes × Option Step)
    (onValue : γ → β → Res → γ) (onDefault : γ → β → γ) (fin : γ → Res)
    (absOne : (Srv → Outcome) → State → Srv → State × Result × List Contact)
    (hone : ∀ env st s cl x, env s = outcomeOfStep (runOne st s cl x).2.2 →
      ¬ (c.ignoreExc = true ∧ escapedBase (runOne st s cl x).2.1 = true) →
      absOne env st.fo s =
        ((runOne st s cl x).1.fo, absRes c (runOne st s cl x).2.1, contactsOfStep s now (runOne st s cl x).2.2))
    (hkeep : ∀ st s cl x y, (∃ cl', alookup y st.clients = some cl') →
      ∃ cl', alookup y (runOne st s cl x).1.clients = some cl')
    (env : Srv → Outcome) (st : St) (bs : List (Srv × β)) (acc : γ)
    (hcl : ∀ s ∈ keys bs, ∃ cl, alookup s st.clients = some cl)
    (henv : ∀ bo ∈ (runBatchesG runOne onValue onDefault fin st bs acc).2.2, env bo.server = bo.outcome)
    (hok : ¬ (c.ignoreExc = true ∧ escapedBase (runBatchesG runOne onValue onDefault fin st bs acc).2.1 = true)) :
    Failover.runBatches (absOne env) st.fo (keys bs) =
      ((runBatchesG runOne onValue onDefault fin st bs acc).1.fo,
        absBatchRes c (runBatchesG runOne onValue onDefault fin st bs acc).2.1
          (runBatchesG runOne onValue onDefault fin st bs acc).2.2,
        contactsOfBatches now (runBatchesG runOne onValue onDefault fin st bs acc).2.2) := by
  induction bs generalizing st acc with
  | nil => simp [runBatchesG, Failover.runBatches, keys, absBatchRes, contactsOfBatches]
  | cons sx bs ih =>
    obtain ⟨s, x⟩ := sx
    obtain ⟨cl, hl⟩ := hcl s (by simp [keys])
    have hcl1 : ∀ y ∈ keys bs, ∃ cl', alookup y (runOne st s cl x).1.clients = some cl' :=
      fun y hy => hkeep st s cl x y (hcl y (by simp only [keys, List.map_cons, List.mem_cons] at hy ⊢; exact .inr hy))
    simp only [runBatchesG, hl] at henv hok ⊢
    have h1 := hone env st s cl x
    rcases hs : runOne st s cl x with ⟨st1, r, stp⟩
    rw [hs] at h1 hcl1
    simp only [] at h1 hcl1
    simp only [hs] at henv hok ⊢
    have hkeys : keys ((s, x) :: bs) = s :: keys bs := rfl
    rw [hkeys]
    cases r with
    | value v =>
      simp only [] at henv hok ⊢
      have he : env s = outcomeOfStep stp := by
        have := henv ⟨s, stp.map fun _ => cl.id, stp, true⟩ (by simp)
        rw [outcome_eq] at this
        exact this
      have h1' := h1 he (by simp [escapedBase])
      have hi := ih st1 (onValue acc x v) hcl1 (fun bo hbo => henv bo (by simp [hbo])) hok
      simp only [Failover.runBatches, h1', absRes]
      rw [hi, contactsOfBatches_cons]
      generalize runBatchesG runOne onValue onDefault fin st1 bs (onValue acc x v) = R
      obtain ⟨st2, res, obs⟩ := R
      cases res <;> simp [absBatchRes]
    | default =>
      simp only [] at henv hok ⊢
      have he : env s = outcomeOfStep stp := by
        have := henv ⟨s, stp.map fun _ => cl.id, stp, false⟩ (by simp)
        rw [outcome_eq] at this
        exact this
      have h1' := h1 he (by simp [escapedBase])
      have hi := ih st1 (onDefault acc x) hcl1 (fun bo hbo => henv bo (by simp [hbo])) hok
      simp only [Failover.runBatches, h1', absRes]
      rw [hi, contactsOfBatches_cons]
      generalize runBatchesG runOne onValue onDefault fin st1 bs (onDefault acc x) = R
      obtain ⟨st2, res, obs⟩ := R
      cases res <;> simp [absBatchRes]
    | raised s' e =>
      simp only [] at henv hok ⊢
      have he : env s = outcomeOfStep stp := by
        have := henv ⟨s, stp.map fun _ => cl.id, stp, false⟩ (by simp)
        rw [outcome_eq] at this
        exact this
      have h1' := h1 he hok
      obtain ⟨n1, n2⟩ := absRes_stops c (.raised s' e) (fun v h => by cases h) (fun h => by cases h) hok
      rw [absRunBatches_stop (absOne env) st.fo st1.fo s (keys bs) _ _ h1' n1 n2]
      simp only [absBatchRes, contactsOfBatches, List.flatMap_cons, List.flatMap_nil, List.append_nil]
      cases stp <;> rfl
    | allDown =>
      simp only [] at henv hok ⊢
      have he : env s = outcomeOfStep stp := by
        have := henv ⟨s, stp.map fun _ => cl.id, stp, false⟩ (by simp)
        rw [outcome_eq] at this
        exact this
      have h1' := h1 he hok
      obtain ⟨n1, n2⟩ := absRes_stops c .allDown (fun v h => by cases h) (fun h => by cases h) hok
      rw [absRunBatches_stop (absOne env) st.fo st1.fo s (keys bs) _ _ h1' n1 n2]
      simp only [absBatchRes, contactsOfBatches, List.flatMap_cons, List.flatMap_nil, List.append_nil]
      cases stp <;> rfl
    | illegalKey =>
      simp only [] at henv hok ⊢
      have he : env s = outcomeOfStep stp := by
        have := henv ⟨s, stp.map fun _ => cl.id, stp, false⟩ (by simp)
        rw [outcome_eq] at this
        exact this
      have h1' := h1 he hok
      obtain ⟨n1, n2⟩ := absRes_stops c .illegalKey (fun v h => by cases h) (fun h => by cases h) hok
      rw [absRunBatches_stop (absOne env) st.fo st1.fo s (keys bs) _ _ h1' n1 n2]
      simp only [absBatchRes, contactsOfBatches, List.flatMap_cons, List.flatMap_nil, List.append_nil]
      cases stp <;> rfl
    | internalError =>
      simp only [] at henv hok ⊢
      have he : env s = outcomeOfStep stp := by
        have := henv ⟨s, stp.map fun _ => cl.id, stp, false⟩ (by simp)
        rw [outcome_eq] at this
        exact this
      have h1' := h1 he hok
      obtain ⟨n1, n2⟩ := absRes_stops c .internalError (fun v h => by cases h) (fun h => by cases h) hok
      rw [absRunBatches_stop (absOne env) st.fo st1.fo s (keys bs) _ _ h1' n1 n2]
      simp only [absBatchRes, contactsOfBatches, List.flatMap_cons, List.flatMap_nil, List.append_nil]
      cases stp <;> rfl

/-! ## order of first appearance -/

theorem addNodes_eq (l acc : List Srv) :
    addNodes l acc = acc ++ (dedup l).filter (fun x => !acc.contains x) := by
  induction l generalizing acc with
  | nil => simp [addNodes, dedup]
  | cons s r ih =>
    have hstep : addNodes (s :: r) acc = addNodes r (addNode s acc) := rfl
    rw [hstep, ih]
    by_cases hs : s ∈ acc
    · have : addNode s acc = acc := by simp [addNode, hs]
      rw [this]
      simp only [dedup, List.filter_cons, List.contains_eq_mem, hs, decide_true, Bool.not_true, Bool.false_eq_true, if_false,
        List.filter_filter]
      congr 1
      apply List.filter_congr
      intro x _
      by_cases hx : x ∈ acc
      · simp [hx]
      · have : x ≠ s := fun h => hx (h ▸ hs)
        simp [hx, this]
    · have : addNode s acc = acc ++ [s] := by simp [addNode, hs]
      rw [this]
      simp only [dedup, List.filter_cons, List.contains_eq_mem, hs, decide_false, Bool.not_false, if_true,
        List.filter_filter, List.append_assoc, List.singleton_append]
      congr 2
      apply List.filter_congr
      intro x _
      by_cases hx : x ∈ acc <;> by_cases hxs : x = s <;> simp [hx, hxs]

theorem addNodes_nil (l : List Srv) : addNodes l [] = dedup l := by
  rw [addNodes_eq]
  simp

theorem keys_addToBatch (s : Srv) (k : Key.K) (b : List (Srv × List Key.K)) :
    keys (addToBatch s k b) = addNode s (keys b) := by
  unfold addToBatch addNode
  cases hl : alookup s b with
  | none =>
    have hm : s ∉ keys b := by rw [mem_keys_iff]; intro ⟨v, hv⟩; rw [hl] at hv; cases hv
    simp [keys_ainsert, amem, hl, hm]
  | some ks =>
    have hm : s ∈ keys b := by rw [mem_keys_iff]; exact ⟨ks, hl⟩
    simp [keys_ainsert, amem, hl, hm]

theorem keys_addToBatchKV (s : Srv) (k : Key.K) (v : Wire.Val) (b : List (Srv × List (Key.K × Wire.Val))) :
    keys (addToBatchKV s k v b) = addNode s (keys b) := by
  unfold addToBatchKV addNode
  cases hl : alookup s b with
  | none =>
    have hm : s ∉ keys b := by rw [mem_keys_iff]; intro ⟨v, hv⟩; rw [hl] at hv; cases hv
    simp [keys_ainsert, amem, hl, hm]
  | some ks =>
    have hm : s ∈ keys b := by rw [mem_keys_iff]; exact ⟨ks, hl⟩
    simp [keys_ainsert, amem, hl, hm]

/-! ## the first loop -/

/-- what the first loop of the abstract model is to return for the outcome of the composed one -/
def RouteAgrees {β : Type} (c : Cfg) (A : State × Sum Result (List (Option Srv))) (st' : St) (accKeys : List Srv)
    (res : Sum HRes β) (ks : β → List Srv) : Prop :=
  match res with
  | .inl r => (∀ v, r ≠ .value v) ∧ (isIllegalKey r = false → A = (st'.fo, .inl (absRes c r)))
  | .inr b' => ∃ assigned, A = (st'.fo, .inr assigned) ∧ ks b' = addNodes (assigned.filterMap id) accKeys ∧
      ∀ s ∈ ks b', ∃ cl, alookup s st'.clients = some cl

theorem routeKeys_cons_client {RK : Type} (c : Cfg) (route : List Srv → RK → Option Srv) (now : Time) (fo fo1 : State)
    (rk : RK) (rks : List RK) (s : Srv) (h : Failover.getClient c route now fo rk = (fo1, .client s)) :
    Failover.routeKeys c route now fo (rk :: rks) =
      match Failover.routeKeys c route now fo1 rks with
      | (st2, .inr as) => (st2, .inr (some s :: as))
      | x => x := by
  simp only [Failover.routeKeys, h]
  rcases Failover.routeKeys c route now fo1 rks with ⟨st2, r | as⟩ <;> rfl

theorem routeKeys_cons_noClient {RK : Type} (c : Cfg) (route : List Srv → RK → Option Srv) (now : Time) (fo fo1 : State)
    (rk : RK) (rks : List RK) (h : Failover.getClient c route now fo rk = (fo1, .noClient)) :
    Failover.routeKeys c route now fo (rk :: rks) =
      match Failover.routeKeys c route now fo1 rks with
      | (st2, .inr as) => (st2, .inr (none :: as))
      | x => x := by
  simp only [Failover.routeKeys, h]
  rcases Failover.routeKeys c route now fo1 rks with ⟨st2, r | as⟩ <;> rfl

theorem routeKeysH_proj {RK : Type} (ccfg : Wire.Cfg) (c : Cfg) (route : List Srv → RK → Option Srv) (hlaw : RouteLaw route)
    (now : Time) (st : St) (ks : List (RK × Key.K)) (b : List (Srv × List Key.K)) (hc : Cover st)
    (hb : ∀ s ∈ keys b, ∃ cl, alookup s st.clients = some cl) :
    Cover (routeKeysH ccfg c route now st ks b).1 ∧
    RouteAgrees c (Failover.routeKeys c route now st.fo (ks.map (·.1))) (routeKeysH ccfg c route now st ks b).1 (keys b)
      (routeKeysH ccfg c route now st ks b).2 keys := by
  induction ks generalizing st b with
  | nil => exact ⟨hc, [], rfl, rfl, hb⟩
  | cons rkk ks ih =>
    obtain ⟨rk, k⟩ := rkk
    cases hk : Wire.checkKey ccfg k with
    | error e =>
      simp only [routeKeysH, hk]
      exact ⟨hc, (fun v h => by cases h), (fun h => by cases h)⟩
    | ok w =>
      obtain ⟨hg, hr, hcov, hcl⟩ := getClient_proj c route hlaw now st rk hc
      rcases hgc : getClient c route now st rk with ⟨st1, g⟩
      rw [hgc] at hg hr hcov hcl
      simp only [] at hg hr hcov hcl
      have hb1 : ∀ s ∈ keys b, ∃ cl, alookup s st1.clients = some cl := fun s hs => hr.keep s (hb s hs)
      cases g with
      | internalError =>
        simp only [routeKeysH, hk, hgc, List.map_cons]
        refine ⟨hcov, (fun v h => by cases h), fun _ => ?_⟩
        simp only [Failover.routeKeys, hg, Got.proj, absRes]
      | allDown =>
        simp only [routeKeysH, hk, hgc, List.map_cons]
        refine ⟨hcov, (fun v h => by cases h), fun _ => ?_⟩
        simp only [Failover.routeKeys, hg, Got.proj, absRes]
      | noClient =>
        simp only [routeKeysH, hk, hgc, List.map_cons]
        rw [routeKeys_cons_noClient c route now st.fo st1.fo rk _ hg]
        obtain ⟨h1, h2⟩ := ih st1 b hcov hb1
        refine ⟨h1, ?_⟩
        generalize routeKeysH ccfg c route now st1 ks b = R at h1 h2 ⊢
        obtain ⟨st2, r | b'⟩ := R
        · simp only [RouteAgrees] at h2 ⊢
          refine ⟨h2.1, fun hill => ?_⟩
          rw [h2.2 hill]
        · simp only [RouteAgrees] at h2 ⊢
          obtain ⟨assigned, ha, hkeys, hcls⟩ := h2
          exact ⟨none :: assigned, by rw [ha], by simpa using hkeys, hcls⟩
      | client s cl =>
        simp only [routeKeysH, hk, hgc, List.map_cons]
        have hb2 : ∀ y ∈ keys (addToBatch s k b), ∃ cl, alookup y st1.clients = some cl := by
          intro y hy
          rw [keys_addToBatch, addNode_mem] at hy
          rcases hy with rfl | hy
          · exact ⟨cl, hcl y cl rfl⟩
          · exact hb1 y hy
        rw [routeKeys_cons_client c route now st.fo st1.fo rk _ s hg]
        obtain ⟨h1, h2⟩ := ih st1 (addToBatch s k b) hcov hb2
        refine ⟨h1, ?_⟩
        generalize routeKeysH ccfg c route now st1 ks (addToBatch s k b) = R at h1 h2 ⊢
        obtain ⟨st2, r | b'⟩ := R
        · simp only [RouteAgrees] at h2 ⊢
          refine ⟨h2.1, fun hill => ?_⟩
          rw [h2.2 hill]
        · simp only [RouteAgrees] at h2 ⊢
          obtain ⟨assigned, ha, hkeys, hcls⟩ := h2
          refine ⟨some s :: assigned, by rw [ha], ?_, hcls⟩
          rw [hkeys, keys_addToBatch]
          rfl

theorem routeItemsH_proj {RK : Type} (ccfg : Wire.Cfg) (c : Cfg) (route : List Srv → RK → Option Srv) (hlaw : RouteLaw route)
    (now : Time) (st : St) (items : List (RK × Key.K × Wire.Val)) (b : List (Srv × List (Key.K × Wire.Val))) (f : List Key.K)
    (hc : Cover st) (hb : ∀ s ∈ keys b, ∃ cl, alookup s st.clients = some cl) :
    Cover (routeItemsH ccfg c route now st items b f).1 ∧
    RouteAgrees c (Failover.routeKeys c route now st.fo (items.map (·.1))) (routeItemsH ccfg c route now st items b f).1
      (keys b) (routeItemsH ccfg c route now st items b f).2 (fun x => keys x.1) := by
  induction items generalizing st b f with
  | nil => exact ⟨hc, [], rfl, rfl, hb⟩
  | cons x ks ih =>
    obtain ⟨rk, k, v⟩ := x
    cases hk : Wire.checkKey ccfg k with
    | error e =>
      simp only [routeItemsH, hk]
      exact ⟨hc, (fun v h => by cases h), (fun h => by cases h)⟩
    | ok w =>
      obtain ⟨hg, hr, hcov, hcl⟩ := getClient_proj c route hlaw now st rk hc
      rcases hgc : getClient c route now st rk with ⟨st1, g⟩
      rw [hgc] at hg hr hcov hcl
      simp only [] at hg hr hcov hcl
      have hb1 : ∀ s ∈ keys b, ∃ cl, alookup s st1.clients = some cl := fun s hs => hr.keep s (hb s hs)
      cases g with
      | internalError =>
        simp only [routeItemsH, hk, hgc, List.map_cons]
        refine ⟨hcov, (fun v h => by cases h), fun _ => ?_⟩
        simp only [Failover.routeKeys, hg, Got.proj, absRes]
      | allDown =>
        simp only [routeItemsH, hk, hgc, List.map_cons]
        refine ⟨hcov, (fun v h => by cases h), fun _ => ?_⟩
        simp only [Failover.routeKeys, hg, Got.proj, absRes]
      | noClient =>
        simp only [routeItemsH, hk, hgc, List.map_cons]
        rw [routeKeys_cons_noClient c route now st.fo st1.fo rk _ hg]
        obtain ⟨h1, h2⟩ := ih st1 b (f ++ [k]) hcov hb1
        refine ⟨h1, ?_⟩
        generalize routeItemsH ccfg c route now st1 ks b (f ++ [k]) = R at h1 h2 ⊢
        obtain ⟨st2, r | b'⟩ := R
        · simp only [RouteAgrees] at h2 ⊢
          refine ⟨h2.1, fun hill => ?_⟩
          rw [h2.2 hill]
        · simp only [RouteAgrees] at h2 ⊢
          obtain ⟨assigned, ha, hkeys, hcls⟩ := h2
          exact ⟨none :: assigned, by rw [ha], by simpa using hkeys, hcls⟩
      | client s cl =>
        simp only [routeItemsH, hk, hgc, List.map_cons]
        have hb2 : ∀ y ∈ keys (addToBatchKV s k v b), ∃ cl, alookup y st1.clients = some cl := by
          intro y hy
          rw [keys_addToBatchKV, addNode_mem] at hy
          rcases hy with rfl | hy
          · exact ⟨cl, hcl y cl rfl⟩
          · exact hb1 y hy
        rw [routeKeys_cons_client c route now st.fo st1.fo rk _ s hg]
        obtain ⟨h1, h2⟩ := ih st1 (addToBatchKV s k v b) f hcov hb2
        refine ⟨h1, ?_⟩
        generalize routeItemsH ccfg c route now st1 ks (addToBatchKV s k v b) f = R at h1 h2 ⊢
        obtain ⟨st2, r | b'⟩ := R
        · simp only [RouteAgrees] at h2 ⊢
          refine ⟨h2.1, fun hill => ?_⟩
          rw [h2.2 hill]
        · simp only [RouteAgrees] at h2 ⊢
          obtain ⟨assigned, ha, hkeys, hcls⟩ := h2
          refine ⟨some s :: assigned, by rw [ha], ?_, hcls⟩
          rw [hkeys, keys_addToBatchKV]
          rfl

/-! ## the environment read off the observation -/

theorem runBatchesG_servers {β γ : Type} (runOne : St → Srv → IClient → β → St × HRes × Option Step)
    (onValue : γ → β → Res → γ) (onDefault : γ → β → γ) (fin : γ → Res) (st : St) (bs : List (Srv × β)) (acc : γ) :
    ((runBatchesG runOne onValue onDefault fin st bs acc).2.2.map (·.server)).Sublist (keys bs) := by
  induction bs generalizing st acc with
  | nil => simp [runBatchesG, keys]
  | cons sx bs ih =>
    obtain ⟨s, x⟩ := sx
    simp only [runBatchesG]
    cases alookup s st.clients with
    | none => simp
    | some cl =>
      simp only []
      rcases runOne st s cl x with ⟨st1, r, stp⟩
      have hk : keys ((s, x) :: bs) = s :: keys bs := rfl
      rw [hk]
      cases r with
      | value v => simp only [List.map_cons]; exact (ih st1 _).cons_cons s
      | default => simp only [List.map_cons]; exact (ih st1 _).cons_cons s
      | raised s' e => simp
      | allDown => simp
      | illegalKey => simp
      | internalError => simp

theorem envOfBatches_mem (obs : List BatchObs) (hnd : (obs.map (·.server)).Nodup) :
    ∀ bo ∈ obs, envOfBatches obs bo.server = bo.outcome := by
  induction obs with
  | nil => intro bo h; simp at h
  | cons b r ih =>
    intro bo hbo
    simp only [List.map_cons, List.nodup_cons] at hnd
    rcases List.mem_cons.mp hbo with h | h
    · subst h
      simp [envOfBatches]
    · have hne : (b.server == bo.server) = false := by
        have : b.server ≠ bo.server := fun e => hnd.1 (e ▸ List.mem_map_of_mem h)
        simpa using this
      have := ih hnd.2 bo h
      unfold envOfBatches at this ⊢
      rw [List.find?_cons]
      simp only [hne]
      exact this

/-! ## `Cover` through the second loop -/

theorem runBatchesG_cover {β γ : Type} (runOne : St → Srv → IClient → β → St × HRes × Option Step)
    (onValue : γ → β → Res → γ) (onDefault : γ → β → γ) (fin : γ → Res)
    (hnodes : ∀ st s cl x, ∀ y ∈ (runOne st s cl x).1.fo.nodes, y ∈ st.fo.nodes)
    (hkeep : ∀ st s cl x y, (∃ cl', alookup y st.clients = some cl') →
      ∃ cl', alookup y (runOne st s cl x).1.clients = some cl')
    (st : St) (bs : List (Srv × β)) (acc : γ) (hc : Cover st) :
    Cover (runBatchesG runOne onValue onDefault fin st bs acc).1 := by
  induction bs generalizing st acc with
  | nil => exact hc
  | cons sx bs ih =>
    obtain ⟨s, x⟩ := sx
    simp only [runBatchesG]
    cases alookup s st.clients with
    | none => exact hc
    | some cl =>
      simp only []
      have hc1 : Cover (runOne st s cl x).1 := fun y hy => hkeep st s cl x y (hc y (hnodes st s cl x y hy))
      rcases hs : runOne st s cl x with ⟨st1, r, stp⟩
      rw [hs] at hc1
      cases r with
      | value v => exact ih st1 _ hc1
      | default => exact ih st1 _ hc1
      | raised s' e => exact hc1
      | allDown => exact hc1
      | illegalKey => exact hc1
      | internalError => exact hc1

/-! ## both loops -/

theorem absResMany_of_not_value (c : Cfg) (assigned : List (Option Srv)) (r : HRes) (obs : List BatchObs)
    (h : ∀ v, r ≠ .value v) : absResMany c assigned { res := r, batches := obs } = absRes c r := by
  unfold absResMany
  cases r <;> first | rfl | exact absurd rfl (h _)

/-- the multi-key operation of the abstract model when the first loop raised -/
theorem runMany_inl {RK : Type} (c : Cfg) (route : List Srv → RK → Option Srv) (now : Time)
    (runOne : State → Srv → State × Result × List Contact) (fo fo1 : State) (rks : List RK) (r : Result)
    (h : Failover.routeKeys c route now fo rks = (fo1, .inl r)) :
    Failover.runMany c route now runOne fo rks = (fo1, r, []) := by
  simp only [Failover.runMany, h]

/-- … and when it handed over to the second loop -/
theorem runMany_inr {RK β γ : Type} (c : Cfg) (route : List Srv → RK → Option Srv) (now : Time)
    (runOne : St → Srv → IClient → β → St × HRes × Option Step)
    (onValue : γ → β → Res → γ) (onDefault : γ → β → γ) (fin : γ → Res)
    (absOne : (Srv → Outcome) → State → Srv → State × Result × List Contact)
    (hone : ∀ env st s cl x, env s = outcomeOfStep (runOne st s cl x).2.2 →
      ¬ (c.ignoreExc = true ∧ escapedBase (runOne st s cl x).2.1 = true) →
      absOne env st.fo s =
        ((runOne st s cl x).1.fo, absRes c (runOne st s cl x).2.1, contactsOfStep s now (runOne st s cl x).2.2))
    (hkeep : ∀ st s cl x y, (∃ cl', alookup y st.clients = some cl') →
      ∃ cl', alookup y (runOne st s cl x).1.clients = some cl')
    (fo : State) (st1 : St) (rks : List RK) (assigned : List (Option Srv)) (bs : List (Srv × β)) (acc : γ)
    (hA : Failover.routeKeys c route now fo rks = (st1.fo, .inr assigned))
    (hkeys : keys bs = addNodes (assigned.filterMap id) [])
    (hcl : ∀ s ∈ keys bs, ∃ cl, alookup s st1.clients = some cl)
    (hok : ¬ (c.ignoreExc = true ∧ escapedBase (runBatchesG runOne onValue onDefault fin st1 bs acc).2.1 = true)) :
    Failover.runMany c route now (absOne (envOfBatches (runBatchesG runOne onValue onDefault fin st1 bs acc).2.2)) fo rks =
      ((runBatchesG runOne onValue onDefault fin st1 bs acc).1.fo,
        absResMany c (assignedOf c route now fo rks)
          { res := (runBatchesG runOne onValue onDefault fin st1 bs acc).2.1,
            batches := (runBatchesG runOne onValue onDefault fin st1 bs acc).2.2 },
        contactsOfBatches now (runBatchesG runOne onValue onDefault fin st1 bs acc).2.2) := by
  have hnd : ((runBatchesG runOne onValue onDefault fin st1 bs acc).2.2.map (·.server)).Nodup := by
    refine (runBatchesG_servers runOne onValue onDefault fin st1 bs acc).nodup ?_
    rw [hkeys, addNodes_nil]
    exact dedup_nodup _
  have hp := runBatchesG_proj c now runOne onValue onDefault fin absOne hone hkeep
    (envOfBatches (runBatchesG runOne onValue onDefault fin st1 bs acc).2.2) st1 bs acc hcl
    (envOfBatches_mem _ hnd) hok
  have hass : assignedOf c route now fo rks = assigned := by simp only [assignedOf, hA]
  rw [hkeys, addNodes_nil] at hp
  simp only [Failover.runMany, hA, hp, hass]
  generalize runBatchesG runOne onValue onDefault fin st1 bs acc = R
  obtain ⟨st2, r, obs⟩ := R
  cases r with
  | value v => simp [absBatchRes, absResMany]
  | default => simp [absBatchRes, absResMany]
  | raised s e => simp [absBatchRes, absResMany]
  | allDown => simp [absBatchRes, absResMany]
  | illegalKey => simp [absBatchRes, absResMany]
  | internalError => simp [absBatchRes, absResMany]

/-! ## `get_many` -/

theorem runBatchesH_eq_G (ccfg : Wire.Cfg) (c : Cfg) (idx : Nat) (now : Time) (gets : Bool) (scripts : Srv → Script)
    (st : St) (b : List (Srv × List Key.K)) (acc : Res) :
    runBatchesH ccfg c idx now gets scripts st b acc =
      runBatchesG (fun st s cl ks => safelyRunFunc ccfg c idx now st s cl (batchCall gets ks) (scripts s))
        (fun acc _ r => updateRes acc r) (fun acc _ => acc) id st b acc := by
  induction b generalizing st acc with
  | nil => rfl
  | cons sks bs ih =>
    obtain ⟨s, ks⟩ := sks
    simp only [runBatchesH, runBatchesG]
    cases alookup s st.clients with
    | none => rfl
    | some cl =>
      simp only []
      rcases safelyRunFunc ccfg c idx now st s cl (batchCall gets ks) (scripts s) with ⟨st1, r, stp⟩
      cases r <;> simp only [ih]

theorem getManyH_cover {RK : Type} (ccfg : Wire.Cfg) (c : Cfg) (route : List Srv → RK → Option Srv) (hlaw : RouteLaw route)
    (st : St) (idx : Nat) (now : Time) (gets : Bool) (ks : List (RK × Key.K)) (scripts : Srv → Script) (hc : Cover st) :
    Cover (getManyH ccfg c route st idx now gets ks scripts).1 := by
  obtain ⟨h1, -⟩ := routeKeysH_proj ccfg c route hlaw now st ks [] hc (fun s hs => by simp [keys] at hs)
  unfold getManyH
  rcases hr : routeKeysH ccfg c route now st ks [] with ⟨st1, r | b⟩
  · rw [hr] at h1; exact h1
  · rw [hr] at h1
    simp only [runBatchesH_eq_G]
    exact runBatchesG_cover _ _ _ _ (fun st s cl x => safelyRunFunc_nodes ccfg c idx now st s cl _ _)
      (fun st s cl x => safelyRunFunc_keeps ccfg c idx now st s cl _ _) st1 b _ h1

/-- **`get_many` / `gets_many` of the composed model is `get_many` of the abstract model** in the environment read off
the observation, unless `check_key_helper` ended the call or — under `ignore_exc` — a `BaseException` did -/
theorem getManyH_proj {RK : Type} (ccfg : Wire.Cfg) (c : Cfg) (route : List Srv → RK → Option Srv) (hlaw : RouteLaw route)
    (st : St) (idx : Nat) (now : Time) (gets : Bool) (ks : List (RK × Key.K)) (scripts : Srv → Script) (hc : Cover st)
    (hill : isIllegalKey (getManyH ccfg c route st idx now gets ks scripts).2.res = false)
    (hok : ¬ (c.ignoreExc = true ∧ escapedBase (getManyH ccfg c route st idx now gets ks scripts).2.res = true)) :
    Failover.stepOp c route st.proj
        { now := now, env := envOfBatches (getManyH ccfg c route st idx now gets ks scripts).2.batches,
          op := .getMany (ks.map (·.1)) } =
      ((getManyH ccfg c route st idx now gets ks scripts).1.proj,
        absResMany c (assignedOf c route now st.fo (ks.map (·.1))) (getManyH ccfg c route st idx now gets ks scripts).2,
        contactsOfBatches now (getManyH ccfg c route st idx now gets ks scripts).2.batches) := by
  obtain ⟨-, h2⟩ := routeKeysH_proj ccfg c route hlaw now st ks [] hc (fun s hs => by simp [keys] at hs)
  simp only [Failover.stepOp, Failover.getMany, St.proj]
  unfold getManyH at hill hok ⊢
  rcases hr : routeKeysH ccfg c route now st ks [] with ⟨st1, r | b⟩
  · rw [hr] at h2
    simp only [hr] at hill hok ⊢
    simp only [RouteAgrees] at h2
    rw [runMany_inl c route now _ st.fo st1.fo _ _ (h2.2 hill)]
    rw [absResMany_of_not_value c _ r [] h2.1]
    rfl
  · rw [hr] at h2
    simp only [hr, runBatchesH_eq_G] at hill hok ⊢
    simp only [RouteAgrees] at h2
    obtain ⟨assigned, hA, hkeys, hcl⟩ := h2
    exact runMany_inr c route now _ _ _ _ (fun env => Failover.safelyRunFunc c now env)
      (fun env st s cl x he _ => safelyRunFunc_proj_env ccfg c idx now st s cl _ _ env he)
      (fun st s cl x => safelyRunFunc_keeps ccfg c idx now st s cl _ _) st.fo st1 _ assigned b _ hA hkeys hcl hok

/-! ## `set_many` -/

theorem setManyH_cover {RK : Type} (ccfg : Wire.Cfg) (c : Cfg) (route : List Srv → RK → Option Srv) (hlaw : RouteLaw route)
    (st : St) (idx : Nat) (now : Time) (items : List (RK × Key.K × Wire.Val)) (expire : Wire.IntArg) (noreply : Option Bool)
    (flags : Option Int) (scripts : Srv → List (Key.K × Wire.Val) → Script) (hc : Cover st) :
    Cover (setManyH ccfg c route st idx now items expire noreply flags scripts).1 := by
  obtain ⟨h1, -⟩ := routeItemsH_proj ccfg c route hlaw now st items [] [] hc (fun s hs => by simp [keys] at hs)
  unfold setManyH
  rcases hr : routeItemsH ccfg c route now st items [] [] with ⟨st1, r | ⟨b, f⟩⟩
  · rw [hr] at h1; exact h1
  · rw [hr] at h1
    exact runBatchesG_cover _ _ _ _ (fun st s cl x => safelyRunSetMany_nodes ccfg c idx now st s cl _ _)
      (fun st s cl x => safelyRunSetMany_keeps ccfg c idx now st s cl _ _) st1 b _ h1

/-- **`set_many` of the composed model is `set_many` of the abstract model** in the environment read off the
observation, under the same hypothesis -/
theorem setManyH_proj {RK : Type} (ccfg : Wire.Cfg) (c : Cfg) (route : List Srv → RK → Option Srv) (hlaw : RouteLaw route)
    (st : St) (idx : Nat) (now : Time) (items : List (RK × Key.K × Wire.Val)) (expire : Wire.IntArg) (noreply : Option Bool)
    (flags : Option Int) (scripts : Srv → List (Key.K × Wire.Val) → Script) (hc : Cover st)
    (hill : isIllegalKey (setManyH ccfg c route st idx now items expire noreply flags scripts).2.res = false)
    (hok : ¬ (c.ignoreExc = true ∧
      escapedBase (setManyH ccfg c route st idx now items expire noreply flags scripts).2.res = true)) :
    Failover.stepOp c route st.proj
        { now := now, env := envOfBatches (setManyH ccfg c route st idx now items expire noreply flags scripts).2.batches,
          op := .setMany (items.map (·.1)) } =
      ((setManyH ccfg c route st idx now items expire noreply flags scripts).1.proj,
        absResMany c (assignedOf c route now st.fo (items.map (·.1)))
          (setManyH ccfg c route st idx now items expire noreply flags scripts).2,
        contactsOfBatches now (setManyH ccfg c route st idx now items expire noreply flags scripts).2.batches) := by
  obtain ⟨-, h2⟩ := routeItemsH_proj ccfg c route hlaw now st items [] [] hc (fun s hs => by simp [keys] at hs)
  simp only [Failover.stepOp, Failover.setMany, St.proj]
  unfold setManyH at hill hok ⊢
  rcases hr : routeItemsH ccfg c route now st items [] [] with ⟨st1, r | ⟨b, f⟩⟩
  · rw [hr] at h2
    simp only [hr] at hill hok ⊢
    simp only [RouteAgrees] at h2
    rw [runMany_inl c route now _ st.fo st1.fo _ _ (h2.2 hill)]
    rw [absResMany_of_not_value c _ r [] h2.1]
    rfl
  · rw [hr] at h2
    simp only [hr, runSetBatchesH] at hill hok ⊢
    simp only [RouteAgrees] at h2
    obtain ⟨assigned, hA, hkeys, hcl⟩ := h2
    exact runMany_inr c route now _ _ _ _ (fun env => Failover.safelyRunSetMany c now env)
      (fun env st s cl x he hk => safelyRunSetMany_proj ccfg c idx now st s cl _ _ env he hk)
      (fun st s cl x => safelyRunSetMany_keeps ccfg c idx now st s cl _ _) st.fo st1 _ assigned b _ hA hkeys hcl hok

/-! ## `delete_many` -/

theorem eventsOf_nil_right {Key : Type} (calls : List (HCall Key)) : eventsOf calls [] = [] := by
  cases calls <;> rfl

theorem absOuts_nil_right {Key : Type} (c : Cfg) (calls : List (HCall Key)) : absOuts c calls [] = [] := by
  cases calls <;> rfl

theorem eventsOf_cons_append {Key : Type} (hc : HCall Key) (rest : List (HCall Key)) (ob : HObs) (obs : List HObs) :
    eventsOf (hc :: rest) (ob :: obs) = eventsOf [hc] [ob] ++ eventsOf rest obs := by
  simp [eventsOf]

theorem absOuts_cons_append {Key : Type} (c : Cfg) (hc : HCall Key) (rest : List (HCall Key)) (ob : HObs) (obs : List HObs) :
    absOuts c (hc :: rest) (ob :: obs) = absOuts c [hc] [ob] ++ absOuts c rest obs := by
  simp [absOuts]

/-- one single-key call, whatever its tag, is the run of the abstract model over its (at most one) event -/
theorem callH_run1 {Key : Type} (ccfg : Wire.Cfg) (c : Cfg) (route : List Srv → Key → Option Srv) (hlaw : RouteLaw route)
    (st : St) (idx : Nat) (hc : HCall Key) (hcov : Cover st) :
    Failover.run c route st.proj (eventsOf [hc] [(callH ccfg c route st idx hc.now hc.rk hc.call hc.sc).2]) =
      ((callH ccfg c route st idx hc.now hc.rk hc.call hc.sc).1.proj,
        absOuts c [hc] [(callH ccfg c route st idx hc.now hc.rk hc.call hc.sc).2]) ∧
    Cover (callH ccfg c route st idx hc.now hc.rk hc.call hc.sc).1 :=
  runH_proj ccfg c route hlaw st idx [hc] hcov

theorem deleteLoop_proj {RK : Type} (ccfg : Wire.Cfg) (c : Cfg) (route : List Srv → RK → Option Srv) (hlaw : RouteLaw route)
    (idx : Nat) (now : Time) (noreply : Option Bool) (st : St) (ks : List (RK × Key.K × Script)) (hcov : Cover st) :
    Failover.run c route st.proj
        (eventsOf (hcallsOfDelete now noreply ks) (deleteLoop ccfg c route idx now noreply st ks).2) =
      ((deleteLoop ccfg c route idx now noreply st ks).1.proj,
        absOuts c (hcallsOfDelete now noreply ks) (deleteLoop ccfg c route idx now noreply st ks).2) ∧
    Cover (deleteLoop ccfg c route idx now noreply st ks).1 := by
  induction ks generalizing st with
  | nil => exact ⟨rfl, hcov⟩
  | cons x rest ih =>
    obtain ⟨rk, k, sc⟩ := x
    have hcalls : hcallsOfDelete now noreply ((rk, k, sc) :: rest) =
        { rk := rk, call := .delete k noreply, sc := sc, now := now } :: hcallsOfDelete now noreply rest := rfl
    obtain ⟨h1, h2⟩ := callH_run1 ccfg c route hlaw st idx { rk := rk, call := .delete k noreply, sc := sc, now := now } hcov
    simp only [] at h1 h2
    rw [hcalls]
    simp only [deleteLoop]
    rcases hco : callH ccfg c route st idx now rk (.delete k noreply) sc with ⟨st1, ob⟩
    rw [hco] at h1 h2
    simp only [] at h1 h2 ⊢
    split
    · rw [eventsOf_cons_append, absOuts_cons_append, eventsOf_nil_right, absOuts_nil_right, List.append_nil,
        List.append_nil]
      exact ⟨h1, h2⟩
    · obtain ⟨h3, h4⟩ := ih st1 h2
      refine ⟨?_, h4⟩
      rw [eventsOf_cons_append, absOuts_cons_append, run_append, h1]
      simp only []
      rw [h3]

/-! ## one general call, runs -/

theorem run_single {Key : Type} (c : Cfg) (route : List Srv → Key → Option Srv) (st : State) (e : Event Key) :
    Failover.run c route st [e] = ((stepOp c route st e).1, [((stepOp c route st e).2.1, (stepOp c route st e).2.2)]) := by
  rw [run_cons]
  rfl

theorem cover_callM {RK : Type} (ccfg : Wire.Cfg) (c : Cfg) (route : List Srv → RK → Option Srv) (hlaw : RouteLaw route)
    (st : St) (idx : Nat) (mc : MCall RK) (hcov : Cover st) : Cover (callM ccfg c route st idx mc).1 := by
  obtain ⟨op, now⟩ := mc
  cases op with
  | cmd rk call sc => exact cover_callH ccfg c route hlaw st idx now rk call sc hcov
  | getMany gets ks scripts => exact getManyH_cover ccfg c route hlaw st idx now gets ks scripts hcov
  | setMany items expire noreply flags scripts =>
    exact setManyH_cover ccfg c route hlaw st idx now items expire noreply flags scripts hcov
  | deleteMany ks noreply => exact (deleteLoop_proj ccfg c route hlaw idx now noreply st ks hcov).2

theorem projOK_many {c : Cfg} {r : HRes} (h : (!isIllegalKey r && !(c.ignoreExc && escapedBase r)) = true) :
    isIllegalKey r = false ∧ ¬ (c.ignoreExc = true ∧ escapedBase r = true) := by
  simp only [Bool.and_eq_true, Bool.not_eq_true', Bool.and_eq_false_iff] at h
  refine ⟨h.1, fun ⟨h1, h2⟩ => ?_⟩
  rcases h.2 with h3 | h3
  · rw [h1] at h3; cases h3
  · rw [h2] at h3; cases h3

/-- **one general call of the composed model is the run of the abstract model over the events it gives rise to**
(`absOfCall`), under the hypothesis `projOK` -/
theorem callM_proj {RK : Type} (ccfg : Wire.Cfg) (c : Cfg) (route : List Srv → RK → Option Srv) (hlaw : RouteLaw route)
    (st : St) (idx : Nat) (mc : MCall RK) (hcov : Cover st) (hok : projOK c mc (callM ccfg c route st idx mc).2 = true) :
    Failover.run c route st.proj (absOfCall ccfg c route st idx mc).1 =
      ((callM ccfg c route st idx mc).1.proj, (absOfCall ccfg c route st idx mc).2) := by
  obtain ⟨op, now⟩ := mc
  cases op with
  | cmd rk call sc =>
    exact (callH_run1 ccfg c route hlaw st idx { rk := rk, call := call, sc := sc, now := now } hcov).1
  | getMany gets ks scripts =>
    obtain ⟨hill, hb⟩ := projOK_many (r := (getManyH ccfg c route st idx now gets ks scripts).2.res) hok
    simp only [absOfCall, callM]
    rw [run_single, getManyH_proj ccfg c route hlaw st idx now gets ks scripts hcov hill hb]
  | setMany items expire noreply flags scripts =>
    obtain ⟨hill, hb⟩ := projOK_many (r := (setManyH ccfg c route st idx now items expire noreply flags scripts).2.res) hok
    simp only [absOfCall, callM]
    rw [run_single, setManyH_proj ccfg c route hlaw st idx now items expire noreply flags scripts hcov hill hb]
  | deleteMany ks noreply => exact (deleteLoop_proj ccfg c route hlaw idx now noreply st ks hcov).1

theorem allProjOK_cons {RK : Type} (c : Cfg) (mc : MCall RK) (rest : List (MCall RK)) (ob : MObs) (obs : List MObs) :
    allProjOK c (mc :: rest) (ob :: obs) = (projOK c mc ob && allProjOK c rest obs) := rfl

/-- **a general composed run is a run of the abstract failover model** over `absOfRun`, provided every call satisfies
`projOK`; and `Cover` is preserved -/
theorem runM_proj {RK : Type} (ccfg : Wire.Cfg) (c : Cfg) (route : List Srv → RK → Option Srv) (hlaw : RouteLaw route)
    (st : St) (k : Nat) (calls : List (MCall RK)) (hcov : Cover st)
    (hok : allProjOK c calls (runM ccfg c route st k calls).2 = true) :
    Failover.run c route st.proj (absOfRun ccfg c route st k calls).1 =
      ((runM ccfg c route st k calls).1.proj, (absOfRun ccfg c route st k calls).2) := by
  induction calls generalizing st k with
  | nil => rfl
  | cons mc rest ih =>
    rw [runM_cons, allProjOK_cons, Bool.and_eq_true] at hok
    have h1 := callM_proj ccfg c route hlaw st k mc hcov hok.1
    have h2 := ih (callM ccfg c route st k mc).1 (k + 1) (cover_callM ccfg c route hlaw st k mc hcov) hok.2
    rw [runM_cons]
    simp only [absOfRun]
    rw [run_append, h1]
    simp only []
    rw [h2]

theorem cover_runM {RK : Type} (ccfg : Wire.Cfg) (c : Cfg) (route : List Srv → RK → Option Srv) (hlaw : RouteLaw route)
    (st : St) (k : Nat) (calls : List (MCall RK)) (hcov : Cover st) : Cover (runM ccfg c route st k calls).1 := by
  induction calls generalizing st k with
  | nil => exact hcov
  | cons mc rest ih =>
    rw [runM_cons]
    exact ih _ _ (cover_callM ccfg c route hlaw st k mc hcov)

/-! ## the contact log, the clock and the operations of the abstract history of a general run -/

theorem contactsOf_append (a b : List (Result × List Contact)) : contactsOf (a ++ b) = contactsOf a ++ contactsOf b := by
  simp [contactsOf]

theorem contactsOfBatches_append (now : Time) (a b : List BatchObs) :
    contactsOfBatches now (a ++ b) = contactsOfBatches now a ++ contactsOfBatches now b := by
  simp [contactsOfBatches]

theorem contactsOfBatches_single (now : Time) (ob : HObs) :
    contactsOfBatches now (batchOfObs ob).toList = contactsOfObs now ob := by
  unfold batchOfObs contactsOfObs
  cases ob.server with
  | none => rfl
  | some s => cases h : ob.step <;> simp [contactsOfBatches, h]

/-- the contacts of the abstract output of one single-key call are the contacts of the call -/
theorem contactsOf_absOuts_single {Key : Type} (ccfg : Wire.Cfg) (c : Cfg) (route : List Srv → Key → Option Srv) (st : St)
    (idx : Nat) (hc : HCall Key) :
    contactsOf (absOuts c [hc] [(callH ccfg c route st idx hc.now hc.rk hc.call hc.sc).2]) =
      contactsOfObs hc.now (callH ccfg c route st idx hc.now hc.rk hc.call hc.sc).2 := by
  have h := runH_contactLog ccfg c route st idx [hc]
  have hrun : (runH ccfg c route st idx [hc]).2 = [(callH ccfg c route st idx hc.now hc.rk hc.call hc.sc).2] := rfl
  rw [hrun] at h
  rw [h]
  simp [contactLog]

theorem deleteLoop_contacts {RK : Type} (ccfg : Wire.Cfg) (c : Cfg) (route : List Srv → RK → Option Srv) (idx : Nat)
    (now : Time) (noreply : Option Bool) (st : St) (ks : List (RK × Key.K × Script)) :
    contactsOf (absOuts c (hcallsOfDelete now noreply ks) (deleteLoop ccfg c route idx now noreply st ks).2) =
      contactsOfBatches now ((deleteLoop ccfg c route idx now noreply st ks).2.filterMap batchOfObs) := by
  induction ks generalizing st with
  | nil => rfl
  | cons x rest ih =>
    obtain ⟨rk, k, sc⟩ := x
    have hcalls : hcallsOfDelete now noreply ((rk, k, sc) :: rest) =
        { rk := rk, call := .delete k noreply, sc := sc, now := now } :: hcallsOfDelete now noreply rest := rfl
    have h1 := contactsOf_absOuts_single ccfg c route st idx { rk := rk, call := .delete k noreply, sc := sc, now := now }
    simp only [] at h1
    rw [hcalls]
    simp only [deleteLoop]
    rcases hco : callH ccfg c route st idx now rk (.delete k noreply) sc with ⟨st1, ob⟩
    rw [hco] at h1
    simp only [] at h1 ⊢
    have hfm : ∀ l : List HObs, (ob :: l).filterMap batchOfObs = (batchOfObs ob).toList ++ l.filterMap batchOfObs := by
      intro l
      cases hb : batchOfObs ob <;> simp [List.filterMap_cons, hb]
    split
    · rw [absOuts_cons_append, absOuts_nil_right, List.append_nil, h1, hfm, contactsOfBatches_append,
        contactsOfBatches_single]
      simp [contactsOfBatches]
    · rw [absOuts_cons_append, contactsOf_append, h1, ih st1, hfm, contactsOfBatches_append, contactsOfBatches_single]

theorem contactsOf_absOfCall {RK : Type} (ccfg : Wire.Cfg) (c : Cfg) (route : List Srv → RK → Option Srv) (st : St) (idx : Nat)
    (mc : MCall RK) :
    contactsOf (absOfCall ccfg c route st idx mc).2 = contactsOfBatches mc.now (callM ccfg c route st idx mc).2.batches := by
  obtain ⟨op, now⟩ := mc
  cases op with
  | cmd rk call sc =>
    have h1 := contactsOf_absOuts_single ccfg c route st idx { rk := rk, call := call, sc := sc, now := now }
    simp only [absOfCall, callM]
    simp only [] at h1
    rw [h1, ← contactsOfBatches_single]
    unfold batchOfObs
    cases (callH ccfg c route st idx now rk call sc).2.server <;> rfl
  | getMany gets ks scripts => simp [absOfCall, callM, contactsOf]
  | setMany items expire noreply flags scripts => simp [absOfCall, callM, contactsOf]
  | deleteMany ks noreply => exact deleteLoop_contacts ccfg c route idx now noreply st ks

/-- the contact log of the abstract run is the contact log of the composed run -/
theorem contactsOf_absOfRun {RK : Type} (ccfg : Wire.Cfg) (c : Cfg) (route : List Srv → RK → Option Srv) (st : St) (k : Nat)
    (calls : List (MCall RK)) :
    contactsOf (absOfRun ccfg c route st k calls).2 = contactLogM calls (runM ccfg c route st k calls).2 := by
  induction calls generalizing st k with
  | nil => rfl
  | cons mc rest ih =>
    rw [runM_cons]
    simp only [absOfRun, contactLogM]
    rw [contactsOf_append, contactsOf_absOfCall, ih]

theorem eventsOf_now_const {Key : Type} (now : Time) (hcs : List (HCall Key)) (obs : List HObs)
    (h : ∀ hc ∈ hcs, hc.now = now) : ∀ e ∈ eventsOf hcs obs, e.now = now := by
  induction hcs generalizing obs with
  | nil => cases obs <;> simp [eventsOf]
  | cons hc rest ih =>
    cases obs with
    | nil => simp [eventsOf]
    | cons ob obs =>
      rw [eventsOf_cons]
      intro e he
      rcases List.mem_append.mp he with he | he
      · unfold eventOf at he
        cases hill : isIllegalKey ob.res
        · simp only [hill, Bool.false_eq_true, if_false, List.mem_singleton] at he
          subst he
          exact h hc (by simp)
        · simp [hill] at he
      · exact ih obs (fun x hx => h x (by simp [hx])) e he

theorem absOfCall_now {RK : Type} (ccfg : Wire.Cfg) (c : Cfg) (route : List Srv → RK → Option Srv) (st : St) (idx : Nat)
    (mc : MCall RK) : ∀ e ∈ (absOfCall ccfg c route st idx mc).1, e.now = mc.now := by
  obtain ⟨op, now⟩ := mc
  cases op with
  | cmd rk call sc =>
    exact eventsOf_now_const now _ _ (fun hc h => by simp only [List.mem_singleton] at h; subst h; rfl)
  | getMany gets ks scripts => intro e he; simp only [absOfCall, List.mem_singleton] at he; subst he; rfl
  | setMany items expire noreply flags scripts => intro e he; simp only [absOfCall, List.mem_singleton] at he; subst he; rfl
  | deleteMany ks noreply =>
    refine eventsOf_now_const now _ _ (fun hc h => ?_)
    simp only [hcallsOfDelete, List.mem_map] at h
    obtain ⟨x, -, rfl⟩ := h
    rfl

theorem chrono_append_const {Key : Type} {t0 t : Time} (a b : List (Event Key)) (ha : ∀ e ∈ a, e.now = t) (ht : t0 ≤ t)
    (hb : Chrono t b) : Chrono t0 (a ++ b) := by
  induction a generalizing t0 with
  | nil => exact chrono_mono ht hb
  | cons e r ih =>
    have he : e.now = t := ha e (by simp)
    refine ⟨by rw [he]; exact ht, ?_⟩
    rw [he]
    exact ih (fun x hx => ha x (by simp [hx])) (Nat.le_refl t)

theorem chrono_absOfRun {RK : Type} (ccfg : Wire.Cfg) (c : Cfg) (route : List Srv → RK → Option Srv) (st : St) (k : Nat)
    (t0 : Time) (calls : List (MCall RK)) (h : ChronoM t0 calls) : Chrono t0 (absOfRun ccfg c route st k calls).1 := by
  induction calls generalizing st k t0 with
  | nil => trivial
  | cons mc rest ih =>
    simp only [absOfRun]
    exact chrono_append_const _ _ (absOfCall_now ccfg c route st k mc) h.1 (ih _ _ mc.now h.2)

theorem absOfRun_noSetMany {RK : Type} (ccfg : Wire.Cfg) (c : Cfg) (route : List Srv → RK → Option Srv) (st : St) (k : Nat)
    (calls : List (MCall RK)) (h : ∀ mc ∈ calls, mc.op.isSetMany = false) :
    ∀ e ∈ (absOfRun ccfg c route st k calls).1, e.op.isSetMany = false := by
  induction calls generalizing st k with
  | nil => intro e he; simp [absOfRun] at he
  | cons mc rest ih =>
    intro e he
    simp only [absOfRun] at he
    rcases List.mem_append.mp he with he | he
    · have hm := h mc (by simp)
      obtain ⟨op, now⟩ := mc
      cases op with
      | cmd rk call sc => exact eventsOf_runCmd _ _ e he
      | getMany gets ks scripts => simp only [absOfCall, List.mem_singleton] at he; subst he; rfl
      | setMany items expire noreply flags scripts => cases hm
      | deleteMany ks noreply => exact eventsOf_runCmd _ _ e he
    · exact ih _ _ (fun x hx => h x (by simp [hx])) e he
end HashCall
