import Pymc.Proofs.ExchangeFetchAny
import Pymc.Proofs.ExchangeUnits
/-! Helper lemmas for C01: on a fault-free delivery of exactly one fetch reply unit, the fetch loop
consumes exactly that unit. -/
namespace Exchange
open Bytes Readers Wire Framing

theorem lit_VALUE : ofString "VALUE" = [86, 65, 76, 85, 69] := by with_unfolding_all decide
theorem lit_STAT : ofString "STAT" = [83, 84, 65, 84] := by with_unfolding_all decide
theorem lit_ITEM : ofString "ITEM" = [73, 84, 69, 77] := by with_unfolding_all decide
theorem lit_END : ofString "END" = [69, 78, 68] := by with_unfolding_all decide
theorem lit_OK : ofString "OK" = [79, 75] := by with_unfolding_all decide
theorem lit_ERROR : ofString "ERROR" = [69, 82, 82, 79, 82] := by with_unfolding_all decide
theorem lit_CLIENT_ERROR : ofString "CLIENT_ERROR" = [67, 76, 73, 69, 78, 84, 95, 69, 82, 82, 79, 82] := by
  with_unfolding_all decide
theorem lit_SERVER_ERROR : ofString "SERVER_ERROR" = [83, 69, 82, 86, 69, 82, 95, 69, 82, 82, 79, 82] := by
  with_unfolding_all decide

theorem startsWith_cons_iff (l p : Bytes) (a : UInt8) :
    startsWith l (a :: p) = true ↔ ∃ t, l = a :: t ∧ startsWith t p = true := by
  cases l with
  | nil => simp [startsWith]
  | cons b t =>
    simp only [startsWith, List.isPrefixOf_cons_cons, Bool.and_eq_true, beq_iff_eq, List.cons.injEq]
    constructor
    · rintro ⟨rfl, h⟩; exact ⟨t, ⟨rfl, rfl⟩, h⟩
    · rintro ⟨t', ⟨rfl, rfl⟩, h⟩; exact ⟨rfl, h⟩

theorem value_line {l : Bytes} (h : startsWith l (ofString "VALUE") = true) :
    raiseErrors l = none ∧ l ≠ ofString "END" ∧ l ≠ ofString "OK" := by
  rw [lit_VALUE, startsWith_cons_iff] at h
  obtain ⟨t, rfl, -⟩ := h
  simp [raiseErrors, startsWith, lit_ERROR, lit_CLIENT_ERROR, lit_SERVER_ERROR, lit_END, lit_OK]

theorem stat_line {l : Bytes} (h : startsWith l (ofString "STAT") = true) :
    l ≠ ofString "END" ∧ l ≠ ofString "OK" ∧ startsWith l (ofString "VALUE") = false := by
  rw [lit_STAT, startsWith_cons_iff] at h
  obtain ⟨t, rfl, -⟩ := h
  simp [startsWith, lit_VALUE, lit_END, lit_OK, List.isPrefixOf_cons_cons]

theorem item_line {l : Bytes} (h : startsWith l (ofString "ITEM") = true) :
    l ≠ ofString "END" ∧ l ≠ ofString "OK" ∧ startsWith l (ofString "VALUE") = false := by
  rw [lit_ITEM, startsWith_cons_iff] at h
  obtain ⟨t, rfl, -⟩ := h
  simp [startsWith, lit_VALUE, lit_END, lit_OK, List.isPrefixOf_cons_cons]

/-- what an iteration guarantees on a fault-free delivery of a fetch unit -/
def StepFramed (kind : FetchKind) : Out (List FetchEntry) ⊕ FetchSt → Prop
  | .inl o => ∀ r, o.res = .ok r → joinData o.unread = [] ∧ clean o.unread
  | .inr s => clean s.2.1 ∧ FetchUnit kind (s.1 ++ joinData s.2.1)

theorem splitValue_block (data two rest : Bytes) (h2 : two.length = 2) :
    splitValue data.length (data ++ two ++ rest) = some (data, rest) := by
  have h1 : data.length + 2 ≤ (data ++ two ++ rest).length := by simp; omega
  simp only [splitValue, h1, if_true, Option.some.injEq, Prod.mk.injEq]
  constructor
  · rw [List.append_assoc, List.take_left]
  · have : data.length + 2 = (data ++ two).length := by simp [h2]
    rw [this, List.drop_left]

theorem fetchStep_framed (kind : FetchKind) (wanted : List Bytes) (buf : Bytes) (evs : List Ev)
    (acc : List FetchEntry) (hc : clean evs) (hf : FetchUnit kind (buf ++ joinData evs)) :
    StepFramed kind (fetchStep kind wanted buf evs acc) := by
  generalize hs : buf ++ joinData evs = s at hf
  cases hf with
  | final u l hl hfin =>
    obtain ⟨rest, evs', hr, ht, hc'⟩ := (C03_readline_flat buf evs hc).1 _ _ (hs ▸ hl)
    have hj : joinData evs' = [] := joinData_nil_of_append ht
    obtain ⟨hnv, hst⟩ := hfin
    unfold fetchStep
    simp only [hr, hnv]
    rcases raiseErrors l with _ | e
    · dsimp only
      split
      · simp [StepFramed, hj, hc']
      · simp only [Bool.false_eq_true, if_false]
        split
        · rename_i h; simp at h; have := hst h.1; simp_all
        · split
          · rename_i h; simp at h; have := hst h.1; simp_all
          · simp [StepFramed]
    · simp [StepFramed]
  | value h hdr data two rest hl hv h2 hrest =>
    have hsp : splitLine (buf ++ joinData evs) = some (hdr, data ++ two ++ rest) := by
      rw [hs, List.append_assoc, List.append_assoc]
      simpa using splitLine_append_unit hl (data ++ (two ++ rest))
    obtain ⟨r1, evs1, hr, ht, hc1⟩ := (C03_readline_flat buf evs hc).1 _ _ hsp
    obtain ⟨hsw, hlen, hsz⟩ := hv
    obtain ⟨hre, hne, hno⟩ := value_line hsw
    obtain ⟨r2, evs2, hr2, ht2, hc2⟩ :=
      (C03_readvalue_flat r1 data.length evs1 hc1).1 _ _ (ht ▸ splitValue_block data two rest h2)
    unfold fetchStep
    simp only [hr, hre, hne, hno, hsw, hsz, hr2, decide_false, Bool.or_self, Bool.false_eq_true,
      if_false, if_true]
    repeat' split
    all_goals first | (simp only [StepFramed]; exact ⟨hc2, ht2 ▸ hrest⟩) | simp_all [StepFramed]
  | stat h l rest hk hl hsi hrest =>
    have hsp : splitLine (buf ++ joinData evs) = some (l, rest) := by
      rw [hs]; exact splitLine_append_unit hl rest
    obtain ⟨r1, evs1, hr, ht, hc1⟩ := (C03_readline_flat buf evs hc).1 _ _ hsp
    have hfacts : l ≠ ofString "END" ∧ l ≠ ofString "OK" ∧ startsWith l (ofString "VALUE") = false := by
      rcases hsi with h | h
      · exact stat_line h
      · exact item_line h
    obtain ⟨hne, hno, hnv⟩ := hfacts
    unfold fetchStep
    simp only [hr, hne, hno, hnv]
    rcases raiseErrors l with _ | e
    · dsimp only
      simp only [Bool.or_self, Bool.false_eq_true, if_false, decide_false]
      split
      · split
        · simp [StepFramed]
        · simp only [StepFramed]; exact ⟨hc1, ht ▸ hrest⟩
      · split
        · split
          · simp [StepFramed]
          · simp only [StepFramed]; exact ⟨hc1, ht ▸ hrest⟩
        · simp [StepFramed]
    · simp [StepFramed]

theorem fetchLoop_unit (kind : FetchKind) (wanted : List Bytes) (fuel : Nat) (buf : Bytes)
    (evs : List Ev) (acc : List FetchEntry) (hc : clean evs)
    (hf : FetchUnit kind (buf ++ joinData evs)) (hfuel : pending buf evs < fuel) :
    ExactOrClosed (fetchLoop kind wanted fuel buf evs acc) := by
  induction fuel generalizing buf evs acc with
  | zero => omega
  | succ fuel ih =>
    have hk := fetchStep_ok kind wanted buf evs acc
    have hfr := fetchStep_framed kind wanted buf evs acc hc hf
    rw [fetchLoop_succ]
    generalize fetchStep kind wanted buf evs acc = st at hk hfr ⊢
    rcases st with o | s
    · simp only [stepK]
      simp only [StepOK] at hk
      simp only [StepFramed] at hfr
      rcases hres : o.res with e | r
      · right; exact ⟨e, hres, hk.2.1 e hres⟩
      · left; exact ⟨r, hres, hk.2.2 r hres, hfr r hres⟩
    · simp only [stepK]
      simp only [StepOK] at hk
      simp only [StepFramed] at hfr
      exact ih _ _ _ hfr.1 hfr.2 (by omega)
end Exchange
