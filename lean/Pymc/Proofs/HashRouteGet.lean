import Pymc.Proofs.HashRouteDict
import Pymc.Proofs.HashRouteBatch
/-!
# Helper lemmas for C12 — `getMany` (merge of the per-server answers), `setOne`, `setMany`
-/
namespace HashRoute
variable {V : Type}

/-- the second loop of `get_many` (400–411), from an arbitrary accumulated `end` dict -/
def mergeAll (st : Stores V) (acc : List (Key.K × V)) (bs : List (Srv × List Key.K)) : List (Key.K × V) :=
  bs.foldl (fun acc e => dictUpdate acc (fetchBatch st e.1 e.2)) acc

theorem getMany_eq_mergeAll (score : String → String → Nat) (nodes : List Srv) (st : Stores V)
    (ks : List HKey) : getMany score nodes st ks = mergeAll st [] (batchesOf score nodes ks) := rfl

theorem mergeAll_nil (st : Stores V) (acc : List (Key.K × V)) : mergeAll st acc [] = acc := rfl
theorem mergeAll_cons (st : Stores V) (acc : List (Key.K × V)) (e : Srv × List Key.K)
    (bs : List (Srv × List Key.K)) :
    mergeAll st acc (e :: bs) = mergeAll st (dictUpdate acc (fetchBatch st e.1 e.2)) bs := rfl

theorem mem_mergeAll {st : Stores V} {acc : List (Key.K × V)} {bs : List (Srv × List Key.K)}
    {x : Key.K × V} (h : x ∈ mergeAll st acc bs) :
    x ∈ acc ∨ ∃ e ∈ bs, x.1 ∈ e.2 ∧ st e.1 x.1 = some x.2 := by
  induction bs generalizing acc with
  | nil => exact .inl h
  | cons e bs ih =>
    rw [mergeAll_cons] at h
    rcases ih h with h | ⟨e', he', h'⟩
    · rcases mem_dictUpdate h with h | h
      · exact .inl h
      · exact .inr ⟨e, List.mem_cons_self, mem_fetchBatch h⟩
    · exact .inr ⟨e', List.mem_cons_of_mem _ he', h'⟩

theorem nodup_mergeAll {st : Stores V} {acc : List (Key.K × V)} (hd : (dkeys acc).Nodup)
    (bs : List (Srv × List Key.K)) : (dkeys (mergeAll st acc bs)).Nodup := by
  induction bs generalizing acc with
  | nil => exact hd
  | cons e bs ih => rw [mergeAll_cons]; exact ih (nodup_dkeys_dictUpdate hd _)

/-- if every batch that contains `k` belongs to server `s`, the merged answer for `k` is `s`'s answer -/
theorem lookup_mergeAll (st : Stores V) (acc : List (Key.K × V)) (bs : List (Srv × List Key.K))
    (k : Key.K) (s : Srv) (hu : ∀ e ∈ bs, k ∈ e.2 → e.1 = s) :
    lookup (mergeAll st acc bs) k =
      if ∃ e ∈ bs, k ∈ e.2 ∧ (st e.1 k).isSome then st s k else lookup acc k := by
  induction bs generalizing acc with
  | nil => simp [mergeAll_nil]
  | cons e bs ih =>
    rw [mergeAll_cons, ih _ (fun e' he' => hu e' (List.mem_cons_of_mem _ he')), lookup_merge]
    by_cases h1 : ∃ e' ∈ bs, k ∈ e'.2 ∧ (st e'.1 k).isSome
    · have : ∃ e' ∈ e :: bs, k ∈ e'.2 ∧ (st e'.1 k).isSome := by
        obtain ⟨e', he', h⟩ := h1; exact ⟨e', List.mem_cons_of_mem _ he', h⟩
      rw [if_pos h1, if_pos this]
    · rw [if_neg h1]
      by_cases h2 : k ∈ e.2 ∧ (st e.1 k).isSome
      · have : ∃ e' ∈ e :: bs, k ∈ e'.2 ∧ (st e'.1 k).isSome := ⟨e, List.mem_cons_self, h2⟩
        rw [if_pos h2, if_pos this, hu e List.mem_cons_self h2.1]
      · have : ¬ ∃ e' ∈ e :: bs, k ∈ e'.2 ∧ (st e'.1 k).isSome := by
          rintro ⟨e', he', h⟩
          rcases List.mem_cons.mp he' with rfl | he'
          · exact h2 h
          · exact h1 ⟨e', he', h⟩
        rw [if_neg h2, if_neg this]

theorem eq_of_nodup_map {α β : Type} {f : α → β} {l : List α} (hd : (l.map f).Nodup) {a b : α}
    (ha : a ∈ l) (hb : b ∈ l) (h : f a = f b) : a = b := by
  induction l with
  | nil => simp at ha
  | cons x l ih =>
    simp only [List.map_cons, List.nodup_cons, List.mem_map, not_exists, not_and] at hd
    rcases List.mem_cons.mp ha with rfl | ha' <;> rcases List.mem_cons.mp hb with rfl | hb'
    · rfl
    · exact absurd h.symm (hd.1 b hb')
    · exact absurd h (hd.1 a ha')
    · exact ih hd.2 ha' hb'

theorem batchesOf_no_nodes (score : String → String → Nat) (ks : List HKey) :
    batchesOf score [] ks = [] := by
  induction ks using list_rev_ind with
  | nil => rfl
  | snoc ks k ih => rw [batchesOf_concat, route_nil]; exact ih

/-! ## `get_many` against `get` -/

/-- every entry of the merged result is the routed server's answer for a requested key -/
theorem getMany_mem {score : String → String → Nat} {nodes : List Srv} {st : Stores V}
    {ks : List HKey} {k : Key.K} {v : V} (h : (k, v) ∈ getMany score nodes st ks) :
    ∃ hk ∈ ks, hk.key = k ∧ get score nodes st hk = some v := by
  rw [getMany_eq_mergeAll] at h
  rcases mem_mergeAll h with h | ⟨e, he, hk, hv⟩
  · simp at h
  · have inv := batchInv score nodes ks
    rw [inv.eq e he] at hk
    obtain ⟨hk', hm, hr, hkey⟩ := mem_keysFor.mp hk
    refine ⟨hk', hm, hkey, ?_⟩
    unfold get
    rw [hr]
    simp only at hkey hv ⊢
    rw [hkey]; exact hv

theorem getMany_nodup (score : String → String → Nat) (nodes : List Srv) (st : Stores V)
    (ks : List HKey) : (dkeys (getMany score nodes st ks)).Nodup := by
  rw [getMany_eq_mergeAll]; exact nodup_mergeAll (by simp) _

/-- `get_many` agrees with `get` on `hk` as soon as every requested key with the same inner key is routed
to the same server as `hk` -/
theorem getMany_lookup_of_consistent {score : String → String → Nat} {nodes : List Srv} (st : Stores V)
    {ks : List HKey} {hk : HKey} (hm : hk ∈ ks)
    (hc : ∀ hk' ∈ ks, hk'.key = hk.key → route score nodes hk' = route score nodes hk) :
    lookup (getMany score nodes st ks) hk.key = get score nodes st hk := by
  have inv := batchInv score nodes ks
  unfold get
  cases hr : route score nodes hk with
  | none =>
    have : nodes = [] := by
      apply Classical.byContradiction
      intro hne
      exact (route_ne_none_iff score nodes hk).mpr hne hr
    subst this
    rw [getMany_eq_mergeAll, batchesOf_no_nodes]; rfl
  | some s =>
    simp only
    have hu : ∀ e ∈ batchesOf score nodes ks, hk.key ∈ e.2 → e.1 = s := by
      intro e he hke
      rw [inv.eq e he] at hke
      obtain ⟨hk', hm', hr', hkey⟩ := mem_keysFor.mp hke
      have := hc hk' hm' hkey
      rw [hr', hr] at this; exact Option.some.inj this
    rw [getMany_eq_mergeAll, lookup_mergeAll st [] _ hk.key s hu]
    by_cases hc : ∃ e ∈ batchesOf score nodes ks, hk.key ∈ e.2 ∧ (st e.1 hk.key).isSome
    · rw [if_pos hc]
    · rw [if_neg hc, lookup_nil]
      cases hv : st s hk.key with
      | none => rfl
      | some v =>
        exfalso
        apply hc
        obtain ⟨e, he, hes⟩ := List.mem_map.mp ((inv.mem s).mpr ⟨hk, hm, hr⟩)
        refine ⟨e, he, ?_, ?_⟩
        · rw [inv.eq e he]; exact mem_keysFor.mpr ⟨hk, hm, hes ▸ hr, rfl⟩
        · rw [hes, hv]; rfl

theorem getMany_lookup {score : String → String → Nat} {nodes : List Srv} (st : Stores V)
    {ks : List HKey} (hd : (ks.map (·.key)).Nodup) {hk : HKey} (hm : hk ∈ ks) :
    lookup (getMany score nodes st ks) hk.key = get score nodes st hk :=
  getMany_lookup_of_consistent st hm fun hk' hm' hkey => by rw [eq_of_nodup_map hd hm' hm hkey]

theorem not_mem_of_nodup_map_append {α β : Type} {f : α → β} {l₁ l₂ : List α} {a : α}
    (hd : ((l₁ ++ a :: l₂).map f).Nodup) : ∀ b ∈ l₂, f b ≠ f a := by
  intro b hb h
  rw [List.map_append, List.map_cons] at hd
  have := (List.nodup_append.mp hd).2.1
  rw [List.nodup_cons] at this
  exact this.1 (h ▸ List.mem_map.mpr ⟨b, hb, rfl⟩)

/-! ## writes -/

/-- two caller-side keys that name the same slot: same routed server, same inner key -/
def SameSlot (score : String → String → Nat) (nodes : List Srv) (a b : HKey) : Prop :=
  route score nodes a = route score nodes b ∧ a.key = b.key

theorem get_congr_slot {score : String → String → Nat} {nodes : List Srv} (st : Stores V) {a b : HKey}
    (h : SameSlot score nodes a b) : get score nodes st a = get score nodes st b := by
  unfold get; rw [h.1, h.2]

theorem get_setOne_same {score : String → String → Nat} {nodes : List Srv} (st : Stores V) (hk : HKey)
    (v : V) (hr : route score nodes hk ≠ none) :
    get score nodes (setOne score nodes st hk v) hk = some v := by
  unfold get setOne
  cases h : route score nodes hk with
  | none => exact absurd h hr
  | some s => simp

theorem get_setOne_other {score : String → String → Nat} {nodes : List Srv} (st : Stores V)
    (hk hk' : HKey) (v : V) (hne : ¬ SameSlot score nodes hk hk') :
    get score nodes (setOne score nodes st hk v) hk' = get score nodes st hk' := by
  unfold get setOne
  cases h : route score nodes hk with
  | none => rfl
  | some s =>
    cases h' : route score nodes hk' with
    | none => rfl
    | some s' =>
      simp only
      have : ¬ (s' = s ∧ hk'.key = hk.key) := by
        rintro ⟨rfl, hkey⟩
        exact hne ⟨h.trans h'.symm, hkey.symm⟩
      rw [if_neg this]

theorem setMany_nil (score : String → String → Nat) (nodes : List Srv) (st : Stores V) :
    setMany score nodes st [] = st := rfl
theorem setMany_cons (score : String → String → Nat) (nodes : List Srv) (st : Stores V)
    (e : HKey × V) (kvs : List (HKey × V)) :
    setMany score nodes st (e :: kvs) = setMany score nodes (setOne score nodes st e.1 e.2) kvs := rfl
theorem setMany_append (score : String → String → Nat) (nodes : List Srv) (st : Stores V)
    (l₁ l₂ : List (HKey × V)) :
    setMany score nodes st (l₁ ++ l₂) = setMany score nodes (setMany score nodes st l₁) l₂ := by
  unfold setMany; rw [List.foldl_append]

theorem get_setMany_other {score : String → String → Nat} {nodes : List Srv} (st : Stores V)
    (kvs : List (HKey × V)) (hk : HKey) (hne : ∀ e ∈ kvs, ¬ SameSlot score nodes e.1 hk) :
    get score nodes (setMany score nodes st kvs) hk = get score nodes st hk := by
  induction kvs generalizing st with
  | nil => rfl
  | cons e kvs ih =>
    rw [setMany_cons, ih _ (fun e' he' => hne e' (List.mem_cons_of_mem _ he')),
      get_setOne_other _ _ _ _ (hne e List.mem_cons_self)]

theorem get_setMany_last {score : String → String → Nat} {nodes : List Srv} (st : Stores V)
    (l₁ l₂ : List (HKey × V)) (hk : HKey) (v : V) (hr : route score nodes hk ≠ none)
    (hlast : ∀ e ∈ l₂, ¬ SameSlot score nodes e.1 hk) :
    get score nodes (setMany score nodes st (l₁ ++ (hk, v) :: l₂)) hk = some v := by
  rw [setMany_append, setMany_cons, get_setMany_other _ _ _ hlast, get_setOne_same _ _ _ hr]

end HashRoute
