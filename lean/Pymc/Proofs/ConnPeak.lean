import Pymc.Proofs.ConnSpec
/-!
# At every point in time: bounds on the open set of every *prefix* of the log of a sequence of calls
-/
namespace Conn

/-- OS-level sockets (`socket()` results) made by the log; TLS wrappers share the descriptor of their raw socket -/
def sockIds (log : List Ev) : List Id := log.filterMap fun | .created id _ => some id | _ => none

/-- OS-level sockets made by the log and not closed by the end of it -/
def openSocks (log : List Ev) : List Id := (sockIds log).filter fun id => !isClosed log id

theorem sockIds_append (a b : List Ev) : sockIds (a ++ b) = sockIds a ++ sockIds b := by
  simp [sockIds, List.filterMap_append]

theorem sockIds_subset {log : List Ev} {id : Id} (h : id ∈ sockIds log) : id ∈ createdIds log := by
  simp only [sockIds, List.mem_filterMap] at h
  obtain ⟨e, he, h⟩ := h
  cases e <;> simp at h
  subst h
  exact mem_createdIds.2 (.inl ⟨_, he⟩)

theorem sockIds_sublist (log : List Ev) : List.Sublist (sockIds log) (createdIds log) := by
  induction log with
  | nil => simp [sockIds]
  | cons e l ih =>
    cases e <;> simp [sockIds, createdIds] at ih ⊢ <;> first | exact ih | exact ih.cons _

theorem openSocks_length_le_openIds (log : List Ev) : (openSocks log).length ≤ (openIds log).length :=
  ((sockIds_sublist log).filter _).length_le

theorem sockIds_prefix {pre l : List Ev} (h : pre <+: l) : sockIds pre <+: sockIds l :=
  List.IsPrefix.filterMap _ h

theorem openSocks_length_le_of_prefix {pre l : List Ev} (h : pre <+: l) : (openSocks pre).length ≤ (sockIds l).length :=
  Nat.le_trans (List.length_filter_le _ _) (sockIds_prefix h).length_le

theorem openSocks_append_fresh {A B : List Ev} (hA : ∀ id ∈ createdIds A, isClosed (A ++ B) id = true)
    (hB : ∀ id ∈ createdIds B, id ∉ rawIds A ∧ id ∉ closedIds A ∧ ∀ w, ownedBy B id = some w → w ∉ closedIds A) :
    openSocks (A ++ B) = openSocks B := by
  unfold openSocks
  rw [sockIds_append, List.filter_append]
  have h1 : (sockIds A).filter (fun id => !isClosed (A ++ B) id) = [] := by
    rw [List.filter_eq_nil_iff]; intro id hid; simp [hA id (sockIds_subset hid)]
  rw [h1, List.nil_append]
  apply List.filter_congr
  intro id hid
  obtain ⟨a, b, c⟩ := hB id (sockIds_subset hid)
  rw [isClosed_append_eq a b c]

theorem openSocks_append_quiet_le {A x : List Ev} (hx : createdIds x = []) :
    (openSocks (A ++ x)).length ≤ (openSocks A).length := by
  have hs : sockIds x = [] := by
    rw [List.eq_nil_iff_forall_not_mem]; intro id hid; have := sockIds_subset hid; rw [hx] at this; simp at this
  unfold openSocks
  rw [sockIds_append, hs, List.append_nil]
  apply length_filter_le_of_imp
  intro id h
  cases hc : isClosed A id
  · rfl
  · rw [isClosed_append_left x hc] at h; exact h

/-- at most `k` socket objects and at most one OS-level socket are open -/
def Peak (k : Nat) (log : List Ev) : Prop := (openIds log).length ≤ k ∧ (openSocks log).length ≤ 1

/-- …at every point of the log -/
def SafeP (k : Nat) (log : List Ev) : Prop := ∀ pre, pre <+: log → Peak k pre

theorem Junk.peak {lo hi : Id} {evs : List Ev} (h : Junk lo hi evs) {pre : List Ev} (hpre : pre <+: evs) : Peak 1 pre :=
  ⟨h.safe pre hpre, Nat.le_trans (openSocks_length_le_openIds pre) (h.safe pre hpre)⟩

theorem Peak.mono {k k' : Nat} {log : List Ev} (h : Peak k log) (hk : k ≤ k') : Peak k' log :=
  ⟨Nat.le_trans h.1 hk, h.2⟩

/-- one more call (`log = close-events ++ junk ++ T`, `T` the events of the socket that is kept or closed again) -/
theorem safeP_extend {tls : Bool} {k : Nat} {L junk T : List Ev} {st : St} {m : Nat} (hk : 1 ≤ k)
    (hI : Inv tls L st) (hS : SafeP k L) (hle : st.next ≤ m) (hj : Junk st.next m junk)
    (hT : ∀ id ∈ createdIds T, m ≤ id) (hTk : (createdIds T).length ≤ k) (hTs : (sockIds T).length ≤ 1) :
    SafeP k (L ++ (closeEvs st.sock ++ (junk ++ T))) := by
  intro pre hpre
  rcases prefix_append_cases hpre with h | ⟨t, ht, rfl⟩
  · exact hS pre h
  rcases prefix_append_cases ht with h | ⟨t2, ht2, rfl⟩
  · -- inside the close events
    have hc : createdIds t = [] := by
      have := (createdIds_prefix h).length_le; simp at this; exact this
    have hL := hS L (List.prefix_refl L)
    exact ⟨Nat.le_trans (openIds_append_quiet_le hc) hL.1, Nat.le_trans (openSocks_append_quiet_le hc) hL.2⟩
  -- after the close events everything old is closed
  have hfresh : ∀ id ∈ createdIds t2, st.next ≤ id := by
    intro id hid
    have := (createdIds_prefix ht2).subset hid
    rw [createdIds_append] at this
    rcases List.mem_append.1 this with h | h
    · exact (hj.created_range h).1
    · have := hT id h; idomega
  have hold : ∀ x, st.next ≤ x → x ∉ rawIds (L ++ closeEvs st.sock) ∧ x ∉ closedIds (L ++ closeEvs st.sock) := by
    intro x hx
    constructor
    · intro hm
      simp only [rawIds_append, rawIds_closeEvs, List.append_nil] at hm
      have := hI.raw x hm; idomega
    · intro hm
      simp only [closedIds_append, closedIds_closeEvs, List.mem_append, Option.mem_toList] at hm
      rcases hm with hm | hm
      · have := hI.closed x hm; idomega
      · have := hI.sock x hm; idomega
  have hA : ∀ id ∈ createdIds (L ++ closeEvs st.sock), isClosed (L ++ closeEvs st.sock ++ t2) id = true := by
    intro id hid
    simp only [createdIds_append, createdIds_closeEvs, List.append_nil] at hid
    apply isClosed_append_left
    rcases (leaked_eq_nil_iff.1 hI.no_leak) id hid with h | h | ⟨w, h1, h2⟩
    · exact isClosed_append_left _ h
    · exact isClosed_of_mem (by simp [closedIds_append, h])
    · exact isClosed_iff.2 (.inr ⟨w, ownedBy_append_of_some _ h1, by simp [closedIds_append, h2]⟩)
  have hB : ∀ id ∈ createdIds t2, id ∉ rawIds (L ++ closeEvs st.sock) ∧ id ∉ closedIds (L ++ closeEvs st.sock) ∧
      ∀ w, ownedBy t2 id = some w → w ∉ closedIds (L ++ closeEvs st.sock) := by
    intro id hid
    refine ⟨(hold id (hfresh id hid)).1, (hold id (hfresh id hid)).2, ?_⟩
    intro w hw
    exact (hold w (hfresh w (mem_createdIds.2 (.inr ⟨id, ownedBy_some_mem hw⟩)))).2
  have e1 : openIds (L ++ (closeEvs st.sock ++ t2)) = openIds t2 := by
    rw [← List.append_assoc]; exact openIds_append_fresh hA hB
  have e2 : openSocks (L ++ (closeEvs st.sock ++ t2)) = openSocks t2 := by
    rw [← List.append_assoc]; exact openSocks_append_fresh hA hB
  unfold Peak
  rw [e1, e2]
  rcases prefix_append_cases ht2 with h | ⟨t3, ht3, rfl⟩
  · exact (hj.peak h).mono hk
  · have hT3 : ∀ id ∈ createdIds t3, m ≤ id := fun id hid => hT id ((createdIds_prefix ht3).subset hid)
    have e3 : openIds (junk ++ t3) = openIds t3 := hj.openIds_append hT3
    have e4 : openSocks (junk ++ t3) = openSocks t3 := by
      apply openSocks_append_fresh
      · intro id hid
        exact isClosed_append_left t3 (isClosed_of_mem (hj.closed id hid))
      · intro id hid
        have h1 := hT3 id hid
        have hc : ∀ x, m ≤ x → x ∉ closedIds junk := by
          intro x hx hm; have := hj.closed_range hm; idomega
        refine ⟨by rw [hj.rawIds]; simp, hc id h1, ?_⟩
        intro w hw
        exact hc w (hT3 w (mem_createdIds.2 (.inr ⟨id, ownedBy_some_mem hw⟩)))
    rw [e3, e4]
    exact ⟨Nat.le_trans (openIds_length_le_of_prefix ht3) hTk, Nat.le_trans (openSocks_length_le_of_prefix ht3) hTs⟩

theorem sockIds_okSeg (nd tls : Bool) (m a : Nat) : sockIds (okSeg nd tls m a) = [m] := by
  cases nd <;> cases tls <;> simp [okSeg, sockIds]

theorem sockIds_of_created_nil {l : List Ev} (h : createdIds l = []) : sockIds l = [] := by
  rw [List.eq_nil_iff_forall_not_mem]; intro id hid; have := sockIds_subset hid; rw [h] at this; simp at this

/-- the number of socket objects of one connection -/
def peakOf (tls : Bool) : Nat := if tls then 2 else 1

theorem Outcome.safeP {nd tls ka : Bool} {L : List Ev} {st st' : St} {r : Except Err Unit} {log : List Ev}
    (h : Outcome nd tls ka st st' r log) (hI : Inv tls L st) (hS : SafeP (peakOf tls) L) :
    SafeP (peakOf tls) (L ++ log) := by
  have hk : 1 ≤ peakOf tls := by cases tls <;> simp [peakOf]
  cases h with
  | early e junk n' hle hj =>
    have := safeP_extend (T := []) hk hI hS hle hj (by simp) (by simp) (by simp [sockIds])
    simpa using this
  | late e junk m a mid hle hj hq =>
    have := safeP_extend (T := okSeg nd tls m a ++ (mid ++ [Ev.close (sockOf tls m)])) hk hI hS hle hj
      (by
        intro id hid
        simp only [createdIds_append, hq.createdIds, createdIds_okSeg, createdIds_close1, List.append_nil] at hid
        cases tls <;> simp at hid <;> idomega)
      (by
        simp only [createdIds_append, hq.createdIds, createdIds_okSeg, createdIds_close1, List.append_nil]
        cases tls <;> simp [peakOf])
      (by
        rw [sockIds_append, sockIds_append, sockIds_okSeg, sockIds_of_created_nil hq.createdIds,
          sockIds_of_created_nil (createdIds_close1 _)]
        simp)
    simpa [List.append_assoc] using this
  | ok junk m a hle hj =>
    have := safeP_extend (T := okSeg nd tls m a ++ okTail ka (sockOf tls m) a) hk hI hS hle hj
      (by
        intro id hid
        simp only [createdIds_append, createdIds_okTail, createdIds_okSeg, List.append_nil] at hid
        cases tls <;> simp at hid <;> idomega)
      (by
        simp only [createdIds_append, createdIds_okTail, createdIds_okSeg, List.append_nil]
        cases tls <;> simp [peakOf])
      (by
        rw [sockIds_append, sockIds_okSeg, sockIds_of_created_nil (createdIds_okTail _ _ _)]
        simp)
    simpa [okTail, List.append_assoc] using this

theorem close_safeP {tls : Bool} {L : List Ev} {st : St} (hI : Inv tls L st) (hS : SafeP (peakOf tls) L) :
    SafeP (peakOf tls) (L ++ (close st).2) := by
  have hk : 1 ≤ peakOf tls := by cases tls <;> simp [peakOf]
  have := safeP_extend (T := []) hk hI hS (Nat.le_refl _) (Junk.nil st.next) (by simp) (by simp) (by simp [sockIds])
  rw [close_eq]
  simpa using this

theorem run_safeP {cfg : Cfg} (steps : List Step) {L : List Ev} {st : St} (hI : Inv (cfg.tls && !cfg.unix) L st)
    (hS : SafeP (peakOf (cfg.tls && !cfg.unix)) L) :
    SafeP (peakOf (cfg.tls && !cfg.unix)) (L ++ (run cfg st steps).2) := by
  induction steps generalizing L st with
  | nil => simpa [run] using hS
  | cons s rest ih =>
    have hI' := step_inv hI s
    have hS' : SafeP (peakOf (cfg.tls && !cfg.unix)) (L ++ (step cfg st s).2) := by
      cases s with
      | connect p => exact (connect_outcome cfg p st).safeP hI hS
      | close => exact close_safeP hI hS
    have := ih hI' hS'
    simpa [run, List.append_assoc] using this

end Conn
