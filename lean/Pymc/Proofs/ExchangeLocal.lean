import Pymc.Proofs.CallSequence
/-! Helper lemmas for C01: *locality* — a reader / loop / call that returns normally has looked only at
a fault-free prefix of the `recv()` results; replacing what it left unread by anything else changes
nothing but what is left unread. -/
namespace Exchange
open Bytes Readers Wire Framing

/-- the successful run `run evs = ok (…, u)` consumed a fault-free prefix and never looked at `u` -/
def ReaderLocal (run : List Ev → Except Readers.Err (Bytes × Bytes × List Ev)) (evs : List Ev)
    (rest item : Bytes) (u : List Ev) : Prop :=
  ∃ cons, evs = cons ++ u ∧ clean cons ∧ ∀ u2, run (cons ++ u2) = .ok (rest, item, u2)

theorem readline_local (acc buf : Bytes) (evs : List Ev) {rest line : Bytes} {u : List Ev}
    (h : readline acc buf evs = .ok (rest, line, u)) :
    ReaderLocal (readline acc buf) evs rest line u := by
  fun_induction readline acc buf evs with
  | case1 acc buf evs hc =>
    simp at h; obtain ⟨rfl, rfl, rfl⟩ := h
    exact ⟨[], rfl, trivial, fun u2 => by rw [readline.eq_def]; simp [hc]⟩
  | case2 acc buf evs hc p hp =>
    simp at h; obtain ⟨rfl, rfl, rfl⟩ := h
    exact ⟨[], rfl, trivial, fun u2 => by rw [readline.eq_def]; simp [hc, hp]⟩
  | case3 => simp at h
  | case4 => simp at h
  | case5 acc buf hc hf b r hb ih =>
    obtain ⟨cons, rfl, hcl, hrun⟩ := ih h
    refine ⟨.data b :: cons, rfl, ⟨fun e => hb e, hcl⟩, fun u2 => ?_⟩
    cases b with
    | nil => exact absurd rfl hb
    | cons x t =>
      rw [readline.eq_def]; simp only [hc, hf, if_false, List.cons_append]
      exact hrun u2
  | case6 acc buf hc hf r ih =>
    obtain ⟨cons, rfl, hcl, hrun⟩ := ih h
    refine ⟨.eintr :: cons, rfl, hcl, fun u2 => ?_⟩
    rw [readline.eq_def]; simp only [hc, hf, if_false, List.cons_append]
    exact hrun u2
  | case7 => simp at h

theorem readvalueLoop_local (acc buf : Bytes) (rlen : Int) (evs : List Ev) {rest v : Bytes}
    {u : List Ev} (h : readvalueLoop acc buf rlen evs = .ok (rest, v, u)) :
    ReaderLocal (readvalueLoop acc buf rlen) evs rest v u := by
  fun_induction readvalueLoop acc buf rlen evs with
  | case1 => simp at h
  | case2 => simp at h
  | case3 acc buf rlen hr acc' rlen' b r hb ih =>
    obtain ⟨cons, rfl, hcl, hrun⟩ := ih h
    refine ⟨.data b :: cons, rfl, ⟨fun e => hb e, hcl⟩, fun u2 => ?_⟩
    cases b with
    | nil => exact absurd rfl hb
    | cons x t =>
      rw [readvalueLoop.eq_def]; simp only [hr, if_true, List.cons_append]
      exact hrun u2
  | case4 acc buf rlen hr acc' rlen' r ih =>
    obtain ⟨cons, rfl, hcl, hrun⟩ := ih h
    refine ⟨.eintr :: cons, rfl, hcl, fun u2 => ?_⟩
    rw [readvalueLoop.eq_def]; simp only [hr, if_true, List.cons_append]
    exact hrun u2
  | case5 => simp at h
  | case6 => simp at h
  | case7 acc buf evs ha hr =>
    simp at h; obtain ⟨rfl, rfl, rfl⟩ := h
    exact ⟨[], rfl, trivial, fun u2 => by rw [readvalueLoop.eq_def]; simp only [hr, if_false, ha]; simp⟩
  | case8 acc buf rlen evs hr h1 =>
    simp at h; obtain ⟨rfl, rfl, rfl⟩ := h
    exact ⟨[], rfl, trivial, fun u2 => by rw [readvalueLoop.eq_def]; simp only [hr, if_false, h1]; rfl⟩

theorem readsegment_local (tok buf : Bytes) (evs : List Ev) {rest seg : Bytes} {u : List Ev}
    (h : readsegment tok buf evs = .ok (rest, seg, u)) :
    ReaderLocal (readsegment tok buf) evs rest seg u := by
  fun_induction readsegment tok buf evs with
  | case1 buf evs p hp =>
    simp at h; obtain ⟨rfl, rfl, rfl⟩ := h
    exact ⟨[], rfl, trivial, fun u2 => by rw [readsegment.eq_def]; simp [hp]⟩
  | case2 => simp at h
  | case3 => simp at h
  | case4 buf hf b r hb ih =>
    obtain ⟨cons, rfl, hcl, hrun⟩ := ih h
    refine ⟨.data b :: cons, rfl, ⟨fun e => hb e, hcl⟩, fun u2 => ?_⟩
    cases b with
    | nil => exact absurd rfl hb
    | cons x t =>
      rw [readsegment.eq_def]; simp only [hf, List.cons_append]
      exact hrun u2
  | case5 buf hf r ih =>
    obtain ⟨cons, rfl, hcl, hrun⟩ := ih h
    refine ⟨.eintr :: cons, rfl, hcl, fun u2 => ?_⟩
    rw [readsegment.eq_def]; simp only [hf, List.cons_append]
    exact hrun u2
  | case6 => simp at h

/-! ## the loops -/

/-- the normal return `run evs = ⟨ok r, u, _⟩` consumed a fault-free prefix and never looked at `u` -/
def OutLocal {α} (run : List Ev → Out α) (evs : List Ev) (r : α) (u : List Ev) : Prop :=
  ∃ cons, evs = cons ++ u ∧ clean cons ∧ ∀ u2, run (cons ++ u2) = ⟨.ok r, u2, false⟩

theorem storeLoop_local (verb : SVerb) (n : Nat) (buf : Bytes) (evs : List Ev)
    (acc : List (Option Bool)) {r : List (Option Bool)} {u : List Ev} {cl : Bool}
    (h : storeLoop verb n buf evs acc = ⟨.ok r, u, cl⟩) :
    OutLocal (fun e => storeLoop verb n buf e acc) evs r u := by
  induction n generalizing buf evs acc with
  | zero =>
    simp [storeLoop] at h; obtain ⟨rfl, rfl, -⟩ := h
    exact ⟨[], rfl, trivial, fun u2 => rfl⟩
  | succ n ih =>
    simp only [storeLoop] at h
    rcases hr : readline [] buf evs with e | ⟨rest, line, evs'⟩
    · simp [hr] at h
    · simp only [hr] at h
      obtain ⟨c1, rfl, hc1, run1⟩ := readline_local _ _ _ hr
      rcases hre : raiseErrors line with _ | e
      · simp only [hre] at h
        rcases hv : storeResultValue verb line with _ | v
        · simp [hv] at h
        · simp only [hv] at h
          obtain ⟨c2, rfl, hc2, run2⟩ := ih _ _ _ h
          refine ⟨c1 ++ c2, by simp, clean_append hc1 hc2, fun u2 => ?_⟩
          simp only [storeLoop, List.append_assoc, run1, hre, hv]
          exact run2 u2
      · simp [hre] at h

theorem miscLoop_local (tok : Option Bytes) (n : Nat) (buf : Bytes) (evs : List Ev)
    (acc : List Bytes) {r : List Bytes} {u : List Ev} {cl : Bool}
    (h : miscLoop tok n buf evs acc = ⟨.ok r, u, cl⟩) :
    OutLocal (fun e => miscLoop tok n buf e acc) evs r u := by
  induction n generalizing buf evs acc with
  | zero =>
    simp [miscLoop] at h; obtain ⟨rfl, rfl, -⟩ := h
    exact ⟨[], rfl, trivial, fun u2 => rfl⟩
  | succ n ih =>
    cases tok with
    | none =>
      simp only [miscLoop] at h
      rcases hr : readline [] buf evs with e | ⟨rest, line, evs'⟩
      · simp [hr] at h
      · simp only [hr] at h
        obtain ⟨c1, rfl, hc1, run1⟩ := readline_local _ _ _ hr
        rcases hre : raiseErrors line with _ | e
        · simp only [hre] at h
          obtain ⟨c2, rfl, hc2, run2⟩ := ih _ _ _ h
          refine ⟨c1 ++ c2, by simp, clean_append hc1 hc2, fun u2 => ?_⟩
          simp only [miscLoop, List.append_assoc, run1, hre]
          exact run2 u2
        · simp [hre] at h
    | some t =>
      simp only [miscLoop] at h
      rcases hr : readsegment t buf evs with e | ⟨rest, line, evs'⟩
      · simp [hr] at h
      · simp only [hr] at h
        obtain ⟨c1, rfl, hc1, run1⟩ := readsegment_local _ _ _ hr
        rcases hre : raiseErrors line with _ | e
        · simp only [hre] at h
          obtain ⟨c2, rfl, hc2, run2⟩ := ih _ _ _ h
          refine ⟨c1 ++ c2, by simp, clean_append hc1 hc2, fun u2 => ?_⟩
          simp only [miscLoop, List.append_assoc, run1, hre]
          exact run2 u2
        · simp [hre] at h

/-! ## the fetch loop -/

/-- locality of one iteration of the fetch loop -/
def StepLocal (kind : FetchKind) (wanted : List Bytes) (buf : Bytes) (acc : List FetchEntry)
    (evs : List Ev) : Out (List FetchEntry) ⊕ FetchSt → Prop
  | .inl o => ∀ r, o.res = .ok r → ∃ cons, evs = cons ++ o.unread ∧ clean cons ∧
      ∀ u2, fetchStep kind wanted buf (cons ++ u2) acc = .inl ⟨.ok r, u2, false⟩
  | .inr s => ∃ cons, evs = cons ++ s.2.1 ∧ clean cons ∧
      ∀ u2, fetchStep kind wanted buf (cons ++ u2) acc = .inr (s.1, u2, s.2.2)

theorem fetchStep_local (kind : FetchKind) (wanted : List Bytes) (buf : Bytes) (evs : List Ev)
    (acc : List FetchEntry) : StepLocal kind wanted buf acc evs (fetchStep kind wanted buf evs acc) := by
  rcases hr : readline [] buf evs with e | ⟨rest, line, evs'⟩
  · simp [fetchStep, hr, StepLocal]
  obtain ⟨c1, rfl, hc1, run1⟩ := readline_local _ _ _ hr
  rcases hre : raiseErrors line with _ | e
  case some => simp [fetchStep, hr, hre, StepLocal]
  unfold fetchStep
  simp only [hr, hre]
  split
  · rename_i h1
    simp only [StepLocal]
    intro r hr'
    simp at hr'; subst hr'
    exact ⟨c1, rfl, hc1, fun u2 => by simp only [fetchStep, run1, hre, h1, if_true]⟩
  · rename_i h1
    split
    · rename_i h2
      split
      · simp [StepLocal]
      · rename_i h3
        try dsimp only
        rcases hsz : pyInt ((Key.pySplitWs line).getD 3 []) with _ | size
        · simp [StepLocal]
        · dsimp only
          rcases hv : readvalue rest size evs' with e | ⟨rest', data, evs''⟩
          · simp [StepLocal]
          · obtain ⟨c2, rfl, hc2, run2⟩ := readvalueLoop_local _ _ _ _ hv
            try dsimp only
            split
            · simp [StepLocal]
            · rename_i h4
              rcases hfl : pyInt ((Key.pySplitWs line).getD 2 []) with _ | flags
              · simp [StepLocal]
              · simp only [StepLocal]
                refine ⟨c1 ++ c2, by simp, clean_append hc1 hc2, fun u2 => ?_⟩
                have run2' : readvalue rest size (c2 ++ u2) = .ok (rest', data, u2) := run2 u2
                simp only [fetchStep, List.append_assoc, run1, hre, h1, h2, h3, hsz, run2', h4, hfl, if_true, Bool.false_eq_true,
                  if_false]
    · rename_i h2
      split
      · rename_i h3
        split
        · simp [StepLocal]
        · rename_i h4
          simp only [StepLocal]
          exact ⟨c1, rfl, hc1, fun u2 => by
            simp only [fetchStep, run1, hre, h1, h2, h3, h4, if_true, if_false, Bool.false_eq_true]⟩
      · rename_i h3
        split
        · rename_i h4
          split
          · simp [StepLocal]
          · rename_i h5
            simp only [StepLocal]
            exact ⟨c1, rfl, hc1, fun u2 => by
              simp only [fetchStep, run1, hre, h1, h2, h3, h4, h5, if_true, if_false, Bool.false_eq_true]⟩
        · simp [StepLocal]

theorem fetchLoop_local (kind : FetchKind) (wanted : List Bytes) (fuel : Nat) (buf : Bytes)
    (evs : List Ev) (acc : List FetchEntry) {r : List FetchEntry} {u : List Ev} {cl : Bool}
    (h : fetchLoop kind wanted fuel buf evs acc = ⟨.ok r, u, cl⟩) :
    ∃ cons, evs = cons ++ u ∧ clean cons ∧
      ∀ u2 f2, fuel ≤ f2 → fetchLoop kind wanted f2 buf (cons ++ u2) acc = ⟨.ok r, u2, false⟩ := by
  induction fuel generalizing buf evs acc with
  | zero => simp [fetchLoop_zero] at h
  | succ fuel ih =>
    rw [fetchLoop_succ] at h
    have hl := fetchStep_local kind wanted buf evs acc
    generalize fetchStep kind wanted buf evs acc = st at h hl
    rcases st with o | s
    · simp only [stepK] at h
      subst h
      obtain ⟨cons, he, hc, run⟩ := hl r rfl
      refine ⟨cons, he, hc, fun u2 f2 hf => ?_⟩
      obtain ⟨f2', rfl⟩ : ∃ k, f2 = k + 1 := ⟨f2 - 1, by omega⟩
      rw [fetchLoop_succ, run u2]; rfl
    · simp only [stepK] at h
      obtain ⟨c2, he2, hc2, run2⟩ := ih _ _ _ h
      obtain ⟨c1, he1, hc1, run1⟩ := hl
      refine ⟨c1 ++ c2, by rw [he1, he2, List.append_assoc], clean_append hc1 hc2, fun u2 f2 hf => ?_⟩
      obtain ⟨f2', rfl⟩ : ∃ k, f2 = k + 1 := ⟨f2 - 1, by omega⟩
      rw [fetchLoop_succ, List.append_assoc, run1 (c2 ++ u2)]
      simp only [stepK]
      exact run2 u2 f2' (by omega)
end Exchange
