import Pymc.Model.HashInnerMany
import Pymc.Proofs.HashInnerRun
import Pymc.Proofs.HashCallMany
/-!
# `HashClient ∘ <inner object>`, multi-key operations: invariants of the registered objects

The development of `Proofs/HashCallMany.lean` / `Proofs/HashInnerRun.lean` for the generic multi-key model
`Model/HashInnerMany.lean`.  Everything is phrased through one notion — `Touches R st s x out`: the step `out` either
invoked nothing and left `self.clients` alone, or invoked the object `x` registered for `s`, which went from its state `p`
to `p'` showing `o` with `R p p' o`, and stays registered under `s` — which `_safely_run_func` and
`_safely_run_set_many` both satisfy with `R` = "one `Inner.step`".  From it:

* an invariant of the registered objects that a fresh object has and an invocation preserves holds after every general
  call, and every invocation shows what it guarantees (`callGM_inv`, `runGM_inv`; `StepsOK` is the per-operation
  hypothesis on the invocations the call can make);
* after a `get_many` / `set_many` the object registered for the server of every batch that was sent is the one that was
  invoked, in the state that invocation left it in (`runBatchesG_final`: every server is handed at most one batch and the
  later batches do not touch it).
-/
namespace HashInner
open Exchange Client Framing Failover
open HashCall (mem_ainsert alookup_ainsert addToBatch addToBatchKV batchCall updateRes keysOfRes MOp BatchesOK batchesOK_add)

variable {I : Inner}

/-! ## what a step does to `self.clients` -/

/-- the step `out`, made on the object `x` registered for `s`, either invoked nothing and left `self.clients` alone, or
invoked `x` — from state `x.st` to `post`, showing `o`, with `R x.st post o` — which stays registered under `s` -/
def Touches (R : I.σ → I.σ → I.Obs → Prop) (st : St I) (s : Srv) (x : Obj I) (out : St I × HRes I.E × Option I.Obs) : Prop :=
  (out.2.2 = none ∧ out.1.clients = st.clients) ∨
  (∃ post o, R x.st post o ∧ out.2.2 = some o ∧ out.1.clients = ainsert s { x with st := post } st.clients)

theorem Touches.mono {R R' : I.σ → I.σ → I.Obs → Prop} {st : St I} {s : Srv} {x : Obj I}
    {out : St I × HRes I.E × Option I.Obs} (h : Touches R st s x out) (hRR : ∀ p p' o, R p p' o → R' p p' o) :
    Touches R' st s x out := by
  rcases h with h | ⟨post, o, hr, h1, h2⟩
  · exact .inl h
  · exact .inr ⟨post, o, hRR _ _ _ hr, h1, h2⟩

/-- the relation "one invocation `func(*args, **kwargs)` of the registered object" -/
def StepRel (I : Inner) (ccfg : Wire.Cfg) (idx : Nat) (now fin : Time) (call : Call) (sc : Script) :
    I.σ → I.σ → I.Obs → Prop :=
  fun p p' o => p' = (I.step ccfg idx now fin p call sc).1 ∧ o = (I.step ccfg idx now fin p call sc).2

theorem safelyRunFunc_touches (ccfg : Wire.Cfg) (c : Cfg) (idx : Nat) (now fin : Time) (st : St I) (s : Srv) (x : Obj I)
    (call : Call) (sc : Script) :
    Touches (StepRel I ccfg idx now fin call sc) st s x (safelyRunFunc ccfg c idx now fin st s x call sc) := by
  rcases safelyRunFunc_step ccfg c idx now fin st s x call sc with ⟨ha, hb⟩ | ⟨ha, hb⟩
  · exact .inl ⟨ha, hb⟩
  · exact .inr ⟨_, _, ⟨rfl, rfl⟩, ha, by rw [hb, contact_clients]⟩

theorem finishSetMany_fst (st1 : St I) (s : Srv) (ob : I.Obs) (clear : Bool) (r : Res) :
    (finishSetMany st1 s ob clear r).2.2 = some ob ∧ (finishSetMany st1 s ob clear r).1.clients = st1.clients ∧
    (∀ y ∈ (finishSetMany st1 s ob clear r).1.fo.nodes, y ∈ st1.fo.nodes) ∧
    isIllegalKey (finishSetMany st1 s ob clear r).2.1 = false := by
  unfold finishSetMany
  cases clear
  · exact ⟨rfl, rfl, fun y hy => hy, rfl⟩
  · simp only [if_true]
    cases aerase s st1.fo.failed <;> exact ⟨rfl, rfl, fun y hy => hy, rfl⟩

theorem invokeSetManyG_fst (ccfg : Wire.Cfg) (c : Cfg) (idx : Nat) (now fin : Time) (st : St I) (s : Srv) (x : Obj I)
    (call : Call) (sc : Script) (clear : Bool) :
    (invokeSetManyG ccfg c idx now fin st s x call sc clear).2.2 = some (I.step ccfg idx now fin x.st call sc).2 ∧
    (invokeSetManyG ccfg c idx now fin st s x call sc clear).1.clients = (contact ccfg idx now fin st s x call sc).1.clients := by
  unfold invokeSetManyG
  simp only [contact_obs]
  cases I.res (I.step ccfg idx now fin x.st call sc).2 with
  | ok r => exact ⟨(finishSetMany_fst _ s _ clear r).1, (finishSetMany_fst _ s _ clear r).2.1⟩
  | error e =>
    simp only []
    split
    · exact ⟨rfl, rfl⟩
    · split
      · exact ⟨(finishSetMany_fst _ s _ clear _).1, (finishSetMany_fst _ s _ clear _).2.1⟩
      · exact ⟨rfl, (onError_nodes c now _ s e).2⟩

theorem safelyRunSetManyG_step (ccfg : Wire.Cfg) (c : Cfg) (idx : Nat) (now fin : Time) (st : St I) (s : Srv) (x : Obj I)
    (call : Call) (sc : Script) :
    ((safelyRunSetManyG ccfg c idx now fin st s x call sc).2.2 = none ∧
      (safelyRunSetManyG ccfg c idx now fin st s x call sc).1.clients = st.clients) ∨
    ((safelyRunSetManyG ccfg c idx now fin st s x call sc).2.2 = some (I.step ccfg idx now fin x.st call sc).2 ∧
      (safelyRunSetManyG ccfg c idx now fin st s x call sc).1.clients = (contact ccfg idx now fin st s x call sc).1.clients) := by
  unfold safelyRunSetManyG
  split
  · split
    · split
      · exact .inr (invokeSetManyG_fst ..)
      · exact .inl ⟨rfl, rfl⟩
    · split
      · exact .inl ⟨rfl, rfl⟩
      · exact .inr (invokeSetManyG_fst ..)
  · exact .inr (invokeSetManyG_fst ..)

theorem safelyRunSetManyG_touches (ccfg : Wire.Cfg) (c : Cfg) (idx : Nat) (now fin : Time) (st : St I) (s : Srv) (x : Obj I)
    (call : Call) (sc : Script) :
    Touches (StepRel I ccfg idx now fin call sc) st s x (safelyRunSetManyG ccfg c idx now fin st s x call sc) := by
  rcases safelyRunSetManyG_step ccfg c idx now fin st s x call sc with ⟨ha, hb⟩ | ⟨ha, hb⟩
  · exact .inl ⟨ha, hb⟩
  · exact .inr ⟨_, _, ⟨rfl, rfl⟩, ha, by rw [hb, contact_clients]⟩

/-- a step preserves an invariant of the registered objects that the invocation preserves, and the invocation shows
what it guarantees -/
theorem Touches.inv {R : I.σ → I.σ → I.Obs → Prop} {st : St I} {s : Srv} {x : Obj I} {out : St I × HRes I.E × Option I.Obs}
    (h : Touches R st s x out) (P : I.σ → Prop) (Q : I.Obs → Prop) (hR : ∀ p p' o, R p p' o → P p → P p' ∧ Q o)
    (hinv : AllObjs P st) (hx : (s, x) ∈ st.clients) : AllObjs P out.1 ∧ ∀ o, out.2.2 = some o → Q o := by
  rcases h with ⟨ha, hb⟩ | ⟨post, o, hr, ha, hb⟩
  · exact ⟨fun y hy => hinv y (hb ▸ hy), fun o h => by rw [ha] at h; cases h⟩
  · obtain ⟨hp, hq⟩ := hR _ _ _ hr (hinv (s, x) hx)
    refine ⟨fun y hy => ?_, fun o' h => ?_⟩
    · rw [hb] at hy
      rcases mem_ainsert hy with h | h
      · exact hinv y h
      · subst h; exact hp
    · rw [ha] at h
      cases h
      exact hq

/-- registered servers stay registered -/
theorem Touches.keeps {R : I.σ → I.σ → I.Obs → Prop} {st : St I} {s : Srv} {x : Obj I} {out : St I × HRes I.E × Option I.Obs}
    (h : Touches R st s x out) (y : Srv) (hy : ∃ o, alookup y st.clients = some o) :
    ∃ o, alookup y out.1.clients = some o := by
  rcases h with ⟨-, hb⟩ | ⟨post, o, -, -, hb⟩
  · rw [hb]; exact hy
  · rw [hb, alookup_ainsert]
    by_cases hys : y = s
    · simp [hys]
    · simpa [hys] using hy

/-- the objects registered for the other servers are not touched -/
theorem Touches.lookup_ne {R : I.σ → I.σ → I.Obs → Prop} {st : St I} {s : Srv} {x : Obj I}
    {out : St I × HRes I.E × Option I.Obs} (h : Touches R st s x out) (y : Srv) (hne : y ≠ s) :
    alookup y out.1.clients = alookup y st.clients := by
  rcases h with ⟨-, hb⟩ | ⟨post, o, -, -, hb⟩
  · rw [hb]
  · rw [hb, alookup_ainsert]
    simp [hne]

/-! ## the second loop -/

theorem runBatchesG_cons_some {β γ : Type} (runOne : St I → Srv → Obj I → β → St I × HRes I.E × Option I.Obs)
    (onValue : γ → β → Res → γ) (onDefault : γ → β → γ) (fin : γ → Res) (st : St I) (s : Srv) (b : β) (bs : List (Srv × β))
    (acc : γ) (cl : Obj I) (hl : alookup s st.clients = some cl) :
    runBatchesG runOne onValue onDefault fin st ((s, b) :: bs) acc =
      match runOne st s cl b with
      | (st1, .value r, o) =>
        match runBatchesG runOne onValue onDefault fin st1 bs (onValue acc b r) with
        | (st2, res, obs) => (st2, res, ⟨s, o.map fun _ => cl.id, o, true⟩ :: obs)
      | (st1, .default, o) =>
        match runBatchesG runOne onValue onDefault fin st1 bs (onDefault acc b) with
        | (st2, res, obs) => (st2, res, ⟨s, o.map fun _ => cl.id, o, false⟩ :: obs)
      | (st1, r, o) => (st1, r, [⟨s, o.map fun _ => cl.id, o, false⟩]) := by
  simp only [runBatchesG, hl]
  rfl

/-- the second loop: if `runOne` on a registered object preserves the invariant `Inv` of the state and yields
observations with the property `Q` — for the batches that satisfy `good` —, so does the loop -/
theorem runBatchesG_inv {β γ : Type} (Inv : St I → Prop) (Q : I.Obs → Prop) (good : β → Prop)
    (runOne : St I → Srv → Obj I → β → St I × HRes I.E × Option I.Obs)
    (onValue : γ → β → Res → γ) (onDefault : γ → β → γ) (fin : γ → Res)
    (hone : ∀ st s x b, Inv st → (s, x) ∈ st.clients → good b →
      Inv (runOne st s x b).1 ∧ ∀ o, (runOne st s x b).2.2 = some o → Q o)
    (st : St I) (bs : List (Srv × β)) (acc : γ) (hinv : Inv st) (hgood : ∀ p ∈ bs, good p.2) :
    Inv (runBatchesG runOne onValue onDefault fin st bs acc).1 ∧
    ∀ bo ∈ (runBatchesG runOne onValue onDefault fin st bs acc).2.2, ∀ o, bo.inner = some o → Q o := by
  induction bs generalizing st acc with
  | nil => exact ⟨hinv, fun bo h => by simp [runBatchesG] at h⟩
  | cons sx bs ih =>
    obtain ⟨s, x⟩ := sx
    cases hl : alookup s st.clients with
    | none =>
      simp only [runBatchesG, hl]
      exact ⟨hinv, fun bo h => by simp at h⟩
    | some cl =>
      obtain ⟨h1, h2⟩ := hone st s cl x hinv (mem_of_alookup hl) (hgood (s, x) (by simp))
      rw [runBatchesG_cons_some _ _ _ _ st s x bs acc cl hl]
      rcases hs : runOne st s cl x with ⟨st1, r, o⟩
      rw [hs] at h1 h2
      have hbs : ∀ p ∈ bs, good p.2 := fun p hp => hgood p (by simp [hp])
      cases r with
      | value v =>
        obtain ⟨h3, h4⟩ := ih st1 (onValue acc x v) h1 hbs
        refine ⟨h3, fun bo hbo => ?_⟩
        rcases List.mem_cons.mp hbo with h | h
        · subst h; exact h2
        · exact h4 bo h
      | default =>
        obtain ⟨h3, h4⟩ := ih st1 (onDefault acc x) h1 hbs
        refine ⟨h3, fun bo hbo => ?_⟩
        rcases List.mem_cons.mp hbo with h | h
        · subst h; exact h2
        · exact h4 bo h
      | raised s' e => exact ⟨h1, fun bo hbo => by simp only [List.mem_singleton] at hbo; subst hbo; exact h2⟩
      | allDown => exact ⟨h1, fun bo hbo => by simp only [List.mem_singleton] at hbo; subst hbo; exact h2⟩
      | illegalKey => exact ⟨h1, fun bo hbo => by simp only [List.mem_singleton] at hbo; subst hbo; exact h2⟩
      | internalError => exact ⟨h1, fun bo hbo => by simp only [List.mem_singleton] at hbo; subst hbo; exact h2⟩

/-- the loop does not touch the object registered for a server that has no batch -/
theorem runBatchesG_lookup_notin {β γ : Type} (R : I.σ → I.σ → I.Obs → Prop)
    (runOne : St I → Srv → Obj I → β → St I × HRes I.E × Option I.Obs)
    (onValue : γ → β → Res → γ) (onDefault : γ → β → γ) (fin : γ → Res)
    (hone : ∀ st s x b, Touches R st s x (runOne st s x b))
    (st : St I) (bs : List (Srv × β)) (acc : γ) (y : Srv) (hy : y ∉ keys bs) :
    alookup y (runBatchesG runOne onValue onDefault fin st bs acc).1.clients = alookup y st.clients := by
  induction bs generalizing st acc with
  | nil => rfl
  | cons sx bs ih =>
    obtain ⟨s, x⟩ := sx
    have hys : y ≠ s := fun h => hy (by simp [keys, h])
    have hyb : y ∉ keys bs := fun h => hy (by simp only [keys, List.map_cons, List.mem_cons] at h ⊢; exact .inr h)
    cases hl : alookup s st.clients with
    | none => simp only [runBatchesG, hl]
    | some cl =>
      have ht := (hone st s cl x).lookup_ne y hys
      rw [runBatchesG_cons_some _ _ _ _ st s x bs acc cl hl]
      rcases hs : runOne st s cl x with ⟨st1, r, o⟩
      rw [hs] at ht
      cases r with
      | value v => simp only []; rw [ih st1 _ hyb]; exact ht
      | default => simp only []; rw [ih st1 _ hyb]; exact ht
      | raised s' e => exact ht
      | allDown => exact ht
      | illegalKey => exact ht
      | internalError => exact ht

/-- **after the second loop** of a multi-key operation (every server is handed at most one batch): for every batch that
was sent, the object that was invoked had the invariant `P`, went from `p` to `post` showing `o` with `R p post o`, and
is what `self.clients` holds for that server when the loop is over -/
theorem runBatchesG_final {β γ : Type} (R : I.σ → I.σ → I.Obs → Prop) (P : I.σ → Prop)
    (runOne : St I → Srv → Obj I → β → St I × HRes I.E × Option I.Obs)
    (onValue : γ → β → Res → γ) (onDefault : γ → β → γ) (fin : γ → Res)
    (hone : ∀ st s x b, Touches R st s x (runOne st s x b))
    (hR : ∀ p p' o, R p p' o → P p → P p')
    (st : St I) (bs : List (Srv × β)) (acc : γ) (hinv : AllObjs P st) (hnd : (keys bs).Nodup) :
    ∀ bo ∈ (runBatchesG runOne onValue onDefault fin st bs acc).2.2, ∀ o, bo.inner = some o →
      ∃ (x : Obj I) (post : I.σ), P x.st ∧ R x.st post o ∧ bo.obj = some x.id ∧
        alookup bo.server (runBatchesG runOne onValue onDefault fin st bs acc).1.clients = some { x with st := post } := by
  induction bs generalizing st acc with
  | nil => intro bo h; simp [runBatchesG] at h
  | cons sx bs ih =>
    obtain ⟨s, x⟩ := sx
    have hk : keys ((s, x) :: bs) = s :: keys bs := rfl
    rw [hk, List.nodup_cons] at hnd
    cases hl : alookup s st.clients with
    | none =>
      simp only [runBatchesG, hl]
      intro bo h; simp at h
    | some cl =>
      have ht := hone st s cl x
      have hinv1 := (ht.inv P (fun _ => True) (fun p p' o hr hp => ⟨hR p p' o hr hp, trivial⟩) hinv (mem_of_alookup hl)).1
      have hpcl : P cl.st := hinv (s, cl) (mem_of_alookup hl)
      -- the object registered for `s` right after its batch
      have hhead : ∀ o, (runOne st s cl x).2.2 = some o → ∃ post, R cl.st post o ∧
          alookup s (runOne st s cl x).1.clients = some { cl with st := post } := by
        intro o ho
        rcases ht with ⟨ha, -⟩ | ⟨post, o', hr, ha, hb⟩
        · rw [ha] at ho; cases ho
        · rw [ha] at ho
          cases ho
          exact ⟨post, hr, by rw [hb, alookup_ainsert]; simp⟩
      rw [runBatchesG_cons_some _ _ _ _ st s x bs acc cl hl]
      rcases hs : runOne st s cl x with ⟨st1, r, o⟩
      rw [hs] at hinv1 hhead
      simp only [] at hinv1 hhead
      have hrest : ∀ acc', alookup s (runBatchesG runOne onValue onDefault fin st1 bs acc').1.clients = alookup s st1.clients :=
        fun acc' => runBatchesG_lookup_notin R runOne onValue onDefault fin hone st1 bs acc' s hnd.1
      have hsingle : ∀ bo : BObs I, bo = ⟨s, o.map fun _ => cl.id, o, false⟩ → ∀ o', bo.inner = some o' →
          ∃ (x : Obj I) (post : I.σ), P x.st ∧ R x.st post o' ∧ bo.obj = some x.id ∧ alookup bo.server st1.clients = some { x with st := post } := by
        intro bo hbo o' ho'
        subst hbo
        simp only [] at ho'
        obtain ⟨post, hr, hlk⟩ := hhead o' ho'
        exact ⟨cl, post, hpcl, hr, by simp [ho'], hlk⟩
      cases r with
      | value v =>
        simp only []
        intro bo hbo o' ho'
        rcases List.mem_cons.mp hbo with h | h
        · subst h
          simp only [] at ho'
          obtain ⟨post, hr, hlk⟩ := hhead o' ho'
          exact ⟨cl, post, hpcl, hr, by simp [ho'], by simp only []; rw [hrest]; exact hlk⟩
        · exact ih st1 _ hinv1 hnd.2 bo h o' ho'
      | default =>
        simp only []
        intro bo hbo o' ho'
        rcases List.mem_cons.mp hbo with h | h
        · subst h
          simp only [] at ho'
          obtain ⟨post, hr, hlk⟩ := hhead o' ho'
          exact ⟨cl, post, hpcl, hr, by simp [ho'], by simp only []; rw [hrest]; exact hlk⟩
        · exact ih st1 _ hinv1 hnd.2 bo h o' ho'
      | raised s' e => intro bo hbo; exact hsingle bo (List.mem_singleton.mp hbo)
      | allDown => intro bo hbo; exact hsingle bo (List.mem_singleton.mp hbo)
      | illegalKey => intro bo hbo; exact hsingle bo (List.mem_singleton.mp hbo)
      | internalError => intro bo hbo; exact hsingle bo (List.mem_singleton.mp hbo)

/-! ## the first loops -/

theorem allObjs_refreshed {P : I.σ → Prop} {st st1 : St I} (hfresh : P I.fresh) (hr : Refreshed st st1)
    (hinv : AllObjs P st) : AllObjs P st1 := by
  intro x hx
  rcases hr.mem x hx with h | h
  · exact hinv x h
  · rw [h]; exact hfresh

theorem routeKeysG_spec {RK : Type} (ccfg : Wire.Cfg) (c : Cfg) (route : List Srv → RK → Option Srv) (now : Time)
    (st : St I) (ks : List (RK × Key.K)) (b : List (Srv × List Key.K)) (hb : BatchesOK ccfg b) (hnd : (keys b).Nodup) :
    Refreshed st (routeKeysG ccfg c route now st ks b).1 ∧
    ∀ b', (routeKeysG ccfg c route now st ks b).2 = .inr b' → BatchesOK ccfg b' ∧ (keys b').Nodup := by
  induction ks generalizing st b with
  | nil => exact ⟨refreshed_refl _, fun b' h => by cases h; exact ⟨hb, hnd⟩⟩
  | cons rkk ks ih =>
    obtain ⟨rk, k⟩ := rkk
    simp only [routeKeysG]
    cases hk : Wire.checkKey ccfg k with
    | error e => exact ⟨refreshed_refl _, fun b' h => by cases h⟩
    | ok w =>
      obtain ⟨hr, -⟩ := getClient_refreshed c route now st rk
      simp only []
      rcases hg : getClient c route now st rk with ⟨st1, g⟩
      rw [hg] at hr
      cases g with
      | internalError => exact ⟨hr, fun b' h => by cases h⟩
      | allDown => exact ⟨hr, fun b' h => by cases h⟩
      | noClient =>
        obtain ⟨h1, h2⟩ := ih st1 b hb hnd
        exact ⟨refreshed_trans hr h1, h2⟩
      | client s cl =>
        have hnd' : (keys (addToBatch s k b)).Nodup := by
          unfold addToBatch
          cases alookup s b <;> exact keys_ainsert_nodup _ _ _ hnd
        obtain ⟨h1, h2⟩ := ih st1 (addToBatch s k b) (batchesOK_add s hk hb) hnd'
        exact ⟨refreshed_trans hr h1, h2⟩

theorem routeItemsG_spec {RK : Type} (ccfg : Wire.Cfg) (c : Cfg) (route : List Srv → RK → Option Srv) (now : Time)
    (st : St I) (items : List (RK × Key.K × Wire.Val)) (b : List (Srv × List (Key.K × Wire.Val))) (f : List Key.K)
    (hnd : (keys b).Nodup) :
    Refreshed st (routeItemsG ccfg c route now st items b f).1 ∧
    ∀ b' f', (routeItemsG ccfg c route now st items b f).2 = .inr (b', f') → (keys b').Nodup := by
  induction items generalizing st b f with
  | nil => exact ⟨refreshed_refl _, fun b' f' h => by cases h; exact hnd⟩
  | cons x ks ih =>
    obtain ⟨rk, k, v⟩ := x
    simp only [routeItemsG]
    cases hk : Wire.checkKey ccfg k with
    | error e => exact ⟨refreshed_refl _, fun b' f' h => by cases h⟩
    | ok w =>
      obtain ⟨hr, -⟩ := getClient_refreshed c route now st rk
      simp only []
      rcases hg : getClient c route now st rk with ⟨st1, g⟩
      rw [hg] at hr
      cases g with
      | internalError => exact ⟨hr, fun b' f' h => by cases h⟩
      | allDown => exact ⟨hr, fun b' f' h => by cases h⟩
      | noClient =>
        obtain ⟨h1, h2⟩ := ih st1 b (f ++ [k]) hnd
        exact ⟨refreshed_trans hr h1, h2⟩
      | client s cl =>
        have hnd' : (keys (addToBatchKV s k v b)).Nodup := by
          unfold addToBatchKV
          cases alookup s b <;> exact keys_ainsert_nodup _ _ _ hnd
        obtain ⟨h1, h2⟩ := ih st1 (addToBatchKV s k v b) f hnd'
        exact ⟨refreshed_trans hr h1, h2⟩

/-! ## the loop of `delete_many` -/

theorem deleteLoopG_inv {RK : Type} (Inv : St I → Prop) (Q : I.Obs → Prop) (ccfg : Wire.Cfg) (c : Cfg)
    (route : List Srv → RK → Option Srv) (idx : Nat) (now fin : Time) (noreply : Option Bool)
    (st : St I) (ks : List (RK × Key.K × Script)) (hinv : Inv st)
    (hone : ∀ st, Inv st → ∀ x ∈ ks,
      Inv (callG ccfg c route st idx now fin x.1 (.delete x.2.1 noreply) x.2.2).1 ∧
      ∀ o, (callG ccfg c route st idx now fin x.1 (.delete x.2.1 noreply) x.2.2).2.inner = some o → Q o) :
    Inv (deleteLoopG ccfg c route idx now fin noreply st ks).1 ∧
    ∀ ob ∈ (deleteLoopG ccfg c route idx now fin noreply st ks).2, ∀ o, ob.inner = some o → Q o := by
  induction ks generalizing st with
  | nil => exact ⟨hinv, fun ob h => by simp [deleteLoopG] at h⟩
  | cons x rest ih =>
    obtain ⟨rk, k, sc⟩ := x
    obtain ⟨h1, h2⟩ := hone st hinv (rk, k, sc) (by simp)
    simp only [deleteLoopG]
    simp only [] at h1 h2
    rcases hc : callG ccfg c route st idx now fin rk (.delete k noreply) sc with ⟨st1, ob⟩
    rw [hc] at h1 h2
    simp only []
    split
    · exact ⟨h1, fun ob' h => by simp only [List.mem_singleton] at h; subst h; exact h2⟩
    · obtain ⟨h3, h4⟩ := ih st1 h1 (fun st' hi x hx => hone st' hi x (by simp [hx]))
      refine ⟨h3, fun ob' h => ?_⟩
      rcases List.mem_cons.mp h with h | h
      · subst h; exact h2
      · exact h4 ob' h

theorem batchOfObsG_inner {ob : HObs I} {bo : BObs I} (h : batchOfObsG ob = some bo) : bo.inner = ob.inner := by
  unfold batchOfObsG at h
  split at h
  · cases h; rfl
  · cases h

theorem mem_inners {ob : GMObs I} {o : I.Obs} (h : o ∈ ob.inners) : ∃ bo ∈ ob.batches, bo.inner = some o := by
  unfold GMObs.inners at h
  obtain ⟨bo, hbo, hs⟩ := List.mem_filterMap.mp h
  exact ⟨bo, hbo, hs⟩

theorem inners_of_mem {ob : GMObs I} {bo : BObs I} {o : I.Obs} (hbo : bo ∈ ob.batches) (ho : bo.inner = some o) :
    o ∈ ob.inners :=
  List.mem_filterMap.mpr ⟨bo, hbo, ho⟩

/-! ## one public call, runs -/

/-- **the hypothesis on the invocations a public call can make**: every invocation the operation can lead to — on
whatever server, with whatever batch of legal keys the failover code sends there — preserves `P` and shows `Q` -/
def StepsOK {RK : Type} (ccfg : Wire.Cfg) (P : I.σ → Prop) (Q : I.Obs → Prop) (idx : Nat) (now fin : Time) : MOp RK → Prop
  | .cmd _ call sc => ∀ p, P p → P (I.step ccfg idx now fin p call sc).1 ∧ Q (I.step ccfg idx now fin p call sc).2
  | .getMany gets _ scripts =>
    ∀ s ks, ks ≠ [] → (∀ k ∈ ks, ∃ w, Wire.checkKey ccfg k = .ok w) → ∀ p, P p →
      P (I.step ccfg idx now fin p (batchCall gets ks) (scripts s)).1 ∧ Q (I.step ccfg idx now fin p (batchCall gets ks) (scripts s)).2
  | .setMany _ expire noreply flags scripts =>
    ∀ s b p, P p → P (I.step ccfg idx now fin p (.setMany b expire noreply flags) (scripts s b)).1 ∧
      Q (I.step ccfg idx now fin p (.setMany b expire noreply flags) (scripts s b)).2
  | .deleteMany ks noreply =>
    ∀ x ∈ ks, ∀ p, P p → P (I.step ccfg idx now fin p (.delete x.2.1 noreply) x.2.2).1 ∧
      Q (I.step ccfg idx now fin p (.delete x.2.1 noreply) x.2.2).2

theorem stepRel_inv {ccfg : Wire.Cfg} {idx : Nat} {now fin : Time} {call : Call} {sc : Script} {P : I.σ → Prop}
    {Q : I.Obs → Prop}
    (h : ∀ p, P p → P (I.step ccfg idx now fin p call sc).1 ∧ Q (I.step ccfg idx now fin p call sc).2) :
    ∀ p p' o, StepRel I ccfg idx now fin call sc p p' o → P p → P p' ∧ Q o := by
  intro p p' o ⟨h1, h2⟩ hp
  rw [h1, h2]
  exact h p hp

/-- an invariant of the registered objects is an invariant of the general composed model, and every invocation of a
public call shows what it guarantees -/
theorem callGM_inv {RK : Type} (ccfg : Wire.Cfg) (c : Cfg) (route : List Srv → RK → Option Srv) (st : St I) (idx : Nat)
    (mc : GMCall RK) (P : I.σ → Prop) (Q : I.Obs → Prop) (hfresh : P I.fresh)
    (hsteps : StepsOK ccfg P Q idx mc.now mc.fin mc.op) (hinv : AllObjs P st) :
    AllObjs P (callGM ccfg c route st idx mc).1 ∧ ∀ o ∈ (callGM ccfg c route st idx mc).2.inners, Q o := by
  obtain ⟨op, now, fin⟩ := mc
  cases op with
  | cmd rk call sc =>
    obtain ⟨h1, h2⟩ := callG_inv ccfg c route st idx now fin rk call sc P Q hfresh hsteps hinv
    refine ⟨h1, fun o ho => ?_⟩
    obtain ⟨bo, hbo, hs⟩ := mem_inners ho
    simp only [callGM, Option.mem_toList] at hbo
    exact h2 o (by rw [← batchOfObsG_inner hbo]; exact hs)
  | getMany gets ks scripts =>
    simp only [callGM, getManyG]
    obtain ⟨hr, hb⟩ := routeKeysG_spec (I := I) ccfg c route now st ks [] (fun x hx => by simp at hx) (by simp [keys])
    rcases hrk : routeKeysG ccfg c route now st ks [] with ⟨st1, r | b⟩
    · rw [hrk] at hr
      exact ⟨allObjs_refreshed hfresh hr hinv, fun o h => by simp [GMObs.inners] at h⟩
    · rw [hrk] at hr hb
      obtain ⟨hbok, -⟩ := hb b rfl
      obtain ⟨h1, h2⟩ := runBatchesG_inv (AllObjs P) Q (fun ks => ks ≠ [] ∧ ∀ k ∈ ks, ∃ w, Wire.checkKey ccfg k = .ok w) _ _ _ _
        (fun st' s x ks' hi hcl hg =>
          (safelyRunFunc_touches ccfg c idx now fin st' s x (batchCall gets ks') (scripts s)).inv P Q
            (stepRel_inv (hsteps s ks' hg.1 hg.2)) hi hcl)
        st1 b (if gets then Res.casDict [] else Res.dict []) (allObjs_refreshed hfresh hr hinv) (fun p hp => hbok p hp)
      refine ⟨h1, fun o ho => ?_⟩
      obtain ⟨bo, hbo, hs⟩ := mem_inners ho
      exact h2 bo hbo o hs
  | setMany items expire noreply flags scripts =>
    simp only [callGM, setManyG]
    obtain ⟨hr, -⟩ := routeItemsG_spec (I := I) ccfg c route now st items [] [] (by simp [keys])
    rcases hrk : routeItemsG ccfg c route now st items [] [] with ⟨st1, r | ⟨b, f⟩⟩
    · rw [hrk] at hr
      exact ⟨allObjs_refreshed hfresh hr hinv, fun o h => by simp [GMObs.inners] at h⟩
    · rw [hrk] at hr
      obtain ⟨h1, h2⟩ := runBatchesG_inv (AllObjs P) Q (fun _ => True) _ _ _ _
        (fun st' s x b' hi hcl _ =>
          (safelyRunSetManyG_touches ccfg c idx now fin st' s x (.setMany b' expire noreply flags) (scripts s b')).inv P Q
            (stepRel_inv (hsteps s b')) hi hcl)
        st1 b f (allObjs_refreshed hfresh hr hinv) (fun _ _ => trivial)
      refine ⟨h1, fun o ho => ?_⟩
      obtain ⟨bo, hbo, hs⟩ := mem_inners ho
      exact h2 bo hbo o hs
  | deleteMany ks noreply =>
    simp only [callGM, deleteManyG]
    obtain ⟨h1, h2⟩ := deleteLoopG_inv (AllObjs P) Q ccfg c route idx now fin noreply st ks hinv
      (fun st' hi x hx => callG_inv ccfg c route st' idx now fin x.1 (.delete x.2.1 noreply) x.2.2 P Q hfresh (hsteps x hx) hi)
    refine ⟨h1, fun o ho => ?_⟩
    obtain ⟨bo, hbo, hs⟩ := mem_inners ho
    obtain ⟨ob, hob, hbo'⟩ := List.mem_filterMap.mp hbo
    exact h2 ob hob o (by rw [← batchOfObsG_inner hbo']; exact hs)

theorem runGM_cons {RK : Type} (ccfg : Wire.Cfg) (c : Cfg) (route : List Srv → RK → Option Srv) (st : St I) (k : Nat)
    (mc : GMCall RK) (rest : List (GMCall RK)) :
    runGM ccfg c route st k (mc :: rest) =
      ((runGM ccfg c route (callGM ccfg c route st k mc).1 (k + 1) rest).1,
       (callGM ccfg c route st k mc).2 :: (runGM ccfg c route (callGM ccfg c route st k mc).1 (k + 1) rest).2) :=
  rfl

theorem runGM_length {RK : Type} (ccfg : Wire.Cfg) (c : Cfg) (route : List Srv → RK → Option Srv) (st : St I) (k : Nat)
    (calls : List (GMCall RK)) : (runGM ccfg c route st k calls).2.length = calls.length := by
  induction calls generalizing st k with
  | nil => rfl
  | cons mc rest ih => simp [runGM_cons, ih]

theorem runGM_take {RK : Type} (ccfg : Wire.Cfg) (c : Cfg) (route : List Srv → RK → Option Srv) (st : St I) (k : Nat)
    (calls : List (GMCall RK)) (n : Nat) :
    (runGM ccfg c route st k (calls.take n)).2 = (runGM ccfg c route st k calls).2.take n := by
  induction calls generalizing st k n with
  | nil => simp [runGM]
  | cons mc rest ih =>
    cases n with
    | zero => simp [runGM]
    | succ n => simp [runGM_cons, ih]

/-- the state after the first `n` calls is the state in which call number `n` is made: a run splits at any point -/
theorem runGM_split {RK : Type} (ccfg : Wire.Cfg) (c : Cfg) (route : List Srv → RK → Option Srv) (st : St I) (k : Nat)
    (calls : List (GMCall RK)) (i : Nat) (mc : GMCall RK) (h : calls[i]? = some mc) :
    (runGM ccfg c route st k (calls.take (i + 1))).1 =
      (callGM ccfg c route (runGM ccfg c route st k (calls.take i)).1 (k + i) mc).1 ∧
    (runGM ccfg c route st k calls).2[i]? =
      some (callGM ccfg c route (runGM ccfg c route st k (calls.take i)).1 (k + i) mc).2 := by
  induction calls generalizing st k i with
  | nil => simp at h
  | cons mc' rest ih =>
    cases i with
    | zero =>
      simp only [List.getElem?_cons_zero, Option.some.injEq] at h
      subst h
      simp [runGM_cons, runGM]
    | succ i =>
      simp only [List.getElem?_cons_succ] at h
      obtain ⟨h1, h2⟩ := ih (callGM ccfg c route st k mc').1 (k + 1) i h
      simp only [List.take_succ_cons, runGM_cons, List.getElem?_cons_succ]
      rw [show k + (i + 1) = k + 1 + i by omega]
      exact ⟨h1, h2⟩

/-- an invariant `P` of the registered objects holds after every general run, and every invocation made by call
number `k + i` shows what it guarantees (`Q`, which may depend on the number of the call and on the call) -/
theorem runGM_inv {RK : Type} (ccfg : Wire.Cfg) (c : Cfg) (route : List Srv → RK → Option Srv) (st : St I) (k : Nat)
    (calls : List (GMCall RK)) (P : I.σ → Prop) (Q : Nat → GMCall RK → I.Obs → Prop) (hfresh : P I.fresh)
    (hsteps : ∀ mc ∈ calls, ∀ idx, StepsOK ccfg P (Q idx mc) idx mc.now mc.fin mc.op) (hinv : AllObjs P st) :
    AllObjs P (runGM ccfg c route st k calls).1 ∧
    ∀ i ob, (runGM ccfg c route st k calls).2[i]? = some ob → ∃ mc, calls[i]? = some mc ∧ ∀ o ∈ ob.inners, Q (k + i) mc o := by
  induction calls generalizing st k with
  | nil => exact ⟨hinv, fun i ob h => by simp [runGM] at h⟩
  | cons mc rest ih =>
    obtain ⟨h1, h2⟩ := callGM_inv ccfg c route st k mc P (Q k mc) hfresh (hsteps mc (by simp) k) hinv
    obtain ⟨h3, h4⟩ := ih (callGM ccfg c route st k mc).1 (k + 1) (fun x h => hsteps x (by simp [h])) h1
    rw [runGM_cons]
    refine ⟨h3, fun i ob hi => ?_⟩
    cases i with
    | zero =>
      simp only [List.getElem?_cons_zero, Option.some.injEq] at hi
      subst hi
      exact ⟨mc, rfl, fun o ho => h2 o ho⟩
    | succ i =>
      simp only [List.getElem?_cons_succ] at hi ⊢
      obtain ⟨mc', hmc, hq⟩ := h4 i ob hi
      refine ⟨mc', hmc, fun o ho => ?_⟩
      have := hq o ho
      rwa [show k + 1 + i = k + (i + 1) by omega] at this

/-! ## an exception that escapes a public call is the exception of one of its invocations -/

theorem onError_raised (c : Cfg) (now : Time) (st : St I) (s s' : Srv) (e e' : I.E)
    (h : (onError c now st s e).2 = .raised s' e') : e' = e := by
  unfold onError at h
  split at h
  · cases h; rfl
  · split at h
    · cases h
    · split at h <;> cases h <;> rfl
  · split at h <;> cases h <;> rfl

theorem invoke_raised (ccfg : Wire.Cfg) (c : Cfg) (idx : Nat) (now fin : Time) (st : St I) (s : Srv) (x : Obj I) (call : Call)
    (sc : Script) (clear : Bool) (s' : Srv) (e : I.E)
    (h : (invoke ccfg c idx now fin st s x call sc clear).2.1 = .raised s' e) :
    ∃ o, (invoke ccfg c idx now fin st s x call sc clear).2.2 = some o ∧ I.res o = .error e := by
  refine ⟨_, (invoke_fst ccfg c idx now fin st s x call sc clear).1, ?_⟩
  unfold invoke at h
  simp only [contact_obs] at h
  cases hres : I.res (I.step ccfg idx now fin x.st call sc).2 with
  | ok r =>
    rw [hres] at h
    simp only [] at h
    cases clear
    · cases h
    · simp only [if_true] at h
      split at h <;> cases h
  | error e' =>
    rw [hres] at h
    simp only [] at h
    rw [onError_raised c now _ s s' e' e h]

theorem safelyRunFunc_raised (ccfg : Wire.Cfg) (c : Cfg) (idx : Nat) (now fin : Time) (st : St I) (s : Srv) (x : Obj I)
    (call : Call) (sc : Script) (s' : Srv) (e : I.E)
    (h : (safelyRunFunc ccfg c idx now fin st s x call sc).2.1 = .raised s' e) :
    ∃ o, (safelyRunFunc ccfg c idx now fin st s x call sc).2.2 = some o ∧ I.res o = .error e := by
  unfold safelyRunFunc at h ⊢
  cases hf : alookup s st.fo.failed with
  | none =>
    simp only [hf] at h ⊢
    exact invoke_raised ccfg c idx now fin st s x call sc false s' e h
  | some p =>
    obtain ⟨attempts, failedTime⟩ := p
    simp only [hf] at h ⊢
    by_cases h1 : attempts < c.ra
    · simp only [h1, if_true] at h ⊢
      by_cases h2 : now - failedTime > c.rt
      · simp only [h2, if_true] at h ⊢
        exact invoke_raised ccfg c idx now fin st s x call sc true s' e h
      · simp only [h2, if_false] at h
        cases h
    · simp only [h1, if_false] at h ⊢
      cases hrm : removeServer now st.fo s with
      | none => simp only [hrm] at h; cases h
      | some fo' =>
        simp only [hrm] at h ⊢
        exact invoke_raised ccfg c idx now fin { st with fo := fo' } s x call sc false s' e h

theorem finishSetMany_not_raised (st1 : St I) (s : Srv) (ob : I.Obs) (clear : Bool) (r : Res) (s' : Srv) (e : I.E) :
    (finishSetMany st1 s ob clear r).2.1 ≠ .raised s' e := by
  unfold finishSetMany
  cases clear
  · exact fun h => by cases h
  · simp only [if_true]
    split <;> exact fun h => by cases h

theorem invokeSetManyG_raised (ccfg : Wire.Cfg) (c : Cfg) (idx : Nat) (now fin : Time) (st : St I) (s : Srv) (x : Obj I)
    (call : Call) (sc : Script) (clear : Bool) (s' : Srv) (e : I.E)
    (h : (invokeSetManyG ccfg c idx now fin st s x call sc clear).2.1 = .raised s' e) :
    ∃ o, (invokeSetManyG ccfg c idx now fin st s x call sc clear).2.2 = some o ∧ I.res o = .error e := by
  refine ⟨_, (invokeSetManyG_fst ccfg c idx now fin st s x call sc clear).1, ?_⟩
  unfold invokeSetManyG at h
  simp only [contact_obs] at h
  cases hres : I.res (I.step ccfg idx now fin x.st call sc).2 with
  | ok r =>
    rw [hres] at h
    exact absurd h (finishSetMany_not_raised _ _ _ _ _ _ _)
  | error e' =>
    rw [hres] at h
    simp only [] at h
    split at h
    · cases h; rfl
    · split at h
      · exact absurd h (finishSetMany_not_raised _ _ _ _ _ _ _)
      · rw [onError_raised c now _ s s' e' e h]

theorem safelyRunSetManyG_raised (ccfg : Wire.Cfg) (c : Cfg) (idx : Nat) (now fin : Time) (st : St I) (s : Srv) (x : Obj I)
    (call : Call) (sc : Script) (s' : Srv) (e : I.E)
    (h : (safelyRunSetManyG ccfg c idx now fin st s x call sc).2.1 = .raised s' e) :
    ∃ o, (safelyRunSetManyG ccfg c idx now fin st s x call sc).2.2 = some o ∧ I.res o = .error e := by
  unfold safelyRunSetManyG at h ⊢
  cases hf : alookup s st.fo.failed with
  | none =>
    simp only [hf] at h ⊢
    exact invokeSetManyG_raised ccfg c idx now fin st s x call sc false s' e h
  | some p =>
    obtain ⟨attempts, failedTime⟩ := p
    simp only [hf] at h ⊢
    by_cases h1 : attempts < c.ra
    · simp only [h1, if_true] at h ⊢
      by_cases h2 : now - failedTime > c.rt
      · simp only [h2, if_true] at h ⊢
        exact invokeSetManyG_raised ccfg c idx now fin st s x call sc true s' e h
      · simp only [h2, if_false] at h
        cases h
    · simp only [h1, if_false] at h ⊢
      cases hrm : removeServer now st.fo s with
      | none => simp only [hrm] at h; cases h
      | some fo' =>
        simp only [hrm] at h ⊢
        exact invokeSetManyG_raised ccfg c idx now fin { st with fo := fo' } s x call sc false s' e h

theorem runBatchesG_raised {β γ : Type} (runOne : St I → Srv → Obj I → β → St I × HRes I.E × Option I.Obs)
    (onValue : γ → β → Res → γ) (onDefault : γ → β → γ) (fin : γ → Res)
    (hone : ∀ st s x b s' e, (runOne st s x b).2.1 = .raised s' e → ∃ o, (runOne st s x b).2.2 = some o ∧ I.res o = .error e)
    (st : St I) (bs : List (Srv × β)) (acc : γ) (s' : Srv) (e : I.E)
    (h : (runBatchesG runOne onValue onDefault fin st bs acc).2.1 = .raised s' e) :
    ∃ bo ∈ (runBatchesG runOne onValue onDefault fin st bs acc).2.2, ∃ o, bo.inner = some o ∧ I.res o = .error e := by
  induction bs generalizing st acc with
  | nil => simp [runBatchesG] at h
  | cons sx bs ih =>
    obtain ⟨s, x⟩ := sx
    cases hl : alookup s st.clients with
    | none => simp [runBatchesG, hl] at h
    | some cl =>
      have h1 := hone st s cl x s' e
      rw [runBatchesG_cons_some _ _ _ _ st s x bs acc cl hl] at h ⊢
      rcases hs : runOne st s cl x with ⟨st1, r, o⟩
      rw [hs] at h h1
      cases r with
      | value v =>
        obtain ⟨bo, hbo, hq⟩ := ih st1 _ h
        exact ⟨bo, List.mem_cons_of_mem _ hbo, hq⟩
      | default =>
        obtain ⟨bo, hbo, hq⟩ := ih st1 _ h
        exact ⟨bo, List.mem_cons_of_mem _ hbo, hq⟩
      | raised s'' e'' =>
        obtain ⟨o', ho', hr⟩ := h1 h
        exact ⟨_, List.mem_singleton.mpr rfl, o', ho', hr⟩
      | allDown => cases h
      | illegalKey => cases h
      | internalError => cases h

theorem callG_raised {Key : Type} (ccfg : Wire.Cfg) (c : Cfg) (route : List Srv → Key → Option Srv) (st : St I) (idx : Nat)
    (now fin : Time) (rk : Key) (call : Call) (sc : Script) (s' : Srv) (e : I.E)
    (h : (callG ccfg c route st idx now fin rk call sc).2.res = .raised s' e) :
    ∃ o, (callG ccfg c route st idx now fin rk call sc).2.inner = some o ∧ I.res o = .error e ∧
      (callG ccfg c route st idx now fin rk call sc).2.server ≠ none := by
  unfold callG at h ⊢
  cases hk : HashCall.keyOk ccfg call
  · simp only [hk, Bool.not_false, if_true] at h
    cases h
  · simp only [hk, Bool.not_true, Bool.false_eq_true, if_false] at h ⊢
    rcases hg : getClient c route now st rk with ⟨st1, g⟩
    rw [hg] at h
    cases g with
    | internalError => cases h
    | allDown => cases h
    | noClient => cases h
    | client s x =>
      simp only [] at h ⊢
      obtain ⟨o, ho, hres⟩ := safelyRunFunc_raised ccfg c idx now fin st1 s x call sc s' e h
      exact ⟨o, ho, hres, by simp⟩

theorem deleteLoopG_last {RK : Type} (ccfg : Wire.Cfg) (c : Cfg) (route : List Srv → RK → Option Srv) (idx : Nat)
    (now fin : Time) (noreply : Option Bool) (st : St I) (ks : List (RK × Key.K × Script)) :
    ∀ ob ∈ (deleteLoopG ccfg c route idx now fin noreply st ks).2,
      ∃ st' x, x ∈ ks ∧ ob = (callG ccfg c route st' idx now fin x.1 (.delete x.2.1 noreply) x.2.2).2 := by
  induction ks generalizing st with
  | nil => intro ob h; simp [deleteLoopG] at h
  | cons x rest ih =>
    obtain ⟨rk, k, sc⟩ := x
    simp only [deleteLoopG]
    rcases hc : callG ccfg c route st idx now fin rk (.delete k noreply) sc with ⟨st1, ob0⟩
    have hob0 : ob0 = (callG ccfg c route st idx now fin rk (.delete k noreply) sc).2 := by rw [hc]
    simp only []
    split
    · intro ob h
      simp only [List.mem_singleton] at h
      subst h
      exact ⟨st, (rk, k, sc), by simp, hob0⟩
    · intro ob h
      rcases List.mem_cons.mp h with h | h
      · subst h
        exact ⟨st, (rk, k, sc), by simp, hob0⟩
      · obtain ⟨st', x, hx, hq⟩ := ih st1 ob h
        exact ⟨st', x, by simp [hx], hq⟩

/-- **an exception of a registered object that escapes a public call was raised by one of the invocations of that
call** -/
theorem callGM_raised {RK : Type} (ccfg : Wire.Cfg) (c : Cfg) (route : List Srv → RK → Option Srv) (st : St I) (idx : Nat)
    (mc : GMCall RK) (s' : Srv) (e : I.E) (h : (callGM ccfg c route st idx mc).2.res = .raised s' e) :
    ∃ o ∈ (callGM ccfg c route st idx mc).2.inners, I.res o = .error e := by
  obtain ⟨op, now, fin⟩ := mc
  cases op with
  | cmd rk call sc =>
    simp only [callGM] at h ⊢
    obtain ⟨o, ho, hres, hsv⟩ := callG_raised ccfg c route st idx now fin rk call sc s' e h
    refine ⟨o, ?_, hres⟩
    unfold GMObs.inners batchOfObsG
    cases hs : (callG ccfg c route st idx now fin rk call sc).2.server with
    | none => exact absurd hs hsv
    | some s => simp [ho]
  | getMany gets ks scripts =>
    simp only [callGM, getManyG] at h ⊢
    rcases hrk : routeKeysG ccfg c route now st ks [] with ⟨st1, r | b⟩
    · rw [hrk] at h
      simp only [] at h
      -- the first loop never raises an exception of a registered object
      exfalso
      have : ∀ (st : St I) ks b, ∀ r, (routeKeysG ccfg c route now st ks b).2 = .inl r → r ≠ .raised s' e := by
        intro st ks
        induction ks generalizing st with
        | nil => intro b r h; cases h
        | cons rkk ks ih =>
          obtain ⟨rk, k⟩ := rkk
          intro b r
          simp only [routeKeysG]
          split
          · intro h; cases h; exact fun h => by cases h
          · rcases getClient c route now st rk with ⟨st1, g⟩
            cases g with
            | internalError => intro h; cases h; exact fun h => by cases h
            | allDown => intro h; cases h; exact fun h => by cases h
            | noClient => exact ih st1 b r
            | client s cl => exact ih st1 _ r
      exact this st ks [] r (by rw [hrk]) h
    · rw [hrk] at h
      simp only [] at h ⊢
      obtain ⟨bo, hbo, o, ho, hres⟩ := runBatchesG_raised _ _ _ _
        (fun st s x b s' e h => safelyRunFunc_raised ccfg c idx now fin st s x _ _ s' e h) st1 b _ s' e h
      exact ⟨o, inners_of_mem hbo ho, hres⟩
  | setMany items expire noreply flags scripts =>
    simp only [callGM, setManyG] at h ⊢
    rcases hrk : routeItemsG ccfg c route now st items [] [] with ⟨st1, r | ⟨b, f⟩⟩
    · rw [hrk] at h
      simp only [] at h
      exfalso
      have : ∀ (st : St I) items b f, ∀ r, (routeItemsG ccfg c route now st items b f).2 = .inl r → r ≠ .raised s' e := by
        intro st items
        induction items generalizing st with
        | nil => intro b f r h; cases h
        | cons x ks ih =>
          obtain ⟨rk, k, v⟩ := x
          intro b f r
          simp only [routeItemsG]
          split
          · intro h; cases h; exact fun h => by cases h
          · rcases getClient c route now st rk with ⟨st1, g⟩
            cases g with
            | internalError => intro h; cases h; exact fun h => by cases h
            | allDown => intro h; cases h; exact fun h => by cases h
            | noClient => exact ih st1 b _ r
            | client s cl => exact ih st1 _ f r
      exact this st items [] [] r (by rw [hrk]) h
    · rw [hrk] at h
      simp only [] at h ⊢
      obtain ⟨bo, hbo, o, ho, hres⟩ := runBatchesG_raised _ _ _ _
        (fun st s x b s' e h => safelyRunSetManyG_raised ccfg c idx now fin st s x _ _ s' e h) st1 b _ s' e h
      exact ⟨o, inners_of_mem hbo ho, hres⟩
  | deleteMany ks noreply =>
    simp only [callGM, deleteManyG] at h ⊢
    cases hf : (deleteLoopG ccfg c route idx now fin noreply st ks).2.find? (fun ob => raisesG ob.res) with
    | none => rw [hf] at h; cases h
    | some ob =>
      rw [hf] at h
      simp only [] at h
      have hmem := List.mem_of_find?_eq_some hf
      obtain ⟨st', x, -, hob⟩ := deleteLoopG_last ccfg c route idx now fin noreply st ks ob hmem
      rw [hob] at h
      obtain ⟨o, ho, hres, hsv⟩ := callG_raised ccfg c route st' idx now fin x.1 _ x.2.2 s' e h
      rw [← hob] at ho hsv
      refine ⟨o, ?_, hres⟩
      cases hs : ob.server with
      | none => exact absurd hs hsv
      | some s =>
        have hb : batchOfObsG ob = some ⟨s, ob.obj, ob.inner, match ob.res with | .value _ => true | _ => false⟩ := by
          unfold batchOfObsG; rw [hs]; rfl
        exact List.mem_filterMap.mpr ⟨_, List.mem_filterMap.mpr ⟨ob, hmem, hb⟩, ho⟩

/-! ## histories of single-key calls -/

theorem batchOfObsG_inners (ob : HObs I) (h : ob.server = none → ob.inner = none) :
    (batchOfObsG ob).toList.filterMap (·.inner) = ob.inner.toList := by
  unfold batchOfObsG
  cases hs : ob.server with
  | none => simp [h hs]
  | some s => cases ob.inner <;> simp

/-- on a history of single-key calls `runGM` is `runG`: same final state, same results, and the invocations of call `i`
are the invocation of `runG`'s observation `i` -/
theorem runGM_cmds {RK : Type} (ccfg : Wire.Cfg) (c : Cfg) (route : List Srv → RK → Option Srv) (st : St I) (k : Nat)
    (calls : List (GCall RK)) :
    (runGM ccfg c route st k (calls.map GCall.toGM)).1 = (runG ccfg c route st k calls).1 ∧
    (runGM ccfg c route st k (calls.map GCall.toGM)).2.map (·.res) = (runG ccfg c route st k calls).2.map (·.res) ∧
    (runGM ccfg c route st k (calls.map GCall.toGM)).2.map (·.inners) =
      (runG ccfg c route st k calls).2.map (fun ob => ob.inner.toList) := by
  induction calls generalizing st k with
  | nil => exact ⟨rfl, rfl, rfl⟩
  | cons gc rest ih =>
    have h1 : (callGM ccfg c route st k gc.toGM).1 = (callG ccfg c route st k gc.now gc.fin gc.rk gc.call gc.sc).1 := rfl
    have h2 : (callGM ccfg c route st k gc.toGM).2.res = (callG ccfg c route st k gc.now gc.fin gc.rk gc.call gc.sc).2.res := rfl
    have h3 : (callGM ccfg c route st k gc.toGM).2.inners =
        (callG ccfg c route st k gc.now gc.fin gc.rk gc.call gc.sc).2.inner.toList := by
      show (batchOfObsG (callG ccfg c route st k gc.now gc.fin gc.rk gc.call gc.sc).2).toList.filterMap (·.inner) = _
      refine batchOfObsG_inners (callG ccfg c route st k gc.now gc.fin gc.rk gc.call gc.sc).2 (fun hs => ?_)
      rcases callG_spec ccfg c route st k gc.now gc.fin gc.rk gc.call gc.sc with ⟨st1, -, ⟨ha, -⟩ | ⟨s, x, -, -, hb, -, -⟩⟩
      · exact ha
      · rw [hb] at hs; cases hs
    obtain ⟨i1, i2, i3⟩ := ih (callG ccfg c route st k gc.now gc.fin gc.rk gc.call gc.sc).1 (k + 1)
    simp only [List.map_cons, runGM_cons, runG_cons, h1, h2, h3, i1, i2, i3, and_self]

/-! ## after a `get_many` / `set_many` -/

/-- what holds of the object registered for the server of a batch that was sent, when the call is over -/
def FinalOK (R : I.σ → I.σ → I.Obs → Prop) (P : I.σ → Prop) (st' : St I) (bo : BObs I) : Prop :=
  ∀ o, bo.inner = some o → ∃ (x : Obj I) (post : I.σ), P x.st ∧ R x.st post o ∧ bo.obj = some x.id ∧
    alookup bo.server st'.clients = some { x with st := post }

/-- the relation "one invocation made by the second loop of `get_many`" -/
def GetRel (I : Inner) (ccfg : Wire.Cfg) (idx : Nat) (now fin : Time) (gets : Bool) (scripts : Srv → Script) :
    I.σ → I.σ → I.Obs → Prop :=
  fun p p' o => ∃ s ks, StepRel I ccfg idx now fin (batchCall gets ks) (scripts s) p p' o

/-- the relation "one invocation made by the second loop of `set_many`" -/
def SetRel (I : Inner) (ccfg : Wire.Cfg) (idx : Nat) (now fin : Time) (expire : Wire.IntArg) (noreply : Option Bool)
    (flags : Option Int) (scripts : Srv → List (Key.K × Wire.Val) → Script) : I.σ → I.σ → I.Obs → Prop :=
  fun p p' o => ∃ s b, StepRel I ccfg idx now fin (.setMany b expire noreply flags) (scripts s b) p p' o

theorem getManyG_final {RK : Type} (ccfg : Wire.Cfg) (c : Cfg) (route : List Srv → RK → Option Srv) (st : St I) (idx : Nat)
    (now fin : Time) (gets : Bool) (ks : List (RK × Key.K)) (scripts : Srv → Script) (P : I.σ → Prop) (hfresh : P I.fresh)
    (hP : ∀ p p' o, GetRel I ccfg idx now fin gets scripts p p' o → P p → P p') (hinv : AllObjs P st) :
    ∀ bo ∈ (getManyG ccfg c route st idx now fin gets ks scripts).2.batches,
      FinalOK (GetRel I ccfg idx now fin gets scripts) P (getManyG ccfg c route st idx now fin gets ks scripts).1 bo := by
  unfold getManyG
  obtain ⟨hr, hb⟩ := routeKeysG_spec (I := I) ccfg c route now st ks [] (fun x hx => by simp at hx) (by simp [keys])
  rcases hrk : routeKeysG ccfg c route now st ks [] with ⟨st1, r | b⟩
  · intro bo h; simp at h
  · rw [hrk] at hr hb
    obtain ⟨-, hnd⟩ := hb b rfl
    exact runBatchesG_final (GetRel I ccfg idx now fin gets scripts) P _ _ _ _
      (fun st' s x ks' => (safelyRunFunc_touches ccfg c idx now fin st' s x (batchCall gets ks') (scripts s)).mono
        (fun p p' o h => ⟨s, ks', h⟩))
      hP st1 b _ (allObjs_refreshed hfresh hr hinv) hnd

theorem setManyG_final {RK : Type} (ccfg : Wire.Cfg) (c : Cfg) (route : List Srv → RK → Option Srv) (st : St I) (idx : Nat)
    (now fin : Time) (items : List (RK × Key.K × Wire.Val)) (expire : Wire.IntArg) (noreply : Option Bool) (flags : Option Int)
    (scripts : Srv → List (Key.K × Wire.Val) → Script) (P : I.σ → Prop) (hfresh : P I.fresh)
    (hP : ∀ p p' o, SetRel I ccfg idx now fin expire noreply flags scripts p p' o → P p → P p') (hinv : AllObjs P st) :
    ∀ bo ∈ (setManyG ccfg c route st idx now fin items expire noreply flags scripts).2.batches,
      FinalOK (SetRel I ccfg idx now fin expire noreply flags scripts) P
        (setManyG ccfg c route st idx now fin items expire noreply flags scripts).1 bo := by
  unfold setManyG
  obtain ⟨hr, hb⟩ := routeItemsG_spec (I := I) ccfg c route now st items [] [] (by simp [keys])
  rcases hrk : routeItemsG ccfg c route now st items [] [] with ⟨st1, r | ⟨b, f⟩⟩
  · intro bo h; simp at h
  · rw [hrk] at hr hb
    have hnd := hb b f rfl
    exact runBatchesG_final (SetRel I ccfg idx now fin expire noreply flags scripts) P _ _ _ _
      (fun st' s x b' => (safelyRunSetManyG_touches ccfg c idx now fin st' s x (.setMany b' expire noreply flags) (scripts s b')).mono
        (fun p p' o h => ⟨s, b', h⟩))
      hP st1 b _ (allObjs_refreshed hfresh hr hinv) hnd
end HashInner
