import Pymc.Proofs.HashCallManyProj
import Pymc.Proofs.HashCallManyExamples
/-! Concrete runs of the composed model `HashClient ∘ Client` with `set_many` and `delete_many` (non-vacuity of the
`…_hash_many_…` theorems of `Pymc/Props/C01.lean` and `Pymc/Props/C13.lean`, the counterexamples that show the
hypothesis of the projection is needed, and the known finding `C13-setmany-ignoreexc` at the composed level). -/
namespace HashCallExamples
open Bytes Readers Wire Exchange Client Framing Failover HashCall C01Examples PooledCallExamples

/-- `STORED\r\n` -/
def storedLine : Bytes := [83, 84, 79, 82, 69, 68, 13, 10]
/-- `DELETED\r\n` -/
def deletedLine : Bytes := [68, 69, 76, 69, 84, 69, 68, 13, 10]

theorem storedLine_unit : LineUnit storedLine := ⟨[83, 84, 79, 82, 69, 68], by decide⟩
theorem deletedLine_unit : LineUnit deletedLine := ⟨[68, 69, 76, 69, 84, 69, 68], by decide⟩

/-- the items `k ↦ v` (prefers server 0, then 1) and `z ↦ w` (prefers server 1, then 0) -/
def kzItems : List (List Srv × Key.K × Val) := [([0, 1], .bytes [107], .bytes [118]), ([1, 0], .bytes [122], .bytes [119])]

/-- a server that stores everything: one `STORED` line per command of the batch it is sent (nothing when the batch
cannot be encoded, so that nothing is sent) -/
def storesAll (noreply : Option Bool) (b : List (Key.K × Val)) : Script :=
  if sends {} (.setMany b (.int 0) noreply none) && !(boolOr noreply true) then
    { evs := List.replicate b.length (.data storedLine) }
  else {}

theorem clean_replicate (n : Nat) (l : Bytes) (h : l ≠ []) : clean (List.replicate n (Ev.data l)) := by
  induction n with
  | zero => trivial
  | succ n ih => exact ⟨h, ih⟩

theorem joinData_replicate (n : Nat) (l : Bytes) :
    joinData (List.replicate n (Ev.data l)) = (List.replicate n l).flatten := by
  induction n with
  | zero => rfl
  | succ n ih => simp [List.replicate_succ, joinData, ih]

theorem storesAll_wf (noreply : Option Bool) (b : List (Key.K × Val)) :
    WellFramed {} (.setMany b (.int 0) noreply none) (storesAll noreply b).evs := by
  unfold storesAll WellFramed owed
  have heff : effNoreply {} (.setMany b (.int 0) noreply none) = boolOr noreply true := rfl
  rw [heff]
  cases hs : sends {} (.setMany b (.int 0) noreply none) <;> cases hn : boolOr noreply true
  · exact ⟨trivial, rfl⟩
  · exact ⟨trivial, rfl⟩
  · simp only [Bool.not_true, Bool.false_or, Bool.false_eq_true, if_false, Bool.and_self, Bool.not_false, if_true]
    refine ⟨clean_replicate _ _ (by decide), List.replicate b.length storedLine, by simp, ?_, joinData_replicate _ _⟩
    intro u hu
    rw [(List.mem_replicate.mp hu).2]
    exact storedLine_unit
  · exact ⟨trivial, by simp [Owed.Matches, joinData]⟩

/-- server 0: refuses connections and fails `sendall` on an open socket; every other server stores everything -/
def zeroDownSet (noreply : Option Bool) : Srv → List (Key.K × Val) → Script := fun s b =>
  if s = 0 then { connectFails := some (.sock 61), sendFails := some (.sock 32), evs := (storesAll noreply b).evs }
  else storesAll noreply b

theorem zeroDownSet_wf (noreply : Option Bool) (s : Srv) (b : List (Key.K × Val)) :
    WellFramed {} (.setMany b (.int 0) noreply none) (zeroDownSet noreply s b).evs := by
  unfold zeroDownSet
  by_cases h : s = 0
  · simp only [h, if_true]; exact storesAll_wf noreply b
  · simp only [h, if_false]; exact storesAll_wf noreply b

/-- `delete k` answered `DELETED` -/
theorem wf_delete (k : Key.K) (hk : sends {} (.delete k (some false)) = true) :
    WellFramed {} (.delete k (some false)) [.data deletedLine] := by
  refine ⟨⟨by decide, trivial⟩, ?_⟩
  have : owed {} (.delete k (some false)) = .lines 1 := by simp [owed, hk, effNoreply, boolOr]
  rw [this]
  exact ⟨[deletedLine], rfl, by simp; exact deletedLine_unit, by simp [joinData]⟩

/-- seven calls on a `HashClient(ignore_exc=False)` over servers 0 and 1 (`retry_attempts=1, retry_timeout=1,
dead_timeout=5`), every script well-framed:
0. t=0 `set_many({k: v, z: w}, noreply=False)`: batch `{k: v}` on server 0, batch `{z: w}` on server 1, both stored → `[]`;
1. t=1 the same, server 0 down: `sendall` fails with `EPIPE` → the `OSError` comes back as `err`, is raised into the
   handler, server 0 is marked, the exception escapes: the batch of server 1 is not sent;
2. t=2 the same again: server 0 is inside its retry window → its batch is not sent, `values.keys()` = `[k]` is reported;
   the batch of server 1 is stored → `[k]`;
3. t=3 `delete_many([k, z, k], noreply=False)`: the retry of server 0 for `k` is refused → attempts = 1, the exception
   escapes, `z` and the second `k` are not reached;
4. t=5 `set_many`: server 0 has used up its retries → evicted, the final probe is refused → raises;
5. t=6 `set_many`: both items go to server 1 in one batch → `[]`;
6. t=12 `delete_many([k, z], noreply=False)`: server 0 is back with the fresh client object 2: `k` on it, `z` on server 1. -/
def setCalls : List (MCall (List Srv)) :=
  [{ op := .setMany kzItems (.int 0) (some false) none (fun _ b => storesAll (some false) b), now := 0 },
   { op := .setMany kzItems (.int 0) (some false) none (zeroDownSet (some false)), now := 1 },
   { op := .setMany kzItems (.int 0) (some false) none (zeroDownSet (some false)), now := 2 },
   { op := .deleteMany [([0, 1], .bytes [107], { connectFails := some (.sock 61), evs := [.data deletedLine] }),
                        ([1, 0], .bytes [122], { evs := [.data deletedLine] }),
                        ([0, 1], .bytes [107], { evs := [.data deletedLine] })] (some false), now := 3 },
   { op := .setMany kzItems (.int 0) (some false) none (zeroDownSet (some false)), now := 5 },
   { op := .setMany kzItems (.int 0) (some false) none (zeroDownSet (some false)), now := 6 },
   { op := .deleteMany [([0, 1], .bytes [107], { evs := [.data deletedLine] }),
                        ([1, 0], .bytes [122], { evs := [.data deletedLine] })] (some false), now := 12 }]

theorem setCalls_wf : ∀ mc ∈ setCalls, mc.op.WellFramed {} := by
  intro mc h
  simp only [setCalls, List.mem_cons, List.not_mem_nil, or_false] at h
  rcases h with rfl | rfl | rfl | rfl | rfl | rfl | rfl
  · exact fun _ b => storesAll_wf _ b
  · exact zeroDownSet_wf _
  · exact zeroDownSet_wf _
  · intro x hx
    simp only [List.mem_cons, List.not_mem_nil, or_false] at hx
    rcases hx with rfl | rfl | rfl <;> exact wf_delete _ (by decide +kernel)
  · exact zeroDownSet_wf _
  · exact zeroDownSet_wf _
  · intro x hx
    simp only [List.mem_cons, List.not_mem_nil, or_false] at hx
    rcases hx with rfl | rfl <;> exact wf_delete _ (by decide +kernel)

theorem demo_set :
    manySummary (runM {} cfgStrict prefRoute (init [0, 1] 0) 0 setCalls) =
      [(.value (.keys []), [(0, some 0, true), (1, some 1, true)]),
       (.raised 0 (.sock 32), [(0, some 0, false)]),
       (.value (.keys [.bytes [107]]), [(0, none, false), (1, some 1, true)]),
       (.raised 0 (.sock 61), [(0, some 0, false)]),
       (.raised 0 (.sock 61), [(0, some 0, false)]),
       (.value (.keys []), [(1, some 1, true)]),
       (.value (.bool true), [(0, some 2, true), (1, some 1, true)])] ∧
    manyTags (runM {} cfgStrict prefRoute (init [0, 1] 0) 0 setCalls) =
      [[[0], [0]], [[]], [[2]], [[]], [[]], [[5, 5]], [[6], [6]]] ∧
    manyState (runM {} cfgStrict prefRoute (init [0, 1] 0) 0 setCalls) =
      ({ nodes := [1, 0], failed := [], dead := [], lastDeadCheck := 12 }, [(0, 2, true, 0), (1, 1, true, 0)]) := by
  refine ⟨by decide +kernel, by decide +kernel, by decide +kernel⟩

/-! ## the abstract history of a general run -/

/-- kind of the operation (0 = `_run_cmd`, 1 = `get_many`, 2 = `set_many`) and number of keys -/
def opTag : Op (List Srv) → Nat × Nat
  | .runCmd _ => (0, 1)
  | .getMany ks => (1, ks.length)
  | .setMany ks => (2, ks.length)

/-- every call of `setCalls` satisfies the hypothesis of the projection; the abstract history it gives rise to
(`delete_many` contributes one `_run_cmd` event per `delete` it got round to: one at t=3, two at t=12; the environment of
a `set_many` gives every server the outcome of the inner call made on it, `ok` to a server that was not contacted), and
what `Failover.run` makes of it: the same bookkeeping state and, per event, the result and the contact log read off the
composed run -/
theorem demo_set_projection :
    allProjOK cfgStrict setCalls (runM {} cfgStrict prefRoute (init [0, 1] 0) 0 setCalls).2 = true ∧
    (absOfRun {} cfgStrict prefRoute (init [0, 1] 0) 0 setCalls).1.map (fun e => (e.now, opTag e.op, e.env 0, e.env 1)) =
      [(0, (2, 2), .ok, .ok), (1, (2, 2), .oserror, .ok), (2, (2, 2), .ok, .ok), (3, (0, 1), .oserror, .oserror),
       (5, (2, 2), .oserror, .ok), (6, (2, 2), .ok, .ok), (12, (0, 1), .ok, .ok), (12, (0, 1), .ok, .ok)] ∧
    (absOfRun {} cfgStrict prefRoute (init [0, 1] 0) 0 setCalls).2 =
      [(.multi [true, true], [(0, 0, .ok), (1, 0, .ok)]),
       (.raisedServerError 0 .oserror, [(0, 1, .oserror)]),
       (.multi [false, true], [(1, 2, .ok)]),
       (.raisedServerError 0 .oserror, [(0, 3, .oserror)]),
       (.raisedServerError 0 .oserror, [(0, 5, .oserror)]),
       (.multi [true, true], [(1, 6, .ok)]),
       (.value, [(0, 12, .ok)]),
       (.value, [(1, 12, .ok)])] ∧
    Failover.run cfgStrict prefRoute (Failover.init [0, 1] 0) (absOfRun {} cfgStrict prefRoute (init [0, 1] 0) 0 setCalls).1 =
      ({ nodes := [1, 0], failed := [], dead := [], lastDeadCheck := 12 },
       (absOfRun {} cfgStrict prefRoute (init [0, 1] 0) 0 setCalls).2) := by
  refine ⟨by decide +kernel, by decide +kernel, by decide +kernel, by decide +kernel⟩

/-- the `get_many` history of `HashCallManyExamples` (`ignore_exc=True`, no `BaseException`) satisfies it too -/
theorem demo_many_projOK :
    allProjOK cfgIgnore manyCalls (runM {} cfgIgnore prefRoute (init [0, 1] 0) 0 manyCalls).2 = true := by
  decide +kernel

/-! ## the hypothesis of the projection is needed -/

/-- server 0: a `BaseException` (`KeyboardInterrupt`, code 130) while connecting; every other server answers `END` -/
def zeroInterrupted : Srv → Script := fun s =>
  if s = 0 then { connectFails := some (.sock 130), evs := [.data endLine] } else { evs := [.data endLine] }

def getInterrupted : MCall (List Srv) := { op := .getMany false kz zeroInterrupted, now := 0 }

def setInterrupted : MCall (List Srv) :=
  { op := .setMany kzItems (.int 0) none none (fun s _ => if s = 0 then { connectFails := some (.sock 130) } else {}),
    now := 0 }

/-- **`BaseException` under `ignore_exc`.**  `get_many([k, z])` on a fresh `HashClient(ignore_exc=True)`: the batch of
server 0 is interrupted — the exception escapes at once and server 1 is never contacted; the abstract model, for
which this is a failure that `ignore_exc` swallows, carries on and contacts server 1 too.  `projOK` is false, and the
run of the abstract model differs (result and contact log).  The same for `set_many`, where the abstract `_set_many`
even reports the batch of server 0 as served. -/
theorem demo_baseExc_needed :
    projOK cfgIgnore getInterrupted (callM {} cfgIgnore prefRoute (init [0, 1] 0) 0 getInterrupted).2 = false ∧
    (callM {} cfgIgnore prefRoute (init [0, 1] 0) 0 getInterrupted).2.res = .raised 0 (.sock 130) ∧
    (absOfCall {} cfgIgnore prefRoute (init [0, 1] 0) 0 getInterrupted).2 =
      [(.default, [(0, 0, .othererror)])] ∧
    (Failover.run cfgIgnore prefRoute (HashCall.init [0, 1] 0).proj (absOfCall {} cfgIgnore prefRoute (init [0, 1] 0) 0 getInterrupted).1).2 =
      [(.multi [false, true], [(0, 0, .othererror), (1, 0, .ok)])] ∧
    projOK cfgIgnore setInterrupted (callM {} cfgIgnore prefRoute (init [0, 1] 0) 0 setInterrupted).2 = false ∧
    (callM {} cfgIgnore prefRoute (init [0, 1] 0) 0 setInterrupted).2.res = .raised 0 (.sock 130) ∧
    (Failover.run cfgIgnore prefRoute (HashCall.init [0, 1] 0).proj (absOfCall {} cfgIgnore prefRoute (init [0, 1] 0) 0 setInterrupted).1).2 =
      [(.multi [true, true], [(0, 0, .othererror), (1, 0, .ok)])] := by
  refine ⟨by decide +kernel, by decide +kernel, by decide +kernel, by decide +kernel, by decide +kernel, by decide +kernel,
    by decide +kernel⟩

/-- without `ignore_exc` the same calls project: both models stop at server 0 -/
theorem demo_baseExc_strict :
    projOK cfgStrict getInterrupted (callM {} cfgStrict prefRoute (init [0, 1] 0) 0 getInterrupted).2 = true ∧
    projOK cfgStrict setInterrupted (callM {} cfgStrict prefRoute (init [0, 1] 0) 0 setInterrupted).2 = true := by
  refine ⟨by decide +kernel, by decide +kernel⟩

/-- `retry_attempts=0`: the first failure evicts -/
def cfgNoRetry : Failover.Cfg := { ra := 0, rt := 1, dt := 5, ignoreExc := false }

/-- t=0: `get k`, server 0 refuses the connection → evicted at once (dead since 0) -/
def evictZero : List (MCall (List Srv)) :=
  [{ op := .cmd [0, 1] getK { connectFails := some (.sock 61) }, now := 0 }]

/-- t=10: `get_many([k, " "])`: the second key is illegal -/
def getIllegal : MCall (List Srv) :=
  { op := .getMany false [([0, 1], .bytes [107]), ([0, 1], .bytes [32])] bothUp, now := 10 }

/-- **`check_key_helper` in the middle of the first loop.**  After server 0 was evicted at t=0, a `get_many([k, " "])`
at t=10: `_get_client(k)` runs `_retry_dead`, which brings server 0 back (a fresh client object is registered); then
`_get_client(" ")` raises `MemcacheIllegalInputError` — no server is contacted, but the bookkeeping has changed.  The
abstract model does not validate keys: its `get_many` over the same routing keys goes on to contact server 0.
`projOK` is false and the runs differ. -/
theorem demo_illegalKey_needed :
    let st := (runM {} cfgNoRetry prefRoute (init [0, 1] 0) 0 evictZero).1
    st.fo = { nodes := [1], failed := [], dead := [(0, 0)], lastDeadCheck := 0 } ∧
    projOK cfgNoRetry getIllegal (callM {} cfgNoRetry prefRoute st 1 getIllegal).2 = false ∧
    (callM {} cfgNoRetry prefRoute st 1 getIllegal).2.res = .illegalKey ∧
    (callM {} cfgNoRetry prefRoute st 1 getIllegal).2.batches.length = 0 ∧
    (callM {} cfgNoRetry prefRoute st 1 getIllegal).1.fo = { nodes := [1, 0], failed := [], dead := [], lastDeadCheck := 10 } ∧
    (Failover.run cfgNoRetry prefRoute st.proj (absOfCall {} cfgNoRetry prefRoute st 1 getIllegal).1).2 =
      [(.multi [true, true], [(0, 10, .ok)])] := by
  refine ⟨by decide +kernel, by decide +kernel, by decide +kernel, by decide +kernel, by decide +kernel, by decide +kernel⟩

/-! ## the known finding `C13-setmany-ignoreexc` at the composed level -/

/-- `set_many({k: v})` at time `t`, server 0 down: connecting is refused, `sendall` on an open socket fails -/
def setDownAt (t : Time) : MCall (List Srv) :=
  { op := .setMany [([0, 1], .bytes [107], .bytes [118])] (.int 0) none none (zeroDownSet none), now := t }

/-- five of them at the same tick -/
def setDownCalls : List (MCall (List Srv)) := [0, 0, 0, 0, 0].map setDownAt

/-- t=0: `get k` on server 0 is refused (the server is marked failing); t=2: the retry window is open, the `set_many`
is refused as well -/
def setClearsCalls : List (MCall (List Srv)) :=
  [{ op := .cmd [0, 1] getK { connectFails := some (.sock 61) }, now := 0 }, setDownAt 2]

theorem demo_setmany_ignoreexc :
    manySummary (runM {} cfgIgnore prefRoute (init [0, 1] 0) 0 setDownCalls) =
      [(.value (.keys []), [(0, some 0, true)]), (.value (.keys []), [(0, some 0, true)]),
       (.value (.keys []), [(0, some 0, true)]), (.value (.keys []), [(0, some 0, true)]),
       (.value (.keys []), [(0, some 0, true)])] ∧
    contactLogM setDownCalls (runM {} cfgIgnore prefRoute (init [0, 1] 0) 0 setDownCalls).2 =
      [(0, 0, .oserror), (0, 0, .oserror), (0, 0, .oserror), (0, 0, .oserror), (0, 0, .oserror)] ∧
    (runM {} cfgIgnore prefRoute (init [0, 1] 0) 0 setDownCalls).1.fo =
      { nodes := [0, 1], failed := [], dead := [], lastDeadCheck := 0 } := by
  refine ⟨by decide +kernel, by decide +kernel, by decide +kernel⟩

/-! ## connections that break -/

/-- a well-framed call is fault-framed -/
theorem faultFramed_of_wellFramed_M {RK : Type} (ccfg : Wire.Cfg) (op : MOp RK) (h : op.WellFramed ccfg) :
    op.FaultFramed ccfg := by
  cases op with
  | cmd rk call sc => exact faultFramed_of_wellFramed h
  | getMany gets keys scripts => exact fun s => ⟨(scripts s).evs, [], by simp, (h s).1, .inl ⟨(h s).2, trivial⟩⟩
  | setMany items expire noreply flags scripts => exact fun s b => faultFramed_of_wellFramed (h s b)
  | deleteMany keys noreply => exact fun x hx => faultFramed_of_wellFramed (h x hx)

/-- a server whose connection delivers `STOR` and is then closed, whatever non-empty batch it is sent -/
def cutsReply (b : List (Key.K × Val)) : Script :=
  if sends {} (.setMany b (.int 0) (some false) none) && !b.isEmpty then { evs := [.data [83, 84, 79, 82], .data []] } else {}

theorem cutsReply_ff (b : List (Key.K × Val)) :
    FaultFramed {} (.setMany b (.int 0) (some false) none) (cutsReply b).evs := by
  unfold cutsReply
  cases hs : sends {} (.setMany b (.int 0) (some false) none)
  · refine faultFramed_of_wellFramed ⟨trivial, ?_⟩
    simp [owed, hs, Owed.Matches, joinData]
  · cases b with
    | nil =>
      refine faultFramed_of_wellFramed ⟨trivial, ?_⟩
      simp only [owed, hs, effNoreply, boolOr]
      exact ⟨[], rfl, by simp, rfl⟩
    | cons x r =>
      simp only [List.isEmpty_cons, Bool.not_false, Bool.and_self, if_true]
      refine ⟨[.data [83, 84, 79, 82]], [.data []], rfl, ⟨by decide, trivial⟩, .inr ⟨?_, rfl⟩⟩
      refine ⟨[69, 68, 13, 10] ++ (List.replicate r.length storedLine).flatten, by simp, ?_⟩
      simp only [owed, hs, effNoreply, boolOr]
      refine ⟨List.replicate (r.length + 1) storedLine, by simp, ?_, ?_⟩
      · intro u hu
        rw [(List.mem_replicate.mp hu).2]
        exact storedLine_unit
      · simp [joinData, List.replicate_succ, storedLine]

/-- `set_many({k: v, z: w}, noreply=False)` at t=0: server 0 stores its batch; the connection of server 1 breaks in the
middle of the reply line → `MemcacheUnexpectedCloseError` (not an `OSError`: nothing is marked), the inner client closes
its socket; then `get_many([k, z])` at t=1 — server 1 is served over a new connection -/
def cutCalls : List (MCall (List Srv)) :=
  [{ op := .setMany kzItems (.int 0) (some false) none
        (fun s b => if s = 1 then cutsReply b else storesAll (some false) b), now := 0 },
   { op := .getMany false kz bothUp, now := 1 }]

theorem cutCalls_ff : ∀ mc ∈ cutCalls, mc.op.FaultFramed {} := by
  intro mc h
  simp only [cutCalls, List.mem_cons, List.not_mem_nil, or_false] at h
  rcases h with rfl | rfl
  · intro s b
    by_cases hs : s = 1
    · simp only [hs, if_true]; exact cutsReply_ff b
    · simp only [hs, if_false]; exact faultFramed_of_wellFramed (storesAll_wf _ b)
  · exact faultFramed_of_wellFramed_M {} _ bothUp_wf

theorem demo_cut :
    manySummary (runM {} cfgStrict prefRoute (init [0, 1] 0) 0 cutCalls) =
      [(.raised 1 .unexpectedClose, [(0, some 0, true), (1, some 1, false)]),
       (.value (.dict [(.bytes [107], [120])]), [(0, some 0, true), (1, some 1, true)])] ∧
    manyTags (runM {} cfgStrict prefRoute (init [0, 1] 0) 0 cutCalls) = [[[0], [0, 0]], [[1], [1]]] ∧
    manyState (runM {} cfgStrict prefRoute (init [0, 1] 0) 0 cutCalls) =
      ({ nodes := [0, 1], failed := [], dead := [], lastDeadCheck := 0 }, [(0, 0, true, 0), (1, 1, true, 0)]) := by
  refine ⟨by decide +kernel, by decide +kernel, by decide +kernel⟩
end HashCallExamples
