import Pymc.Proofs.PooledCallProj
/-!
# `PooledClient ∘ Client`: runs

* the C01 invariant of the composed model — *every idle pooled client with an open socket has a clean pipe* —
  is preserved by `callP` when the script of the call is well-framed (`callP_clean`), resp. the variant for
  connections that may break (`callP_quiet`); the facts about the inner step come from the single-client lemmas;
* a composed run is a run of the abstract pool model whose bodies are `bodyOf` of the inner outcomes (`runP_proj`).
-/
namespace PooledCall
open Bytes Readers Wire Exchange Client Framing

/-- every idle pooled client with an open socket has only interrupted `recv()` attempts left in its pipe -/
def PipesClean (s : St) : Prop := ∀ cl ∈ s.free, cl.sockOpen = true → ∀ te ∈ cl.pipe, te.2 = .eintr

/-- … has no byte readable from its pipe before a fault -/
def PipesQuiet (s : St) : Prop := ∀ cl ∈ s.free, cl.sockOpen = true → quiet (cl.pipe.map (·.2))

theorem pipesClean_init : PipesClean {} := by intro cl h; simp at h
theorem pipesQuiet_init : PipesQuiet {} := by intro cl h; simp at h

theorem callP_clean (ccfg : Cfg) (pcfg : Pooled.Cfg) (ie : Bool) (s : St) (idx now fin : Nat) (c : Call) (sc : Script)
    (hinv : PipesClean s) (hwf : WellFramed ccfg c sc.evs) :
    PipesClean (callP ccfg pcfg ie s idx now fin c sc).1 ∧
    ∀ st, (callP ccfg pcfg ie s idx now fin c sc).2.step = some st → st.idx = idx ∧ StepFacts ccfg false st := by
  rcases callP_spec ccfg pcfg ie s idx now fin c sc with ⟨s1, hg, hr⟩ | ⟨s1, cl, hg, hstep, -, hfree, -⟩
  · rw [hr]
    obtain ⟨-, hf⟩ := get_none hg
    exact ⟨fun x hx => hinv x (hf x hx), fun st h => by simp at h⟩
  · obtain ⟨-, hf, hcl⟩ := get_some hg
    have hpipe : cl.sockOpen = true → ∀ te ∈ cl.pipe, te.2 = .eintr := by
      rcases hcl with h | ⟨h1, -, -⟩
      · exact hinv cl h
      · intro h; rw [h1] at h; cases h
    obtain ⟨hfacts, hpost⟩ := stepTagged_facts ccfg idx cl.sockOpen cl.pipe c sc hpipe hwf
    refine ⟨fun x hx hopen => ?_, fun st h => ?_⟩
    · rcases hfree x hx with h | ⟨h, -⟩ | ⟨ha, hb, -⟩
      · exact hinv x (hf x h) hopen
      · rw [h] at hopen; cases hopen
      · rw [hb]; exact hpost (ha ▸ hopen)
    · rw [hstep] at h
      cases h
      exact ⟨rfl, hfacts⟩

theorem callP_quiet (ccfg : Cfg) (pcfg : Pooled.Cfg) (ie : Bool) (s : St) (idx now fin : Nat) (c : Call) (sc : Script)
    (hinv : PipesQuiet s) (hff : FaultFramed ccfg c sc.evs) :
    PipesQuiet (callP ccfg pcfg ie s idx now fin c sc).1 ∧
    ∀ st, (callP ccfg pcfg ie s idx now fin c sc).2.step = some st → st.idx = idx ∧ StepFactsF st := by
  rcases callP_spec ccfg pcfg ie s idx now fin c sc with ⟨s1, hg, hr⟩ | ⟨s1, cl, hg, hstep, -, hfree, -⟩
  · rw [hr]
    obtain ⟨-, hf⟩ := get_none hg
    exact ⟨fun x hx => hinv x (hf x hx), fun st h => by simp at h⟩
  · obtain ⟨-, hf, hcl⟩ := get_some hg
    have hpipe : cl.sockOpen = true → quiet (cl.pipe.map (·.2)) := by
      rcases hcl with h | ⟨h1, -, -⟩
      · exact hinv cl h
      · intro h; rw [h1] at h; cases h
    obtain ⟨hfacts, hpost⟩ := stepTagged_factsF ccfg idx cl.sockOpen cl.pipe c sc hpipe hff
    refine ⟨fun x hx hopen => ?_, fun st h => ?_⟩
    · rcases hfree x hx with h | ⟨h, -⟩ | ⟨ha, hb, -⟩
      · exact hinv x (hf x h) hopen
      · rw [h] at hopen; cases hopen
      · rw [hb]; exact hpost (ha ▸ hopen)
    · rw [hstep] at h
      cases h
      exact ⟨rfl, hfacts⟩

/-! ## runs -/

theorem runP_cons (ccfg : Cfg) (pcfg : Pooled.Cfg) (ie : Bool) (s : St) (k : Nat) (c : Call) (sc : Script)
    (now fin : Nat) (rest : List PCall) :
    runP ccfg pcfg ie s k ((c, sc, now, fin) :: rest) =
      ((runP ccfg pcfg ie (callP ccfg pcfg ie s k now fin c sc).1 (k + 1) rest).1,
       (callP ccfg pcfg ie s k now fin c sc).2 :: (runP ccfg pcfg ie (callP ccfg pcfg ie s k now fin c sc).1 (k + 1) rest).2) :=
  rfl

theorem runP_length (ccfg : Cfg) (pcfg : Pooled.Cfg) (ie : Bool) (s : St) (k : Nat) (calls : List PCall) :
    (runP ccfg pcfg ie s k calls).2.length = calls.length := by
  induction calls generalizing s k with
  | nil => rfl
  | cons pc rest ih => obtain ⟨c, sc, now, fin⟩ := pc; simp [runP_cons, ih]

/-- the observations of a prefix of the history are a prefix of the observations -/
theorem runP_take (ccfg : Cfg) (pcfg : Pooled.Cfg) (ie : Bool) (s : St) (k : Nat) (calls : List PCall) (n : Nat) :
    (runP ccfg pcfg ie s k (calls.take n)).2 = (runP ccfg pcfg ie s k calls).2.take n := by
  induction calls generalizing s k n with
  | nil => simp [runP]
  | cons pc rest ih =>
    obtain ⟨c, sc, now, fin⟩ := pc
    cases n with
    | zero => simp [runP]
    | succ n => simp [runP_cons, ih]

theorem runP_clean (ccfg : Cfg) (pcfg : Pooled.Cfg) (ie : Bool) (s : St) (k : Nat) (calls : List PCall)
    (hinv : PipesClean s) (hwf : ∀ pc ∈ calls, WellFramed ccfg pc.1 pc.2.1.evs) :
    PipesClean (runP ccfg pcfg ie s k calls).1 ∧
    ∀ i ob, (runP ccfg pcfg ie s k calls).2[i]? = some ob → ∀ st, ob.step = some st →
      st.idx = k + i ∧ StepFacts ccfg false st := by
  induction calls generalizing s k with
  | nil => exact ⟨hinv, fun i ob h => by simp [runP] at h⟩
  | cons pc rest ih =>
    obtain ⟨c, sc, now, fin⟩ := pc
    obtain ⟨h1, h2⟩ := callP_clean ccfg pcfg ie s k now fin c sc hinv (hwf (c, sc, now, fin) (by simp))
    obtain ⟨h3, h4⟩ := ih (callP ccfg pcfg ie s k now fin c sc).1 (k + 1) h1 (fun pc h => hwf pc (by simp [h]))
    rw [runP_cons]
    refine ⟨h3, fun i ob hi st hst => ?_⟩
    cases i with
    | zero =>
      simp only [List.getElem?_cons_zero, Option.some.injEq] at hi
      subst hi
      exact h2 st hst
    | succ i =>
      simp only [List.getElem?_cons_succ] at hi
      obtain ⟨ha, hb⟩ := h4 i ob hi st hst
      exact ⟨by omega, hb⟩

theorem runP_quiet (ccfg : Cfg) (pcfg : Pooled.Cfg) (ie : Bool) (s : St) (k : Nat) (calls : List PCall)
    (hinv : PipesQuiet s) (hff : ∀ pc ∈ calls, FaultFramed ccfg pc.1 pc.2.1.evs) :
    PipesQuiet (runP ccfg pcfg ie s k calls).1 ∧
    ∀ i ob, (runP ccfg pcfg ie s k calls).2[i]? = some ob → ∀ st, ob.step = some st →
      st.idx = k + i ∧ StepFactsF st := by
  induction calls generalizing s k with
  | nil => exact ⟨hinv, fun i ob h => by simp [runP] at h⟩
  | cons pc rest ih =>
    obtain ⟨c, sc, now, fin⟩ := pc
    obtain ⟨h1, h2⟩ := callP_quiet ccfg pcfg ie s k now fin c sc hinv (hff (c, sc, now, fin) (by simp))
    obtain ⟨h3, h4⟩ := ih (callP ccfg pcfg ie s k now fin c sc).1 (k + 1) h1 (fun pc h => hff pc (by simp [h]))
    rw [runP_cons]
    refine ⟨h3, fun i ob hi st hst => ?_⟩
    cases i with
    | zero =>
      simp only [List.getElem?_cons_zero, Option.some.injEq] at hi
      subst hi
      exact h2 st hst
    | succ i =>
      simp only [List.getElem?_cons_succ] at hi
      obtain ⟨ha, hb⟩ := h4 i ob hi st hst
      exact ⟨by omega, hb⟩

/-- every observed step of a run is the inner `Client.call` of the corresponding call of the history, and the
method returns what that call returned (or the miss value, when a read method swallowed its exception) -/
theorem runP_steps (ccfg : Cfg) (pcfg : Pooled.Cfg) (ie : Bool) (s : St) (k : Nat) (calls : List PCall) :
    ∀ (i : Nat) (ob : PObs), (runP ccfg pcfg ie s k calls).2[i]? = some ob →
      ∃ c sc now fin, calls[i]? = some (c, sc, now, fin) ∧
        ∀ st, ob.step = some st →
          (∃ so left, st = stepTagged ccfg (k + i) so left c sc) ∧
          (ob.res = some st.out.res ∨
            ∃ e, st.out.res = .error e ∧ swallows ie c e = true ∧ ob.res = some (.ok (missRes c))) ∧
          (st.out.sent = none → ob.io = none) := by
  induction calls generalizing s k with
  | nil => intro i ob h; simp [runP] at h
  | cons pc rest ih =>
    obtain ⟨c, sc, now, fin⟩ := pc
    intro i ob hi
    rw [runP_cons] at hi
    cases i with
    | zero =>
      simp only [List.getElem?_cons_zero, Option.some.injEq] at hi
      subst hi
      refine ⟨c, sc, now, fin, rfl, fun st hst => ?_⟩
      obtain ⟨h1, h2⟩ := callP_res ccfg pcfg ie s k now fin c sc st hst
      refine ⟨?_, h1, h2⟩
      rcases callP_spec ccfg pcfg ie s k now fin c sc with ⟨s1, hg, hr⟩ | ⟨s1, cl, hg, hstep, -, -, -⟩
      · rw [hr] at hst; simp at hst
      · rw [hstep] at hst
        exact ⟨cl.sockOpen, cl.pipe, (Option.some.inj hst).symm⟩
    | succ i =>
      simp only [List.getElem?_cons_succ] at hi ⊢
      obtain ⟨c', sc', now', fin', h1, h2⟩ := ih _ (k + 1) i ob hi
      refine ⟨c', sc', now', fin', h1, fun st hst => ?_⟩
      have := h2 st hst
      rwa [show k + 1 + i = k + (i + 1) by omega] at this

/-! ## the run projects onto the abstract model -/

theorem historyOf_cons (ie : Bool) (c : Call) (sc : Script) (now fin : Nat) (rest : List PCall) (ob : PObs)
    (obs : List PObs) :
    historyOf ie ((c, sc, now, fin) :: rest) (ob :: obs) = (now, fin, bodyOfObs ie c ob) :: historyOf ie rest obs := rfl

theorem historyOf_take (ie : Bool) (calls : List PCall) (obs : List PObs) (n : Nat) :
    historyOf ie (calls.take n) (obs.take n) = (historyOf ie calls obs).take n := by
  induction calls generalizing obs n with
  | nil => simp [historyOf]
  | cons pc rest ih =>
    obtain ⟨c, sc, now, fin⟩ := pc
    cases obs with
    | nil => cases n <;> simp [historyOf]
    | cons ob obs =>
      cases n with
      | zero => simp [historyOf]
      | succ n => simp [historyOf_cons, ih]

theorem historyOf_length (ie : Bool) (calls : List PCall) (obs : List PObs) (h : obs.length = calls.length) :
    (historyOf ie calls obs).length = calls.length := by
  induction calls generalizing obs with
  | nil => simp [historyOf]
  | cons pc rest ih =>
    obtain ⟨c, sc, now, fin⟩ := pc
    cases obs with
    | nil => simp at h
    | cons ob obs => simp [historyOf_cons, ih obs (by simpa using h)]

theorem historyOf_getElem (ie : Bool) (calls : List PCall) (obs : List PObs) (i : Nat) (c : Call) (sc : Script)
    (now fin : Nat) (ob : PObs) (hc : calls[i]? = some (c, sc, now, fin)) (ho : obs[i]? = some ob) :
    (historyOf ie calls obs)[i]? = some (now, fin, bodyOfObs ie c ob) := by
  induction calls generalizing obs i with
  | nil => simp at hc
  | cons pc rest ih =>
    obtain ⟨c', sc', now', fin'⟩ := pc
    cases obs with
    | nil => simp at ho
    | cons ob' obs =>
      cases i with
      | zero =>
        simp only [List.getElem?_cons_zero, Option.some.injEq, Prod.mk.injEq] at hc ho
        obtain ⟨rfl, rfl, rfl, rfl⟩ := hc
        subst ho
        simp [historyOf_cons]
      | succ i =>
        simp only [List.getElem?_cons_succ] at hc ho
        simp only [historyOf_cons, List.getElem?_cons_succ]
        exact ih obs i hc ho

/-- when the `io` of the composed observation and of the abstract one are the same: always, except when the method
returned without having sent anything while its client holds an open socket (`get_many([])` on a connected client;
the abstract model then reports the connection the client holds) -/
def IoExact (ob : PObs) : Prop :=
  ∀ st r, ob.step = some st → ob.res = some (.ok r) → st.out.sockOpen = true → st.out.sent ≠ none

theorem runP_proj (ccfg : Cfg) (pcfg : Pooled.Cfg) (ie : Bool) (s : St) (k : Nat) (calls : List PCall)
    (hcoh : Coh s) :
    (runP ccfg pcfg ie s k calls).1.proj =
      (Pooled.runT pcfg s.proj (historyOf ie calls (runP ccfg pcfg ie s k calls).2)).1 ∧
    Coh (runP ccfg pcfg ie s k calls).1 ∧
    (∀ (i : Nat) (ob : PObs), (runP ccfg pcfg ie s k calls).2[i]? = some ob →
      ∃ o : Pooled.CallObs,
        (Pooled.runT pcfg s.proj (historyOf ie calls (runP ccfg pcfg ie s k calls).2)).2[i]? = some o ∧
        o.client = ob.client ∧ (IoExact ob → o.io = ob.io)) := by
  induction calls generalizing s k with
  | nil => exact ⟨rfl, hcoh, fun i ob h => by simp [runP] at h⟩
  | cons pc rest ih =>
    obtain ⟨c, sc, now, fin⟩ := pc
    obtain ⟨p1, p2, p3⟩ := callP_proj ccfg pcfg ie s k now fin c sc hcoh
    obtain ⟨h1, h2, h3⟩ := ih (callP ccfg pcfg ie s k now fin c sc).1 (k + 1)
      (coh_callP ccfg pcfg ie s k now fin c sc hcoh)
    rw [runP_cons]
    simp only [historyOf_cons, Pooled.runT_cons_fst, Pooled.runT_cons_snd]
    rw [← p1]
    refine ⟨h1, h2, fun i ob hi => ?_⟩
    cases i with
    | zero =>
      simp only [List.getElem?_cons_zero, Option.some.injEq] at hi
      subst hi
      exact ⟨_, rfl, p2.symm, fun hio => (p3 (fun st r h1 h2 h3 => hio st r h1 h2 h3)).symm⟩
    | succ i =>
      simp only [List.getElem?_cons_succ] at hi ⊢
      exact h3 i ob hi

/-- the state after the first `n` calls of a composed run from the empty pool projects onto the state after the first
`n` calls of the corresponding abstract run -/
theorem runP_proj_take (ccfg : Cfg) (pcfg : Pooled.Cfg) (ie : Bool) (calls : List PCall) (n : Nat) :
    (runP ccfg pcfg ie {} 0 (calls.take n)).1.proj =
      (Pooled.runT pcfg {} ((historyOf ie calls (runP ccfg pcfg ie {} 0 calls).2).take n)).1 := by
  have h := (runP_proj ccfg pcfg ie {} 0 (calls.take n) coh_init).1
  rw [runP_take, historyOf_take] at h
  exact h

/-- no client is checked out after a call: the used list of the composed state is empty when its projection's is -/
theorem used_nil_of_proj {s : St} (h : s.proj.used = []) : s.used = [] := by
  simpa [St.proj] using h

theorem free_length_proj (s : St) : s.proj.free.length = s.free.length := by
  simp [St.proj]
end PooledCall
