import Pymc.Proofs.HashBroadcastKeys
import Pymc.Proofs.HashCallSetExamples
/-! Concrete runs of the composed model `HashClient ∘ Client` with broadcasts (`flush_all`, `quit`, `close`): non-vacuity
of the `…_hash_broadcast_…` theorems of `Pymc/Props/C01.lean` and `Pymc/Props/C13.lean`, and the witnesses of the
bookkeeping error. -/
namespace HashBroadcastExamples
open Bytes Readers Wire Exchange Client Framing Failover HashCall C01Examples PooledCallExamples HashCallExamples

/-- `OK\r\n` -/
def okLine : Bytes := [79, 75, 13, 10]

/-- `flush_all(0, noreply=False)` -/
def flushOp : BOp := .flushAll (.int 0) (some false)
def flushCall : Call := .flushAll (.int 0) (some false)

theorem owed_flush : owed {} flushCall = .lines 1 := by with_unfolding_all decide
theorem owed_quit : owed {} .quit = .nothing := by with_unfolding_all decide

theorem okLine_unit : LineUnit okLine := ⟨[79, 75], by decide⟩

theorem wf_flush_ok : WellFramed {} flushCall [.data okLine] :=
  ⟨by simp [clean, okLine], by rw [owed_flush]; exact ⟨[okLine], rfl, by simp [okLine_unit], by simp [joinData]⟩⟩

theorem wf_quit : WellFramed {} .quit [] := ⟨trivial, by rw [owed_quit]; rfl⟩

/-- the server answers `OK\r\n` -/
def up : Script := { evs := [.data okLine] }
/-- the server is down: connecting is refused (`ECONNREFUSED`), sending on an old socket fails (`EPIPE`); were it
reached it would answer `OK\r\n` -/
def down : Script := { connectFails := some (.sock 61), sendFails := some (.sock 32), evs := [.data okLine] }
/-- server 0 is down, the others are up -/
def srv0Down : Srv → Script := fun s => if s = 0 then down else up
def allUp : Srv → Script := fun _ => up
def silent : Srv → Script := fun _ => {}

/-- `retry_attempts=0, retry_timeout=1, dead_timeout=5` -/
def cfgZero : Failover.Cfg := { ra := 0, rt := 1, dt := 5, ignoreExc := true }
def cfgZeroStrict : Failover.Cfg := { ra := 0, rt := 1, dt := 5, ignoreExc := false }

/-- per call: what it returned or raised, and per `_safely_run_func` the server and the client object the function was
called on (`none`: not called) -/
def xSummary (r : St × List XObs) : List (Sum HRes BRes × List (Srv × Option Nat)) :=
  r.2.map fun ob => match ob with
    | .keyed o => (.inl o.res, o.batches.map fun b => (b.server, b.client))
    | .broadcast o => (.inr o.res, o.visits.map fun v => (v.server, if v.invoked then some v.client else none))

/-- per call, per inner `Client.call`: the tags of the `recv()` results it consumed -/
def xTags (r : St × List XObs) : List (List (List Nat)) :=
  r.2.map fun ob => ob.steps.map fun stp => stp.consumed.map (·.1)

/-- bookkeeping state, and per registered client object: server, number, socket open, events left in the pipe of that
socket (0 when it has none) -/
def xState (r : St × List XObs) : State × List (Srv × Nat × Bool × Nat) :=
  (r.1.fo, r.1.clients.map fun x => (x.1, x.2.id, x.2.sockOpen, if x.2.sockOpen then x.2.pipe.length else 0))

/-! ## a well-framed history that mixes key-addressed calls and broadcasts -/

/-- 0. t=0: `get k` → server 0 (client object 0 connects) → the value;
1. t=1: `flush_all(0, noreply=False)`: client 0 on its open socket, client 1 connects; both read `OK`;
2. t=2: `quit()`: both clients send `quit` and close;
3. t=3: `get k` → client 0 connects again → the value;
4. t=4: `close()`: client 0 is closed, client 1 has no socket anyway. -/
def mixCalls : List (BCall (List Srv)) :=
  [.keyed { op := .cmd [0, 1] getK { evs := [.data getReply] }, now := 0 },
   .broadcast flushOp allUp 1,
   .broadcast .quit silent 2,
   .keyed { op := .cmd [0, 1] getK { evs := [.data getReply] }, now := 3 },
   .broadcast .close silent 4]

theorem mixCalls_wf : ∀ bc ∈ mixCalls, bc.WellFramed {} := by
  intro bc h
  simp only [mixCalls, List.mem_cons, List.not_mem_nil, or_false] at h
  rcases h with rfl | rfl | rfl | rfl | rfl
  · exact wf_get_value
  · exact fun _ => wf_flush_ok
  · exact fun _ => wf_quit
  · exact wf_get_value
  · trivial

theorem demo_mix :
    xSummary (runB {} cfgStrict prefRoute (init [0, 1] 0) 0 mixCalls) =
      [(.inl (.value (.bytes [120])), [(0, some 0)]),
       (.inr .done, [(0, some 0), (1, some 1)]),
       (.inr .done, [(0, some 0), (1, some 1)]),
       (.inl (.value (.bytes [120])), [(0, some 0)]),
       (.inr .done, [(0, some 0), (1, some 1)])] ∧
    xTags (runB {} cfgStrict prefRoute (init [0, 1] 0) 0 mixCalls) = [[[0]], [[1], [1]], [[], []], [[3]], []] ∧
    xState (runB {} cfgStrict prefRoute (init [0, 1] 0) 0 (mixCalls.take 2)) =
      ({ nodes := [0, 1], failed := [], dead := [], lastDeadCheck := 0 }, [(0, 0, true, 0), (1, 1, true, 0)]) ∧
    xState (runB {} cfgStrict prefRoute (init [0, 1] 0) 0 mixCalls) =
      ({ nodes := [0, 1], failed := [], dead := [], lastDeadCheck := 0 }, [(0, 0, false, 0), (1, 1, false, 0)]) := by
  refine ⟨by decide +kernel, by decide +kernel, by decide +kernel, by decide +kernel⟩

/-! ## a broadcast over a breaking connection -/

/-- the connection delivers `O` and is then closed -/
def cut : Script := { evs := [.data [79], .data []] }

theorem ff_flush_cut : FaultFramed {} flushCall cut.evs := by
  refine ⟨[.data [79]], [.data []], rfl, ⟨by decide, trivial⟩, .inr ⟨⟨[75, 13, 10], by simp, ?_⟩, rfl⟩⟩
  rw [owed_flush]
  exact ⟨[okLine], rfl, by simp [okLine_unit], by simp [joinData, okLine]⟩

/-- 0. t=0: `flush_all`: server 0 answers, the connection of server 1 breaks in the middle of the reply line →
   `MemcacheUnexpectedCloseError` (not an `OSError`: nothing is marked) escapes; client 1 has closed its socket;
1. t=1: `flush_all` again, both answer — client 1 over a new connection that shows nothing of the cut reply. -/
def cutCallsB : List (BCall (List Srv)) :=
  [.broadcast flushOp (fun s => if s = 1 then cut else up) 0,
   .broadcast flushOp allUp 1]

theorem cutCallsB_ff : ∀ bc ∈ cutCallsB, bc.FaultFramed {} := by
  intro bc h
  simp only [cutCallsB, List.mem_cons, List.not_mem_nil, or_false] at h
  rcases h with rfl | rfl
  · intro s
    by_cases hs : s = 1
    · simp only [hs, if_true]; exact ff_flush_cut
    · simp only [hs, if_false]; exact faultFramed_of_wellFramed wf_flush_ok
  · exact fun _ => faultFramed_of_wellFramed wf_flush_ok

theorem demo_cutB :
    xSummary (runB {} cfgStrict prefRoute (init [0, 1] 0) 0 cutCallsB) =
      [(.inr (.raised 1 .unexpectedClose), [(0, some 0), (1, some 1)]),
       (.inr .done, [(0, some 0), (1, some 1)])] ∧
    xTags (runB {} cfgStrict prefRoute (init [0, 1] 0) 0 cutCallsB) = [[[0], [0, 0]], [[1], [1]]] ∧
    xState (runB {} cfgStrict prefRoute (init [0, 1] 0) 0 cutCallsB) =
      ({ nodes := [0, 1], failed := [], dead := [], lastDeadCheck := 0 }, [(0, 0, true, 0), (1, 1, true, 0)]) := by
  refine ⟨by decide +kernel, by decide +kernel, by decide +kernel⟩

/-! ## the bookkeeping error -/

/-- `retry_attempts = 0`, `ignore_exc = True`, servers 0 and 1; server 0 is down throughout:
0. t=0: `get k` → server 0: connection refused → `_mark_failed_server` evicts it at once (`retry_attempts = 0`); the
   `OSError` is swallowed, the default comes back; rotation `[1]`, dead since 0;
1. t=1: `flush_all()`: the loop starts with the client of server 0 — still registered in `self.clients` though out of
   rotation —, the connection is refused again, `except OSError` → `_mark_failed_server` → `remove_server`:
   `_failed_clients.pop` and `_dead_clients[server] = 1` go through, `hasher.remove_node` raises
   `ValueError("No such node …")` inside the handler: it escapes although `ignore_exc` is on, and server 1 is never
   flushed. -/
def bkCalls : List (BCall (List Srv)) :=
  [.keyed { op := .cmd [0, 1] getK { connectFails := some (.sock 61), evs := [.data endLine] }, now := 0 },
   .broadcast flushOp srv0Down 1]

theorem demo_bk :
    xSummary (runB {} cfgZero prefRoute (init [0, 1] 0) 0 bkCalls) =
      [(.inl .default, [(0, some 0)]),
       (.inr (.bookkeeping 0 .valueError), [(0, some 0)])] ∧
    xState (runB {} cfgZero prefRoute (init [0, 1] 0) 0 (bkCalls.take 1)) =
      ({ nodes := [1], failed := [], dead := [(0, 0)], lastDeadCheck := 0 }, [(0, 0, false, 0), (1, 1, false, 0)]) ∧
    xState (runB {} cfgZero prefRoute (init [0, 1] 0) 0 bkCalls) =
      ({ nodes := [1], failed := [], dead := [(0, 1)], lastDeadCheck := 0 }, [(0, 0, false, 0), (1, 1, false, 0)]) := by
  refine ⟨by decide +kernel, by decide +kernel, by decide +kernel⟩

/-- `retry_attempts = 1, retry_timeout = 1, dead_timeout = 5`, server 0 down throughout, only broadcasts (nothing ever
revives a server then: `_retry_dead` runs in `_get_client` only):
0. t=0: `flush_all()` → refused → marked (attempts 0);  1. t=2: retry → refused → attempts 1;
2. t=4: attempts used up → `remove_server(0)` inside the `try` succeeds (out of rotation, dead since 4), the final probe
   is refused → a new failure record;  3. t=6: retry → refused → attempts 1;
4. t=8: attempts used up again → `remove_server(0)` inside the `try`: the record is popped, the dead time set to 8,
   `remove_node` raises `ValueError` — with `ignore_exc=True` (`cfgIgnore`) `except Exception` swallows it, `func` is not
   called on client 0, and the loop goes on to server 1; with `ignore_exc=False` (`cfgStrict`) it escapes. -/
def siegeCalls : List (BCall (List Srv)) :=
  [.broadcast flushOp srv0Down 0, .broadcast flushOp srv0Down 2, .broadcast flushOp srv0Down 4,
   .broadcast flushOp srv0Down 6, .broadcast flushOp srv0Down 8]

theorem demo_siege :
    xSummary (runB {} cfgIgnore prefRoute (init [0, 1] 0) 0 siegeCalls) =
      [(.inr .done, [(0, some 0), (1, some 1)]), (.inr .done, [(0, some 0), (1, some 1)]),
       (.inr .done, [(0, some 0), (1, some 1)]), (.inr .done, [(0, some 0), (1, some 1)]),
       (.inr .done, [(0, none), (1, some 1)])] ∧
    xState (runB {} cfgIgnore prefRoute (init [0, 1] 0) 0 (siegeCalls.take 4)) =
      ({ nodes := [1], failed := [(0, 1, 6)], dead := [(0, 4)], lastDeadCheck := 0 }, [(0, 0, false, 0), (1, 1, true, 0)]) ∧
    xState (runB {} cfgIgnore prefRoute (init [0, 1] 0) 0 siegeCalls) =
      ({ nodes := [1], failed := [], dead := [(0, 8)], lastDeadCheck := 0 }, [(0, 0, false, 0), (1, 1, true, 0)]) ∧
    xSummary (runB {} cfgStrict prefRoute (init [0, 1] 0) 0 siegeCalls) =
      [(.inr (.raised 0 (.sock 61)), [(0, some 0)]), (.inr (.raised 0 (.sock 61)), [(0, some 0)]),
       (.inr (.raised 0 (.sock 61)), [(0, some 0)]), (.inr (.raised 0 (.sock 61)), [(0, some 0)]),
       (.inr (.bookkeeping 0 .valueError), [(0, none)])] := by
  refine ⟨by decide +kernel, by decide +kernel, by decide +kernel, by decide +kernel⟩

end HashBroadcastExamples
