import Pymc.Proofs.ClientShapeAll
/-! Helper lemmas for C07 ("afterwards the client is still usable"): a closed client whose next connect succeeds
behaves like a connected client with an empty pipe. -/
namespace Exchange
open Bytes Readers Wire

theorem exchangeStore_reconnect (verb : SVerb) (cmds : List Bytes) (nr : Bool) (sc : Script)
    (h : sc.connectFails = none) :
    exchangeStore verb cmds nr false sc =
      { exchangeStore verb cmds nr true sc with connected := true } := by
  unfold exchangeStore
  simp only [h, Bool.false_eq_true, if_false, if_true]
  cases sc.sendFails with
  | some e => rfl
  | none => cases nr <;> rfl

theorem exchangeMisc_reconnect (cmds : List Bytes) (nr : Bool) (tok : Option Bytes) (sc : Script)
    (h : sc.connectFails = none) :
    exchangeMisc cmds nr tok false sc = { exchangeMisc cmds nr tok true sc with connected := true } := by
  unfold exchangeMisc
  simp only [h, Bool.false_eq_true, if_false, if_true]
  cases sc.sendFails with
  | some e => rfl
  | none => cases nr <;> rfl

theorem exchangeFetch_reconnect (kind : FetchKind) (cmd : Bytes) (wanted : List Bytes) (ie : Bool) (sc : Script)
    (h : sc.connectFails = none) :
    exchangeFetch kind cmd wanted ie false sc = { exchangeFetch kind cmd wanted ie true sc with connected := true } := by
  unfold exchangeFetch
  simp only [h, Bool.false_eq_true, if_false, if_true]
  cases sc.sendFails with
  | some e => rfl
  | none =>
    cases (fetchLoop kind wanted (totalLen [] sc.evs) [] sc.evs []).res <;> rfl
end Exchange

namespace Client
open Bytes Readers Wire Framing Exchange

theorem mapOut_with_connected {α β} (o : CallOut α) (f : α → Except Exc β) (b : Bool) :
    mapOut { o with connected := b } f = { mapOut o f with connected := b } := by
  unfold mapOut
  cases o.res <;> rfl

/-- a closed client whose connect succeeds: same result, same bytes sent, same bytes left, same socket state as a
connected client with an empty pipe — and it did connect -/
theorem call_reconnect (cfg : Cfg) (ie : Bool) (c : Call) (sc : Script) (h : sc.connectFails = none)
    (hs : sends cfg c = true) :
    call cfg ie false c sc = { call cfg ie true c sc with connected := true } := by
  rcases shape cfg c with ⟨res, hcall⟩ | ⟨verb, cmds, nr, f, hcall, -, -, -⟩ | ⟨cmds, nr, tok, f, hcall, -, -, -, -⟩ |
      ⟨kind, cmd, wanted, g, hcall, -⟩ | hq | ⟨gr, hsd⟩
  · rw [sends_of_silent hcall] at hs; cases hs
  · rw [hcall, hcall, exchangeStore_reconnect _ _ _ _ h, mapOut_with_connected]
  · rw [hcall, hcall, exchangeMisc_reconnect _ _ _ _ h, mapOut_with_connected]
  · rw [hcall, hcall, exchangeFetch_reconnect _ _ _ _ _ h, mapOut_with_connected]
  · subst hq
    simp only [call]
    rw [exchangeMisc_reconnect _ _ _ _ h]
  · subst hsd
    rw [call_shutdown, call_shutdown, exchangeMisc_reconnect _ _ _ _ h, mapOut_with_connected,
      swallowClose_with_connected]
end Client
