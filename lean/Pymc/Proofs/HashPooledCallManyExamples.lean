import Pymc.Proofs.HashPooledCallMany
import Pymc.Proofs.HashInnerManyProj
import Pymc.Proofs.HashPooledCallExamples
import Pymc.Proofs.HashCallSetExamples
/-! Concrete runs of the composed model `HashClient ∘ PooledClient ∘ Client` with `get_many`, `set_many` and `delete_many`
(non-vacuity of the `…_hashpooled_many_…` theorems of `Pymc/Props/C01.lean`, `Pymc/Props/C09.lean` and
`Pymc/Props/C13.lean`, and the known finding `C13-setmany-ignoreexc` with pooling). -/
namespace HashPooledCallExamples
open Bytes Readers Wire Exchange Client Framing Failover HashInner HashPooledCall C01Examples PooledCallExamples
open HashCallExamples (cfgStrict cfgIgnore kz bothUp zeroDown kzItems storesAll deletedLine)

/-- a general call of `HashCallMany.lean` as a call of the pooled model: the pools release at the time of the call -/
def toGM (mc : HashCall.MCall (List Srv)) : MPCall (List Srv) := HashInner.ofMCall mc

/-- `HashCallExamples.manyCalls` (six calls, `get_many([k, z])` and one `get k`, server 0 failing in between) with pooling -/
def manyCalls : List (MPCall (List Srv)) := HashCallExamples.manyCalls.map toGM
/-- `HashCallExamples.setCalls` (four `set_many`, two `delete_many`, one more `set_many`) with pooling -/
def setCalls : List (MPCall (List Srv)) := HashCallExamples.setCalls.map toGM
/-- `HashCallExamples.cutCalls` (a `set_many` reply cut in the middle of a line, then a `get_many`) with pooling -/
def cutCalls : List (MPCall (List Srv)) := HashCallExamples.cutCalls.map toGM
/-- `HashCallExamples.setDownCalls` (five `set_many({k: v})` at the same tick, server 0 down) with pooling -/
def setDownCalls : List (MPCall (List Srv)) := HashCallExamples.setDownCalls.map toGM
/-- `HashCallExamples.setClearsCalls` (a failing `get`, then a failing `set_many` in the open retry window) with pooling -/
def setClearsCalls : List (MPCall (List Srv)) := HashCallExamples.setClearsCalls.map toGM

theorem manyCalls_wf : ∀ mc ∈ manyCalls, mc.op.WellFramed {} := by
  intro mc h
  obtain ⟨x, hx, rfl⟩ := List.mem_map.mp h
  exact HashCallExamples.manyCalls_wf x hx

theorem setCalls_wf : ∀ mc ∈ setCalls, mc.op.WellFramed {} := by
  intro mc h
  obtain ⟨x, hx, rfl⟩ := List.mem_map.mp h
  exact HashCallExamples.setCalls_wf x hx

theorem cutCalls_ff : ∀ mc ∈ cutCalls, mc.op.FaultFramed {} := by
  intro mc h
  obtain ⟨x, hx, rfl⟩ := List.mem_map.mp h
  exact HashCallExamples.cutCalls_ff x hx

/-- what one batch shows: server, `PooledClient` invoked, inner client that served, connection used, served -/
structure BatchSum where
  srv : Nat
  pc : Option Nat
  inner : Option Nat
  io : Option Nat
  served : Bool
deriving DecidableEq, Repr

/-- per call: result, and per batch: server, `PooledClient`, inner client, connection, served -/
def manySummaryP {pcfg : Pooled.Cfg} (r : St pcfg × List (MPObs pcfg)) : List (HRes PExc × List BatchSum) :=
  r.2.map fun ob => (ob.res, ob.batches.map fun b =>
    let po : Option PooledCall.PObs := b.inner
    ⟨b.server, b.obj, po.bind (·.client), po.bind (·.io), b.served⟩)

/-- per call, per inner `Client.call`: the tags of the consumed `recv()` results -/
def manyTagsP {pcfg : Pooled.Cfg} (r : St pcfg × List (MPObs pcfg)) : List (List (List Nat)) :=
  r.2.map fun ob => (stepsOf ob).map fun stp => stp.consumed.map (·.1)

/-- bookkeeping state and pools -/
def manyStateP {pcfg : Pooled.Cfg} (r : St pcfg × List (MPObs pcfg)) : State × List PoolSum := (r.1.fo, poolSummary r.1)

/-- the pools after each prefix of the history -/
def poolTraceM (ccfg : Wire.Cfg) (pcfg : Pooled.Cfg) (c : Failover.Cfg) (calls : List (MPCall (List Srv))) :
    List (List PoolSum) :=
  (List.range (calls.length + 1)).map fun n =>
    poolSummary (runMP ccfg pcfg c prefRoute (init pcfg [0, 1] 0) 0 (calls.take n)).1

/-- `manyCalls` on a `HashClient(use_pooling=True, max_pool_size=1, ignore_exc=True)`:
0. t=0 `get_many([k, z])`: batch `[k]` through `PooledClient` 0 (inner client 0, connection 0), batch `[z]` through
   `PooledClient` 1 (its inner client 0 on its connection 0): both inner clients go back to their pools;
1. t=1 server 0 down: `sendall` fails on the pooled socket → the pool of server 0 *destroys* inner client 0 (connection 0
   closed), the `OSError` is swallowed by `_safely_run_func`, server 0 is marked; the batch of server 1 is still sent;
2. t=3 `get k`: retry, refused (inner client 1, destroyed); 3. t=5: evicted, final probe refused (inner client 2), server 1
   serves `[z]`; 4. t=6 both keys in one batch on server 1;
5. t=12 server 0 is back with the fresh `PooledClient` 2 (empty pool): its inner client 0 opens its connection 0. -/
theorem demo_many_pooled :
    manySummaryP (runMP {} pool1 cfgIgnore prefRoute (init pool1 [0, 1] 0) 0 manyCalls) =
      [(.value (.dict [(.bytes [107], [120])]), [⟨0, some 0, some 0, some 0, true⟩, ⟨1, some 1, some 0, some 0, true⟩]),
       (.value (.dict []), [⟨0, some 0, some 0, some 0, false⟩, ⟨1, some 1, some 0, some 0, true⟩]),
       (.default, [⟨0, some 0, some 1, none, false⟩]),
       (.value (.dict []), [⟨0, some 0, some 2, none, false⟩, ⟨1, some 1, some 0, some 0, true⟩]),
       (.value (.dict []), [⟨1, some 1, some 0, some 0, true⟩]),
       (.value (.dict [(.bytes [107], [120])]), [⟨0, some 2, some 0, some 0, true⟩, ⟨1, some 1, some 0, some 0, true⟩])] ∧
    manyTagsP (runMP {} pool1 cfgIgnore prefRoute (init pool1 [0, 1] 0) 0 manyCalls) =
      [[[0], [0]], [[], [1]], [[]], [[], [3]], [[4]], [[5], [5]]] ∧
    manyStateP (runMP {} pool1 cfgIgnore prefRoute (init pool1 [0, 1] 0) 0 manyCalls) =
      ({ nodes := [1, 0], failed := [], dead := [], lastDeadCheck := 12 },
       [⟨0, 2, [(0, some 0, true, 0)], [], 0⟩, ⟨1, 1, [(0, some 0, true, 0)], [], 0⟩]) := by
  refine ⟨by decide +kernel, by decide +kernel, by decide +kernel⟩

/-- `setCalls` on a `HashClient(use_pooling=True, max_pool_size=1, ignore_exc=False)`: the failing batch of server 0 ends
call 1 before the batch of server 1 is sent (its pool is not touched); inside the retry window the pool of server 0 is
not asked at all (`pc = none`); the failing `delete` of call 3 ends the `delete_many`; server 0 is evicted inside a
`set_many` (call 4); both items go to server 1 in one batch (two reply lines consumed by one inner call); after the
revival `delete_many` uses the fresh `PooledClient` 2 for `k` and `PooledClient` 1 for `z` -/
theorem demo_set_pooled :
    manySummaryP (runMP {} pool1 cfgStrict prefRoute (init pool1 [0, 1] 0) 0 setCalls) =
      [(.value (.keys []), [⟨0, some 0, some 0, some 0, true⟩, ⟨1, some 1, some 0, some 0, true⟩]),
       (.raised 0 (.inner (.sock 32)), [⟨0, some 0, some 0, some 0, false⟩]),
       (.value (.keys [.bytes [107]]), [⟨0, none, none, none, false⟩, ⟨1, some 1, some 0, some 0, true⟩]),
       (.raised 0 (.inner (.sock 61)), [⟨0, some 0, some 1, none, false⟩]),
       (.raised 0 (.inner (.sock 61)), [⟨0, some 0, some 2, none, false⟩]),
       (.value (.keys []), [⟨1, some 1, some 0, some 0, true⟩]),
       (.value (.bool true), [⟨0, some 2, some 0, some 0, true⟩, ⟨1, some 1, some 0, some 0, true⟩])] ∧
    manyTagsP (runMP {} pool1 cfgStrict prefRoute (init pool1 [0, 1] 0) 0 setCalls) =
      [[[0], [0]], [[]], [[2]], [[]], [[]], [[5, 5]], [[6], [6]]] ∧
    manyStateP (runMP {} pool1 cfgStrict prefRoute (init pool1 [0, 1] 0) 0 setCalls) =
      ({ nodes := [1, 0], failed := [], dead := [], lastDeadCheck := 12 },
       [⟨0, 2, [(0, some 0, true, 0)], [], 0⟩, ⟨1, 1, [(0, some 0, true, 0)], [], 0⟩]) := by
  refine ⟨by decide +kernel, by decide +kernel, by decide +kernel⟩

/-- `cutCalls` with pooling: the connection of server 1 breaks after `STOR` in the middle of the `set_many` reply →
`MemcacheUnexpectedCloseError` escapes, the pool of server 1 destroys its inner client 0 (connection 0 closed); the next
`get_many` is served by the new inner client 1 over the new connection 1 and sees nothing of the cut reply -/
theorem demo_cut_pooled :
    manySummaryP (runMP {} pool1 cfgStrict prefRoute (init pool1 [0, 1] 0) 0 cutCalls) =
      [(.raised 1 (.inner .unexpectedClose), [⟨0, some 0, some 0, some 0, true⟩, ⟨1, some 1, some 0, some 0, false⟩]),
       (.value (.dict [(.bytes [107], [120])]), [⟨0, some 0, some 0, some 0, true⟩, ⟨1, some 1, some 1, some 1, true⟩])] ∧
    manyTagsP (runMP {} pool1 cfgStrict prefRoute (init pool1 [0, 1] 0) 0 cutCalls) = [[[0], [0, 0]], [[1], [1]]] ∧
    manyStateP (runMP {} pool1 cfgStrict prefRoute (init pool1 [0, 1] 0) 0 cutCalls) =
      ({ nodes := [0, 1], failed := [], dead := [], lastDeadCheck := 0 },
       [⟨0, 0, [(0, some 0, true, 0)], [], 0⟩, ⟨1, 1, [(1, some 1, true, 0)], [0], 0⟩]) := by
  refine ⟨by decide +kernel, by decide +kernel, by decide +kernel⟩

/-! ## pool conservation through multi-key calls that return and that raise -/

/-- four calls on a `HashClient(use_pooling=True, max_pool_size=2, pool_idle_timeout=3, ignore_exc=False)`:
0. t=0…1 `get_many([k, z])`: one batch per server; both inner clients are released at 1;
1. t=2 `get_many([k, z])`, server 0 down: `sendall` fails → the pool of server 0 destroys inner client 0 (connection 0
   closed), the `OSError` escapes: the batch of server 1 is *not sent*, its pool keeps its idle client untouched;
2. t=9…10 `set_many({k: v, z: w})`: the retry window of server 0 is open → its pool creates inner client 1 (connection
   1), stored, the failure record is cleared; the idle client of server 1's pool has expired (9 - 1 > 3): its connection 0
   is closed, a new inner client 1 connects; both are released at 10;
3. t=11 `delete_many([k, z', k''])` — `k` and `z'` prefer server 0, `k''` server 1: the first `delete` reuses inner client
   1 of server 0's pool (idle for 1 ≤ 3) and returns it; the second checks the same client out again, `sendall` fails →
   destroyed (connection 1 closed), the exception ends the loop: `k''` is never sent, server 1's pool is not touched. -/
def idleCalls : List (MPCall (List Srv)) :=
  [{ op := .getMany false kz bothUp, now := 0, fin := 1 },
   { op := .getMany false kz zeroDown, now := 2 },
   { op := .setMany kzItems (.int 0) (some false) none (fun _ b => storesAll (some false) b), now := 9, fin := 10 },
   { op := .deleteMany [([0, 1], .bytes [107], { evs := [.data deletedLine] }),
                        ([0, 1], .bytes [122], { sendFails := some (.sock 32), evs := [.data deletedLine] }),
                        ([1, 0], .bytes [107], { evs := [.data deletedLine] })] (some false), now := 11 }]

theorem idleCalls_wf : ∀ mc ∈ idleCalls, mc.op.WellFramed {} := by
  intro mc h
  simp only [idleCalls, List.mem_cons, List.not_mem_nil, or_false] at h
  rcases h with rfl | rfl | rfl | rfl
  · exact HashCallExamples.bothUp_wf
  · exact HashCallExamples.zeroDown_wf
  · exact fun _ b => HashCallExamples.storesAll_wf _ b
  · intro x hx
    simp only [List.mem_cons, List.not_mem_nil, or_false] at hx
    rcases hx with rfl | rfl | rfl <;> exact HashCallExamples.wf_delete _ (by decide +kernel)

theorem demo_idle :
    manySummaryP (runMP {} poolIdle cfgStrict prefRoute (init poolIdle [0, 1] 0) 0 idleCalls) =
      [(.value (.dict [(.bytes [107], [120])]), [⟨0, some 0, some 0, some 0, true⟩, ⟨1, some 1, some 0, some 0, true⟩]),
       (.raised 0 (.inner (.sock 32)), [⟨0, some 0, some 0, some 0, false⟩]),
       (.value (.keys []), [⟨0, some 0, some 1, some 1, true⟩, ⟨1, some 1, some 1, some 1, true⟩]),
       (.raised 0 (.inner (.sock 32)), [⟨0, some 0, some 1, some 1, true⟩, ⟨0, some 0, some 1, some 1, false⟩])] ∧
    manyTagsP (runMP {} poolIdle cfgStrict prefRoute (init poolIdle [0, 1] 0) 0 idleCalls) =
      [[[0], [0]], [[]], [[2], [2]], [[3], []]] ∧
    poolTraceM {} poolIdle cfgStrict idleCalls =
      [[⟨0, 0, [], [], 0⟩, ⟨1, 1, [], [], 0⟩],
       [⟨0, 0, [(0, some 0, true, 0)], [], 0⟩, ⟨1, 1, [(0, some 0, true, 0)], [], 0⟩],
       [⟨0, 0, [], [0], 0⟩, ⟨1, 1, [(0, some 0, true, 0)], [], 0⟩],
       [⟨0, 0, [(1, some 1, true, 0)], [0], 0⟩, ⟨1, 1, [(1, some 1, true, 0)], [0], 0⟩],
       [⟨0, 0, [], [0, 1], 0⟩, ⟨1, 1, [(1, some 1, true, 0)], [0], 0⟩]] ∧
    (runMP {} poolIdle cfgStrict prefRoute (init poolIdle [0, 1] 0) 0 idleCalls).1.fo =
      { nodes := [0, 1], failed := [(0, 0, 11)], dead := [], lastDeadCheck := 0 } := by
  refine ⟨by decide +kernel, by decide +kernel, by decide +kernel, by decide +kernel⟩

/-! ## the abstract history of a general pooled run -/

/-- every call of `setCalls` satisfies the hypothesis of the projection; the abstract history it gives rise to — the same
eight events as without pooling (`HashCallExamples.demo_set_projection`), the environments being the outcomes of the
pooled calls — and what `Failover.run` makes of it: the same bookkeeping state and, per event, the result and the contact
log read off the composed run; `manyCalls` under `ignore_exc=True` and `idleCalls` satisfy the hypothesis as well -/
theorem demo_set_projection_pooled :
    allProjOKG cfgStrict setCalls (runMP {} pool1 cfgStrict prefRoute (init pool1 [0, 1] 0) 0 setCalls).2 = true ∧
    (absOfRunG {} cfgStrict prefRoute (init pool1 [0, 1] 0) 0 setCalls).1.map
        (fun e => (e.now, HashCallExamples.opTag e.op, e.env 0, e.env 1)) =
      [(0, (2, 2), .ok, .ok), (1, (2, 2), .oserror, .ok), (2, (2, 2), .ok, .ok), (3, (0, 1), .oserror, .oserror),
       (5, (2, 2), .oserror, .ok), (6, (2, 2), .ok, .ok), (12, (0, 1), .ok, .ok), (12, (0, 1), .ok, .ok)] ∧
    (absOfRunG {} cfgStrict prefRoute (init pool1 [0, 1] 0) 0 setCalls).2 =
      [(.multi [true, true], [(0, 0, .ok), (1, 0, .ok)]),
       (.raisedServerError 0 .oserror, [(0, 1, .oserror)]),
       (.multi [false, true], [(1, 2, .ok)]),
       (.raisedServerError 0 .oserror, [(0, 3, .oserror)]),
       (.raisedServerError 0 .oserror, [(0, 5, .oserror)]),
       (.multi [true, true], [(1, 6, .ok)]),
       (.value, [(0, 12, .ok)]),
       (.value, [(1, 12, .ok)])] ∧
    Failover.run cfgStrict prefRoute (Failover.init [0, 1] 0) (absOfRunG {} cfgStrict prefRoute (init pool1 [0, 1] 0) 0 setCalls).1 =
      ({ nodes := [1, 0], failed := [], dead := [], lastDeadCheck := 12 },
       (absOfRunG {} cfgStrict prefRoute (init pool1 [0, 1] 0) 0 setCalls).2) ∧
    allProjOKG cfgIgnore manyCalls (runMP {} pool1 cfgIgnore prefRoute (init pool1 [0, 1] 0) 0 manyCalls).2 = true ∧
    allProjOKG cfgStrict idleCalls (runMP {} poolIdle cfgStrict prefRoute (init poolIdle [0, 1] 0) 0 idleCalls).2 = true := by
  refine ⟨by decide +kernel, by decide +kernel, by decide +kernel, by decide +kernel, by decide +kernel, by decide +kernel⟩

/-! ## the known finding `C13-setmany-ignoreexc` with pooling -/

/-- five `set_many({k: v})` at the same tick on a `HashClient(use_pooling=True, ignore_exc=True)`, server 0 refusing
connections: every call asks the pool of server 0 for a client, the connection is refused, the pool *destroys* that inner
client (five inner clients, 0 … 4, one per call) — and `_set_many` swallows the exception: every call returns `[]`, server 0
is never marked.  The contact log shows five `OSError` contacts at t=0. -/
theorem demo_setmany_ignoreexc_pooled :
    manySummaryP (runMP {} pool1 cfgIgnore prefRoute (init pool1 [0, 1] 0) 0 setDownCalls) =
      [(.value (.keys []), [⟨0, some 0, some 0, none, true⟩]), (.value (.keys []), [⟨0, some 0, some 1, none, true⟩]),
       (.value (.keys []), [⟨0, some 0, some 2, none, true⟩]), (.value (.keys []), [⟨0, some 0, some 3, none, true⟩]),
       (.value (.keys []), [⟨0, some 0, some 4, none, true⟩])] ∧
    contactLogGM setDownCalls (runMP {} pool1 cfgIgnore prefRoute (init pool1 [0, 1] 0) 0 setDownCalls).2 =
      [(0, 0, .oserror), (0, 0, .oserror), (0, 0, .oserror), (0, 0, .oserror), (0, 0, .oserror)] ∧
    manyStateP (runMP {} pool1 cfgIgnore prefRoute (init pool1 [0, 1] 0) 0 setDownCalls) =
      ({ nodes := [0, 1], failed := [], dead := [], lastDeadCheck := 0 }, [⟨0, 0, [], [], 0⟩, ⟨1, 1, [], [], 0⟩]) := by
  refine ⟨by decide +kernel, by decide +kernel, by decide +kernel⟩
end HashPooledCallExamples
