import Pymc.Model.PooledCall
import Pymc.Proofs.CallFaults
/-!
# `PooledClient ∘ Client`: facts about the inner call (`PooledCall.stepTagged`)

* when `Client.call` connects / sends / leaves the socket alone (`call_conn_facts`), for every operation, through
  `Client.shape` (no case distinction on `Call`);
* one step of the composed model is one step of `Framing.runTaggedFrom` (`runTaggedFrom_single`), so the
  single-client lemmas (`runTaggedFrom_facts`, `runTaggedFrom_factsF`, `call_clean`, `call_quiet`) apply to it.
-/
namespace Exchange
open Bytes Readers Wire

/-- a new connection is established exactly when the commands reach `sendall` on a client that had no socket;
and when nothing reaches `sendall` the connect failed: there was no socket and there is none -/
def ConnFacts {α} (so : Bool) (o : CallOut α) : Prop :=
  o.connected = (o.sent.isSome && !so) ∧ (o.sent = none → so = false ∧ o.sockOpen = false)

theorem exchangeStore_connFacts (verb : SVerb) (cmds : List Bytes) (nr so : Bool) (sc : Script) :
    ConnFacts so (exchangeStore verb cmds nr so sc) := by
  unfold ConnFacts exchangeStore
  cases so <;> rcases sc.connectFails with _ | e <;> rcases sc.sendFails with _ | e <;> cases nr <;> simp

theorem exchangeMisc_connFacts (cmds : List Bytes) (nr : Bool) (tok : Option Bytes) (so : Bool) (sc : Script) :
    ConnFacts so (exchangeMisc cmds nr tok so sc) := by
  unfold ConnFacts exchangeMisc
  cases so <;> rcases sc.connectFails with _ | e <;> rcases sc.sendFails with _ | e <;> cases nr <;> simp

theorem exchangeFetch_connFacts (kind : FetchKind) (cmd : Bytes) (wanted : List Bytes) (ie so : Bool) (sc : Script) :
    ConnFacts so (exchangeFetch kind cmd wanted ie so sc) := by
  unfold ConnFacts exchangeFetch
  cases hr : (fetchLoop kind wanted (totalLen [] sc.evs) [] sc.evs []).res <;>
    cases so <;> rcases sc.connectFails with _ | e <;> rcases sc.sendFails with _ | e <;> simp [hr]
end Exchange

namespace Client
open Bytes Readers Wire Framing Exchange

theorem connFacts_mapOut {α β} {so : Bool} {o : CallOut α} (f : α → Except Exc β) (h : ConnFacts so o) :
    ConnFacts so (mapOut o f) := by
  unfold ConnFacts at h ⊢
  simpa using h

/-- for every public operation: `connected` ⇔ it sent on a client that had no socket; nothing sent ⇒ no socket before
and none after — unless the operation never touches the connection, in which case the socket is as before -/
theorem call_conn_facts (cfg : Cfg) (ie so : Bool) (c : Call) (sc : Script) :
    (call cfg ie so c sc).connected = ((call cfg ie so c sc).sent.isSome && !so) ∧
    ((call cfg ie so c sc).sent = none → (call cfg ie so c sc).sockOpen = so) := by
  rcases shape cfg c with ⟨res, hcall⟩ | ⟨verb, cmds, nr, f, hcall, -, -, -⟩ |
    ⟨cmds, nr, tok, f, hcall, -, -, -, -⟩ | ⟨kind, cmd, wanted, g, hcall, -⟩ | hq | ⟨gr, hs⟩
  rotate_left 5
  · subst hs
    rw [call_shutdown]
    obtain ⟨h1, h2⟩ := connFacts_mapOut (fun _ => (.ok .none : Except Exc Res)) (exchangeMisc_connFacts [shutdownCmd gr] false none so sc)
    simp only [swallowClose_connected, swallowClose_sent, swallowClose_sockOpen]
    exact ⟨h1, fun h => by obtain ⟨rfl, h3⟩ := h2 h; exact h3⟩
  · simp [hcall]
  · rw [hcall]
    obtain ⟨h1, h2⟩ := connFacts_mapOut f (exchangeStore_connFacts verb cmds nr so sc)
    exact ⟨h1, fun h => by obtain ⟨rfl, h3⟩ := h2 h; exact h3⟩
  · rw [hcall]
    obtain ⟨h1, h2⟩ := connFacts_mapOut f (exchangeMisc_connFacts cmds nr tok so sc)
    exact ⟨h1, fun h => by obtain ⟨rfl, h3⟩ := h2 h; exact h3⟩
  · rw [hcall]
    obtain ⟨h1, h2⟩ := connFacts_mapOut (fun r => .ok (g r)) (exchangeFetch_connFacts kind cmd wanted ie so sc)
    exact ⟨h1, fun h => by obtain ⟨rfl, h3⟩ := h2 h; exact h3⟩
  · subst hq
    obtain ⟨h1, h2⟩ := exchangeMisc_connFacts [quitCmd] true none so sc
    simp only [call]
    exact ⟨h1, fun h => by obtain ⟨rfl, -⟩ := h2 h; rfl⟩

/-- `quit` always leaves the client without a socket, and returns normally only if `quit\r\n` was handed to `sendall` -/
theorem call_quit_facts (cfg : Cfg) (ie so : Bool) (sc : Script) :
    (call cfg ie so .quit sc).sockOpen = false ∧
    (∀ r, (call cfg ie so .quit sc).res = .ok r → (call cfg ie so .quit sc).sent.isSome = true) := by
  refine ⟨rfl, ?_⟩
  simp only [call]
  unfold exchangeMisc
  cases so <;> rcases sc.connectFails with _ | e <;> rcases sc.sendFails with _ | e <;> simp [Except.map]
end Client

namespace PooledCall
open Bytes Readers Wire Exchange Client Framing

theorem isQuit_eq {c : Call} (h : isQuit c = true) : c = .quit := by
  cases c <;> first | rfl | (simp [isQuit] at h)

/-- one inner call is one step of the single-client tagged run (with `ignore_exc=False`) -/
theorem runTaggedFrom_single (cfg : Cfg) (k : Nat) (so : Bool) (left : List TEv) (c : Call) (sc : Script) :
    runTaggedFrom cfg false k so left [(c, sc)] = [stepTagged cfg k so left c sc] := rfl

@[simp] theorem stepTagged_idx (cfg : Cfg) (k : Nat) (so : Bool) (left : List TEv) (c : Call) (sc : Script) :
    (stepTagged cfg k so left c sc).idx = k := rfl

/-- the outcome of the inner call is `Client.call` on what is in the pipe followed by what arrives -/
theorem stepTagged_out (cfg : Cfg) (k : Nat) (so : Bool) (left : List TEv) (c : Call) (sc : Script) :
    (stepTagged cfg k so left c sc).out =
      Client.call cfg false so c { sc with evs := available so (left.map (·.2)) sc.evs } := by
  simp only [stepTagged]
  rw [map_available]
  simp [Function.comp_def]

/-- what the inner call leaves is what `Client.call` left unread -/
theorem stepTagged_leftover (cfg : Cfg) (k : Nat) (so : Bool) (left : List TEv) (c : Call) (sc : Script) :
    (stepTagged cfg k so left c sc).leftover.map (·.2) = (stepTagged cfg k so left c sc).out.unread := by
  simp only [stepTagged]
  exact map_drop_of_suffix (fun te : TEv => te.2) _ _ (call_suffix cfg false so c _)

/-- well-framed script, clean pipe: the C01 facts of the step, and the pipe is clean again if the socket stays open -/
theorem stepTagged_facts (cfg : Cfg) (k : Nat) (so : Bool) (left : List TEv) (c : Call) (sc : Script)
    (hinv : so = true → ∀ te ∈ left, te.2 = .eintr) (hwf : WellFramed cfg c sc.evs) :
    StepFacts cfg false (stepTagged cfg k so left c sc) ∧
    ((stepTagged cfg k so left c sc).out.sockOpen = true →
      ∀ te ∈ (stepTagged cfg k so left c sc).leftover, te.2 = .eintr) := by
  have hf := runTaggedFrom_facts cfg false k so left [(c, sc)] hinv
    (by intro cs h; simp only [List.mem_singleton] at h; subst h; exact hwf)
    (stepTagged cfg k so left c sc) (by rw [runTaggedFrom_single]; exact List.mem_singleton.mpr rfl)
  refine ⟨hf, fun hopen te hte => ?_⟩
  have hinv' : so = true → Drained (left.map (·.2)) := by
    intro h; rw [drained_iff_all_eintr]
    intro e he
    obtain ⟨te, hte, rfl⟩ := List.mem_map.mp he
    exact hinv h te hte
  have hw := (wellFramed_available hinv' hwf).1
  rw [stepTagged_out] at hopen
  have hd := call_clean cfg false so c { sc with evs := available so (left.map (·.2)) sc.evs } hw hopen
  rw [← stepTagged_out, ← stepTagged_leftover, drained_iff_all_eintr] at hd
  exact hd _ (List.mem_map.mpr ⟨te, hte, rfl⟩)

/-- the same over a connection that may break: fault-framed script, quiet pipe -/
theorem stepTagged_factsF (cfg : Cfg) (k : Nat) (so : Bool) (left : List TEv) (c : Call) (sc : Script)
    (hinv : so = true → quiet (left.map (·.2))) (hff : FaultFramed cfg c sc.evs) :
    StepFactsF (stepTagged cfg k so left c sc) ∧
    ((stepTagged cfg k so left c sc).out.sockOpen = true →
      quiet ((stepTagged cfg k so left c sc).leftover.map (·.2))) := by
  have hf := runTaggedFrom_factsF cfg false k so left [(c, sc)] hinv
    (by intro cs h; simp only [List.mem_singleton] at h; subst h; exact hff)
    (stepTagged cfg k so left c sc) (by rw [runTaggedFrom_single]; exact List.mem_singleton.mpr rfl)
  refine ⟨hf, fun hopen => ?_⟩
  rw [stepTagged_leftover]
  rw [stepTagged_out] at hopen ⊢
  exact call_quiet cfg false so c sc (left.map (·.2)) sc.evs hinv hff hopen

/-- the connection facts of the inner call -/
theorem stepTagged_conn (cfg : Cfg) (k : Nat) (so : Bool) (left : List TEv) (c : Call) (sc : Script) :
    (stepTagged cfg k so left c sc).out.connected = ((stepTagged cfg k so left c sc).out.sent.isSome && !so) ∧
    ((stepTagged cfg k so left c sc).out.sent = none → (stepTagged cfg k so left c sc).out.sockOpen = so) ∧
    (isQuit c = true → (stepTagged cfg k so left c sc).out.sockOpen = false ∧
      ∀ r, (stepTagged cfg k so left c sc).out.res = .ok r → (stepTagged cfg k so left c sc).out.sent.isSome = true) := by
  rw [stepTagged_out]
  refine ⟨(call_conn_facts cfg false so c _).1, (call_conn_facts cfg false so c _).2, fun hq => ?_⟩
  rw [isQuit_eq hq]
  exact call_quit_facts cfg false so _
end PooledCall
