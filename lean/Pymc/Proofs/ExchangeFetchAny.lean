import Pymc.Proofs.ExchangeFetchStep
import Pymc.Proofs.ReadersFlat
/-! Helper lemmas for C01: facts about the fetch loop that hold for *every* behaviour of the connection:
every iteration consumes something (so the fuel `totalLen [] evs` is never used up), an error closes,
what is left unread is a suffix of what was available. -/
namespace Exchange
open Bytes Readers Wire

/-- what is still to be read: bytes in `buf`, bytes in the events, number of events -/
def pending (buf : Bytes) (evs : List Ev) : Nat := buf.length + (joinData evs).length + evs.length

theorem pending_cons_data (buf b : Bytes) (r : List Ev) :
    pending buf (.data b :: r) = buf.length + b.length + (joinData r).length + r.length + 1 := by
  simp [pending, joinData]; omega

theorem readline_pending (acc buf : Bytes) (evs : List Ev) {rest line : Bytes} {evs' : List Ev}
    (h : readline acc buf evs = .ok (rest, line, evs')) : pending rest evs' < pending buf evs := by
  fun_induction readline acc buf evs with
  | case1 acc buf evs hc =>
    simp at h; obtain ⟨rfl, -, rfl⟩ := h
    cases buf with
    | nil => simp at hc
    | cons x t => simp [pending]
  | case2 acc buf evs _ p hp =>
    simp at h; obtain ⟨rfl, -, rfl⟩ := h
    have := findCRLF_lt hp
    simp [pending]; omega
  | case3 => simp at h
  | case4 => simp at h
  | case5 =>
    rename_i ih
    have := ih h
    simp [pending, joinData] at this ⊢; omega
  | case6 =>
    rename_i ih
    have := ih h
    simp [pending, joinData] at this ⊢; omega
  | case7 => simp at h

theorem pyDrop_length_le (b : Bytes) (i : Int) : (pyDrop b i).length ≤ b.length := by
  unfold pyDrop; split <;> simp

theorem readvalueLoop_pending (acc buf : Bytes) (rlen : Int) (evs : List Ev) {rest v : Bytes}
    {evs' : List Ev} (h : readvalueLoop acc buf rlen evs = .ok (rest, v, evs')) :
    pending rest evs' ≤ pending buf evs := by
  fun_induction readvalueLoop acc buf rlen evs with
  | case1 => simp at h
  | case2 => simp at h
  | case3 =>
    rename_i ih
    have := ih h
    simp [pending, joinData] at this ⊢; omega
  | case4 =>
    rename_i ih
    have := ih h
    simp [pending, joinData] at this ⊢; omega
  | case5 => simp at h
  | case6 => simp at h
  | case7 =>
    simp at h; obtain ⟨rfl, -, rfl⟩ := h
    unfold pending
    exact Nat.add_le_add_right (Nat.add_le_add_right (pyDrop_length_le _ _) _) _
  | case8 =>
    simp at h; obtain ⟨rfl, -, rfl⟩ := h
    unfold pending
    exact Nat.add_le_add_right (Nat.add_le_add_right (pyDrop_length_le _ _) _) _

/-- what every iteration guarantees, whatever the connection does -/
def StepOK (buf : Bytes) (evs : List Ev) : Out (List FetchEntry) ⊕ FetchSt → Prop
  | .inl o => o.unread <:+ evs ∧ (∀ e, o.res = .error e → o.closed = true) ∧
      (∀ r, o.res = .ok r → o.closed = false)
  | .inr s => s.2.1 <:+ evs ∧ pending s.1 s.2.1 < pending buf evs

theorem fetchStep_ok (kind : FetchKind) (wanted : List Bytes) (buf : Bytes) (evs : List Ev)
    (acc : List FetchEntry) : StepOK buf evs (fetchStep kind wanted buf evs acc) := by
  unfold fetchStep
  rcases hr : readline [] buf evs with e | ⟨rest, line, evs'⟩
  · simp [StepOK]
  · have hs := readline_suffix _ _ _ hr
    have hm := readline_pending _ _ _ hr
    try dsimp only
    rcases raiseErrors line with _ | e
    · try dsimp only
      split
      · simp [StepOK, hs]
      · split
        · split
          · simp [StepOK, hs]
          · try dsimp only
            rcases pyInt ((Key.pySplitWs line).getD 3 []) with _ | size
            · simp [StepOK, hs]
            · try dsimp only
              rcases hv : readvalue rest size evs' with e | ⟨rest', data, evs''⟩
              · simp [StepOK]
              · have hs' := (readvalueLoop_suffix _ _ _ _ hv).trans hs
                have hm' := readvalueLoop_pending _ _ _ _ hv
                try dsimp only
                split
                · simp [StepOK, hs']
                · rcases pyInt ((Key.pySplitWs line).getD 2 []) with _ | flags
                  · simp [StepOK, hs']
                  · simp only [StepOK]; exact ⟨hs', by omega⟩
        · split
          · split
            · simp [StepOK, hs]
            · simp only [StepOK]; exact ⟨hs, hm⟩
          · split
            · split
              · simp [StepOK, hs]
              · simp only [StepOK]; exact ⟨hs, hm⟩
            · simp [StepOK, hs]
    · simp [StepOK, hs]

/-- the loop gets to its `fuel = 0` branch -/
def fetchRunsOut (kind : FetchKind) (wanted : List Bytes) :
    Nat → Bytes → List Ev → List FetchEntry → Prop
  | 0, _, _, _ => True
  | fuel + 1, buf, evs, acc =>
    match fetchStep kind wanted buf evs acc with
    | .inl _ => False
    | .inr s => fetchRunsOut kind wanted fuel s.1 s.2.1 s.2.2

theorem fetch_never_runs_out (kind : FetchKind) (wanted : List Bytes) (fuel : Nat) (buf : Bytes)
    (evs : List Ev) (acc : List FetchEntry) (h : pending buf evs < fuel) :
    ¬ fetchRunsOut kind wanted fuel buf evs acc := by
  induction fuel generalizing buf evs acc with
  | zero => omega
  | succ fuel ih =>
    have hk := fetchStep_ok kind wanted buf evs acc
    simp only [fetchRunsOut]
    generalize fetchStep kind wanted buf evs acc = st at hk ⊢
    rcases st with o | s
    · simp
    · simp only [StepOK] at hk
      exact ih _ _ _ (by omega)

theorem fetchLoop_fuel_irrelevant (kind : FetchKind) (wanted : List Bytes) (f₁ f₂ : Nat) (buf : Bytes)
    (evs : List Ev) (acc : List FetchEntry) (h₁ : pending buf evs < f₁) (h₂ : pending buf evs < f₂) :
    fetchLoop kind wanted f₁ buf evs acc = fetchLoop kind wanted f₂ buf evs acc := by
  induction f₁ generalizing f₂ buf evs acc with
  | zero => omega
  | succ f₁ ih =>
    cases f₂ with
    | zero => omega
    | succ f₂ =>
      have hk := fetchStep_ok kind wanted buf evs acc
      rw [fetchLoop_succ, fetchLoop_succ]
      generalize fetchStep kind wanted buf evs acc = st at hk ⊢
      rcases st with o | s
      · rfl
      · simp only [StepOK] at hk
        simp only [stepK]
        exact ih _ _ _ _ (by omega) (by omega)

theorem fetchLoop_inv (kind : FetchKind) (wanted : List Bytes) (fuel : Nat) (buf : Bytes)
    (evs : List Ev) (acc : List FetchEntry) :
    (fetchLoop kind wanted fuel buf evs acc).unread <:+ evs ∧
    (∀ e, (fetchLoop kind wanted fuel buf evs acc).res = .error e →
      (fetchLoop kind wanted fuel buf evs acc).closed = true) ∧
    (∀ r, (fetchLoop kind wanted fuel buf evs acc).res = .ok r →
      (fetchLoop kind wanted fuel buf evs acc).closed = false) := by
  induction fuel generalizing buf evs acc with
  | zero => simp [fetchLoop_zero]
  | succ fuel ih =>
    have hk := fetchStep_ok kind wanted buf evs acc
    rw [fetchLoop_succ]
    generalize fetchStep kind wanted buf evs acc = st at hk ⊢
    rcases st with o | s
    · exact hk
    · simp only [StepOK] at hk
      simp only [stepK]
      have := ih s.1 s.2.1 s.2.2
      exact ⟨this.1.trans hk.1, this.2⟩
end Exchange
