import Pymc.Proofs.PooledCallStep
import Pymc.Proofs.ClientCall
/-!
# An `OSError` of the inner `Client` leaves it without a socket

For every public operation of `Client`: when the call raised an `OSError` (`Exc.sock code`, `code < 100`) the client has no
socket afterwards — `_connect()` failed (there was none and there is none), or the exception was raised inside the `try` of
`_store_cmd` / `_misc_cmd` / `_fetch_cmd`, whose handler closes the socket.  (The exceptions that leave a socket open are
the argument checks made before the socket is touched — `MemcacheIllegalInputError` —, the post-processing errors of
`incr` / `decr` / `version`, and a `BaseException`.)  Used by `HashBroadcastClose.lean`: a server whose failure record was
just written or updated has no open socket.
-/
namespace Client
open Bytes Readers Wire Framing Exchange

/-- nothing reached `sendall`: there was no socket (the connect failed), or the call raised `MemcacheIllegalInputError` -/
def Unsent1 {α} (so : Bool) (o : CallOut α) : Prop := o.sent = none → (so = false ∨ o.res = .error .illegalInput)

theorem unsent1_early {α} (so : Bool) (sc : Script) : Unsent1 so (early .illegalInput so sc : CallOut α) :=
  fun _ => .inr rfl

theorem unsent1_of_connFacts {α} {so : Bool} {o : CallOut α} (h : ConnFacts so o) : Unsent1 so o :=
  fun hs => .inl (h.2 hs).1

theorem unsent1_mapOut {α β} {so : Bool} {o : CallOut α} (f : α → Except Exc β) (h : Unsent1 so o) :
    Unsent1 so (mapOut o f) := by
  intro hs
  unfold mapOut at hs ⊢
  cases hres : o.res with
  | ok a =>
    rw [hres] at hs
    rcases h hs with h1 | h1
    · exact .inl h1
    · rw [hres] at h1; cases h1
  | error e =>
    rw [hres] at hs
    rcases h hs with h1 | h1
    · exact .inl h1
    · rw [hres] at h1
      injection h1 with h1
      subst h1
      exact .inr rfl

theorem unsent1_fetchValues (cfg : Cfg) (ie : Bool) (verb : FVerb) (ks : List Key.K) (expire : Option IntArg) (so : Bool)
    (sc : Script) : Unsent1 so (fetchValues cfg ie verb ks expire so sc) := by
  unfold fetchValues
  split
  · exact unsent1_mapOut _ (unsent1_of_connFacts (exchangeFetch_connFacts ..))
  · exact unsent1_early so sc

/-- the weak form: whatever was raised without anything reaching `sendall` on an existing socket is
`MemcacheIllegalInputError` -/
def Unsent {α} (so : Bool) (o : CallOut α) : Prop := o.sent = none → ∀ e, o.res = .error e → e = .illegalInput ∨ so = false

theorem unsent_of_1 {α} {so : Bool} {o : CallOut α} (h : Unsent1 so o) : Unsent so o := by
  intro hs e he
  rcases h hs with h1 | h1
  · exact .inr h1
  · rw [he] at h1; cases h1; exact .inl rfl

theorem call_unsent (cfg : Cfg) (ie so : Bool) (c : Call) (sc : Script) : Unsent so (call cfg ie so c sc) := by
  cases c with
  | store verb k v expire noreply flags cas =>
    apply unsent_of_1
    simp only [call]
    split
    · rename_i e he
      -- the `cas` token check
      have : e = .illegalInput := by
        split at he
        · rename_i a
          cases hc : checkCas a with
          | ok x => rw [hc] at he; cases he
          | error x => rw [hc] at he; cases he; rfl
        · cases he; rfl
        · cases he
      subst this
      exact unsent1_early so sc
    · split
      · exact unsent1_early so sc
      · exact unsent1_mapOut _ (unsent1_of_connFacts (exchangeStore_connFacts ..))
  | setMany items expire noreply flags =>
    apply unsent_of_1
    simp only [call]
    split
    · exact unsent1_early so sc
    · exact unsent1_mapOut _ (unsent1_of_connFacts (exchangeStore_connFacts ..))
  | get k => exact unsent_of_1 (unsent1_mapOut _ (unsent1_fetchValues _ _ _ _ _ _ _))
  | gets k => exact unsent_of_1 (unsent1_mapOut _ (unsent1_fetchValues _ _ _ _ _ _ _))
  | gat k e => exact unsent_of_1 (unsent1_mapOut _ (unsent1_fetchValues _ _ _ _ _ _ _))
  | gats k e => exact unsent_of_1 (unsent1_mapOut _ (unsent1_fetchValues _ _ _ _ _ _ _))
  | getMany ks =>
    simp only [call]
    split
    · intro _ e he; cases he
    · exact unsent_of_1 (unsent1_mapOut _ (unsent1_fetchValues _ _ _ _ _ _ _))
  | getsMany ks =>
    simp only [call]
    split
    · intro _ e he; cases he
    · exact unsent_of_1 (unsent1_mapOut _ (unsent1_fetchValues _ _ _ _ _ _ _))
  | delete k noreply =>
    apply unsent_of_1
    simp only [call]
    split
    · exact unsent1_early so sc
    · exact unsent1_mapOut _ (unsent1_of_connFacts (exchangeMisc_connFacts ..))
  | deleteMany ks noreply =>
    simp only [call]
    split
    · intro _ e he; cases he
    · apply unsent_of_1
      split
      · exact unsent1_early so sc
      · exact unsent1_mapOut _ (unsent1_of_connFacts (exchangeMisc_connFacts ..))
  | arith incr k delta noreply =>
    apply unsent_of_1
    simp only [call]
    split
    · exact unsent1_early so sc
    · exact unsent1_mapOut _ (unsent1_of_connFacts (exchangeMisc_connFacts ..))
  | touch k e noreply =>
    apply unsent_of_1
    simp only [call]
    split
    · exact unsent1_early so sc
    · exact unsent1_mapOut _ (unsent1_of_connFacts (exchangeMisc_connFacts ..))
  | flushAll delay noreply =>
    apply unsent_of_1
    simp only [call]
    split
    · exact unsent1_early so sc
    · exact unsent1_mapOut _ (unsent1_of_connFacts (exchangeMisc_connFacts ..))
  | version => exact unsent_of_1 (unsent1_mapOut _ (unsent1_of_connFacts (exchangeMisc_connFacts ..)))
  | quit =>
    simp only [call]
    intro hs e _
    exact .inr ((exchangeMisc_connFacts [quitCmd] true none so sc).2 hs).1
  | raw cmd tok => exact unsent_of_1 (unsent1_mapOut _ (unsent1_of_connFacts (exchangeMisc_connFacts ..)))
  | stats args =>
    apply unsent_of_1
    simp only [call]
    split
    · exact unsent1_early so sc
    · exact unsent1_mapOut _ (unsent1_of_connFacts (exchangeFetch_connFacts ..))
  | cacheMemlimit m =>
    apply unsent_of_1
    simp only [call]
    split
    · exact unsent1_early so sc
    · split
      · exact unsent1_early so sc
      · exact unsent1_mapOut _ (unsent1_of_connFacts (exchangeFetch_connFacts ..))
  | shutdown g =>
    simp only [call, swallowClose]
    intro hs e _
    exact .inr ((connFacts_mapOut _ (exchangeMisc_connFacts [shutdownCmd g] false none so sc)).2 hs).1

/-- the exception is an `OSError` raised by the socket -/
def isSockOSError : Exc → Bool
  | .sock code => code < 100
  | _ => false

theorem postProcessingError_not_sock {c : Call} {e : Exc} (h : postProcessingError c e) : isSockOSError e = false := by
  cases e <;> first | rfl | (cases c <;> simp [postProcessingError] at h)

/-- **an `OSError` of `Client.call` leaves the client without a socket** -/
theorem call_oserror_closes (cfg : Cfg) (ie so : Bool) (c : Call) (sc : Script) (e : Exc)
    (hr : (call cfg ie so c sc).res = .error e) (he : isSockOSError e = true) : (call cfg ie so c sc).sockOpen = false := by
  by_cases hs : (call cfg ie so c sc).sent = none
  · rcases call_unsent cfg ie so c sc hs e hr with h | h
    · subst h; cases he
    · rw [(call_conn_facts cfg ie so c sc).2 hs]; exact h
  · cases hopen : (call cfg ie so c sc).sockOpen
    · rfl
    · exfalso
      rcases call_open_result cfg ie so c sc hs hopen with ⟨r, h⟩ | ⟨e', h, hp⟩
      · rw [hr] at h; cases h
      · rw [hr] at h
        cases h
        rw [postProcessingError_not_sock hp] at he
        cases he
end Client

namespace PooledCall
open Exchange Client Framing

/-- the same for the inner call of the composed models -/
theorem stepTagged_oserror_closes (cfg : Wire.Cfg) (k : Nat) (so : Bool) (left : List TEv) (c : Call) (sc : Script) (e : Exc)
    (hr : (stepTagged cfg k so left c sc).out.res = .error e) (he : Client.isSockOSError e = true) :
    (stepTagged cfg k so left c sc).out.sockOpen = false := by
  rw [stepTagged_out] at hr ⊢
  exact Client.call_oserror_closes cfg false so c _ e hr he
end PooledCall
