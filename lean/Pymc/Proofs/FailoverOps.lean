import Pymc.Proofs.FailoverStep
/-! C13 helper lemmas: the public operations (`_get_client`, the two loops of `get_many`/`set_many`). -/
namespace Failover

variable {Key : Type}

theorem afterRetry_idem (c : Cfg) (now : Time) (st : State) :
    afterRetry c now (afterRetry c now st) = afterRetry c now st := by
  unfold afterRetry
  split
  · simp
  · split
    · simp only [revived, Nat.sub_self]
      split
      · rfl
      · split
        · rename_i h; simp at h
        · rfl
    · simp

def gotOf (c : Cfg) (route : List Srv → Key → Option Srv) (ns : List Srv) (k : Key) : Got :=
  match route ns k with
  | none => if c.ignoreExc then .noClient else .allDown
  | some s => .client s

theorem getClient_eq {c : Cfg} (route : List Srv → Key → Option Srv) (now : Time) {st : State} (k : Key)
    (hwf : WF c st) :
    getClient c route now st k = (afterRetry c now st, gotOf c route (afterRetry c now st).nodes k) := by
  unfold getClient gotOf
  rw [retryIfDead_eq c now st hwf.deadNodup]
  simp only []
  cases hr : route (afterRetry c now st).nodes k with
  | none => simp only []; split <;> rfl
  | some s => rfl

/-- pure version of the first loop of `get_many` / `set_many` -/
def routeAll (c : Cfg) (route : List Srv → Key → Option Srv) (ns : List Srv) :
    List Key → Sum Result (List (Option Srv))
  | [] => .inr []
  | k :: ks =>
    match route ns k with
    | none =>
      if c.ignoreExc then
        match routeAll c route ns ks with
        | .inr as => .inr (none :: as)
        | x => x
      else .inl .raisedAllDown
    | some s =>
      match routeAll c route ns ks with
      | .inr as => .inr (some s :: as)
      | x => x

/-- the state in which the keys of a call are routed -/
def pre (c : Cfg) (now : Time) (st : State) (ks : List Key) : State :=
  if ks.isEmpty then st else afterRetry c now st

theorem routeKeys_eq {c : Cfg} (route : List Srv → Key → Option Srv) (now : Time) (ks : List Key) :
    ∀ {st : State}, WF c st →
    routeKeys c route now st ks = (pre c now st ks, routeAll c route (pre c now st ks).nodes ks) := by
  induction ks with
  | nil => intro st _; simp [routeKeys, pre, routeAll]
  | cons k ks ih =>
    intro st hwf
    have hwf1 : WF c (afterRetry c now st) := wf_afterRetry hwf
    have e1 : pre c now (afterRetry c now st) ks = afterRetry c now st := by
      unfold pre; split
      · rfl
      · exact afterRetry_idem c now st
    have e2 : pre c now st (k :: ks) = afterRetry c now st := by simp [pre]
    rw [e2]
    simp only [routeKeys, getClient_eq route now k hwf, gotOf, routeAll]
    cases hr : route (afterRetry c now st).nodes k with
    | none =>
      cases hi : c.ignoreExc
      · simp
      · simp only [if_true, ih hwf1, e1]
        cases hra : routeAll c route (afterRetry c now st).nodes ks <;> simp
    | some s =>
      simp only [ih hwf1, e1]
      cases hra : routeAll c route (afterRetry c now st).nodes ks <;> simp

theorem routeAll_inl {c : Cfg} {route : List Srv → Key → Option Srv} (hlaw : RouteLaw route) {ns : List Srv}
    {ks : List Key} {r : Result} (h : routeAll c route ns ks = .inl r) :
    r = .raisedAllDown ∧ c.ignoreExc = false ∧ ns = [] ∧ ks ≠ [] := by
  induction ks with
  | nil => simp [routeAll] at h
  | cons k ks ih =>
    simp only [routeAll] at h
    split at h
    · rename_i hr
      split at h
      · split at h
        · simp at h
        · rename_i x hx
          obtain ⟨a, b, d, _⟩ := ih h
          exact ⟨a, b, d, by simp⟩
      · rename_i hi
        simp at h
        exact ⟨h.symm, by simpa using hi, (hlaw.none_iff ns k).1 hr, by simp⟩
    · split at h
      · simp at h
      · obtain ⟨a, b, d, _⟩ := ih h
        exact ⟨a, b, d, by simp⟩

theorem routeAll_inr {c : Cfg} {route : List Srv → Key → Option Srv} {ns : List Srv}
    {ks : List Key} {as : List (Option Srv)} (h : routeAll c route ns ks = .inr as) :
    ∀ b, some b ∈ as → ∃ k ∈ ks, route ns k = some b := by
  induction ks generalizing as with
  | nil => simp [routeAll] at h; subst h; simp
  | cons k ks ih =>
    simp only [routeAll] at h
    split at h
    · split at h
      · split at h
        · rename_i as' has
          simp at h; subst h
          intro b hb; simp at hb
          obtain ⟨k', hk', hr⟩ := ih has b hb
          exact ⟨k', by simp [hk'], hr⟩
        · rename_i x hx
          exact absurd h (hx _)
      · simp at h
    · rename_i s hs
      split at h
      · rename_i as' has
        simp at h; subst h
        intro b hb; simp at hb
        rcases hb with rfl | hb
        · exact ⟨k, by simp, hs⟩
        · obtain ⟨k', hk', hr⟩ := ih has b hb
          exact ⟨k', by simp [hk'], hr⟩
      · rename_i x hx
        exact absurd h (hx _)

/-- which batch function an operation uses -/
def runOneOf (c : Cfg) (now : Time) (env : Srv → Outcome) (op : Op Key) : State → Srv → State × Result × List Contact :=
  match op with
  | .setMany _ => safelyRunSetMany c now env
  | _ => safelyRunFunc c now env

theorem stepOK_runOneOf {c : Cfg} {now : Time} {env : Srv → Outcome} (op : Op Key) {st : State} {b : Srv}
    (hwf : WF c st) (hin : b ∈ st.nodes) : StepOK c now env st b (runOneOf c now env op st b) := by
  cases op <;> simp only [runOneOf]
  · exact stepOK_func hwf hin
  · exact stepOK_func hwf hin
  · exact stepOK_setMany hwf hin

theorem runMany_eq {c : Cfg} (route : List Srv → Key → Option Srv) (now : Time)
    (runOne : State → Srv → State × Result × List Contact) {st : State} (ks : List Key) (hwf : WF c st) :
    runMany c route now runOne st ks =
      match routeAll c route (pre c now st ks).nodes ks with
      | .inl r => (pre c now st ks, r, [])
      | .inr assigned =>
        match runBatches runOne (pre c now st ks) (dedup (assigned.filterMap id)) with
        | (st2, .inl r, cs) => (st2, r, cs)
        | (st2, .inr res, cs) => (st2, .multi (assigned.map (servedOf res)), cs) := by
  unfold runMany
  rw [routeKeys_eq route now ks hwf]
  cases routeAll c route (pre c now st ks).nodes ks <;> rfl

theorem stepOp_eq {c : Cfg} (route : List Srv → Key → Option Srv) (st : State) (e : Event Key) (hwf : WF c st) :
    stepOp c route st e =
      match e.op with
      | .runCmd k =>
        match route (afterRetry c e.now st).nodes k with
        | none => (afterRetry c e.now st, if c.ignoreExc then .default else .raisedAllDown, [])
        | some s => runOneOf c e.now e.env e.op (afterRetry c e.now st) s
      | .getMany ks => runMany c route e.now (runOneOf c e.now e.env e.op) st ks
      | .setMany ks => runMany c route e.now (runOneOf c e.now e.env e.op) st ks := by
  unfold stepOp
  cases he : e.op with
  | runCmd k =>
    simp only [runCmd, getClient_eq route e.now k hwf, gotOf]
    cases route (afterRetry c e.now st).nodes k with
    | none => cases c.ignoreExc <;> simp
    | some s => simp [runOneOf]
  | getMany ks => simp [getMany, runOneOf]
  | setMany ks => simp [setMany, runOneOf]

theorem pre_wf {c : Cfg} {now : Time} {st : State} (ks : List Key) (hwf : WF c st) : WF c (pre c now st ks) := by
  unfold pre; split
  · exact hwf
  · exact wf_afterRetry hwf

/-- induction principle for one public call: `Q` relates the state and the contacts made so far; it holds
after the call if it holds in the routing state and every batch call on a routed server (not yet contacted
during this call) preserves it -/
theorem stepOp_ind' {c : Cfg} {route : List Srv → Key → Option Srv} (hlaw : RouteLaw route) {st : State}
    (e : Event Key) (hwf : WF c st) (Q : State → List Contact → Prop)
    (hQ : ∀ st' b cs0, (∃ k ∈ e.op.keys, route (pre c e.now st e.op.keys).nodes k = some b) → WF c st' →
      b ∈ st'.nodes → (∀ x ∈ cs0, x.1 ≠ b) → Q st' cs0 →
      Q (runOneOf c e.now e.env e.op st' b).1 (cs0 ++ (runOneOf c e.now e.env e.op st' b).2.2))
    (h0 : Q (pre c e.now st e.op.keys) []) :
    Q (stepOp c route st e).1 (stepOp c route st e).2.2 ∧ WF c (stepOp c route st e).1 := by
  have many : ∀ ks, e.op.keys = ks →
      Q (runMany c route e.now (runOneOf c e.now e.env e.op) st ks).1
        (runMany c route e.now (runOneOf c e.now e.env e.op) st ks).2.2 ∧
      WF c (runMany c route e.now (runOneOf c e.now e.env e.op) st ks).1 := by
    intro ks hks
    rw [hks] at hQ h0
    rw [runMany_eq route e.now _ ks hwf]
    cases hra : routeAll c route (pre c e.now st ks).nodes ks with
    | inl r => exact ⟨h0, pre_wf ks hwf⟩
    | inr assigned =>
      simp only []
      have hsub : ∀ b ∈ dedup (assigned.filterMap id), ∃ k ∈ ks, route (pre c e.now st ks).nodes k = some b := by
        intro b hb
        rw [dedup_mem] at hb
        simp at hb
        exact routeAll_inr hra b hb
      have := runBatches_ind' (c := c) (now := e.now) (env := e.env) (runOneOf c e.now e.env e.op)
        (fun st b hw hi => stepOK_runOneOf e.op hw hi) (dedup (assigned.filterMap id)) Q
        (fun st' b cs0 hb hw hi hfr hq => hQ st' b cs0 (hsub b hb) hw hi hfr hq)
        (dedup (assigned.filterMap id)) (pre c e.now st ks) [] (fun _ h => h) (pre_wf ks hwf)
        (fun b hb => by obtain ⟨k, _, hr⟩ := hsub b hb; exact hlaw.mem _ _ _ hr) (dedup_nodup _) (by simp) h0
      simp only [List.nil_append] at this
      rcases hrb : runBatches (runOneOf c e.now e.env e.op) (pre c e.now st ks) (dedup (assigned.filterMap id))
        with ⟨st2, r2, cs2⟩
      rw [hrb] at this
      cases r2 <;> exact this
  rw [stepOp_eq route st e hwf]
  cases he : e.op with
  | runCmd k =>
    simp only []
    have hp : pre c e.now st e.op.keys = afterRetry c e.now st := by simp [he, Op.keys, pre]
    rw [hp] at hQ h0
    cases hr : route (afterRetry c e.now st).nodes k with
    | none => exact ⟨h0, wf_afterRetry hwf⟩
    | some s =>
      simp only []
      have hin := hlaw.mem _ _ _ hr
      have := hQ (afterRetry c e.now st) s [] ⟨k, by simp [he, Op.keys], hr⟩ (wf_afterRetry hwf) hin (by simp) h0
      rw [he] at this
      simp only [List.nil_append] at this
      exact ⟨this, (stepOK_runOneOf (Op.runCmd k) (wf_afterRetry hwf) hin).wf⟩
  | getMany ks => simp only []; rw [← he]; exact many ks (by simp [he, Op.keys])
  | setMany ks => simp only []; rw [← he]; exact many ks (by simp [he, Op.keys])

theorem stepOp_ind {c : Cfg} {route : List Srv → Key → Option Srv} (hlaw : RouteLaw route) {st : State}
    (e : Event Key) (hwf : WF c st) (Q : State → List Contact → Prop)
    (hQ : ∀ st' b cs0, (∃ k ∈ e.op.keys, route (pre c e.now st e.op.keys).nodes k = some b) → WF c st' →
      b ∈ st'.nodes → Q st' cs0 →
      Q (runOneOf c e.now e.env e.op st' b).1 (cs0 ++ (runOneOf c e.now e.env e.op st' b).2.2))
    (h0 : Q (pre c e.now st e.op.keys) []) :
    Q (stepOp c route st e).1 (stepOp c route st e).2.2 ∧ WF c (stepOp c route st e).1 :=
  stepOp_ind' hlaw e hwf Q (fun st' b cs0 a b' d _ e' => hQ st' b cs0 a b' d e') h0

/-- the possible results of a public call -/
def ResOK (c : Cfg) (now : Time) (env : Srv → Outcome) (ns : List Srv) (r : Result) (cs : List Contact) : Prop :=
  r = .value ∨ r = .default ∨ (∃ l, r = .multi l) ∨
  (c.ignoreExc = false ∧ ∃ b, r = .raisedServerError b (env b) ∧ env b ≠ .ok ∧ (b, now, env b) ∈ cs) ∨
  (c.ignoreExc = false ∧ r = .raisedAllDown ∧ ns = [])

theorem stepOp_res {c : Cfg} {route : List Srv → Key → Option Srv} (hlaw : RouteLaw route) {st : State}
    (e : Event Key) (hwf : WF c st) :
    ResOK c e.now e.env (afterRetry c e.now st).nodes (stepOp c route st e).2.1 (stepOp c route st e).2.2 := by
  have many : ∀ ks, e.op.keys = ks →
      ResOK c e.now e.env (afterRetry c e.now st).nodes
        (runMany c route e.now (runOneOf c e.now e.env e.op) st ks).2.1
        (runMany c route e.now (runOneOf c e.now e.env e.op) st ks).2.2 := by
    intro ks hks
    rw [runMany_eq route e.now _ ks hwf]
    cases hra : routeAll c route (pre c e.now st ks).nodes ks with
    | inl r =>
      obtain ⟨h1, h2, h3, h4⟩ := routeAll_inl hlaw hra
      have hp : pre c e.now st ks = afterRetry c e.now st := by
        unfold pre; cases ks with
        | nil => exact absurd rfl h4
        | cons k ks => rfl
      rw [hp] at h3
      exact Or.inr (Or.inr (Or.inr (Or.inr ⟨h2, h1, h3⟩)))
    | inr assigned =>
      simp only []
      have hsub : ∀ b ∈ dedup (assigned.filterMap id), b ∈ (pre c e.now st ks).nodes := by
        intro b hb
        rw [dedup_mem] at hb
        simp at hb
        obtain ⟨k, _, hr⟩ := routeAll_inr hra b hb
        exact hlaw.mem _ _ _ hr
      have := runBatches_res (c := c) (now := e.now) (env := e.env) (runOneOf c e.now e.env e.op)
        (fun st b hw hi => stepOK_runOneOf e.op hw hi) (dedup (assigned.filterMap id)) (pre c e.now st ks)
      rcases hrb : runBatches (runOneOf c e.now e.env e.op) (pre c e.now st ks) (dedup (assigned.filterMap id))
        with ⟨st2, r2, cs2⟩
      rw [hrb] at this
      cases r2 with
      | inr l => exact Or.inr (Or.inr (Or.inl ⟨_, rfl⟩))
      | inl r =>
        obtain ⟨hi, b, _, h1, h2, h3⟩ := this r (pre_wf ks hwf) hsub (dedup_nodup _) rfl
        exact Or.inr (Or.inr (Or.inr (Or.inl ⟨hi, b, h1, h2, h3⟩)))
  rw [stepOp_eq route st e hwf]
  cases he : e.op with
  | runCmd k =>
    simp only []
    cases hr : route (afterRetry c e.now st).nodes k with
    | none =>
      simp only []
      cases hi : c.ignoreExc
      · exact Or.inr (Or.inr (Or.inr (Or.inr ⟨hi, by simp, (hlaw.none_iff _ _).1 hr⟩)))
      · exact Or.inr (Or.inl (by simp))
    | some s =>
      simp only []
      have hin := hlaw.mem _ _ _ hr
      rcases (stepOK_runOneOf (c := c) (now := e.now) (env := e.env) (Op.runCmd k) (wf_afterRetry hwf) hin).res
        with h | h | ⟨hi, h1, h2, h3⟩
      · exact Or.inl h
      · exact Or.inr (Or.inl h)
      · exact Or.inr (Or.inr (Or.inr (Or.inl ⟨hi, s, h1, h2, by rw [h3]; simp⟩)))
  | getMany ks =>
    have hk : e.op.keys = ks := by simp [he, Op.keys]
    simp only []; rw [← he]; exact many ks hk
  | setMany ks =>
    have hk : e.op.keys = ks := by simp [he, Op.keys]
    simp only []; rw [← he]; exact many ks hk

end Failover
