import Pymc.Proofs.RefineC04
/-! Corollaries of the refinement: noreply, set_many's failed list, get_many's keys. -/
namespace Client
open Bytes Wire Exchange Readers AbsMap ApiSpec


theorem apply_state_nr_store (s : St) (verb w f e d cv) (nr nr' : Bool) :
    (AbsMap.apply s (.store verb w f e d cv nr)).1 = (AbsMap.apply s (.store verb w f e d cv nr')).1 := by
  simp only [AbsMap.apply]; rfl

theorem spec_noreply_state_store (cfg : Cfg) (s : St) (verb k v e flags cas) :
    (spec cfg s (.store verb k v e (some true) flags cas)).1 =
      (spec cfg s (.store verb k v e (some false) flags cas)).1 := by
  simp only [spec, nr, Option.getD_some, ite_self]
  split
  · simp only [if_true, Bool.false_eq_true, if_false]
    rw [apply_state_nr_store s _ _ _ _ _ _ true false]
    split <;> rfl
  · rfl

theorem spec_noreply_state_delete (cfg : Cfg) (s : St) (k) :
    (spec cfg s (.delete k (some true))).1 = (spec cfg s (.delete k (some false))).1 := by
  simp only [spec, nr, Option.getD_some]
  split
  · simp only [AbsMap.apply]; rfl
  · rfl

theorem spec_noreply_state_touch (cfg : Cfg) (s : St) (k e) :
    (spec cfg s (.touch k e (some true))).1 = (spec cfg s (.touch k e (some false))).1 := by
  simp only [spec, nr, Option.getD_some]
  split
  · simp only [AbsMap.apply]; rfl
  · rfl

theorem spec_noreply_state_arith (cfg : Cfg) (s : St) (i k d) :
    (spec cfg s (.arith i k d true)).1 = (spec cfg s (.arith i k d false)).1 := by
  simp only [spec]
  split
  · simp only [if_true, Bool.false_eq_true, if_false]
    have : ∀ w n, (AbsMap.apply s (.arith i w n true)).1 = (AbsMap.apply s (.arith i w n false)).1 := by
      intro w n; simp only [AbsMap.apply]; rfl
    rw [this]
    split <;> rfl
  · rfl

/-! ## set_many: the failed list -/
theorem call_setMany' (cfg : Cfg) (ie : Bool) (items : List (Key.K × Val)) (expire : IntArg)
    (flags : Option Int) (cmds : List Bytes)
    (henc : encodeStore cfg .set items expire false flags 0 none = .ok cmds) (evs : List Ev) :
    call cfg ie true (.setMany items expire (some false) flags) { evs := evs } =
      mapOut (exchangeStore .set cmds false true { evs := evs }) (postSetMany items) := by
  simp only [call, boolOr, Option.getD_some, henc]
  rfl

theorem encodeStore_length (cfg : Cfg) (verb : SVerb) (items : List (Key.K × Val)) (expire : IntArg)
    (nr : Bool) (flags : Option Int) (cb : Option Bytes) (cmds : List Bytes)
    (h : encodeStore cfg verb items expire nr flags 0 cb = .ok cmds) : cmds.length = items.length := by
  cases expire with
  | nonInt => rw [encodeStore_nonInt] at h; cases h
  | int e =>
    rw [encodeStore_int] at h
    cases hm : items.mapM (keyData cfg) with
    | error err => rw [hm] at h; cases h
    | ok wds =>
      rw [hm] at h
      cases h
      simpa using (mapM_ok _ _ _ hm).1

theorem failed_lines (items : List (Key.K × Val)) (L : List Bytes) :
    ((items.zip (L.map fun x => some (decide (x = ofString "STORED")))).filterMap
      fun (x : (Key.K × Val) × Option Bool) => if x.2 = some true then Option.none else some x.1.1) =
    ((items.zip L).filterMap fun (x : (Key.K × Val) × Bytes) =>
      if x.2 = ofString "STORED" then Option.none else some x.1.1) := by
  induction items generalizing L with
  | nil => simp
  | cons a items ih =>
    cases L with
    | nil => simp
    | cons x L =>
      simp only [List.map_cons, List.zip_cons_cons, List.filterMap_cons, ih L]
      by_cases hx : x = ofString "STORED" <;> simp [hx]

theorem setMany_failed_ordered (cfg : Cfg) (ie : Bool) (items : List (Key.K × Val)) (expire : IntArg)
    (flags : Option Int) (cmds : List Bytes) (lines : List Bytes)
    (henc : encodeStore cfg .set items expire false flags 0 none = .ok cmds)
    (hl : lines.length = items.length)
    (hline : ∀ l ∈ lines, l = ofString "STORED" ∨ l = ofString "NOT_STORED") :
    (call cfg ie true (.setMany items expire (some false) flags)
        { evs := [.data (lines.flatMap (· ++ CRLF))] }).res =
      .ok (.keys ((items.zip lines).filterMap fun (x : (Key.K × Val) × Bytes) =>
        if x.2 = ofString "STORED" then Option.none else some x.1.1)) := by
  have hlen := encodeStore_length cfg .set items expire false flags none cmds henc
  rw [call_setMany' cfg ie items expire flags cmds henc, exchangeStore_open]
  simp only [Bool.false_eq_true, if_false]
  cases lines with
  | nil =>
    have : cmds.length = 0 := by rw [hlen, ← hl]; rfl
    have hi : items = [] := List.length_eq_zero_iff.1 (by simpa using hl.symm)
    subst hi
    simp [this, storeLoop, mapOut, postSetMany]
  | cons l ls =>
    let lvs : List (Bytes × Option Bool) := (l :: ls).map fun l => (l, some (decide (l = ofString "STORED")))
    have hlv : ∀ p ∈ lvs, PlainLine p.1 ∧ storeResultValue .set p.1 = some p.2 := by
      intro p hp
      obtain ⟨x, hx, rfl⟩ := List.mem_map.1 hp
      rcases hline x hx with rfl | rfl
      · exact ⟨plain_STORED, by simp [storeResultValue]⟩
      · exact ⟨plain_NOT_STORED, by simp [storeResultValue]⟩
    have hj : joinLines (lvs.map (·.1)) = (l :: ls).flatMap (· ++ CRLF) := by
      simp [lvs, joinLines, List.map_map, Function.comp_def]
    have hne : (l :: ls).flatMap (· ++ CRLF) ≠ [] := by simp [CRLF]
    have := storeLoop_reply .set lvs hlv
    rw [hj, if_neg hne] at this
    have hll : lvs.length = cmds.length := by simp [lvs, hlen, ← hl]
    rw [← hll, this]
    simp only [mapOut, postSetMany, lvs, List.map_map, Function.comp_def]
    exact congrArg (fun x => Except.ok (Res.keys x)) (failed_lines items (l :: ls))
end Client
