import Pymc.Model.Wire
import Pymc.Proofs.WireCmd
import Pymc.Props.C20
/-! Helper lemmas for C02: the `encode…` functions (`mapM` in `Except`), `checkKey`, `checkCas`. -/
namespace Wire
open Bytes Readers

/-- decidable equality on results, so that concrete runs can be checked by `decide`
(core has no `DecidableEq (Except ε α)` instance; kept local to `Wire`) -/
instance decEqResult {α} [DecidableEq α] : DecidableEq (Except Err α)
  | .ok a, .ok b =>
    if h : a = b then isTrue (by rw [h]) else isFalse (by intro e; cases e; exact h rfl)
  | .error .illegalInput, .error .illegalInput => isTrue rfl
  | .ok _, .error _ => isFalse (by intro e; cases e)
  | .error _, .ok _ => isFalse (by intro e; cases e)

/-! ## `mapM` in `Except Err` -/
theorem mapM_cons_ok {α β} (f : α → Except Err β) (a : α) (l : List α) (b : β) (bs : List β)
    (h1 : f a = .ok b) (h2 : l.mapM f = .ok bs) : (a :: l).mapM f = .ok (b :: bs) := by
  simp [List.mapM_cons, h1, h2, bind, Except.bind, pure, Except.pure]

theorem mapM_cons_ok_inv {α β} (f : α → Except Err β) (a : α) (l : List α) (out : List β)
    (h : (a :: l).mapM f = .ok out) : ∃ b bs, f a = .ok b ∧ l.mapM f = .ok bs ∧ out = b :: bs := by
  rw [List.mapM_cons] at h
  cases h1 : f a with
  | error e => simp [h1, bind, Except.bind] at h
  | ok b =>
    cases h2 : l.mapM f with
    | error e => simp [h1, h2, bind, Except.bind] at h
    | ok bs =>
      simp [h1, h2, bind, Except.bind, pure, Except.pure] at h
      exact ⟨b, bs, rfl, rfl, h.symm⟩

theorem mapM_ok {α β} (f : α → Except Err β) (l : List α) (out : List β) (h : l.mapM f = .ok out) :
    out.length = l.length ∧ ∀ i (h1 : i < l.length) (h2 : i < out.length), f l[i] = .ok out[i] := by
  induction l generalizing out with
  | nil =>
    simp [List.mapM_nil, pure, Except.pure] at h
    subst h; simp
  | cons a l ih =>
    obtain ⟨b, bs, h1, h2, rfl⟩ := mapM_cons_ok_inv f a l out h
    obtain ⟨hl, hi⟩ := ih bs h2
    refine ⟨by simp [hl], ?_⟩
    intro i h1' h2'
    cases i with
    | zero => simpa using h1
    | succ i => simpa using hi i (by simpa using h1') (by simpa using h2')

theorem mapM_error_of_mem {α β} (f : α → Except Err β) (l : List α) (a : α) (ha : a ∈ l) (e : Err)
    (h : f a = .error e) : l.mapM f = .error .illegalInput := by
  induction l with
  | nil => simp at ha
  | cons x l ih =>
    rw [List.mapM_cons]
    cases h1 : f x with
    | error e' => cases e'; rfl
    | ok b =>
      rcases List.mem_cons.1 ha with rfl | ha
      · rw [h] at h1; cases h1
      · rw [ih ha]; rfl

theorem mapM_ok_of_forall {α β} (f : α → Except Err β) (l : List α) (h : ∀ a ∈ l, ∃ b, f a = .ok b) :
    ∃ out, l.mapM f = .ok out := by
  induction l with
  | nil => exact ⟨[], rfl⟩
  | cons a l ih =>
    obtain ⟨b, hb⟩ := h a (by simp)
    obtain ⟨bs, hbs⟩ := ih (fun x hx => h x (by simp [hx]))
    exact ⟨b :: bs, mapM_cons_ok f a l b bs hb hbs⟩

theorem mapM_map {α β γ} (g : α → Except Err β) (h : β → γ) (l : List α) :
    l.mapM (fun a => (g a).map h) = (l.mapM g).map (List.map h) := by
  induction l with
  | nil => rfl
  | cons a l ih =>
    rw [List.mapM_cons, List.mapM_cons, ih]
    cases g a with
    | error e => rfl
    | ok b =>
      cases l.mapM g with
      | error e => rfl
      | ok bs => rfl

/-! ## keys -/
theorem checkKey_ok_iff (cfg : Cfg) (k : Key.K) (w : Bytes) :
    checkKey cfg k = .ok w ↔ Key.checkKey cfg.au cfg.pfx k = .ok w := by
  unfold checkKey
  cases Key.checkKey cfg.au cfg.pfx k <;> simp [mapKeyErr]

theorem checkKey_error_iff (cfg : Cfg) (k : Key.K) :
    checkKey cfg k = .error .illegalInput ↔ ∃ e, Key.checkKey cfg.au cfg.pfx k = .error e := by
  unfold checkKey
  cases Key.checkKey cfg.au cfg.pfx k with
  | ok w => simp [mapKeyErr]
  | error e => exact ⟨fun _ => ⟨e, rfl⟩, fun _ => rfl⟩

theorem checkKey_legal {cfg : Cfg} {k : Key.K} {w : Bytes} (h : checkKey cfg k = .ok w) :
    Key.Legal cfg.au cfg.pfx k w :=
  (Key.C20_checkKey_iff_legal_incl_empty _ _ _ _).1 ((checkKey_ok_iff cfg k w).1 h)

theorem checkKey_validKey {cfg : Cfg} {k : Key.K} {w : Bytes} (h : checkKey cfg k = .ok w) (hne : w ≠ []) :
    validKey w = true := by
  obtain ⟨enc, _, _, hl, hf⟩ := checkKey_legal h
  exact (validKey_iff w).2 ⟨hne, hl, hf⟩

/-! ## store -/
/-- wire key and data block of one item -/
def keyData (cfg : Cfg) (kv : Key.K × Val) : Except Err (Bytes × Bytes) := do
  let w ← checkKey cfg kv.1
  let d ← encodeVal cfg.utf8 kv.2
  pure (w, d)

theorem keyData_ok_iff (cfg : Cfg) (kv : Key.K × Val) (wd : Bytes × Bytes) :
    keyData cfg kv = .ok wd ↔ checkKey cfg kv.1 = .ok wd.1 ∧ encodeVal cfg.utf8 kv.2 = .ok wd.2 := by
  unfold keyData
  cases checkKey cfg kv.1 with
  | error e => simp [bind, Except.bind]
  | ok w =>
    cases encodeVal cfg.utf8 kv.2 with
    | error e => simp [bind, Except.bind]
    | ok d =>
      simp [bind, Except.bind, pure, Except.pure]
      constructor
      · rintro rfl; exact ⟨rfl, rfl⟩
      · rintro ⟨rfl, rfl⟩; rfl

/-- the flags actually sent -/
def sentFlags (flags : Option Int) (serFlags : Nat) : Int :=
  match flags with | some f => f | none => (serFlags : Int)

theorem encodeStore_int (cfg : Cfg) (verb : SVerb) (items : List (Key.K × Val)) (e : Int) (nr : Bool)
    (flags : Option Int) (serFlags : Nat) (cas : Option Bytes) :
    encodeStore cfg verb items (.int e) nr flags serFlags cas =
      (items.mapM (keyData cfg)).map
        (List.map fun wd => storeCmd verb wd.1 (sentFlags flags serFlags) e wd.2 cas nr) := by
  rw [← mapM_map]
  unfold encodeStore
  simp only [checkInteger, bind, Except.bind]
  congr 1
  funext kv
  obtain ⟨k, v⟩ := kv
  simp only [keyData]
  cases checkKey cfg k with
  | error e => rfl
  | ok w =>
    cases encodeVal cfg.utf8 v with
    | error e => rfl
    | ok d => rfl

theorem encodeStore_nonInt (cfg : Cfg) (verb : SVerb) (items : List (Key.K × Val)) (nr : Bool)
    (flags : Option Int) (serFlags : Nat) (cas : Option Bytes) :
    encodeStore cfg verb items .nonInt nr flags serFlags cas = .error .illegalInput := rfl

/-! ## `parseAll` on encoder outputs -/
theorem parseReq_nil : parseReq [] = none := rfl

theorem parsesAs_of {c : Bytes} {r : Req} (h : ∀ rest, parseReq (c ++ rest) = some (r, rest)) :
    ParsesAs c r := by
  refine ⟨?_, h⟩
  rintro rfl
  have := h []
  simp [parseReq_nil] at this

theorem parseAll_map {α} (l : List α) (c : α → Bytes) (r : α → Req)
    (h : ∀ a ∈ l, ParsesAs (c a) (r a)) :
    parseAll (l.map c).flatten.length (l.map c).flatten = some (l.map r) := by
  apply parseAll_flatten
  · simp
  · intro i h1 h2
    simp only [List.getElem_map]
    exact h _ (List.getElem_mem _)
  · apply flatten_length_ge
    intro x hx
    obtain ⟨a, ha, rfl⟩ := List.mem_map.1 hx
    exact (h a ha).1

theorem parseAll_single {c : Bytes} {r : Req} (h : ParsesAs c r) : parseAll c.length c = some [r] := by
  have := parseAll_map [()] (fun _ => c) (fun _ => r) (by simpa using h)
  simpa using this

/-! ## fetch -/
theorem encodeFetch_ok_inv {cfg : Cfg} {verb : FVerb} {keys : List Key.K} {expire : Option IntArg}
    {cmd : Bytes} (h : encodeFetch cfg verb keys expire = .ok cmd) :
    ∃ ks e, keys.mapM (checkKey cfg) = .ok ks ∧ expire = e.map IntArg.int ∧ cmd = fetchCmd verb e ks := by
  unfold encodeFetch at h
  cases hk : keys.mapM (checkKey cfg) with
  | error e => simp [hk, bind, Except.bind] at h
  | ok ks =>
    simp only [hk, bind, Except.bind] at h
    cases expire with
    | none =>
      simp [pure, Except.pure] at h
      exact ⟨ks, none, rfl, rfl, h.symm⟩
    | some a =>
      cases a with
      | nonInt => simp [checkInteger, Except.map] at h
      | int i =>
        simp [checkInteger, Except.map, pure, Except.pure] at h
        exact ⟨ks, some i, rfl, rfl, h.symm⟩

theorem encodeFetch_key_error (cfg : Cfg) (verb : FVerb) (keys : List Key.K) (expire : Option IntArg)
    (h : keys.mapM (checkKey cfg) = .error .illegalInput) :
    encodeFetch cfg verb keys expire = .error .illegalInput := by
  unfold encodeFetch
  simp [h, bind, Except.bind]

theorem encodeFetch_nonInt (cfg : Cfg) (verb : FVerb) (keys : List Key.K) :
    encodeFetch cfg verb keys (some .nonInt) = .error .illegalInput := by
  unfold encodeFetch
  cases keys.mapM (checkKey cfg) with
  | error e => cases e; rfl
  | ok ks => rfl

/-! ## delete -/
theorem encodeDelete_eq (cfg : Cfg) (keys : List Key.K) (nr : Bool) :
    encodeDelete cfg keys nr = (keys.mapM (checkKey cfg)).map (List.map fun w => deleteCmd w nr) := by
  rw [← mapM_map]
  unfold encodeDelete
  congr 1

/-! ## single-key commands -/
theorem encodeArith_ok_inv {cfg : Cfg} {incr : Bool} {k : Key.K} {delta : IntArg} {nr : Bool} {cmd : Bytes}
    (h : encodeArith cfg incr k delta nr = .ok cmd) :
    ∃ w d, checkKey cfg k = .ok w ∧ delta = .int d ∧ cmd = arithCmd incr w d nr := by
  unfold encodeArith at h
  cases hk : checkKey cfg k with
  | error e => simp [hk, bind, Except.bind] at h
  | ok w =>
    cases delta with
    | nonInt => simp [hk, checkInteger, bind, Except.bind] at h
    | int d =>
      simp [hk, checkInteger, bind, Except.bind, pure, Except.pure] at h
      exact ⟨w, d, rfl, rfl, h.symm⟩

theorem encodeTouch_ok_inv {cfg : Cfg} {k : Key.K} {expire : IntArg} {nr : Bool} {cmd : Bytes}
    (h : encodeTouch cfg k expire nr = .ok cmd) :
    ∃ w e, checkKey cfg k = .ok w ∧ expire = .int e ∧ cmd = touchCmd w e nr := by
  unfold encodeTouch at h
  cases hk : checkKey cfg k with
  | error e => simp [hk, bind, Except.bind] at h
  | ok w =>
    cases expire with
    | nonInt => simp [hk, checkInteger, bind, Except.bind] at h
    | int d =>
      simp [hk, checkInteger, bind, Except.bind, pure, Except.pure] at h
      exact ⟨w, d, rfl, rfl, h.symm⟩

theorem encodeFlush_ok_inv {delay : IntArg} {nr : Bool} {cmd : Bytes}
    (h : encodeFlush delay nr = .ok cmd) : ∃ d, delay = .int d ∧ cmd = flushCmd d nr := by
  unfold encodeFlush at h
  cases delay with
  | nonInt => simp [checkInteger, bind, Except.bind] at h
  | int d =>
    simp [checkInteger, bind, Except.bind, pure, Except.pure] at h
    exact ⟨d, rfl, h.symm⟩

theorem encodeArith_nonInt (cfg : Cfg) (incr : Bool) (k : Key.K) (nr : Bool) :
    encodeArith cfg incr k .nonInt nr = .error .illegalInput := by
  unfold encodeArith
  cases checkKey cfg k with
  | error e => cases e; rfl
  | ok w => rfl

theorem encodeTouch_nonInt (cfg : Cfg) (k : Key.K) (nr : Bool) :
    encodeTouch cfg k .nonInt nr = .error .illegalInput := by
  unfold encodeTouch
  cases checkKey cfg k with
  | error e => cases e; rfl
  | ok w => rfl

/-! ## `checkCas` -/
theorem digitsOK_iff (b : Bytes) :
    ((b ≠ [] && b.all isDigit) = true) ↔ (b ≠ [] ∧ b.all isDigit = true) := by
  simp

theorem checkCas_bytes_iff (b out : Bytes) :
    checkCas (.bytes b) = .ok out ↔ (out = b ∧ b ≠ [] ∧ b.all isDigit = true) := by
  show (if (b ≠ [] && b.all isDigit) = true then Except.ok b else Except.error Err.illegalInput) = Except.ok out ↔ _
  by_cases h : (b ≠ [] && b.all isDigit) = true
  · rw [if_pos h]
    have := (digitsOK_iff b).1 h
    constructor
    · intro h'; cases h'; exact ⟨rfl, this⟩
    · rintro ⟨rfl, _⟩; rfl
  · rw [if_neg h]
    constructor
    · intro h'; cases h'
    · rintro ⟨_, h'⟩; exact absurd ((digitsOK_iff b).2 h') h

theorem intDec_digits_iff (i : Int) : ((intDec i) ≠ [] ∧ (intDec i).all isDigit = true) ↔ 0 ≤ i := by
  constructor
  · rintro ⟨_, h⟩
    by_cases hi : i < 0
    · rw [intDec_neg hi] at h
      simp [isDigit] at h
    · omega
  · intro h
    rw [intDec_nonneg h]
    exact ⟨natDec_ne_nil _, natDec_all_isDigit _⟩

theorem checkCas_int_iff (i : Int) (out : Bytes) :
    checkCas (.int i) = .ok out ↔ (0 ≤ i ∧ out = natDec i.toNat) := by
  have hb := checkCas_bytes_iff (intDec i) out
  have : checkCas (.int i) = checkCas (.bytes (intDec i)) := rfl
  rw [this, hb, intDec_digits_iff]
  constructor
  · rintro ⟨rfl, h⟩; exact ⟨h, intDec_nonneg h⟩
  · rintro ⟨h, rfl⟩; exact ⟨(intDec_nonneg h).symm, h⟩

theorem isDigit_ofNat {c : Nat} (h : c < 128) : isDigit (UInt8.ofNat c) = true ↔ (48 ≤ c ∧ c ≤ 57) := by
  rw [isDigit_iff, UInt8.toNat_ofNat']
  have : c % 2 ^ 8 = c := Nat.mod_eq_of_lt (by omega)
  rw [this]

theorem checkCas_str_iff (cps : List Nat) (out : Bytes) :
    checkCas (.str cps) = .ok out ↔
      (out = cps.map UInt8.ofNat ∧ cps ≠ [] ∧ ∀ c ∈ cps, 48 ≤ c ∧ c ≤ 57) := by
  cases he : Key.encodeAscii cps with
  | none =>
    have h1 : checkCas (.str cps) = .error .illegalInput := by simp [checkCas, he]
    rw [h1]
    constructor
    · intro h; cases h
    · rintro ⟨_, _, h⟩
      have : Key.encodeAscii cps = some (cps.map UInt8.ofNat) :=
        (Key.encodeAscii_eq_some cps _).2 ⟨fun c hc => by have := h c hc; omega, rfl⟩
      rw [this] at he; cases he
  | some b =>
    obtain ⟨hlt, rfl⟩ := (Key.encodeAscii_eq_some cps b).1 he
    have h1 : checkCas (.str cps) = checkCas (.bytes (cps.map UInt8.ofNat)) := by simp [checkCas, he]
    rw [h1, checkCas_bytes_iff]
    have h2 : (cps.map UInt8.ofNat).all isDigit = true ↔ ∀ c ∈ cps, 48 ≤ c ∧ c ≤ 57 := by
      rw [List.all_eq_true]
      constructor
      · intro h c hc
        exact (isDigit_ofNat (hlt c hc)).1 (h _ (List.mem_map.2 ⟨c, hc, rfl⟩))
      · intro h x hx
        obtain ⟨c, hc, rfl⟩ := List.mem_map.1 hx
        exact (isDigit_ofNat (hlt c hc)).2 (h c hc)
    rw [h2]
    simp

theorem checkCas_other : checkCas .other = .error .illegalInput := rfl
end Wire
