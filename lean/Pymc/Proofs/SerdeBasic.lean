import Pymc.Model.Serde
import Pymc.Proofs.WireDec
/-! Helper lemmas for C15: the serializers of pymemcache/serde.py (model: Pymc/Model/Serde.lean). -/
namespace Serde
open Wire

/-! ## transmit -/

theorem map_ofNat_toNat (b : Bytes) : (b.map (·.toNat)).map UInt8.ofNat = b := by
  induction b with
  | nil => rfl
  | cons x r ih => simpa [UInt8.ofNat_toNat] using ih

/-- the ASCII text of an integer, encoded by the client, is `str(i).encode()` -/
theorem transmit_intText (i : Int) : transmit (.text (intText i)) = intDec i := by
  simp only [transmit, intText]; exact map_ofNat_toNat _

theorem transmit_length (p : Payload) : (transmit p).length = payloadLen p := by
  cases p <;> simp [transmit, payloadLen]

theorem intText_lt_128 (i : Int) : ∀ n ∈ intText i, n < 128 := by
  intro n hn
  simp only [intText, List.mem_map] at hn
  obtain ⟨b, hb, rfl⟩ := hn
  rcases intDec_mem i b hb with h | rfl
  · have := (isDigit_iff b).1 h; omega
  · decide

theorem intText_chars (i : Int) : ∀ n ∈ intText i, (48 ≤ n ∧ n ≤ 57) ∨ n = 45 := by
  intro n hn
  simp only [intText, List.mem_map] at hn
  obtain ⟨b, hb, rfl⟩ := hn
  rcases intDec_mem i b hb with h | rfl
  · exact .inl ((isDigit_iff b).1 h)
  · exact .inr (by decide)

theorem intText_ne_nil (i : Int) : intText i ≠ [] := by
  simp [intText, intDec_ne_nil]

/-- encoding ASCII text loses nothing: the bytes read back as numbers are the code points -/
theorem transmit_text_toNat (cps : List Nat) (h : ∀ n ∈ cps, n < 128) :
    (transmit (.text cps)).map (·.toNat) = cps := by
  induction cps with
  | nil => rfl
  | cons x r ih =>
    have hx : x < 128 := h x (by simp)
    have hr : ∀ n ∈ r, n < 128 := fun n hn => h n (by simp [hn])
    have ih' := ih hr
    simp only [transmit, List.map_map, List.map_cons, List.cons.injEq] at ih' ⊢
    refine ⟨?_, ih'⟩
    simp only [UInt8.toNat_ofNat']
    omega

/-! ## serialize -/

theorem serialize_flags (c : Codec) (v : PyVal) :
    (serialize c v).2 = 0 ∨ (serialize c v).2 = 16 ∨ (serialize c v).2 = 2 ∨ (serialize c v).2 = 1 := by
  cases v <;> simp [serialize, FLAG_TEXT, FLAG_INTEGER, FLAG_PICKLE]

theorem or8_and8 {f : Nat} (h : f = 0 ∨ f = 16 ∨ f = 2 ∨ f = 1) : (f ||| 8) &&& 8 ≠ 0 := by
  rcases h with rfl | rfl | rfl | rfl <;> decide

theorem and8 {f : Nat} (h : f = 0 ∨ f = 16 ∨ f = 2 ∨ f = 1) : f &&& 8 = 0 := by
  rcases h with rfl | rfl | rfl | rfl <;> decide

theorem or8_ne {f : Nat} (h : f = 0 ∨ f = 16 ∨ f = 2 ∨ f = 1) : f ||| 8 ≠ f := by
  rcases h with rfl | rfl | rfl | rfl <;> decide

theorem or8_lt {f : Nat} (h : f = 0 ∨ f = 16 ∨ f = 2 ∨ f = 1) : f ||| 8 < 32 := by
  rcases h with rfl | rfl | rfl | rfl <;> decide

/-- adding the COMPRESSED bit to a flag word written by `serialize` does not change how the cascade of
`deserialize` reads it -/
theorem deserialize_or8 (c : Codec) (b : Bytes) {f : Nat} (h : f = 0 ∨ f = 16 ∨ f = 2 ∨ f = 1) :
    deserialize c b (f ||| 8) = deserialize c b f := by
  rcases h with rfl | rfl | rfl | rfl <;>
    simp [deserialize, FLAG_TEXT, FLAG_INTEGER, FLAG_LONG, FLAG_PICKLE]

theorem serialize_roundtrip (c : Codec) (h : Laws c) (v : PyVal) :
    deserialize c (transmit (serialize c v).1) (serialize c v).2 = .ok (.val v) := by
  cases v with
  | bytes b => simp [serialize, transmit, deserialize]
  | str s => simp [serialize, transmit, deserialize, FLAG_TEXT, h.utf8]
  | int i =>
    simp only [serialize, transmit_intText]
    simp [deserialize, FLAG_TEXT, FLAG_INTEGER, parseIntBytes, parseInt_intDec]
  | other id => simp [serialize, transmit, deserialize, FLAG_TEXT, FLAG_INTEGER, FLAG_LONG, FLAG_PICKLE, h.pickle]

/-! ## cserialize -/

theorem cdeserialize_flag (c : Codec) (b raw : Bytes) {f : Nat} (h : f &&& 8 ≠ 0)
    (hz : c.decompress b = some raw) : cdeserialize c b f = deserialize c raw f := by
  simp [cdeserialize, FLAG_COMPRESSED, h, hz]

theorem cdeserialize_noflag (c : Codec) (b : Bytes) {f : Nat} (h : f &&& 8 = 0) :
    cdeserialize c b f = deserialize c b f := by
  simp [cdeserialize, FLAG_COMPRESSED, h]

/-- `cserialize` with the tuple pattern unfolded -/
theorem cserialize_eq (c : Codec) (thr : Nat) (v : PyVal) :
    cserialize c thr v =
      if payloadLen (serialize c v).1 > thr ∧ thr > 0 then
        if payloadLen (serialize c v).1 < (c.compress (transmit (serialize c v).1)).length
        then serialize c v
        else (.bytes (c.compress (transmit (serialize c v).1)), (serialize c v).2 ||| 8)
      else serialize c v := by
  cases v <;> rfl

/-- the condition under which `CompressedSerde.serialize` keeps the compressed form -/
def Compresses (c : Codec) (thr : Nat) (v : PyVal) : Prop :=
  thr < payloadLen (serialize c v).1 ∧ 0 < thr ∧
    (c.compress (transmit (serialize c v).1)).length ≤ payloadLen (serialize c v).1

theorem cserialize_of_compresses {c : Codec} {thr : Nat} {v : PyVal} (h : Compresses c thr v) :
    cserialize c thr v = (.bytes (c.compress (transmit (serialize c v).1)), (serialize c v).2 ||| 8) := by
  obtain ⟨h1, h2, h3⟩ := h
  rw [cserialize_eq, if_pos ⟨h1, h2⟩, if_neg (by omega)]

theorem cserialize_of_not_compresses {c : Codec} {thr : Nat} {v : PyVal} (h : ¬ Compresses c thr v) :
    cserialize c thr v = serialize c v := by
  rw [cserialize_eq]
  split
  · rename_i h1
    split
    · rfl
    · rename_i h2; exact absurd ⟨h1.1, h1.2, by omega⟩ h
  · rfl

end Serde
