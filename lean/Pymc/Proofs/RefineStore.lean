import Pymc.Proofs.RefineLine
/-! C05 for the single-key storage commands (set, add, replace, append, prepend, cas). -/
namespace Client
open Bytes Wire Exchange Readers AbsMap ApiSpec

/-- what a storage request can be answered with -/
def StoreRep (verb : SVerb) (rep : Reply) : Prop :=
  rep = .stored ∨ (verb ≠ .cas ∧ rep = .notStored) ∨ (verb = .cas ∧ (rep = .exists_ ∨ rep = .notFound))

theorem applyLoud_store_rep (s : St) (verb : SVerb) (w : Bytes) (f : Nat) (e : Int) (d : Bytes)
    (cv : Option Nat) (nr : Bool) : StoreRep verb (applyLoud s (.store verb w f e d cv nr)).2 := by
  simp only [applyLoud, StoreRep]
  cases verb <;> cases live (settle s) w <;> simp
  split <;> simp

theorem store_rep_line (verb : SVerb) (rep : Reply) (h : StoreRep verb rep) (r : Req) :
    ∃ l v, Server.render r rep = l ++ CRLF ∧ PlainLine l ∧ storeResultValue verb l = some v ∧
      storeOutcome rep = some v := by
  rcases h with rfl | ⟨hv, rfl⟩ | ⟨hv, rfl | rfl⟩
  · exact ⟨_, some true, rfl, plain_STORED, by simp [storeResultValue], rfl⟩
  · exact ⟨_, some false, rfl, plain_NOT_STORED, by simp [storeResultValue, hv], rfl⟩
  · exact ⟨_, some false, rfl, plain_EXISTS, by simp [storeResultValue, hv], rfl⟩
  · exact ⟨_, none, rfl, plain_NOT_FOUND, by simp [storeResultValue, hv], rfl⟩

/-- `_store_cmd`'s post-processing for a single key -/
def postStore (rs : List (Option Bool)) : Except Exc Res :=
  match rs with
  | [some b] => .ok (.bool b)
  | [Option.none] => .ok .none
  | _ => .error .keyError

/-- the contract of a single-key storage call once `noreply` and the cas value are known -/
def specStore (cfg : Cfg) (s : St) (verb : SVerb) (k : Key.K) (v : Val) (expire : IntArg) (nrv : Bool)
    (flags : Option Int) (cv : Option Nat) : St × Except Exc Res :=
  match Wire.checkKey cfg k, encodeVal cfg.utf8 v, checkInteger expire with
  | .ok w, .ok d, .ok e =>
    let (s', rep) := AbsMap.apply s (.store verb w (flagsOf flags).toNat e d cv nrv)
    if nrv then (s', .ok (.bool true)) else
    match storeOutcome rep with
    | some (some b) => (s', .ok (.bool b))
    | some none => (s', .ok .none)
    | none => (s', .error .keyError)
  | _, _, _ => (s, .error .illegalInput)

theorem store_core (cfg : Cfg) (s : St) (c : Call) (verb : SVerb) (k : Key.K) (v : Val) (expire : IntArg)
    (nr : Bool) (flags : Option Int) (cb : Option Bytes)
    (hcall : ∀ evs, call cfg false true c { evs := evs } =
      match encodeStore cfg verb [(k, v)] expire nr flags 0 cb with
      | .error _ => early .illegalInput true { evs := evs }
      | .ok cmds => mapOut (exchangeStore verb cmds nr true { evs := evs }) postStore)
    (hk : KeyOK cfg k) (hf : FlagsOK flags) (hcv : cb.isSome ↔ verb = .cas)
    (hcw : ∀ c, cb = some c → c ≠ [] ∧ c.all isDigit = true) :
    onServer cfg s c =
      ((specStore cfg s verb k v expire nr flags (cb.bind parseNat)).1,
       (specStore cfg s verb k v expire nr flags (cb.bind parseNat)).2, true) := by
  have hill : encodeStore cfg verb [(k, v)] expire nr flags 0 cb = .error .illegalInput →
      specStore cfg s verb k v expire nr flags (cb.bind parseNat) = (s, .error .illegalInput) →
      onServer cfg s c =
      ((specStore cfg s verb k v expire nr flags (cb.bind parseNat)).1,
       (specStore cfg s verb k v expire nr flags (cb.bind parseNat)).2, true) := by
    intro henc hs
    have h0 := hcall []
    rw [henc] at h0
    rw [onServer_not_sent]
    · rw [show ({} : Script) = { evs := [] } from rfl, h0, hs]; rfl
    · rw [show ({} : Script) = { evs := [] } from rfl, h0]; rfl
  cases expire with
  | nonInt =>
    refine hill (encodeStore_nonInt ..) ?_
    simp only [specStore, checkInteger]
    cases Wire.checkKey cfg k <;> cases encodeVal cfg.utf8 v <;> rfl
  | int e =>
  cases hck : checkKey cfg k with
  | error err =>
    refine hill ?_ (by simp [specStore, hck])
    rw [encodeStore_int]; cases err
    simp [keyData, hck, bind, Except.bind, Except.map]
  | ok w =>
  cases hval : encodeVal cfg.utf8 v with
  | error err =>
    refine hill ?_ (by simp [specStore, hck, hval])
    rw [encodeStore_int]; cases err
    simp [keyData, hck, hval, bind, Except.bind, Except.map]
  | ok d =>
    have hw : w ≠ [] := fun h => hk (h ▸ hck)
    have hv := checkKey_validKey hck hw
    have hfl : sentFlags flags 0 = flagsOf flags := by cases flags <;> simp [sentFlags, flagsOf]
    have hfl0 : 0 ≤ flagsOf flags := by
      cases flags with
      | none => simp [flagsOf]
      | some f => exact hf f rfl
    have henc : encodeStore cfg verb [(k, v)] (.int e) nr flags 0 cb =
        .ok [storeCmd verb w (flagsOf flags) e d cb nr] := by
      rw [encodeStore_int, hfl]
      simp [keyData, hck, hval, bind, Except.bind, Except.map, pure, Except.pure]
    have hparse : parseAll [storeCmd verb w (flagsOf flags) e d cb nr].flatten.length
        [storeCmd verb w (flagsOf flags) e d cb nr].flatten =
        some [.store verb w (flagsOf flags).toNat e d (cb.bind parseNat) nr] := by
      simpa using parseAll_single (parsesAs_of fun rest =>
        C02_parse_storeCmd verb w (flagsOf flags) e d cb nr rest hv hfl0 hcv hcw)
    have hcall' : ∀ evs, call cfg false true c { evs := evs } =
        mapOut (exchangeStore verb [storeCmd verb w (flagsOf flags) e d cb nr] nr true { evs := evs })
          postStore := by
      intro evs; rw [hcall, henc]
    simp only [specStore, hck, hval, checkInteger]
    cases nr with
    | true =>
      rw [onServer_store_quiet cfg s c verb _ postStore _ _ _ hcall' hparse (applyAll_single _ _)]
      · simp [postStore]
      · simp [Server.renderAll, apply_quiet s (.store verb w _ e d _ true) rfl, Server.render]
    | false =>
      have happ : AbsMap.apply s (.store verb w (flagsOf flags).toNat e d (cb.bind parseNat) false) =
          applyLoud s (.store verb w (flagsOf flags).toNat e d (cb.bind parseNat) false) := apply_loud _ _ rfl
      obtain ⟨l, val, h1, h2, h3, h4⟩ := store_rep_line verb _
        (applyLoud_store_rep s verb w (flagsOf flags).toNat e d (cb.bind parseNat) false)
        (.store verb w (flagsOf flags).toNat e d (cb.bind parseNat) false)
      rw [onServer_store_loud cfg s c verb _ postStore _ _ _ [(l, val)] hcall' hparse (applyAll_single _ _)]
      · simp only [happ, h4, List.map_cons, List.map_nil, Bool.false_eq_true, if_false]
        cases val with
        | none => simp [postStore]
        | some b => simp [postStore]
      · simp [Server.renderAll, happ, h1, joinLines]
      · simpa using ⟨h2, h3⟩
      · rfl

theorem refines_store (cfg : Cfg) (s : St) (verb : SVerb) (k : Key.K) (v : Val) (expire : IntArg)
    (noreply : Option Bool) (flags : Option Int) (cas : Option CasArg)
    (hk : KeyOK cfg k) (hf : FlagsOK flags) :
    onServer cfg s (.store verb k v expire noreply flags cas) =
      ((spec cfg s (.store verb k v expire noreply flags cas)).1,
       (spec cfg s (.store verb k v expire noreply flags cas)).2, true) := by
  by_cases hverb : verb = .cas
  · subst hverb
    cases cas with
    | none =>
      rw [onServer_not_sent]
      · simp [call, early, spec]
      · simp [call, early]
    | some a =>
      cases hca : checkCas a with
      | error err =>
        rw [onServer_not_sent]
        · simp [call, early, spec, hca, liftErr, Except.map]
        · simp [call, early, hca, liftErr, Except.map]
      | ok cb =>
        have hcw := C02_bad_cas_rejected.2.2.2.2 a cb hca
        have := store_core cfg s (.store .cas k v expire noreply flags (some a)) .cas k v expire
          (boolOr noreply false) flags (some cb)
          (fun evs => by
            simp only [call, hca, liftErr, Except.map, if_true]
            cases encodeStore cfg .cas [(k, v)] expire (boolOr noreply false) flags 0 (some cb) <;> rfl)
          hk hf (by simp) (by intro c hc; cases hc; exact hcw)
        have hs : spec cfg s (.store .cas k v expire noreply flags (some a)) =
            specStore cfg s .cas k v expire (boolOr noreply false) flags ((some cb).bind parseNat) := by
          simp only [spec, specStore, hca, Except.map, if_true, boolOr, Option.bind_some]
          cases Wire.checkKey cfg k <;> cases encodeVal cfg.utf8 v <;> cases checkInteger expire <;> rfl
        rw [this, hs]
  · have := store_core cfg s (.store verb k v expire noreply flags cas) verb k v expire
      (boolOr noreply cfg.defaultNoreply) flags none
      (fun evs => by
        cases verb <;> first
          | exact absurd rfl hverb
          | (simp only [call, reduceCtorEq, if_false]
             cases encodeStore cfg _ [(k, v)] expire (boolOr noreply cfg.defaultNoreply) flags 0 Option.none <;> rfl))
      hk hf (by simp [hverb]) (by simp)
    have hs : spec cfg s (.store verb k v expire noreply flags cas) =
        specStore cfg s verb k v expire (boolOr noreply cfg.defaultNoreply) flags (Option.none.bind parseNat) := by
      cases verb <;> first
        | exact absurd rfl hverb
        | (simp only [spec, specStore, reduceCtorEq, if_false, nr_eq, Option.bind_none]
           cases Wire.checkKey cfg k <;> cases encodeVal cfg.utf8 v <;> cases checkInteger expire <;> rfl)
    rw [this, hs]
end Client
