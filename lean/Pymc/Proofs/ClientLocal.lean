import Pymc.Proofs.ExchangeLocal
/-! Helper lemmas for C01: locality of the exchanges and of `Client.call`. -/
namespace Exchange
open Bytes Readers Wire Framing Client

/-- a call that leaves the socket open consumed a fault-free prefix of the `recv()` results and
never looked at the rest -/
def CallLocal {α} (run : List Ev → CallOut α) (evs : List Ev) : Prop :=
  (run evs).sockOpen = true →
    ∃ cons, evs = cons ++ (run evs).unread ∧ clean cons ∧
      ∀ u2, run (cons ++ u2) = { run evs with unread := u2 }

theorem exchangeStore_local (verb : SVerb) (cmds : List Bytes) (nr so : Bool) (sc : Script)
    (evs : List Ev) :
    CallLocal (fun e => exchangeStore verb cmds nr so { sc with evs := e }) evs := by
  unfold CallLocal exchangeStore
  dsimp only
  rcases (if so = true then none else sc.connectFails) with _ | e
  · rcases sc.sendFails with _ | e
    · dsimp only
      cases nr with
      | true => intro _; exact ⟨[], rfl, trivial, fun u2 => rfl⟩
      | false =>
        simp only [Bool.false_eq_true, if_false]
        intro h
        rcases hres : (storeLoop verb cmds.length [] evs []).res with e | r
        · have := storeLoop_error_closed _ _ _ _ _ hres
          simp [this] at h
        · have ho : storeLoop verb cmds.length [] evs [] = ⟨.ok r, (storeLoop verb cmds.length [] evs []).unread,
              (storeLoop verb cmds.length [] evs []).closed⟩ := by rw [← hres]
          obtain ⟨cons, he, hc, run⟩ := storeLoop_local _ _ _ _ _ ho
          refine ⟨cons, he, hc, fun u2 => ?_⟩
          have hcl := (storeLoop_ok_open _ _ _ _ _ hres).1
          simp only [run u2, hcl]
    · simp
  · simp

theorem exchangeMisc_local (cmds : List Bytes) (nr : Bool) (tok : Option Bytes) (so : Bool) (sc : Script)
    (evs : List Ev) :
    CallLocal (fun e => exchangeMisc cmds nr tok so { sc with evs := e }) evs := by
  unfold CallLocal exchangeMisc
  dsimp only
  rcases (if so = true then none else sc.connectFails) with _ | e
  · rcases sc.sendFails with _ | e
    · dsimp only
      cases nr with
      | true => intro _; exact ⟨[], rfl, trivial, fun u2 => rfl⟩
      | false =>
        simp only [Bool.false_eq_true, if_false]
        intro h
        rcases hres : (miscLoop tok cmds.length [] evs []).res with e | r
        · have := miscLoop_error_closed _ _ _ _ _ hres
          simp [this] at h
        · have ho : miscLoop tok cmds.length [] evs [] = ⟨.ok r, (miscLoop tok cmds.length [] evs []).unread,
              (miscLoop tok cmds.length [] evs []).closed⟩ := by rw [← hres]
          obtain ⟨cons, he, hc, run⟩ := miscLoop_local _ _ _ _ _ ho
          refine ⟨cons, he, hc, fun u2 => ?_⟩
          have hcl := (miscLoop_ok_open _ _ _ _ _ hres).1
          simp only [run u2, hcl]
    · simp
  · simp

theorem exchangeFetch_local (kind : FetchKind) (cmd : Bytes) (wanted : List Bytes) (ie so : Bool)
    (sc : Script) (evs : List Ev) :
    CallLocal (fun e => exchangeFetch kind cmd wanted ie so { sc with evs := e }) evs := by
  unfold CallLocal exchangeFetch
  dsimp only
  rcases (if so = true then none else sc.connectFails) with _ | e
  · rcases sc.sendFails with _ | e
    · dsimp only
      rcases hres : (fetchLoop kind wanted (totalLen [] evs) [] evs []).res with e | r
      · simp
      · intro _
        dsimp only
        have ho : fetchLoop kind wanted (totalLen [] evs) [] evs [] =
            ⟨.ok r, (fetchLoop kind wanted (totalLen [] evs) [] evs []).unread,
              (fetchLoop kind wanted (totalLen [] evs) [] evs []).closed⟩ := by rw [← hres]
        obtain ⟨cons, he, hc, run⟩ := fetchLoop_local _ _ _ _ _ _ ho
        refine ⟨cons, he, hc, fun u2 => ?_⟩
        have h1 : fetchLoop kind wanted (totalLen [] (cons ++ u2)) [] (cons ++ u2) [] =
            fetchLoop kind wanted (max (totalLen [] evs) (totalLen [] (cons ++ u2))) [] (cons ++ u2) [] :=
          fetchLoop_fuel_irrelevant _ _ _ _ _ _ _ (pending_lt_totalLen _)
            (Nat.lt_of_lt_of_le (pending_lt_totalLen _) (Nat.le_max_right _ _))
        rw [h1, run u2 _ (Nat.le_max_left _ _)]
    · simp
  · simp
end Exchange

namespace Client
open Bytes Readers Wire Framing Exchange

theorem callLocal_mapOut {α β} (run : List Ev → CallOut α) (f : α → Except Exc β) (evs : List Ev)
    (h : CallLocal run evs) : CallLocal (fun e => mapOut (run e) f) evs := by
  unfold CallLocal at h ⊢
  simp only [mapOut_sockOpen, mapOut_unread]
  intro ho
  obtain ⟨cons, he, hc, hrun⟩ := h ho
  exact ⟨cons, he, hc, fun u2 => by rw [hrun u2, mapOut_with_unread]; simp⟩

theorem callLocal_swallowClose (run : List Ev → CallOut Res) (evs : List Ev)
    (h : CallLocal run evs) : CallLocal (fun e => swallowClose (run e)) evs := by
  unfold CallLocal at h ⊢
  simp only [swallowClose_sockOpen, swallowClose_unread]
  intro ho
  obtain ⟨cons, he, hc, hrun⟩ := h ho
  exact ⟨cons, he, hc, fun u2 => by rw [hrun u2, swallowClose_with_unread]; rfl⟩

theorem call_local (cfg : Cfg) (ie so : Bool) (c : Call) (sc : Script) (evs : List Ev) :
    CallLocal (fun e => call cfg ie so c { sc with evs := e }) evs := by
  rcases shape cfg c with ⟨res, hcall⟩ | ⟨verb, cmds, nr, f, hcall, -, -, -⟩ |
    ⟨cmds, nr, tok, f, hcall, -, -, -, -⟩ | ⟨kind, cmd, wanted, g, hcall, -⟩ | hq | ⟨gr, hsd⟩
  · simp only [hcall]
    intro _; exact ⟨[], rfl, trivial, fun u2 => rfl⟩
  · simp only [hcall]
    exact callLocal_mapOut _ _ _ (exchangeStore_local verb cmds nr so sc evs)
  · simp only [hcall]
    exact callLocal_mapOut _ _ _ (exchangeMisc_local cmds nr tok so sc evs)
  · simp only [hcall]
    exact callLocal_mapOut _ _ _ (exchangeFetch_local kind cmd wanted ie so sc evs)
  · subst hq
    intro h; simp [call] at h
  · subst hsd
    simp only [call_shutdown]
    exact callLocal_swallowClose _ _ (callLocal_mapOut _ _ _ (exchangeMisc_local [shutdownCmd gr] false none so sc evs))
end Client
