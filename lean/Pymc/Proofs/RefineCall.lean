import Pymc.Proofs.RefineLoops
/-! `Client.onServer` unfolded along the three exchange paths. -/
namespace Server
open Wire AbsMap

/-- the reply bytes of a list of requests -/
def renderAll : List Req → List Reply → Bytes
  | r :: rs, p :: ps => render r p ++ renderAll rs ps
  | _, _ => []

theorem run_eq (s : St) (reqs : List Req) :
    run s reqs = ((ApiSpec.applyAll s reqs).1, renderAll reqs (ApiSpec.applyAll s reqs).2) := by
  induction reqs generalizing s with
  | nil => rfl
  | cons r rs ih =>
    simp only [run, ApiSpec.applyAll, ih, renderAll]

theorem feed_eq (s : St) (payload : Bytes) (reqs : List Req)
    (h : parseAll payload.length payload = some reqs) :
    feed s payload = some ((ApiSpec.applyAll s reqs).1, renderAll reqs (ApiSpec.applyAll s reqs).2) := by
  simp [feed, h, run_eq]
end Server

namespace Client
open Bytes Wire Exchange Readers AbsMap

theorem onServer_not_sent (cfg : Cfg) (s : St) (c : Call)
    (h : (call cfg false true c {}).sent = none) :
    onServer cfg s c = (s, (call cfg false true c {}).res, true) := by
  simp only [onServer, h]

theorem onServer_sent (cfg : Cfg) (s : St) (c : Call) (payload : Bytes) (s' : St) (reply : Bytes)
    (h1 : (call cfg false true c {}).sent = some payload)
    (h2 : Server.feed s payload = some (s', reply)) :
    onServer cfg s c =
      (s', (call cfg false true c { evs := if reply = [] then [] else [.data reply] }).res,
        (call cfg false true c { evs := if reply = [] then [] else [.data reply] }).sockOpen &&
          decide ((call cfg false true c { evs := if reply = [] then [] else [.data reply] }).unread = [])) := by
  simp only [onServer, h1, h2]

theorem mapOut_sent {α β} (o : CallOut α) (f : α → Except Exc β) : (mapOut o f).sent = o.sent := by
  unfold mapOut; cases o.res <;> rfl

/-! ## misc path -/
theorem exchangeMisc_open (cmds : List Bytes) (nr : Bool) (evs : List Ev) :
    exchangeMisc cmds nr none true { evs := evs } =
      if nr then ⟨.ok [], true, false, some cmds.flatten, evs⟩
      else ⟨(miscLoop none cmds.length [] evs []).res, !(miscLoop none cmds.length [] evs []).closed, false,
        some cmds.flatten, (miscLoop none cmds.length [] evs []).unread⟩ := by
  simp [exchangeMisc]

theorem onServer_misc_quiet (cfg : Cfg) (s : St) (c : Call) (cmds : List Bytes)
    (post : List Bytes → Except Exc Res) (reqs : List Req) (s' : St) (reps : List Reply)
    (hcall : ∀ evs, call cfg false true c { evs := evs } =
      mapOut (exchangeMisc cmds true none true { evs := evs }) post)
    (hparse : parseAll cmds.flatten.length cmds.flatten = some reqs)
    (happ : ApiSpec.applyAll s reqs = (s', reps))
    (hren : Server.renderAll reqs reps = []) :
    onServer cfg s c = (s', post [], true) := by
  have hfeed := Server.feed_eq s _ _ hparse
  rw [happ] at hfeed
  simp only [hren] at hfeed
  rw [onServer_sent cfg s c cmds.flatten s' [] ?_ hfeed]
  · simp [hcall, exchangeMisc_open, mapOut]
  · have := hcall []
    rw [show ({} : Script) = { evs := [] } from rfl, this, mapOut_sent, exchangeMisc_open]; rfl

theorem onServer_misc_loud (cfg : Cfg) (s : St) (c : Call) (cmds : List Bytes)
    (post : List Bytes → Except Exc Res) (reqs : List Req) (s' : St) (reps : List Reply) (ls : List Bytes)
    (hcall : ∀ evs, call cfg false true c { evs := evs } =
      mapOut (exchangeMisc cmds false none true { evs := evs }) post)
    (hparse : parseAll cmds.flatten.length cmds.flatten = some reqs)
    (happ : ApiSpec.applyAll s reqs = (s', reps))
    (hren : Server.renderAll reqs reps = joinLines ls) (hpl : ∀ l ∈ ls, PlainLine l)
    (hlen : ls.length = cmds.length) :
    onServer cfg s c = (s', post ls, true) := by
  have hfeed := Server.feed_eq s _ _ hparse
  rw [happ] at hfeed
  simp only [hren] at hfeed
  rw [onServer_sent cfg s c cmds.flatten s' _ ?_ hfeed]
  · simp only [hcall, exchangeMisc_open, Bool.false_eq_true, if_false, ← hlen, miscLoop_reply ls hpl]
    simp [mapOut]
  · have := hcall []
    rw [show ({} : Script) = { evs := [] } from rfl, this, mapOut_sent, exchangeMisc_open]; rfl

/-- one command answered by an error line: the socket is closed -/
theorem onServer_misc_error (cfg : Cfg) (s : St) (c : Call) (cmd : Bytes)
    (post : List Bytes → Except Exc Res) (req : Req) (l : Bytes) (e : Exc)
    (hcall : ∀ evs, call cfg false true c { evs := evs } =
      mapOut (exchangeMisc [cmd] false none true { evs := evs }) post)
    (hparse : parseAll cmd.length cmd = some [req])
    (hren : Server.render req (AbsMap.apply s req).2 = l ++ CRLF) (h1 : ∀ b ∈ l, b ≠ CR)
    (h2 : raiseErrors l = some e) :
    onServer cfg s c = ((AbsMap.apply s req).1, .error e, false) := by
  have hp : parseAll [cmd].flatten.length [cmd].flatten = some [req] := by simpa using hparse
  have hfeed := Server.feed_eq s _ _ hp
  have happ' : ApiSpec.applyAll s [req] = ((AbsMap.apply s req).1, [(AbsMap.apply s req).2]) := by
    simp [ApiSpec.applyAll]
  rw [happ'] at hfeed
  simp only [Server.renderAll, hren, List.append_nil] at hfeed
  rw [onServer_sent cfg s c [cmd].flatten _ _ ?_ hfeed]
  · have hne : l ++ CRLF ≠ [] := by simp [CRLF]
    simp only [hcall, exchangeMisc_open, Bool.false_eq_true, if_false, hne, List.length_singleton,
      miscLoop_error_line l e h1 h2]
    simp [mapOut]
  · have := hcall []
    rw [show ({} : Script) = { evs := [] } from rfl, this, mapOut_sent, exchangeMisc_open]; rfl

/-! ## store path -/
theorem exchangeStore_open (verb : SVerb) (cmds : List Bytes) (nr : Bool) (evs : List Ev) :
    exchangeStore verb cmds nr true { evs := evs } =
      if nr then ⟨.ok (cmds.map fun _ => some true), true, false, some cmds.flatten, evs⟩
      else ⟨(storeLoop verb cmds.length [] evs []).res, !(storeLoop verb cmds.length [] evs []).closed, false,
        some cmds.flatten, (storeLoop verb cmds.length [] evs []).unread⟩ := by
  simp [exchangeStore]

theorem onServer_store_quiet (cfg : Cfg) (s : St) (c : Call) (verb : SVerb) (cmds : List Bytes)
    (post : List (Option Bool) → Except Exc Res) (reqs : List Req) (s' : St) (reps : List Reply)
    (hcall : ∀ evs, call cfg false true c { evs := evs } =
      mapOut (exchangeStore verb cmds true true { evs := evs }) post)
    (hparse : parseAll cmds.flatten.length cmds.flatten = some reqs)
    (happ : ApiSpec.applyAll s reqs = (s', reps))
    (hren : Server.renderAll reqs reps = []) :
    onServer cfg s c = (s', post (cmds.map fun _ => some true), true) := by
  have hfeed := Server.feed_eq s _ _ hparse
  rw [happ] at hfeed
  simp only [hren] at hfeed
  rw [onServer_sent cfg s c cmds.flatten s' [] ?_ hfeed]
  · simp [hcall, exchangeStore_open, mapOut]
  · have := hcall []
    rw [show ({} : Script) = { evs := [] } from rfl, this, mapOut_sent, exchangeStore_open]; rfl

theorem onServer_store_loud (cfg : Cfg) (s : St) (c : Call) (verb : SVerb) (cmds : List Bytes)
    (post : List (Option Bool) → Except Exc Res) (reqs : List Req) (s' : St) (reps : List Reply)
    (lvs : List (Bytes × Option Bool))
    (hcall : ∀ evs, call cfg false true c { evs := evs } =
      mapOut (exchangeStore verb cmds false true { evs := evs }) post)
    (hparse : parseAll cmds.flatten.length cmds.flatten = some reqs)
    (happ : ApiSpec.applyAll s reqs = (s', reps))
    (hren : Server.renderAll reqs reps = joinLines (lvs.map (·.1)))
    (hpl : ∀ p ∈ lvs, PlainLine p.1 ∧ storeResultValue verb p.1 = some p.2)
    (hlen : lvs.length = cmds.length) :
    onServer cfg s c = (s', post (lvs.map (·.2)), true) := by
  have hfeed := Server.feed_eq s _ _ hparse
  rw [happ] at hfeed
  simp only [hren] at hfeed
  rw [onServer_sent cfg s c cmds.flatten s' _ ?_ hfeed]
  · simp only [hcall, exchangeStore_open, Bool.false_eq_true, if_false, ← hlen, storeLoop_reply verb lvs hpl]
    simp [mapOut]
  · have := hcall []
    rw [show ({} : Script) = { evs := [] } from rfl, this, mapOut_sent, exchangeStore_open]; rfl
end Client
