import Pymc.Model.Aws
import Pymc.Proofs.WireDec
/-! Helper lemmas for C19: `bytes.split(sep)`, `bytes.splitlines()` and the rendering of the config line. -/
namespace Aws
open Bytes Wire

/-! ## `split(sep)` -/

theorem splitOn1_clean (sep : UInt8) (l : Bytes) (h : ∀ x ∈ l, x ≠ sep) : splitOn1 sep l = [l] := by
  induction l with
  | nil => simp [splitOn1]
  | cons x r ih =>
    have hx : x ≠ sep := h x (by simp)
    have := ih (fun y hy => h y (by simp [hy]))
    simp [splitOn1, hx, this]

theorem splitOn1_append (sep : UInt8) (a r : Bytes) (h : ∀ x ∈ a, x ≠ sep) :
    splitOn1 sep (a ++ sep :: r) = a :: splitOn1 sep r := by
  induction a with
  | nil => simp [splitOn1]
  | cons x a ih =>
    have hx : x ≠ sep := h x (by simp)
    have := ih (fun y hy => h y (by simp [hy]))
    simp [splitOn1, hx, this]

theorem joinWith_cons_cons (sep : UInt8) (a b : Bytes) (r : List Bytes) :
    joinWith sep (a :: b :: r) = a ++ sep :: joinWith sep (b :: r) := by
  simp [joinWith]

theorem splitOn1_joinWith (sep : UInt8) (fs : List Bytes) (hne : fs ≠ [])
    (h : ∀ f ∈ fs, ∀ x ∈ f, x ≠ sep) : splitOn1 sep (joinWith sep fs) = fs := by
  induction fs with
  | nil => exact absurd rfl hne
  | cons a r ih =>
    cases r with
    | nil => simpa [joinWith] using splitOn1_clean sep a (h a (by simp))
    | cons b r' =>
      rw [joinWith_cons_cons, splitOn1_append sep a _ (h a (by simp)),
        ih (by simp) (fun f hf => h f (by simp [hf]))]

theorem mem_joinWith (sep : UInt8) (fs : List Bytes) (x : UInt8) (hx : x ∈ joinWith sep fs) :
    x = sep ∨ ∃ f ∈ fs, x ∈ f := by
  induction fs with
  | nil => simp [joinWith] at hx
  | cons a r ih =>
    cases r with
    | nil => exact .inr ⟨a, by simp, by simpa [joinWith] using hx⟩
    | cons b r' =>
      rw [joinWith_cons_cons] at hx
      simp only [List.mem_append, List.mem_cons] at hx
      rcases hx with hx | rfl | hx
      · exact .inr ⟨a, by simp, hx⟩
      · exact .inl rfl
      · rcases ih hx with h | ⟨f, hf, hxf⟩
        · exact .inl h
        · exact .inr ⟨f, by simp [hf], hxf⟩

theorem joinWith_ne_nil (sep : UInt8) (fs : List Bytes) (h : ∃ f ∈ fs, f ≠ []) : joinWith sep fs ≠ [] := by
  induction fs with
  | nil => simp at h
  | cons a r ih =>
    cases r with
    | nil => simpa [joinWith] using h
    | cons b r' => rw [joinWith_cons_cons]; simp

/-! ## `splitlines()` -/

theorem splitLinesGo_clean (l cur : Bytes) (h : ∀ x ∈ l, x ≠ LF ∧ x ≠ CR) :
    splitLinesGo l cur = if cur ++ l = [] then [] else [cur ++ l] := by
  induction l generalizing cur with
  | nil => simp [splitLinesGo]
  | cons x r ih =>
    have hx := h x (by simp)
    rw [splitLinesGo]
    simp only [hx.1, hx.2, if_false]
    rw [ih _ (fun y hy => h y (by simp [hy]))]
    simp

/-- the last line of `s + b"\n" + line` is `line`, for a non-empty `line` without line breaks -/
theorem splitLinesGo_last (line : Bytes) (hne : line ≠ []) (hl : ∀ x ∈ line, x ≠ LF ∧ x ≠ CR)
    (s cur : Bytes) : (splitLinesGo (s ++ LF :: line) cur).getLast? = some line := by
  have hline : splitLinesGo line [] = [line] := by
    rw [splitLinesGo_clean line [] hl]; simp [hne]
  induction hn : s.length using Nat.strongRecOn generalizing s cur with
  | _ n ih =>
    subst hn
    cases s with
    | nil =>
      rw [List.nil_append, splitLinesGo]
      simp [hline]
    | cons x r =>
      rw [List.cons_append, splitLinesGo]
      by_cases hx : x = LF
      · simp only [hx, if_true]
        rw [List.getLast?_cons, ih r.length (by simp) r [] rfl]; rfl
      · simp only [hx, if_false]
        by_cases hc : x = CR
        · simp only [hc, if_true]
          cases r with
          | nil =>
            simp [hline]
          | cons y r' =>
            by_cases hy : y = LF
            · subst hy
              simp only [List.cons_append, List.head?_cons, if_true, List.tail_cons]
              rw [List.getLast?_cons, ih r'.length (by simp; omega) r' [] rfl]; rfl
            · have : ¬ (some y = some LF) := by simpa using hy
              simp only [List.cons_append, List.head?_cons, this, if_false]
              rw [List.getLast?_cons]
              have := ih (y :: r').length (by simp) (y :: r') [] rfl
              rw [List.cons_append] at this
              rw [this]; rfl
        · simp only [hc, if_false]
          exact ih r.length (by simp) r _ rfl

theorem splitLines_last (s line : Bytes) (hne : line ≠ []) (hl : ∀ x ∈ line, x ≠ LF ∧ x ≠ CR) :
    (splitLines (s ++ LF :: line)).getLast? = some line :=
  splitLinesGo_last line hne hl s []

/-! ## `mapM` in `Option` -/

theorem mapM_map_some {α β γ : Type} (g : α → β) (f : β → Option γ) (h : α → γ) (l : List α)
    (hl : ∀ x ∈ l, f (g x) = some (h x)) : (l.map g).mapM f = some (l.map h) := by
  induction l with
  | nil => simp
  | cons a r ih =>
    simp [List.mapM_cons, hl a (by simp), ih (fun x hx => hl x (by simp [hx]))]
end Aws
