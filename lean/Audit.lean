import Pymc
import Lean
/-! Prints, for every theorem whose last name component looks like `Cdd_…`, the axioms it depends on.
    Run: `lake env lean Audit.lean`.  Output lines: `AXIOMS <full name> | <module> | ax1,ax2,…` -/
open Lean Elab Command

private def isPropName (s : String) : Bool :=
  let cs := s.toList
  match cs with
  | 'C' :: a :: b :: '_' :: _ => a.isDigit && b.isDigit
  | _ => false

run_cmd do
  let env ← getEnv
  let mut out : Array String := #[]
  for (n, ci) in env.constants.toList do
    match n with
    | .str _ s =>
      if isPropName s then
        let kind := match ci with
          | .thmInfo _ => "theorem"
          | .defnInfo _ => "def"
          | .axiomInfo _ => "axiom"
          | .opaqueInfo _ => "opaque"
          | _ => "other"
        let axs ← Lean.collectAxioms n
        let modIdx := env.getModuleIdxFor? n
        let modName := match modIdx with
          | some i => toString env.header.moduleNames[i.toNat]!
          | none => "?"
        let axl := ",".intercalate (axs.toList.map toString)
        out := out.push s!"AXIOMS {n} | {kind} | {modName} | {axl}"
    | _ => pure ()
  for l in out.qsort (· < ·) do
    IO.println l
