-- root of the `Pymc` library: models, helper proofs, property theorems
import Pymc.Props.C14
