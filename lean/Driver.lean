import Pymc.Model.Bytes
import Pymc.Model.Murmur3
import Pymc.Model.Retrying
import Pymc.Model.Fallback
import Pymc.Model.Key
import Pymc.Model.Rendezvous
import Pymc.Model.Readers
import Pymc.Model.ServerSpec
/-! Line-protocol driver of the Lean models (one request per line, one reply line per request).
    Rejects what it cannot parse (`bad-op`), never defaults. -/
open Bytes

def natArgs (ws : List String) : Option (List Nat) := ws.mapM String.toNat?

/-- `a,b,c` → list of naturals; `-` is the empty list -/
def natList (s : String) : Option (List Nat) :=
  if s = "-" then some [] else (s.splitOn ",").mapM String.toNat?

/-- look up `key=` among tokens -/
def arg (ws : List String) (key : String) : Option String :=
  ws.findSome? fun w => if w.startsWith (key ++ "=") then some (w.drop (key.length + 1)).toString else none

def hexList (s : String) : Option (List Bytes) :=
  if s = "" then some [] else (s.splitOn ",").mapM Bytes.ofHex

/-! ### C17 -/
def parseOutcome (s : String) : Option Retrying.Outcome :=
  match s.splitOn ":" with
  | ["o", v] => v.toNat?.map .ok
  | ["e", c, i] => do pure (.exc (← c.toNat?) (← i.toNat?))
  | _ => none

def parsePairs (s : String) : Option (List (Nat × Nat)) :=
  if s = "-" then some [] else
  (s.splitOn ",").mapM fun p => match p.splitOn ">" with
    | [a, b] => do pure ((← a.toNat?), (← b.toNat?))
    | _ => none

def showResult : Retrying.Result → String
  | .value v => s!"value:{v}"
  | .raised c i => s!"raised:{c}:{i}"
  | .fellThrough => "fellthrough"
  | .scriptExhausted => "exhausted"

def handleRetry (ws : List String) : Option String := do
  let attempts ← (← arg ws "attempts").toNat?
  let rf ← natList (← arg ws "rf")
  let dnr ← natList (← arg ws "dnr")
  let dir ← arg ws "dir"
  let sub ← parsePairs (← arg ws "sub")
  let scr ← arg ws "script"
  let script ← if scr = "-" then some [] else (scr.splitOn ",").mapM parseOutcome
  let cfg : Retrying.Cfg := ⟨attempts, rf, dnr, dir = "1", fun c k => c = k || sub.contains (c, k)⟩
  let r := Retrying.retry cfg script
  pure s!"ok res={showResult r.result} inv={r.invocations} sleeps={r.sleeps}"

def parseKind : String → Option Retrying.ArgKind
  | "none" => some .none | "tuple" => some .tuple | "set" => some .set | "list" => some .list
  | "other" => some .other | _ => none

def handleRetryCtor (ws : List String) : Option String := do
  let att ← (← arg ws "attempts").toInt?
  let rfk ← parseKind (← arg ws "rfk")
  let rf ← natList (← arg ws "rf")
  let dk ← parseKind (← arg ws "dnrk")
  let dnr ← natList (← arg ws "dnr")
  let exc ← natList (← arg ws "exc")
  let a : Retrying.CtorArgs := ⟨att, rfk, rf, dk, dnr, fun c => exc.contains c⟩
  pure (if Retrying.ctorOk a then "ok constructed" else "ok ValueError")

/-! ### C18 -/
def handleFallback (ws : List String) : Option String := do
  let mode ← arg ws "mode"          -- `single`: hit = not None ; `multi`: hit = truthy
  let ans ← arg ws "answers"        -- comma list: `N` (None), `E` (empty/falsy non-None), `H<id>` (truthy hit)
  let answers := if ans = "-" then [] else ans.splitOn ","
  let hit : String → Bool := fun a =>
    if mode = "single" then a ≠ "N" else a.startsWith "H"
  let (r, n) := Fallback.firstHit hit answers
  pure s!"ok result={r.getD "FALLTHROUGH"} consulted={n}"

/-! ### C20 / C02 -/
def parseKey (s : String) : Option Key.K :=
  if s.startsWith "b:" then (Bytes.ofHex (s.drop 2).toString).map .bytes
  else if s.startsWith "s:" then (natList (s.drop 2).toString).map .str
  else none

def handleCheckKey (ws : List String) (orig : Bool) : Option String := do
  let au ← arg ws "au"
  let pfx ← Bytes.ofHex (← arg ws "pfx")
  let k ← parseKey (← arg ws "k")
  let r := if orig then Key.checkKeyOrig (au = "1") pfx k else Key.checkKey (au = "1") pfx k
  pure (match r with
    | .ok w => s!"ok {Bytes.toHex w}"
    | .error _ => "err IllegalInput")

def handleSplitWs (ws : List String) : Option String := do
  let b ← Bytes.ofHex (← arg ws "b")
  pure ("ok " ++ ",".intercalate ((Key.pySplitWs b).map Bytes.toHex))

def handleUtf8 (ws : List String) : Option String := do
  let cps ← natList (← arg ws "cps")
  pure ("ok " ++ Bytes.toHex (Key.encodeUtf8 cps))

/-! ### C11 -/
/-- `getnode seed=<n> key=<cps> nodes=<cps>;<cps>;…` with score = murmurPy(node ++ "-" ++ key) -/
def cpsToString (cps : List Nat) : String := String.ofList (cps.map Char.ofNat)

def handleGetNode (ws : List String) : Option String := do
  let seed ← (← arg ws "seed").toNat?
  let key ← natList (← arg ws "key")
  let ns ← arg ws "nodes"
  let nodes ← if ns = "-" then some [] else (ns.splitOn ";").mapM natList
  let names := nodes.map cpsToString
  let mode := (arg ws "hash").getD "murmur"
  let score : String → Nat := fun n =>
    let cps := (n.toList.map Char.toNat) ++ [45] ++ key
    if mode = "const" then 7
    else if mode = "two" then (Murmur.murmurPy cps seed) % 2
    else Murmur.murmurPy cps seed
  let w := Rendezvous.getNode score names
  pure (match w with
    | some n => "ok " ++ ",".intercalate (n.toList.map (toString ∘ Char.toNat))
    | none => "ok NONE")

/-- `nodename spec=s:<cps>` or `spec=t:<cps>:<port>` -/
def handleNodeName (ws : List String) : Option String := do
  let sp ← arg ws "spec"
  let spec ← match sp.splitOn ":" with
    | ["s", cps] => (natList cps).map fun l => ServerSpec.Spec.str (l.map Char.ofNat)
    | ["t", cps, port] => do pure (ServerSpec.Spec.tuple ((← natList cps).map Char.ofNat) (← port.toNat?))
    | _ => none
  pure (match ServerSpec.nodeName spec with
    | some n => "ok " ++ (if n = [] then "-" else ",".intercalate (n.map (toString ∘ Char.toNat)))
    | none => "ok NONE")

/-! ### C03 readers -/
def parseEv (s : String) : Option Readers.Ev :=
  if s = "i" then some .eintr
  else if s.startsWith "d:" then (Bytes.ofHex (s.drop 2).toString).map .data
  else if s.startsWith "x:" then (s.drop 2).toString.toNat?.map .err
  else none

def evsOf (ws : List String) : Option (List Readers.Ev) :=
  (ws.filter (·.startsWith "ev=")).mapM fun w => parseEv (w.drop 3).toString

def showEvLeft (evs : List Readers.Ev) : String := toString (Readers.joinData evs).length

def showReader (r : Except Readers.Err (Bytes × Bytes × List Readers.Ev)) : String :=
  match r with
  | .ok (rest, x, evs) => s!"ok item={Bytes.toHex x} rest={Bytes.toHex (rest ++ Readers.joinData evs)}"
  | .error .unexpectedClose => "err UnexpectedClose"
  | .error (.sock c) => s!"err Sock{c}"
  | .error .indexError => "err IndexError"

def handleReader (ws : List String) : Option String := do
  let which ← arg ws "r"
  let buf ← Bytes.ofHex (← arg ws "buf")
  let evs ← evsOf ws
  match which with
  | "line" => pure (showReader (Readers.readline [] buf evs))
  | "value" => do
    let size ← (← arg ws "size").toInt?
    pure (showReader (Readers.readvalue buf size evs))
  | "segment" => do
    let tok ← Bytes.ofHex (← arg ws "tok")
    pure (showReader (Readers.readsegment tok buf evs))
  | "segment-orig" => do
    let tok ← Bytes.ofHex (← arg ws "tok")
    pure (showReader (Readers.readsegmentOrig tok buf evs))
  | _ => none

def handle (ws : List String) : String :=
  let r : Option String :=
    match ws with
    | "murmur" :: seed :: cps => do
      let s ← seed.toNat?
      let d ← natArgs cps
      pure s!"ok {Murmur.murmurPy d s}"
    | ["murmurref", seed, hex] => do
      let s ← seed.toNat?
      let d ← Bytes.ofHex hex
      pure s!"ok {(Murmur.murmurRef (d.map fun b => BitVec.ofNat 8 b.toNat) (BitVec.ofNat 32 s)).toNat}"
    | "retry" :: rest => handleRetry rest
    | "retryctor" :: rest => handleRetryCtor rest
    | "fallback" :: rest => handleFallback rest
    | "checkkey" :: rest => handleCheckKey rest false
    | "checkkey-orig" :: rest => handleCheckKey rest true
    | "splitws" :: rest => handleSplitWs rest
    | "utf8" :: rest => handleUtf8 rest
    | "getnode" :: rest => handleGetNode rest
    | "nodename" :: rest => handleNodeName rest
    | "reader" :: rest => handleReader rest
    | _ => none
  r.getD "bad-op"

partial def loop (i o : IO.FS.Stream) : IO Unit := do
  let line ← i.getLine
  if line.isEmpty then return ()
  let ws := (line.trimAscii.toString.splitOn " ").filter (· ≠ "")
  o.putStrLn (handle ws)
  loop i o

def main : IO Unit := do
  let i ← IO.getStdin
  let o ← IO.getStdout
  loop i o
