import Pymc.Model.Bytes
import Pymc.Model.Murmur3
/-! Line-protocol driver of the Lean models (one request per line, one reply line per request).
    Rejects what it cannot parse (`bad-op`), never defaults. -/
open Bytes

def natArgs (ws : List String) : Option (List Nat) := ws.mapM String.toNat?

def handle (ws : List String) : String :=
  match ws with
  | "murmur" :: seed :: cps =>
    match seed.toNat?, natArgs cps with
    | some s, some d => s!"ok {Murmur.murmurPy d s}"
    | _, _ => "bad-op"
  | ["murmurref", seed, hex] =>
    match seed.toNat?, Bytes.ofHex hex with
    | some s, some d =>
      s!"ok {(Murmur.murmurRef (d.map fun b => BitVec.ofNat 8 b.toNat) (BitVec.ofNat 32 s)).toNat}"
    | _, _ => "bad-op"
  | _ => "bad-op"

partial def loop (i o : IO.FS.Stream) : IO Unit := do
  let line ← i.getLine
  if line.isEmpty then return ()
  let ws := (line.trimAscii.toString.splitOn " ").filter (· ≠ "")
  o.putStrLn (handle ws)
  loop i o

def main : IO Unit := do
  let i ← IO.getStdin
  let o ← IO.getStdout
  loop i o
