import Pymc.Model.Bytes
import Pymc.Model.Murmur3
import Pymc.Model.Retrying
import Pymc.Model.Fallback
import Pymc.Model.FallbackHist
import Pymc.Model.Key
import Pymc.Model.Rendezvous
import Pymc.Model.Readers
import Pymc.Model.ServerSpec
import Pymc.Model.Client
import Pymc.Model.Stats
import Pymc.Model.ApiSpec
import Pymc.Model.Conn
import Pymc.Model.Failover
import Pymc.Model.PoolConc
import Pymc.Model.PoolConcTimed
import Pymc.Model.Pooled
import Pymc.Model.PooledCall
import Pymc.Model.HashCall
import Pymc.Model.HashCallMany
import Pymc.Model.HashBroadcast
import Pymc.Model.HashPooledCall
import Pymc.Model.HashPooledCallMany
import Pymc.Model.Serde
import Pymc.Model.Aws
import Pymc.Model.HashRoute
/-! Line-protocol driver of the Lean models (one request per line, one reply line per request).
    Rejects what it cannot parse (`bad-op`), never defaults. -/
open Bytes

def natArgs (ws : List String) : Option (List Nat) := ws.mapM String.toNat?

/-- `a,b,c` → list of naturals; `-` is the empty list -/
def natList (s : String) : Option (List Nat) :=
  if s = "-" then some [] else (s.splitOn ",").mapM String.toNat?

/-- look up `key=` among tokens -/
def arg (ws : List String) (key : String) : Option String :=
  ws.findSome? fun w => if w.startsWith (key ++ "=") then some (w.drop (key.length + 1)).toString else none

def hexList (s : String) : Option (List Bytes) :=
  if s = "" then some [] else (s.splitOn ",").mapM Bytes.ofHex

/-! ### C17 -/
def parseOutcome (s : String) : Option Retrying.Outcome :=
  match s.splitOn ":" with
  | ["o", v] => v.toNat?.map .ok
  | ["e", c, i] => do pure (.exc (← c.toNat?) (← i.toNat?))
  | _ => none

def parsePairs (s : String) : Option (List (Nat × Nat)) :=
  if s = "-" then some [] else
  (s.splitOn ",").mapM fun p => match p.splitOn ">" with
    | [a, b] => do pure ((← a.toNat?), (← b.toNat?))
    | _ => none

def showSVal : Stats.SVal → String
  | .int i => s!"int:{i}" | .bool true => "True" | .bool false => "False" | .raw b => "b:" ++ Bytes.toHex b
  | .float a r => "f:" ++ Bytes.toHex a ++ ":" ++ Bytes.toHex r

def showResult : Retrying.Result → String
  | .value v => s!"value:{v}"
  | .raised c i => s!"raised:{c}:{i}"
  | .fellThrough => "fellthrough"
  | .scriptExhausted => "exhausted"

def handleRetry (ws : List String) : Option String := do
  let attempts ← (← arg ws "attempts").toNat?
  let rf ← natList (← arg ws "rf")
  let dnr ← natList (← arg ws "dnr")
  let dir ← arg ws "dir"
  let sub ← parsePairs (← arg ws "sub")
  let scr ← arg ws "script"
  let script ← if scr = "-" then some [] else (scr.splitOn ",").mapM parseOutcome
  let cfg : Retrying.Cfg := ⟨attempts, rf, dnr, dir = "1", fun c k => c = k || sub.contains (c, k)⟩
  let r := Retrying.retry cfg script
  pure s!"ok res={showResult r.result} inv={r.invocations} sleeps={r.sleeps}"

def parseKind : String → Option Retrying.ArgKind
  | "none" => some .none | "tuple" => some .tuple | "set" => some .set | "list" => some .list
  | "other" => some .other | _ => none

def handleRetryCtor (ws : List String) : Option String := do
  let att ← (← arg ws "attempts").toInt?
  let rfk ← parseKind (← arg ws "rfk")
  let rf ← natList (← arg ws "rf")
  let dk ← parseKind (← arg ws "dnrk")
  let dnr ← natList (← arg ws "dnr")
  let exc ← natList (← arg ws "exc")
  let a : Retrying.CtorArgs := ⟨att, rfk, rf, dk, dnr, fun c => exc.contains c⟩
  pure (if Retrying.ctorOk a then "ok constructed" else "ok ValueError")

/-! ### C18 -/
def handleFallback (ws : List String) : Option String := do
  let mode ← arg ws "mode"          -- `single`: hit = not None ; `multi`: hit = truthy
  let ans ← arg ws "answers"        -- comma list: `N` (None), `E` (empty/falsy non-None), `H<id>` (truthy hit)
  let answers := if ans = "-" then [] else ans.splitOn ","
  let hit : String → Bool := fun a =>
    if mode = "single" then a ≠ "N" else a.startsWith "H"
  let (r, n) := Fallback.firstHit hit answers
  pure s!"ok result={r.getD "FALLTHROUGH"} consulted={n}"

/-! ### C17, several calls on one client
`retrycalls attempts=<int> rfk=<kind> rf=<ids> dnrk=<kind> dnr=<ids> exc=<ids> dirm=<method ids listed by dir()> sub=<pairs>
calls=<method>@<script>;<method>@<script>;…` → `ok ValueError` or `ok <run>|<run>|…`, `<run>` = `res=…,inv=…,sleeps=…`
(the object is built by `Retrying.construct`, the history is run by `Retrying.runCalls`) -/
def parseMCall (s : String) : Option Retrying.MCall :=
  match s.splitOn "@" with
  | [m, scr] => do
    let script ← if scr = "-" then some [] else (scr.splitOn ",").mapM parseOutcome
    pure ⟨← m.toNat?, script⟩
  | _ => none

def handleRetryCalls (ws : List String) : Option String := do
  let att ← (← arg ws "attempts").toInt?
  let rfk ← parseKind (← arg ws "rfk")
  let rf ← natList (← arg ws "rf")
  let dk ← parseKind (← arg ws "dnrk")
  let dnr ← natList (← arg ws "dnr")
  let exc ← natList (← arg ws "exc")
  let dirm ← natList (← arg ws "dirm")
  let sub ← parsePairs (← arg ws "sub")
  let cs ← arg ws "calls"
  let calls ← if cs = "-" then some [] else (cs.splitOn ";").mapM parseMCall
  let a : Retrying.CtorArgs := ⟨att, rfk, rf, dk, dnr, fun c => exc.contains c⟩
  match Retrying.construct a dirm (fun c k => c = k || sub.contains (c, k)) with
  | none => pure "ok ValueError"
  | some o =>
    let runs := (Retrying.runCalls o calls).2
    pure ("ok " ++ "|".intercalate (runs.map fun r => s!"res={showResult r.result},inv={r.invocations},sleeps={r.sleeps}"))

/-! ### C18, histories on one FallbackClient
`fallbackhist init=<caches> ops=<op>;<op>;…`
`<caches>` = `-` (empty list) or `<cache>+<cache>+…`, `<cache>` = `<id>/<g><s><m><n>`: the answers to get, gets, get_many, gets_many,
each `N` (None), `E` (falsy, not None) or `H` (truthy).
`<op>` = `get:<arg>` `gets:<arg>` `get_many:<arg>` `gets_many:<arg>` | `<write>:<a1>,<a2>,…` (one entry per parameter, `-` = left out by
the caller) | `close` | `quit` | `stats` | `setc:<caches>`.
→ `ok steps=<step>|<step>|… caches=<ids>`, `<step>` = `<calls>=><result>`, `<calls>` = `-` or `<id>.<method>(<a1>,<a2>,…)+…`,
`<result>` = `None` `[]` `E` `H<id>` `TypeError` `IndexError`. -/
def parseHAns (id : Nat) : Char → Option FallbackHist.Ans
  | 'N' => some .none
  | 'E' => some (.falsy id)
  | 'H' => some (.truthy id)
  | _ => none

def parseHCache (s : String) : Option FallbackHist.Cache :=
  match s.splitOn "/" with
  | [i, ks] => do
    let id ← i.toNat?
    match ks.toList with
    | [a, b, c, d] => do
      let a ← parseHAns id a
      let b ← parseHAns id b
      let c ← parseHAns id c
      let d ← parseHAns id d
      pure ⟨id, fun k _ => match k with | .get => a | .gets => b | .getMany => c | .getsMany => d⟩
    | _ => none
  | _ => none

def parseHCaches (s : String) : Option (List FallbackHist.Cache) :=
  if s = "-" then some [] else (s.splitOn "+").mapM parseHCache

def parseHWrite : String → Option FallbackHist.WriteKind
  | "set" => some .set | "add" => some .add | "replace" => some .replace | "append" => some .append
  | "prepend" => some .prepend | "cas" => some .cas | "delete" => some .delete | "incr" => some .incr
  | "decr" => some .decr | "touch" => some .touch | "flush_all" => some .flushAll | _ => none

def parseHOp (s : String) : Option FallbackHist.Op :=
  match s.splitOn ":" with
  | ["close"] => some .close
  | ["quit"] => some .quit
  | ["stats"] => some .stats
  | ["setc", l] => (parseHCaches l).map .setCaches
  | ["get", a] => some (.read .get [a])
  | ["gets", a] => some (.read .gets [a])
  | ["get_many", a] => some (.read .getMany [a])
  | ["gets_many", a] => some (.read .getsMany [a])
  | [w, as] => do
    let m ← parseHWrite w
    pure (.write m ((as.splitOn ",").map fun t => if t = "-" then none else some t))
  | _ => none

def showHResult : FallbackHist.Result → String
  | .none => "None"
  | .emptyList => "[]"
  | .answer .none => "N"
  | .answer (.falsy _) => "E"
  | .answer (.truthy v) => s!"H{v}"
  | .typeError => "TypeError"
  | .indexError => "IndexError"

def showHOut (o : FallbackHist.Out) : String :=
  let calls := if o.log.isEmpty then "-" else
    "+".intercalate (o.log.map fun c => s!"{c.cache}.{c.method}({",".intercalate c.args})")
  s!"{calls}=>{showHResult o.result}"

def handleFallbackHist (ws : List String) : Option String := do
  let s0 ← parseHCaches (← arg ws "init")
  let os ← arg ws "ops"
  let ops ← if os = "-" then some [] else (os.splitOn ";").mapM parseHOp
  let (s, outs) := FallbackHist.run s0 ops
  let steps := if outs.isEmpty then "-" else "|".intercalate (outs.map showHOut)
  let ids := if s.isEmpty then "-" else ",".intercalate (s.map fun c => toString c.id)
  pure s!"ok steps={steps} caches={ids}"

/-! ### C20 / C02 -/
def parseKey (s : String) : Option Key.K :=
  if s.startsWith "b:" then (Bytes.ofHex (s.drop 2).toString).map .bytes
  else if s.startsWith "s:" then (natList (s.drop 2).toString).map .str
  else none

def handleCheckKey (ws : List String) (orig : Bool) : Option String := do
  let au ← arg ws "au"
  let pfx ← Bytes.ofHex (← arg ws "pfx")
  let k ← parseKey (← arg ws "k")
  let r := if orig then Key.checkKeyOrig (au = "1") pfx k else Key.checkKey (au = "1") pfx k
  pure (match r with
    | .ok w => s!"ok {Bytes.toHex w}"
    | .error _ => "err IllegalInput")

def handleSplitWs (ws : List String) : Option String := do
  let b ← Bytes.ofHex (← arg ws "b")
  pure ("ok " ++ ",".intercalate ((Key.pySplitWs b).map Bytes.toHex))

def handleUtf8 (ws : List String) : Option String := do
  let cps ← natList (← arg ws "cps")
  pure ("ok " ++ Bytes.toHex (Key.encodeUtf8 cps))

/-! ### C11 -/
/-- `getnode seed=<n> key=<cps> nodes=<cps>;<cps>;…` with score = murmurPy(node ++ "-" ++ key) -/
def cpsToString (cps : List Nat) : String := String.ofList (cps.map Char.ofNat)

def handleGetNode (ws : List String) : Option String := do
  let seed ← (← arg ws "seed").toNat?
  let key ← natList (← arg ws "key")
  let ns ← arg ws "nodes"
  let nodes ← if ns = "-" then some [] else (ns.splitOn ";").mapM natList
  let names := nodes.map cpsToString
  let mode := (arg ws "hash").getD "murmur"
  let score : String → Nat := fun n =>
    let cps := (n.toList.map Char.toNat) ++ [45] ++ key
    if mode = "const" then 7
    else if mode = "two" then (Murmur.murmurPy cps seed) % 2
    else Murmur.murmurPy cps seed
  let w := Rendezvous.getNode score names
  pure (match w with
    | some n => "ok " ++ ",".intercalate (n.toList.map (toString ∘ Char.toNat))
    | none => "ok NONE")

/-- `nodename spec=s:<cps>` or `spec=t:<cps>:<port>` -/
def handleNodeName (ws : List String) : Option String := do
  let sp ← arg ws "spec"
  let spec ← match sp.splitOn ":" with
    | ["s", cps] => (natList cps).map fun l => ServerSpec.Spec.str (l.map Char.ofNat)
    | ["t", cps, port] => do pure (ServerSpec.Spec.tuple ((← natList cps).map Char.ofNat) (← port.toNat?))
    | _ => none
  pure (match ServerSpec.nodeName spec with
    | some n => "ok " ++ (if n = [] then "-" else ",".intercalate (n.map (toString ∘ Char.toNat)))
    | none => "ok NONE")

/-! ### C03 readers -/
def parseEv (s : String) : Option Readers.Ev :=
  if s = "i" then some .eintr
  else if s.startsWith "d:" then (Bytes.ofHex (s.drop 2).toString).map .data
  else if s.startsWith "x:" then (s.drop 2).toString.toNat?.map .err
  else none

def evsOf (ws : List String) : Option (List Readers.Ev) :=
  (ws.filter (·.startsWith "ev=")).mapM fun w => parseEv (w.drop 3).toString

def showEvLeft (evs : List Readers.Ev) : String := toString (Readers.joinData evs).length

def showReader (r : Except Readers.Err (Bytes × Bytes × List Readers.Ev)) : String :=
  match r with
  | .ok (rest, x, evs) => s!"ok item={Bytes.toHex x} rest={Bytes.toHex (rest ++ Readers.joinData evs)}"
  | .error .unexpectedClose => "err UnexpectedClose"
  | .error (.sock c) => s!"err Sock{c}"
  | .error .indexError => "err IndexError"

def handleReader (ws : List String) : Option String := do
  let which ← arg ws "r"
  let buf ← Bytes.ofHex (← arg ws "buf")
  let evs ← evsOf ws
  match which with
  | "line" => pure (showReader (Readers.readline [] buf evs))
  | "value" => do
    let size ← (← arg ws "size").toInt?
    pure (showReader (Readers.readvalue buf size evs))
  | "segment" => do
    let tok ← Bytes.ofHex (← arg ws "tok")
    pure (showReader (Readers.readsegment tok buf evs))
  | "segment-orig" => do
    let tok ← Bytes.ofHex (← arg ws "tok")
    pure (showReader (Readers.readsegmentOrig tok buf evs))
  | _ => none

/-! ### L3 client / server (stateful) -/
structure DState where
  servers : List (Nat × AbsMap.St) := []

def DState.get (d : DState) (i : Nat) : AbsMap.St := ((d.servers.find? (·.1 = i)).map (·.2)).getD {}
def DState.set (d : DState) (i : Nat) (s : AbsMap.St) : DState :=
  { d with servers := (i, s) :: d.servers.filter (·.1 ≠ i) }

def parseVal (s : String) : Option Wire.Val :=
  if s.startsWith "b:" then (Bytes.ofHex (s.drop 2).toString).map .bytes
  else if s.startsWith "t:" then (natList (s.drop 2).toString).map .text
  else if s.startsWith "i:" then (s.drop 2).toString.toInt?.map .int
  else none

def parseIntArg (s : String) : Option Wire.IntArg :=
  if s = "x" then some .nonInt
  else if s.startsWith "i:" then (s.drop 2).toString.toInt?.map .int
  else none

def parseCasArg (s : String) : Option (Option Wire.CasArg) :=
  if s = "n" then some none
  else if s = "o" then some (some .other)
  else if s.startsWith "i:" then (s.drop 2).toString.toInt?.map fun i => some (.int i)
  else if s.startsWith "s:" then (natList (s.drop 2).toString).map fun l => some (.str l)
  else if s.startsWith "b:" then (Bytes.ofHex (s.drop 2).toString).map fun b => some (.bytes b)
  else none

def parseOptBool (s : String) : Option (Option Bool) :=
  if s = "n" then some none else if s = "1" then some (some true) else if s = "0" then some (some false) else none

def parseKeys (s : String) : Option (List Key.K) :=
  if s = "-" then some [] else (s.splitOn "|").mapM parseKey

def parseItems (s : String) : Option (List (Key.K × Wire.Val)) :=
  if s = "-" then some [] else (s.splitOn "|").mapM fun it =>
    match it.splitOn "~" with
    | [k, v] => do pure ((← parseKey k), (← parseVal v))
    | _ => none

def parseSVerb (s : String) : Option Wire.SVerb :=
  match s with
  | "set" => some .set | "add" => some .add | "replace" => some .replace | "append" => some .append
  | "prepend" => some .prepend | "cas" => some .cas | _ => none

def parseCfg (ws : List String) : Option (Wire.Cfg × Bool) := do
  let c ← arg ws "cfg"          -- `<au><utf8><dnr><ign>:<pfxhex>`
  match c.splitOn ":" with
  | [fl, pfx] =>
    match fl.toList with
    | [a, u, d, i] => do
      let p ← Bytes.ofHex pfx
      pure ({ au := a = '1', utf8 := u = '1', defaultNoreply := d = '1', pfx := p }, i = '1')
    | _ => none
  | _ => none

def parseCall (ws : List String) : Option Client.Call := do
  let op ← arg ws "op"
  match op with
  | "get" => do pure (.get (← parseKey (← arg ws "k")))
  | "gets" => do pure (.gets (← parseKey (← arg ws "k")))
  | "gat" => do pure (.gat (← parseKey (← arg ws "k")) (← parseIntArg (← arg ws "e")))
  | "gats" => do pure (.gats (← parseKey (← arg ws "k")) (← parseIntArg (← arg ws "e")))
  | "get_many" => do pure (.getMany (← parseKeys (← arg ws "ks")))
  | "gets_many" => do pure (.getsMany (← parseKeys (← arg ws "ks")))
  | "set_many" => do
    let fl ← arg ws "fl"
    let flags ← if fl = "n" then some none else fl.toInt?.map some
    pure (.setMany (← parseItems (← arg ws "items")) (← parseIntArg (← arg ws "e")) (← parseOptBool (← arg ws "nr")) flags)
  | "delete" => do pure (.delete (← parseKey (← arg ws "k")) (← parseOptBool (← arg ws "nr")))
  | "delete_many" => do pure (.deleteMany (← parseKeys (← arg ws "ks")) (← parseOptBool (← arg ws "nr")))
  | "incr" => do pure (.arith true (← parseKey (← arg ws "k")) (← parseIntArg (← arg ws "d")) ((← arg ws "nr") = "1"))
  | "decr" => do pure (.arith false (← parseKey (← arg ws "k")) (← parseIntArg (← arg ws "d")) ((← arg ws "nr") = "1"))
  | "touch" => do pure (.touch (← parseKey (← arg ws "k")) (← parseIntArg (← arg ws "e")) (← parseOptBool (← arg ws "nr")))
  | "flush_all" => do pure (.flushAll (← parseIntArg (← arg ws "d")) (← parseOptBool (← arg ws "nr")))
  | "version" => some .version
  | "quit" => some .quit
  | "raw" => do pure (.raw (← Bytes.ofHex (← arg ws "cmd")) (← Bytes.ofHex (← arg ws "tok")))
  | "stats" => do pure (.stats (← parseKeys (← arg ws "args")))
  | "cache_memlimit" => do pure (.cacheMemlimit (← parseIntArg (← arg ws "m")))
  | "shutdown" => do
    let g ← arg ws "g"
    if g = "1" then some (.shutdown true) else if g = "0" then some (.shutdown false) else none
  | v => do
    let verb ← parseSVerb v
    let fl ← arg ws "fl"
    let flags ← if fl = "n" then some none else fl.toInt?.map some
    pure (.store verb (← parseKey (← arg ws "k")) (← parseVal (← arg ws "v")) (← parseIntArg (← arg ws "e"))
      (← parseOptBool (← arg ws "nr")) flags (← parseCasArg (← arg ws "cas")))

def showKey : Key.K → String
  | .bytes b => "b:" ++ Bytes.toHex b
  | .str cps => "s:" ++ (if cps = [] then "-" else ",".intercalate (cps.map toString))

def showExc : Exchange.Exc → String
  | .illegalInput => "IllegalInput" | .unknownCommand => "UnknownCommand"
  | .clientError _ => "ClientError" | .serverError _ => "ServerError"
  | .unknownError _ => "UnknownError" | .unexpectedClose => "UnexpectedClose"
  | .sock c => s!"Sock{c}" | .valueError => "ValueError" | .keyError => "KeyError" | .indexError => "IndexError"

def sortStrs (l : List String) : List String := (l.toArray.qsort (· < ·)).toList

def showRes : Client.Res → String
  | .none => "None" | .bool true => "True" | .bool false => "False"
  | .int i => s!"int:{i}" | .bytes b => "b:" ++ Bytes.toHex b
  | .dflt => "DEFAULT" | .dfltPair => "DEFAULTPAIR"
  | .pair v c => s!"pair:{Bytes.toHex v}:{Bytes.toHex c}"
  | .dict kvs => "dict:{" ++ ";".intercalate (sortStrs (kvs.map fun (k, v) => showKey k ++ "=" ++ Bytes.toHex v)) ++ "}"
  | .casDict kvs => "casdict:{" ++ ";".intercalate (sortStrs (kvs.map fun (k, v, c) => showKey k ++ "=" ++ Bytes.toHex v ++ "/" ++ Bytes.toHex c)) ++ "}"
  | .keys ks => "keys:[" ++ ";".intercalate (ks.map showKey) ++ "]"
  -- `Client.stats` = the raw dict of `_fetch_cmd` followed by the type conversion (Pymc/Model/Stats.lean); the interpreter's digit limit is the default 4300
  | .stats kvs => "stats:{" ++ ";".intercalate (sortStrs ((Stats.statsConvert 4300 kvs).map fun (k, v) => showKey k ++ "=" ++ showSVal v)) ++ "}"

def showExcept (r : Except Exchange.Exc Client.Res) : String :=
  match r with
  | .ok v => showRes v
  | .error e => "exc:" ++ showExc e

def parseExcOpt (s : String) : Option (Option Exchange.Exc) :=
  if s = "-" then some none
  else if s.startsWith "x" then (s.drop 1).toString.toNat?.map fun c => some (.sock c)
  else none

/-- `call cfg=… open=<0|1> op=… [cf=x<code>] [sf=x<code>] ev=…` : one public call under a socket script -/
def handleCall (ws : List String) : Option String := do
  let (cfg, ign) ← parseCfg ws
  let isOpen := (← arg ws "open") = "1"
  let c ← parseCall ws
  let cf ← parseExcOpt ((arg ws "cf").getD "-")
  let sf ← parseExcOpt ((arg ws "sf").getD "-")
  let evs ← evsOf ws
  let o := Client.call cfg ign isOpen c { connectFails := cf, sendFails := sf, evs := evs }
  let sent := match o.sent with | some b => Bytes.toHex b | none => "none"
  pure s!"ok res={showExcept o.res} open={if o.sockOpen then 1 else 0} conn={if o.connected then 1 else 0} sent={sent} unread={(Readers.joinData o.unread).length}"

def showReq : Wire.Req → String
  | .store verb k f e dta c nr =>
    s!"store {String.fromUTF8! ⟨verb.name.toArray⟩} key={Bytes.toHex k} flags={f} exp={e} data={Bytes.toHex dta} cas={match c with | some n => toString n | none => "-"} nr={if nr then 1 else 0}"
  | .fetch verb e ks =>
    s!"fetch {String.fromUTF8! ⟨verb.name.toArray⟩} exp={match e with | some n => toString n | none => "-"} keys={",".intercalate (ks.map Bytes.toHex)}"
  | .delete k nr => s!"delete key={Bytes.toHex k} nr={if nr then 1 else 0}"
  | .arith inc k dl nr => s!"{if inc then "incr" else "decr"} key={Bytes.toHex k} delta={dl} nr={if nr then 1 else 0}"
  | .touch k e nr => s!"touch key={Bytes.toHex k} exp={e} nr={if nr then 1 else 0}"
  | .flushAll dl nr => s!"flush_all delay={match dl with | some n => toString n | none => "-"} nr={if nr then 1 else 0}"
  | .version => "version"
  | .quit => "quit"

def handleStateful (d : DState) (ws : List String) : Option (DState × String) :=
  match ws with
  | "srv.reset" :: rest => do
    let i ← (← arg rest "id").toNat?
    pure (d.set i {}, "ok")
  | "srv.advance" :: rest => do
    let i ← (← arg rest "id").toNat?
    let dt ← (← arg rest "dt").toNat?
    pure (d.set i (AbsMap.advance (d.get i) dt), "ok")
  | "srv.feed" :: rest => do
    let i ← (← arg rest "id").toNat?
    let data ← Bytes.ofHex (← arg rest "data")
    match Server.feed (d.get i) data with
    | some (s', out) => pure (d.set i s', "ok " ++ Bytes.toHex out)
    | none => pure (d, "ok MALFORMED")
  | "srv.parse" :: rest => do
    let data ← Bytes.ofHex (← arg rest "data")
    match Wire.parseAll data.length data with
    | some reqs => pure (d, "ok " ++ (if reqs = [] then "EMPTY" else " ; ".intercalate (reqs.map showReq)))
    | none => pure (d, "ok MALFORMED")
  | "spec.call" :: rest => do
    let i ← (← arg rest "id").toNat?
    let (cfg, _) ← parseCfg rest
    let c ← parseCall rest
    let (s', r) := ApiSpec.spec cfg (d.get i) c
    pure (d.set i s', s!"ok res={showExcept r}")
  | "cs.call" :: rest => do
    let i ← (← arg rest "id").toNat?
    let (cfg, _) ← parseCfg rest
    let c ← parseCall rest
    let (s', r, clean) := Client.onServer cfg (d.get i) c
    pure (d.set i s', s!"ok res={showExcept r} clean={if clean then 1 else 0}")
  | _ => none

/-! ### C06 -/
def showConnEv : Conn.Ev → String
  | .created id a => s!"created:{id}:{a}"
  | .wrapped w r => s!"wrapped:{w}:{r}"
  | .nodelay id => s!"nodelay:{id}"
  | .settimeout id .connect => s!"toc:{id}"
  | .settimeout id .io => s!"toi:{id}"
  | .keepalive id => s!"ka:{id}"
  | .connect id a => s!"connect:{id}:{a}"
  | .close id => s!"close:{id}"
  | .assign id => s!"assign:{id}"
  | .unassign => "unassign"

def showConnErr : Conn.Err → String
  | .gai => "gai" | .socket a => s!"socket:{a}" | .nodelay a => s!"nodelay:{a}" | .wrap a => s!"wrap:{a}"
  | .settimeout => "settimeout" | .keepalive => "keepalive" | .connect => "connect"

/-- `conn cfg=<unix><nodelay><tls><keepalive> naddr=N fail=a,b,… prev=<id|none> next=<n> [orig=1]` -/
def handleConn (ws : List String) : Option String := do
  let c ← arg ws "cfg"
  let cfg : Conn.Cfg ← match c.toList with
    | [u, n, t, k] => some { unix := u = '1', noDelay := n = '1', tls := t = '1', keepalive := k = '1' }
    | _ => none
  let naddr ← (← arg ws "naddr").toNat?
  let f ← arg ws "fail"
  let fails := if f = "-" then [] else f.splitOn ","
  let idxs : String → List Nat := fun pre =>
    fails.filterMap fun x => if x.startsWith (pre ++ ":") then (x.drop (pre.length + 1)).toString.toNat? else none
  let p : Conn.Plan := {
    naddr := naddr, gai := fails.contains "gai",
    socket := fun i => (idxs "socket").contains i, nodelay := fun i => (idxs "nodelay").contains i,
    wrap := fun i => (idxs "wrap").contains i,
    settimeoutConnect := fails.contains "toc", keepalive := fails.contains "ka", connect := fails.contains "connect",
    settimeoutIo := fails.contains "toi" }
  let prev ← arg ws "prev"
  let next ← (← arg ws "next").toNat?
  let st : Conn.St := { sock := prev.toNat?, next := next }
  let (st', r, log) := if (arg ws "orig") = some "1" then Conn.connectOrig cfg p st else Conn.connect cfg p st
  let res := match r with | .ok _ => "ok" | .error e => "err:" ++ showConnErr e
  let sock := match st'.sock with | some s => toString s | none => "none"
  pure s!"ok res={res} sock={sock} next={st'.next} leaked={(Conn.leaked log st'.sock).length} log={",".intercalate (log.map showConnEv)}"

/-! ### C13: `failover cfg=<ra>,<rt>,<dt>,<0|1> n=<servers> t0=<t> ev=<now>/<oserr>/<other>/<c|g|s>/<keys> …` -/
def handleFailover (ws : List String) : Option String := do
  let c ← natList (← arg ws "cfg")
  let cfg : Failover.Cfg ← match c with
    | [ra, rt, dt, ign] => some ⟨ra, rt, dt, ign = 1⟩
    | _ => none
  let n ← (← arg ws "n").toNat?
  let t0 ← (← arg ws "t0").toNat?
  let evs := (ws.filter (·.startsWith "ev=")).map fun w => (w.drop 3).toString
  let ls ← Failover.runTraceText cfg n t0 evs
  pure ("ok " ++ " || ".intercalate ls)

/-! ### C08: `pool max=<n> progs=<useOk,quitOk;clear> sched=<t:label,…>` -/
def handlePool (ws : List String) : Option String := do
  let mx ← (← arg ws "max").toNat?
  let progs ← PoolConc.parsePrograms (← arg ws "progs")
  let sc ← arg ws "sched"
  let sched ← PoolConc.parseSchedule (if sc = "-" then [] else sc.splitOn ",")
  pure ("ok " ++ " | ".intercalate (PoolConc.runSchedule mx progs sched))

/-- run whole Ops of the listed threads one after the other; the idle test takes its answers from `idle` -/
partial def poolRunOp (s : PoolConc.State) (t : Nat) (idle : List PoolConc.Label) (first : Bool) (acc : List String) :
    PoolConc.State × List PoolConc.Label × List String :=
  if !first && (s.th t).pc == .idle then (s, idle, acc) else
  -- the creator's failure is an input too: taken when the next recorded answer is `createFail` at the creation point
  let failNow := (match (s.th t).pc, idle with
    | .getCreate _, .createFail :: _ => true
    | _, _ => false)
  if failNow then
    (match PoolConc.stepE s t .createFail with
     | some (s', evs) => poolRunOp s' t idle.tail false (acc ++ evs.map PoolConc.Event.render)
     | none => (s, idle, acc ++ [s!"stuck {t}"])) else
  -- a recorded successful creation (`k`, parsed as `tau`) is consumed at the creation point
  let idle := (match (s.th t).pc, idle with
    | .getCreate _, .tau :: rest => rest
    | _, _ => idle)
  match PoolConc.stepE s t .tau with
  | some (s', evs) => poolRunOp s' t idle false (acc ++ evs.map PoolConc.Event.render)
  | none =>
    match idle with
    | l :: rest =>
      (match PoolConc.stepE s t l with
       | some (s', evs) => poolRunOp s' t rest false (acc ++ evs.map PoolConc.Event.render)
       | none => (s, idle, acc ++ [s!"stuck {t}"]))
    | [] => (s, idle, acc ++ [s!"stuck {t}"])

/-- `pool.seq max=<n> progs=… order=<t,t,…> idle=<e|f,…>` -/
def handlePoolSeq (ws : List String) : Option String := do
  let mx ← (← arg ws "max").toNat?
  let progs ← PoolConc.parsePrograms (← arg ws "progs")
  let order ← natList (← arg ws "order")
  let idl ← arg ws "idle"
  let parseLbl : String → Option PoolConc.Label := fun x =>
    if x = "e" then some .expired else (if x = "f" then some .fresh else (if x = "c" then some .createFail else (if x = "k" then some .tau else none)))
  let idle ← (if idl = "-" then some [] else (idl.splitOn ",").mapM parseLbl)
  let (_, _, out) := order.foldl (fun (acc : PoolConc.State × List PoolConc.Label × List String) t =>
    let (s, i, o) := acc
    if (s.th t).done then (s, i, o ++ [s!"done {t}"]) else
    let (s', i', o') := poolRunOp s t i true []
    (s', i', o ++ o')) (PoolConc.init progs mx, idle, [])
  pure ("ok " ++ " | ".intercalate out)

/-- validate an interleaved event trace of the real pool against the micro-step model:
`pool.validate max=<n> progs=… trace=<tid>:<event_with_underscores>,…` -/
def poolValidate (s : PoolConc.State) (owed : List (Nat × List String)) : List (Nat × String) → Nat → String
  | [], n =>
    if owed.all (·.2.isEmpty) then s!"ok valid steps={n}" else "ok INVALID end-of-trace with events owed by the model"
  | (t, ev) :: rest, n =>
    let q := ((owed.find? (·.1 = t)).map (·.2)).getD []
    match q with
    | e :: q' =>
      if e = ev then poolValidate s ((t, q') :: owed.filter (·.1 ≠ t)) rest n
      else s!"ok INVALID at {n}: thread {t} did `{ev}`, the model's current step owes `{e}`"
    | [] =>
      let tryL := fun (l : PoolConc.Label) =>
        match PoolConc.stepE s t l with
        | some (s', evs) =>
          let rs := evs.map PoolConc.Event.render
          if rs.head? = some ev then some (s', rs.drop 1) else none
        | none => none
      match (tryL .tau).orElse (fun _ => (tryL .fresh).orElse (fun _ => (tryL .expired).orElse (fun _ => tryL .createFail))) with
      | some (s', more) => poolValidate s' ((t, more) :: owed.filter (·.1 ≠ t)) rest (n + 1)
      | none => s!"ok INVALID at {n}: thread {t} did `{ev}`, which no enabled model step of that thread produces"

def handlePoolValidate (ws : List String) : Option String := do
  let mx ← (← arg ws "max").toNat?
  let progs ← PoolConc.parsePrograms (← arg ws "progs")
  let tr ← arg ws "trace"
  let trace ← if tr = "-" then some [] else (tr.splitOn ",").mapM fun x =>
    (match x.splitOn ":" with
    | [t, e] => t.toNat?.map fun tn => (tn, e.replace "~" " ")
    | _ => none)
  pure (poolValidate (PoolConc.init progs mx) [] trace 0)

/-- validate an interleaved trace of the real pool WITH clock values and stamps against the timed micro-step model
(`Pymc/Model/PoolConcTimed.lean`): `pool.validate.timed max=<n> idle=<timeout> [outside=1] progs=… trace=<tid>:<event>,…`;
events are those of `pool.validate` plus `tick~<d>` (the clock advances), `clock~<v>` (a call of `_idle_clock()` returned `v`)
and `stamp~<o>~<v>` (`o._last_used = v`); `outside=1` selects the variant that stamps after leaving the lock. -/
def handlePoolValidateTimed (ws : List String) : Option String := do
  let mx ← (← arg ws "max").toNat?
  let idle ← (← arg ws "idle").toNat?
  let outside := (arg ws "outside") = some "1"
  let progs ← PoolConc.parsePrograms (← arg ws "progs")
  let tr ← arg ws "trace"
  let trace ← if tr = "-" then some [] else (tr.splitOn ",").mapM fun x =>
    (match x.splitOn ":" with
    | [t, e] => t.toNat?.map fun tn => (tn, e.replace "~" " ")
    | _ => none)
  pure (PoolConcT.validate outside (PoolConcT.initT progs mx idle) [] trace 0)

/-! ### C09: `pooled cfg=<max>,<idle> evs=<now>:<ok|fail1|fail0|swal1|swal0|rej|quitOk|quitFail>,…` -/
def handlePooled (ws : List String) : Option String := do
  let c ← natList (← arg ws "cfg")
  let cfg : Pooled.Cfg ← match c with | [m, i] => some ⟨m, i⟩ | _ => none
  let es ← arg ws "evs"
  let evs ← if es = "-" then some [] else (es.splitOn ",").mapM fun x =>
    (match x.splitOn ":" with
    | [t, f, b] => do
      let tn ← t.toNat?
      let fn ← f.toNat?
      let body ← (match b with
        | "ok" => some Pooled.Body.ok
        | "fail1" => some (Pooled.Body.fail true) | "fail0" => some (Pooled.Body.fail false)
        | "swal1" => some (Pooled.Body.failSwallowed true) | "swal0" => some (Pooled.Body.failSwallowed false)
        | "rej" => some Pooled.Body.rejected
        | "quitOk" => some Pooled.Body.quitOk
        | "quitFail1" => some (Pooled.Body.quitFail true) | "quitFail0" => some (Pooled.Body.quitFail false) | _ => none)
      pure (tn, fn, body)
    | _ => none)
  let (st, us) := Pooled.runT cfg {} evs
  let showO := fun (o : Option Nat) => match o with | some i => toString i | none => "-"
  let obs := ",".intercalate (us.map fun u => showO u.client ++ "/" ++ showO u.io)
  let free := ",".intercalate (st.free.map fun c => toString c.id ++ "/" ++ showO c.conn)
  pure s!"ok obs=[{obs}] free=[{free}] closed=[{",".intercalate (st.closed.map toString)}] out={st.used.length}"

/-! ### C01/C09: `PooledClient ∘ Client` (`Pymc/Model/PooledCall.lean`), a whole history in one line (stateless)

`pooledcall cfg=<au><utf8><dnr><ign>:<pfxhex> pool=<max>,<idle> <call> | <call> | …`

* `cfg=` as for `call`; its `<ign>` flag is the `ignore_exc` of the `PooledClient` (inner clients never ignore);
* `pool=` is `max_pool_size,pool_idle_timeout` (ticks; `0` = never expires);
* the calls are separated by a token `|`; each `<call>` is `op=… <arguments of the op> [cf=x<code>] [sf=x<code>]
  [t=<checkout>,<release>] ev=… ev=…` with the tokens of the `call` command (no `open=`: whether the inner client has
  a socket is decided by the pool); `t=` defaults to `0,0`.

Reply: `ok <obs> | <obs> | … ; free=[<id>/<conn>/<open>/<events left>,…] closed=[…] out=<checked out>` with one `<obs>` per
call: `res=<result token of call, or exc:TooManyObjects> client=<id|-> io=<conn|-> conn=<conn held afterwards|->
open=<0|1> unread=<bytes left in the pipe of that client's socket, 0 if it has none> cons=<tags of the consumed recv() results>`. -/
def splitOnTok (ws : List String) (sep : String) : List (List String) :=
  ws.foldr (fun w acc =>
    if w = sep then [] :: acc
    else match acc with
      | [] => [[w]]
      | h :: t => (w :: h) :: t) [[]]

def handlePooledCall (ws : List String) : Option String := do
  let (cfg, ign) ← parseCfg ws
  let pl ← natList (← arg ws "pool")
  let pcfg : Pooled.Cfg ← match pl with | [m, i] => some ⟨m, i⟩ | _ => none
  let calls ← (splitOnTok ws "|").mapM fun seg => do
    let c ← parseCall seg
    let cf ← parseExcOpt ((arg seg "cf").getD "-")
    let sf ← parseExcOpt ((arg seg "sf").getD "-")
    let evs ← evsOf seg
    let t ← natList ((arg seg "t").getD "0,0")
    let (now, fin) ← match t with | [a, b] => some (a, b) | _ => none
    pure ((c, ({ connectFails := cf, sendFails := sf, evs := evs } : Exchange.Script), now, fin) : PooledCall.PCall)
  let (st, obs) := PooledCall.runP cfg pcfg ign {} 0 calls
  let showO := fun (o : Option Nat) => match o with | some i => toString i | none => "-"
  let showOb := fun (ob : PooledCall.PObs) =>
    let res := match ob.res with | some r => showExcept r | none => "exc:TooManyObjects"
    let unread := if !ob.sockOpenAfter then 0 else match ob.step with
      | some stp => (Readers.joinData (stp.leftover.map fun (te : Framing.TEv) => te.2)).length
      | none => 0
    let cons := match ob.step with
      | some stp => if stp.consumed = [] then "-" else ",".intercalate (stp.consumed.map fun (te : Framing.TEv) => toString te.1)
      | none => "-"
    s!"res={res} client={showO ob.client} io={showO ob.io} conn={showO ob.connAfter} open={if ob.sockOpenAfter then 1 else 0} unread={unread} cons={cons}"
  let free := ",".intercalate (st.free.map fun c =>
    s!"{c.id}/{showO c.conn}/{if c.sockOpen then 1 else 0}/{c.pipe.length}")
  pure s!"ok {" | ".intercalate (obs.map showOb)} ; free=[{free}] closed=[{",".intercalate (st.closed.map toString)}] out={st.used.length}"

/-! ### C01/C13: `HashClient ∘ Client` (`Pymc/Model/HashCall.lean`, `Pymc/Model/HashCallMany.lean`), a whole history in one line (stateless)

`hashcall cfg=<au><utf8><dnr><ign>:<pfxhex> fo=<retry_attempts>,<retry_timeout>,<dead_timeout> n=<servers> t0=<t> <call> | <call> | …`

* `cfg=` as for `call` (configuration of the inner clients); its `<ign>` flag is the `ignore_exc` of the `HashClient`
  (inner clients never ignore);
* servers are `0 … n-1`, the `HashClient` is constructed at time `t0`;
* the calls are separated by a token `|`; a single-key `<call>` is `rk=<s,s,…> t=<now> op=… <arguments of the op>
  [cf=x<code>] [sf=x<code>] ev=… ev=…` with the tokens of the `call` command; `rk=` is the routing key: the preference
  order of the servers for the key (`Failover.prefRoute`; `-` = no preference: the first node in rotation);
* a `get_many` / `gets_many` `<call>` is `op=hget_many gets=<0|1> t=<now> keys=<rk>~<key>|<rk>~<key>|… (or `-`)
  [s<i>.cf=x<code>] [s<i>.sf=x<code>] s<i>.ev=… …`: every key with its routing key, and per server `i` the script of its
  connection during the call;
* a `set_many` `<call>` is `op=hset_many t=<now> items=<rk>~<key>~<value>|… (or `-`) e=<expire: i:<int>|x> nr=<n|0|1>
  fl=<n|int> [s<i>.cf=x<code>] [s<i>.sf=x<code>] s<i>.ev=… …`: every item with its routing key (keys and values as for
  `op=set_many` of the `call` command), the arguments handed through to the inner `set_many`, and per server `i` the
  script of its connection during the call (whatever batch is sent to it); the result token is
  `keys:[<failed key>;…]`, in the order in which `HashClient.set_many` builds the list;
* a `delete_many` `<call>` is `op=hdelete_many t=<now> nr=<n|0|1> keys=<rk>~<key>|… (or `-`) [k<j>.cf=x<code>]
  [k<j>.sf=x<code>] k<j>.ev=… …`: `k<j>.` prefixes the script of the connection contacted for key number `j` (from 0) —
  `delete_many` is a loop of single-key `delete`s, the same server may be contacted several times; `srv=` / `client=` /
  `cons=` list one entry per `_run_cmd` that reached `_safely_run_func`;
* a broadcast `<call>` (`Pymc/Model/HashBroadcast.lean`) is `op=hflush_all t=<now> d=<delay: i:<int>|x> nr=<n|0|1>
  [s<i>.cf=x<code>] [s<i>.sf=x<code>] s<i>.ev=… …`, `op=hquit t=<now> [s<i>.cf=…] [s<i>.sf=…] s<i>.ev=… …` or
  `op=hclose t=<now>`: per server `i` the script of its connection during the call (`close` has none); the result token
  is `None`, `exc:<class>` for an exception of an inner client that escaped, `exc:BookkeepingValueError` /
  `exc:BookkeepingKeyError` for an exception of the failover bookkeeping itself (`remove_node` / `dict.pop`); `srv=` lists
  the servers handed to `_safely_run_func`, in order, `client=` per such server the client object on which the function
  was called (`-`: not called).

Examples:
`hashcall cfg=0000: fo=0,1,5 n=2 t0=0 rk=0,1 t=0 op=get k=b:6b cf=x61 | rk=0,1 t=1 op=get k=b:6b ev=d:454e440d0a`
`hashcall cfg=0001: fo=0,1,5 n=2 t0=0 rk=0,1 t=0 op=get k=b:6b cf=x61 | op=hflush_all t=1 d=i:0 nr=0 s0.cf=x61 s1.ev=d:4f4b0d0a | op=hquit t=2 | op=hclose t=3`
`hashcall cfg=0000: fo=1,1,5 n=2 t0=0 op=hget_many gets=0 t=0 keys=0,1~b:6b|1,0~b:7a s0.ev=d:454e440d0a s1.cf=x61`
`hashcall cfg=0001: fo=1,1,5 n=2 t0=0 op=hset_many t=0 items=0,1~b:6b~b:76|1,0~b:7a~b:77 e=i:0 nr=0 fl=n s0.cf=x61 s1.ev=d:53544f5245440d0a`
`hashcall cfg=0000: fo=1,1,5 n=2 t0=0 op=hdelete_many t=0 nr=0 keys=0,1~b:6b|0,1~b:7a k0.ev=d:44454c455445440d0a k1.ev=d:4e4f545f464f554e440d0a`

Reply: `ok <obs> | <obs> | …` with one `<obs>` per call:
`res=<result token|exc:…> srv=<servers handed to _safely_run_func, `+`-separated|-> client=<client object invoked per such
server, `-` if not contacted|-> nodes=[…] failed=[s:attempts@t,…] dead=[s@t,…] ldc=<t>
clients=[<server>:<object>:<open>:<bytes unread>,…] cons=<tags of the consumed recv() results, per inner call `+`-separated>`
(bookkeeping state and registered client objects after the call). -/
def handleHashCall (ws : List String) : Option String := do
  let (cfg, ign) ← parseCfg ws
  let fo ← natList (← arg ws "fo")
  let fcfg : Failover.Cfg ← match fo with | [ra, rt, dt] => some ⟨ra, rt, dt, ign⟩ | _ => none
  let n ← (← arg ws "n").toNat?
  let t0 ← (← arg ws "t0").toNat?
  let parseScript := fun (seg : List String) => do
    let cf ← parseExcOpt ((arg seg "cf").getD "-")
    let sf ← parseExcOpt ((arg seg "sf").getD "-")
    let evs ← evsOf seg
    pure ({ connectFails := cf, sendFails := sf, evs := evs } : Exchange.Script)
  let calls ← (splitOnTok ws "|").mapM fun seg => do
    let now ← (← arg seg "t").toNat?
    if (arg seg "op") = some "hget_many" then
      let gets := (← arg seg "gets") = "1"
      let kstr ← arg seg "keys"
      let keys ← if kstr = "-" then some [] else (kstr.splitOn "|").mapM fun it =>
        (match it.splitOn "~" with
        | [r, k] => do pure ((← natList r), (← parseKey k))
        | _ => none)
      let scripts ← (List.range n).mapM fun i =>
        let pre := s!"s{i}."
        (parseScript ((seg.filter (·.startsWith pre)).map fun w => (w.drop pre.length).toString)).map fun sc => (i, sc)
      let lookup : Nat → Exchange.Script := fun s => ((scripts.find? (·.1 = s)).map (·.2)).getD {}
      pure ((.keyed { op := .getMany gets keys lookup, now := now } : HashCall.BCall (List Nat)), HashCall.defaultRes .version)
    else if (arg seg "op") = some "hset_many" then
      let istr ← arg seg "items"
      let items ← if istr = "-" then some [] else (istr.splitOn "|").mapM fun it =>
        (match it.splitOn "~" with
        | [r, k, v] => do pure ((← natList r), (← parseKey k), (← parseVal v))
        | _ => none)
      let fl ← arg seg "fl"
      let flags ← if fl = "n" then some none else fl.toInt?.map some
      let e ← parseIntArg (← arg seg "e")
      let nr ← parseOptBool (← arg seg "nr")
      let scripts ← (List.range n).mapM fun i =>
        let pre := s!"s{i}."
        (parseScript ((seg.filter (·.startsWith pre)).map fun w => (w.drop pre.length).toString)).map fun sc => (i, sc)
      let lookup : Nat → Exchange.Script := fun s => ((scripts.find? (·.1 = s)).map (·.2)).getD {}
      pure ((.keyed { op := .setMany items e nr flags (fun s _ => lookup s), now := now } : HashCall.BCall (List Nat)),
        HashCall.defaultRes .version)
    else if (arg seg "op") = some "hdelete_many" then
      let kstr ← arg seg "keys"
      let keys ← if kstr = "-" then some [] else (kstr.splitOn "|").mapM fun it =>
        (match it.splitOn "~" with
        | [r, k] => do pure ((← natList r), (← parseKey k))
        | _ => none)
      let nr ← parseOptBool (← arg seg "nr")
      let keys ← (keys.zipIdx).mapM fun ((r, k), j) =>
        let pre := s!"k{j}."
        (parseScript ((seg.filter (·.startsWith pre)).map fun w => (w.drop pre.length).toString)).map fun sc => (r, k, sc)
      pure ((.keyed { op := .deleteMany keys nr, now := now } : HashCall.BCall (List Nat)), HashCall.defaultRes .version)
    else if (arg seg "op") = some "hflush_all" ∨ (arg seg "op") = some "hquit" ∨ (arg seg "op") = some "hclose" then
      let bop : HashCall.BOp ←
        if (arg seg "op") = some "hflush_all" then
          (do pure (HashCall.BOp.flushAll (← parseIntArg (← arg seg "d")) (← parseOptBool (← arg seg "nr"))))
        else if (arg seg "op") = some "hquit" then some HashCall.BOp.quit
        else some HashCall.BOp.close
      let scripts ← (List.range n).mapM fun i =>
        let pre := s!"s{i}."
        (parseScript ((seg.filter (·.startsWith pre)).map fun w => (w.drop pre.length).toString)).map fun sc => (i, sc)
      let lookup : Nat → Exchange.Script := fun s => ((scripts.find? (·.1 = s)).map (·.2)).getD {}
      pure ((.broadcast bop lookup now : HashCall.BCall (List Nat)), HashCall.defaultRes .version)
    else
      let c ← parseCall seg
      let sc ← parseScript seg
      let rk ← natList (← arg seg "rk")
      pure ((.keyed { op := .cmd rk c sc, now := now } : HashCall.BCall (List Nat)), HashCall.defaultRes c)
  let showO := fun (o : Option Nat) => match o with | some i => toString i | none => "-"
  let rec go (st : HashCall.St) (k : Nat) (cs : List (HashCall.BCall (List Nat) × Client.Res)) (acc : List String) : List String :=
    match cs with
    | [] => acc.reverse
    | (bc, dv) :: rest =>
      let (st1, xob) := HashCall.callB cfg fcfg Failover.prefRoute st k bc
      let plus := fun (l : List String) => if l = [] then "-" else "+".intercalate l
      let cons := plus (xob.steps.map fun stp =>
        if stp.consumed = [] then "-" else ",".intercalate (stp.consumed.map fun (te : Framing.TEv) => toString te.1))
      let clients := ",".intercalate (st1.clients.map fun (s, cl) =>
        let unread := if cl.sockOpen then (Readers.joinData (cl.pipe.map fun (te : Framing.TEv) => te.2)).length else 0
        s!"{s}:{cl.id}:{if cl.sockOpen then 1 else 0}:{unread}")
      let (res, srv, client) := match xob with
        | .keyed ob =>
          (match ob.res with
            | .value r => showRes r
            | .default => showRes dv
            | .raised _ e => "exc:" ++ showExc e
            | .allDown => "exc:MemcacheError"
            | .illegalKey => "exc:IllegalInput"
            | .internalError => "exc:Internal",
           plus (ob.batches.map fun (b : HashCall.BatchObs) => toString b.server), plus (ob.batches.map fun (b : HashCall.BatchObs) => showO b.client))
        | .broadcast ob =>
          (match ob.res with
            | .done => "None"
            | .raised _ e => "exc:" ++ showExc e
            | .bookkeeping _ .valueError => "exc:BookkeepingValueError"
            | .bookkeeping _ .keyError => "exc:BookkeepingKeyError",
           plus (ob.visits.map fun (v : HashCall.BObs) => toString v.server),
           plus (ob.visits.map fun (v : HashCall.BObs) => if v.invoked then toString v.client else "-"))
      let line := s!"res={res} srv={srv} client={client} {Failover.showState st1.fo} clients=[{clients}] cons={cons}"
      go st1 (k + 1) rest (line :: acc)
  pure ("ok " ++ " | ".intercalate (go (HashCall.init (List.range n) t0) 0 calls []))

/-! ### C01/C09/C13: `HashClient ∘ PooledClient ∘ Client` (`Pymc/Model/HashPooledCall.lean`, `Pymc/Model/HashPooledCallMany.lean`), a whole history in one line (stateless)

`hashpooledcall cfg=<au><utf8><dnr><ign>:<pfxhex> fo=<retry_attempts>,<retry_timeout>,<dead_timeout> pool=<max>,<idle> n=<servers> t0=<t> <call> | <call> | …`

* `cfg=`, `fo=`, `n=`, `t0=` as for `hashcall` (`<ign>` is the `ignore_exc` of the `HashClient`; neither the `PooledClient`s nor
  their inner clients ignore); `pool=` is `max_pool_size,pool_idle_timeout` of every `PooledClient` as for `pooledcall`;
* a single-key `<call>` is that of `hashcall`: `rk=<s,s,…> t=<now>[,<release>] op=… <arguments of the op> [cf=x<code>]
  [sf=x<code>] ev=… ev=…`; `t=` is the time of the call (bookkeeping clock and every pool check-out of the call), optionally
  followed by the time at which the pools release their inner clients (default: the same);
* the multi-key `<call>`s are those of `hashcall`, with the same `t=<now>[,<release>]`:
  `op=hget_many gets=<0|1> t=… keys=<rk>~<key>|… (or `-`) [s<i>.cf=x<code>] [s<i>.sf=x<code>] s<i>.ev=… …`,
  `op=hset_many t=… items=<rk>~<key>~<value>|… (or `-`) e=<i:<int>|x> nr=<n|0|1> fl=<n|int> [s<i>.cf=…] [s<i>.sf=…] s<i>.ev=… …`,
  `op=hdelete_many t=… nr=<n|0|1> keys=<rk>~<key>|… (or `-`) [k<j>.cf=…] [k<j>.sf=…] k<j>.ev=… …`
  (`s<i>.` prefixes the script of the connection used for server `i` during the call, `k<j>.` that of the connection used
  for key number `j` of a `delete_many`).

Examples:
`hashpooledcall cfg=0000: fo=0,1,5 pool=1,0 n=2 t0=0 rk=0,1 t=0 op=get k=b:6b ev=d:454e440d0a | rk=0,1 t=1 op=get k=b:6b sf=x32 | rk=0,1 t=8 op=get k=b:6b ev=d:454e440d0a`
`hashpooledcall cfg=0001: fo=1,1,5 pool=2,3 n=2 t0=0 op=hget_many gets=0 t=0,1 keys=0,1~b:6b|1,0~b:7a s0.ev=d:454e440d0a s1.cf=x61 | op=hset_many t=2 items=0,1~b:6b~b:76|1,0~b:7a~b:77 e=i:0 nr=0 fl=n s0.ev=d:53544f5245440d0a s1.ev=d:53544f5245440d0a | op=hdelete_many t=3 nr=0 keys=0,1~b:6b|0,1~b:7a k0.ev=d:44454c455445440d0a k1.ev=d:4e4f545f464f554e440d0a`

Reply: `ok <obs> | <obs> | …` with one `<obs>` per call:
`res=<result token|exc:…> srv=<servers handed to _safely_run_func / _safely_run_set_many, `+`-separated|-> pc=<number of the
PooledClient invoked per such server, `-` if its pool was not asked|-> inner=<inner client that served, numbered per pool, per such
server|-> io=<connection, numbered per pool, per such server|-> nodes=[…] failed=[…] dead=[…] ldc=<t>
pools=[<server>:<PooledClient>:<idle clients: id/conn/open/bytes unread, `;`-separated or ->:<closed connections, `.`-separated or ->:<checked out>,…]
cons=<tags of the consumed recv() results, per inner call `+`-separated>` (bookkeeping state and registered pools after the call;
for a single-key call every list has at most one entry). -/
def handleHashPooledCall (ws : List String) : Option String := do
  let (cfg, ign) ← parseCfg ws
  let fo ← natList (← arg ws "fo")
  let fcfg : Failover.Cfg ← match fo with | [ra, rt, dt] => some ⟨ra, rt, dt, ign⟩ | _ => none
  let pl ← natList (← arg ws "pool")
  let pcfg : Pooled.Cfg ← match pl with | [m, i] => some ⟨m, i⟩ | _ => none
  let n ← (← arg ws "n").toNat?
  let t0 ← (← arg ws "t0").toNat?
  let parseScript := fun (seg : List String) => do
    let cf ← parseExcOpt ((arg seg "cf").getD "-")
    let sf ← parseExcOpt ((arg seg "sf").getD "-")
    let evs ← evsOf seg
    pure ({ connectFails := cf, sendFails := sf, evs := evs } : Exchange.Script)
  let serverScripts := fun (seg : List String) => do
    let scripts ← (List.range n).mapM fun i =>
      let pre := s!"s{i}."
      (parseScript ((seg.filter (·.startsWith pre)).map fun w => (w.drop pre.length).toString)).map fun sc => (i, sc)
    pure (fun (s : Nat) => ((scripts.find? (·.1 = s)).map (·.2)).getD ({} : Exchange.Script))
  let calls ← (splitOnTok ws "|").mapM fun seg => do
    let t ← natList (← arg seg "t")
    let (now, fin) ← match t with | [a] => some (a, a) | [a, b] => some (a, b) | _ => none
    if (arg seg "op") = some "hget_many" then
      let gets := (← arg seg "gets") = "1"
      let kstr ← arg seg "keys"
      let keys ← if kstr = "-" then some [] else (kstr.splitOn "|").mapM fun it =>
        (match it.splitOn "~" with
        | [r, k] => do pure ((← natList r), (← parseKey k))
        | _ => none)
      let lookup ← serverScripts seg
      pure (({ op := .getMany gets keys lookup, now := now, fin := fin } : HashPooledCall.MPCall (List Nat)),
        HashCall.defaultRes .version)
    else if (arg seg "op") = some "hset_many" then
      let istr ← arg seg "items"
      let items ← if istr = "-" then some [] else (istr.splitOn "|").mapM fun it =>
        (match it.splitOn "~" with
        | [r, k, v] => do pure ((← natList r), (← parseKey k), (← parseVal v))
        | _ => none)
      let fl ← arg seg "fl"
      let flags ← if fl = "n" then some none else fl.toInt?.map some
      let e ← parseIntArg (← arg seg "e")
      let nr ← parseOptBool (← arg seg "nr")
      let lookup ← serverScripts seg
      pure (({ op := .setMany items e nr flags (fun s _ => lookup s), now := now, fin := fin } : HashPooledCall.MPCall (List Nat)),
        HashCall.defaultRes .version)
    else if (arg seg "op") = some "hdelete_many" then
      let kstr ← arg seg "keys"
      let keys ← if kstr = "-" then some [] else (kstr.splitOn "|").mapM fun it =>
        (match it.splitOn "~" with
        | [r, k] => do pure ((← natList r), (← parseKey k))
        | _ => none)
      let nr ← parseOptBool (← arg seg "nr")
      let keys ← (keys.zipIdx).mapM fun ((r, k), j) =>
        let pre := s!"k{j}."
        (parseScript ((seg.filter (·.startsWith pre)).map fun w => (w.drop pre.length).toString)).map fun sc => (r, k, sc)
      pure (({ op := .deleteMany keys nr, now := now, fin := fin } : HashPooledCall.MPCall (List Nat)),
        HashCall.defaultRes .version)
    else
      let c ← parseCall seg
      let sc ← parseScript seg
      let rk ← natList (← arg seg "rk")
      pure (({ op := .cmd rk c sc, now := now, fin := fin } : HashPooledCall.MPCall (List Nat)), HashCall.defaultRes c)
  let showO := fun (o : Option Nat) => match o with | some i => toString i | none => "-"
  let dash := fun (sep : String) (l : List String) => if l = [] then "-" else sep.intercalate l
  let rec go (st : HashPooledCall.St pcfg) (k : Nat) (cs : List (HashPooledCall.MPCall (List Nat) × Client.Res)) (acc : List String) :
      List String :=
    match cs with
    | [] => acc.reverse
    | (mc, dv) :: rest =>
      let (st1, ob) := HashPooledCall.callMP cfg pcfg fcfg Failover.prefRoute st k mc
      let res := match ob.res with
        | .value r => showRes r
        | .default => showRes dv
        | .raised _ (.inner e) => "exc:" ++ showExc e
        | .raised _ .tooManyObjects => "exc:TooManyObjects"
        | .allDown => "exc:MemcacheError"
        | .illegalKey => "exc:IllegalInput"
        | .internalError => "exc:Internal"
      let pos : List (Option PooledCall.PObs) := ob.batches.map fun b => b.inner
      let cons := dash "+" ((HashPooledCall.stepsOf ob).map fun stp =>
        if stp.consumed = [] then "-" else ",".intercalate (stp.consumed.map fun (te : Framing.TEv) => toString te.1))
      let pools := ",".intercalate (st1.clients.map fun (s, x) =>
        let p : PooledCall.St := x.st
        let free := dash ";" (p.free.map fun cl =>
          let unread := if cl.sockOpen then (Readers.joinData (cl.pipe.map fun (te : Framing.TEv) => te.2)).length else 0
          s!"{cl.id}/{showO cl.conn}/{if cl.sockOpen then 1 else 0}/{unread}")
        s!"{s}:{x.id}:{free}:{dash "." (p.closed.map toString)}:{p.used.length}")
      let line := s!"res={res} srv={dash "+" (ob.batches.map fun b => toString b.server)} pc={dash "+" (ob.batches.map fun b => showO b.obj)} inner={dash "+" (pos.map fun po => showO (po.bind (·.client)))} io={dash "+" (pos.map fun po => showO (po.bind (·.io)))} {Failover.showState st1.fo} pools=[{pools}] cons={cons}"
      go st1 (k + 1) rest (line :: acc)
  pure ("ok " ++ " | ".intercalate (go (HashPooledCall.init pcfg (List.range n) t0) 0 calls []))

/-! ### C12: `batches seed=<n> nodes=<cps>;<cps> keys=<routing cps>~<key>|…` -/
def handleBatches (ws : List String) : Option String := do
  let seed ← (← arg ws "seed").toNat?
  let ns ← arg ws "nodes"
  let nodes ← if ns = "-" then some [] else (ns.splitOn ";").mapM natList
  let names := nodes.map cpsToString
  let kstr ← arg ws "keys"
  let ks ← if kstr = "-" then some [] else (kstr.splitOn "|").mapM fun it =>
    (match it.splitOn "~" with
    | [r, k] => do pure (⟨cpsToString (← natList r), (← parseKey k)⟩ : HashRoute.HKey)
    | _ => none)
  let score : String → String → Nat := fun n r =>
    Murmur.murmurPy ((n.toList.map Char.toNat) ++ [45] ++ (r.toList.map Char.toNat)) seed
  let bs := HashRoute.batchesOf score names ks
  pure ("ok " ++ ";".intercalate (bs.map fun (s, b) =>
    ",".intercalate (s.toList.map (toString ∘ Char.toNat)) ++ ":" ++ "|".intercalate (b.map showKey)))

/-! ### C19 -/
def handleAwsDiscover (ws : List String) : Option String := do
  let vpc := (← arg ws "vpc") = "1"
  let reply ← Bytes.ofHex (← arg ws "reply")
  pure (match Aws.discover vpc reply with
    | some l => "ok " ++ (if l = [] then "EMPTY" else ",".intercalate (l.map fun (a, p) => Bytes.toHex a ++ ":" ++ Bytes.toHex p))
    | none => "ok NONE")

/-- `aws.reconf advs=<name,name;name,…>` (names hex): the rotation after each reconfiguration from the empty state -/
def handleAwsReconf (ws : List String) : Option String := do
  let a ← arg ws "advs"
  let advs ← (a.splitOn ";").mapM fun l => if l = "-" then some [] else (l.splitOn ",").mapM Bytes.ofHex
  let orig := (arg ws "orig") = some "1"
  let step := if orig then Aws.reconfigureOrig else Aws.reconfigure
  let st := advs.foldl step {}
  let sh := fun (l : List Bytes) => ",".intercalate (l.map Bytes.toHex)
  pure s!"ok nodes=[{sh st.nodes}] clients=[{sh st.clients}] closed=[{sh st.closed}]"

/-! ### C15 -/
def dummyCodec (plen zlen : Nat) : Serde.Codec :=
  { utf8Enc := fun _ => List.replicate plen 0, utf8Dec := fun _ => none,
    pickle := fun _ => List.replicate plen 0, unpickle := fun _ => none,
    compress := fun _ => List.replicate zlen 0, decompress := fun _ => none }

def handleSerde (ws : List String) : Option String := do
  let kind ← arg ws "kind"
  let v ← arg ws "val"
  let pv : Serde.PyVal ← match kind with
    | "b" => (Bytes.ofHex (v.drop 2).toString).map .bytes
    | "i" => (v.drop 2).toString.toInt?.map .int
    | "s" => some (.str [])
    | "o" => some (.other 0)
    | _ => none
  let (p, flags) := Serde.serialize (dummyCodec 0 0) pv
  let pk := match p with | .bytes _ => "bytes" | .text _ => "text"
  let wire := if (kind = "b" || kind = "i") && (Serde.transmit p).length < 5000 then " wire=" ++ Bytes.toHex (Serde.transmit p) else ""
  pure s!"ok flags={flags} payload={pk}{wire}"

def handleCSerde (ws : List String) : Option String := do
  let kind ← arg ws "kind"
  let thr ← (← arg ws "thr").toNat?
  let plen ← (← arg ws "plen").toNat?
  let zlen ← (← arg ws "zlen").toNat?
  let pv : Serde.PyVal ← match kind with
    | "b" => some (.bytes (List.replicate plen 0))
    | "i" => some (.int ((10 : Int) ^ (plen - 1)))
    | "s" => some (.str [])
    | "o" => some (.other 0)
    | _ => none
  let (_, flags) := Serde.cserialize (dummyCodec plen zlen) thr pv
  pure s!"ok flags={flags} compressed={if flags &&& 8 ≠ 0 then 1 else 0}"

/-- `deser flags=<n> val=<hex> utf8ok=<0|1> pickleok=<0|1>`: the flag cascade of `python_memcache_deserializer` on a stored item of ANY flags
(items written by other clients included); whether the bytes decode / unpickle is the harness's input (codecs are parameters of the model) -/
def handleDeser (ws : List String) : Option String := do
  let flags ← (← arg ws "flags").toNat?
  let v ← Bytes.ofHex (← arg ws "val")
  let u := (← arg ws "utf8ok") = "1"
  let k := (← arg ws "pickleok") = "1"
  let c : Serde.Codec := { dummyCodec 0 0 with utf8Dec := fun _ => if u then some [] else none, unpickle := fun _ => if k then some 0 else none }
  pure (match Serde.deserialize c v flags with
    | .ok (.val (.bytes b)) => "ok bytes:" ++ Bytes.toHex b
    | .ok (.val (.str _)) => "ok str"
    | .ok (.val (.int i)) => s!"ok int:{i}"
    | .ok (.val (.other _)) => "ok other"
    | .ok .none_ => "ok None"
    | .error .decode => "err decode"
    | .error .valueError => "err value")

/-- `statconv <lim> <key> <hex value>`: the converter `Client.stats` applies to that key, applied to that value -/
def handleStatConv : List String → Option String
  | [lim, k, v] => do
    let l ← lim.toNat?
    let key ← parseKey k
    let b ← Bytes.ofHex v
    pure s!"ok {(Stats.converterOf key).name} {showSVal (Stats.convert l (Stats.converterOf key) b)}"
  | _ => none

def handle (ws : List String) : String :=
  let r : Option String :=
    match ws with
    | "murmur" :: seed :: cps => do
      let s ← seed.toNat?
      let d ← natArgs cps
      pure s!"ok {Murmur.murmurPy d s}"
    | ["murmurref", seed, hex] => do
      let s ← seed.toNat?
      let d ← Bytes.ofHex hex
      pure s!"ok {(Murmur.murmurRef (d.map fun b => BitVec.ofNat 8 b.toNat) (BitVec.ofNat 32 s)).toNat}"
    | "retry" :: rest => handleRetry rest
    | "retryctor" :: rest => handleRetryCtor rest
    | "fallback" :: rest => handleFallback rest
    | "fallbackhist" :: rest => handleFallbackHist rest
    | "retrycalls" :: rest => handleRetryCalls rest
    | "checkkey" :: rest => handleCheckKey rest false
    | "checkkey-orig" :: rest => handleCheckKey rest true
    | "splitws" :: rest => handleSplitWs rest
    | "utf8" :: rest => handleUtf8 rest
    | "getnode" :: rest => handleGetNode rest
    | "nodename" :: rest => handleNodeName rest
    | "reader" :: rest => handleReader rest
    | "call" :: rest => handleCall rest
    | "conn" :: rest => handleConn rest
    | "failover" :: rest => handleFailover rest
    | "pool" :: rest => handlePool rest
    | "pooled" :: rest => handlePooled rest
    | "pooledcall" :: rest => handlePooledCall rest
    | "hashcall" :: rest => handleHashCall rest
    | "hashpooledcall" :: rest => handleHashPooledCall rest
    | "serde" :: rest => handleSerde rest
    | "aws.discover" :: rest => handleAwsDiscover rest
    | "aws.reconf" :: rest => handleAwsReconf rest
    | "batches" :: rest => handleBatches rest
    | "cserde" :: rest => handleCSerde rest
    | "pool.seq" :: rest => handlePoolSeq rest
    | "statconv" :: rest => handleStatConv rest
    | "deser" :: rest => handleDeser rest
    | "pool.validate" :: rest => handlePoolValidate rest
    | "pool.validate.timed" :: rest => handlePoolValidateTimed rest
    | _ => none
  r.getD "bad-op"

partial def loop (i o : IO.FS.Stream) (d : DState) : IO Unit := do
  let line ← i.getLine
  if line.isEmpty then return ()
  let ws := (line.trimAscii.toString.splitOn " ").filter (· ≠ "")
  match handleStateful d ws with
  | some (d', out) =>
    o.putStrLn out
    loop i o d'
  | none =>
    o.putStrLn (handle ws)
    loop i o d

def main : IO Unit := do
  let i ← IO.getStdin
  let o ← IO.getStdout
  loop i o {}
