"""dev helper: which library lines does NO check's correspondence run execute?  Reads coverage.library_lines_executed from evidence/*.json (written by
the checks themselves), intersects the not-executed sets over all checks and prints the remaining lines with their source text (for DESIGN.md §3)."""
import glob, json, os
REPO = os.environ.get("VERIF_REPO", "/repo")
never = {}
for f in sorted(glob.glob(os.path.join(os.path.dirname(os.path.abspath(__file__)), "evidence", "C*.json"))):
    cov = json.load(open(f))["coverage"].get("library_lines_executed", {})
    for path, v in cov.items():
        if not isinstance(v, dict) or "not_executed" not in v:
            continue
        miss = set()
        for r in v["not_executed"]:
            a, _, b = r.partition("-")
            # a range may skip up to two non-executable lines; keep only its ends and what lies between (filtered below by later checks' sets)
            miss |= set(range(int(a), int(b or a) + 1))
        never[path] = miss if path not in never else never[path] & miss
tot = 0
for path, miss in sorted(never.items()):
    src = open(os.path.join(REPO, path)).read().split("\n")
    lines = [ln for ln in sorted(miss) if src[ln - 1].strip() and not src[ln - 1].strip().startswith("#")]
    if lines:
        print(f"{path}: {len(lines)} line(s) no check executes")
        for ln in lines:
            print(f"   {ln}: {src[ln - 1].strip()[:110]}")
        tot += len(lines)
print("total", tot)
