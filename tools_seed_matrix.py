"""dev helper: which checks catch which seeded change.  For every seeded/<id>/patch.diff: scratch worktree of /repo, apply, run the
quick tier of ALL 20 checks with --no-lean (property monitors only: fast, no lake lock, no evidence written) in parallel with VERIF_REPO
pointing at the worktree, record the exit codes in seeded/matrix.json, remove the worktree."""
import concurrent.futures as cf
import glob, json, os, subprocess, sys, tempfile

VERIF = os.path.dirname(os.path.abspath(__file__))
PROPS = ["C%02d" % i for i in range(1, 21)]
only = sys.argv[1:]
out_path = os.path.join(VERIF, "seeded", "matrix.json")
matrix = json.load(open(out_path)) if os.path.exists(out_path) else {}


def run_check(prop, wt):
    try:
        c = subprocess.run([VERIF + "/check", prop, "--tier", "quick", "--no-lean"], capture_output=True, text=True, cwd=VERIF, timeout=1800,
                           env=dict(os.environ, VERIF_REPO=wt, PYTHONDONTWRITEBYTECODE="1"))
        return prop, c.returncode
    except subprocess.TimeoutExpired:
        return prop, 2


for patch in sorted(glob.glob(VERIF + "/seeded/C*/patch.diff")):
    sid = os.path.basename(os.path.dirname(patch))
    if only and sid not in only and sid.split("-")[0] not in only:
        continue
    wt = tempfile.mkdtemp(prefix="matwt-", dir="/tmp")
    os.rmdir(wt)
    subprocess.run(["git", "-C", "/repo", "worktree", "add", "-q", "--detach", wt, "HEAD"], check=True)
    try:
        if subprocess.run(["git", "-C", wt, "apply", patch]).returncode:
            matrix[sid] = {"error": "patch does not apply"}
            continue
        with cf.ThreadPoolExecutor(max_workers=12) as ex:
            res = dict(ex.map(lambda p: run_check(p, wt), PROPS))
        matrix[sid] = {"caught_by": [p for p in PROPS if res[p] == 1], "internal_error": [p for p in PROPS if res[p] not in (0, 1)]}
        print(sid, matrix[sid], flush=True)
    finally:
        subprocess.run(["git", "-C", "/repo", "worktree", "remove", "--force", wt])
    json.dump(matrix, open(out_path, "w"), indent=1, sort_keys=True)
