"""C17 — RetryingClient retries exactly as configured.
Real `RetryingClient` around a scripted inner client, `retrying.sleep` patched; compared with the Lean
model `Retrying.retry`/`ctorOk` and judged by a model-independent monitor on the call/sleep logs.
Calls on a reused client are compared call by call with `retry` and as a whole history with `Retrying.runCalls` on the object built by
`Retrying.construct` (driver `retrycalls`); disagreements there name `C17_calls_independent` / `C17_empty_filter_is_no_filter`."""
import itertools

from common import Ctx, import_repo


class Base(Exception): pass
class Sub1(Base): pass
class Sub2(Base): pass
class Unrelated(Exception): pass

CLS = {0: Base, 1: Sub1, 2: Sub2, 9: Unrelated}
IDS = {v: k for k, v in CLS.items()}
SUB = "1>0,2>0"
ALPHA = ["ok", 0, 1, 2, 9]


FALSY = ["value", None, 0, b"", False, {}]


def mk_exc(o, n, m):
    """the exception a scripted attempt raises.  Every other one is *chained*: raised "from" errors of all the other classes (`__cause__`) and while yet
    another was being handled (`__context__`) - the way errors surface from a real client.  Only the class of the exception raised is what the filters are about."""
    e = CLS[o](n)
    if (n + m) % 2 == 0:
        prev = e
        for c in [c for c in CLS if c != o]:
            x = CLS[c](n)
            prev.__cause__ = x
            prev.__context__ = CLS[c](n)
            prev = x
    return e


def Val(n, kind):
    """the object a successful scripted call returns; the monitor compares by identity, the model comparison by position"""
    return ("val", n) if kind == "value" else kind if kind is None or kind is False else kind


class Inner:
    def __init__(self, script, log):
        self.script, self.log, self.i = script, log, 0

    def op(self, *a, **kw):
        i = self.i
        self.i += 1
        self.log.append(("call", a, tuple(sorted(kw.items()))))
        if i >= len(self.script):
            raise RuntimeError("script exhausted")
        o = self.script[i]
        if o[0] == "ok":
            return o[1]
        raise o[1]


class Ghost(Inner):
    """`ghost` is reachable through __getattribute__ but is not listed by dir()"""
    def __getattribute__(self, name):
        if name == "ghost":
            return object.__getattribute__(self, "op")
        return object.__getattribute__(self, name)


class InstAttr(Inner):
    """the operation is an attribute of the INSTANCE (a helper attached to a client object, a facade holding bound methods): listed by dir(obj)"""
    def __init__(self, script, log):
        super().__init__(script, log)
        self.op_inst = self.op


def subsets(xs):
    for r in range(len(xs) + 1):
        yield from itertools.combinations(xs, r)


def run_real(retrying, attempts, rf, dnr, spelling, seq, delay, method="op", inner_cls=Inner, empty="omit", more=()):
    """one RetryingClient, one call (and then the calls `more` on the same object: list of outcome sequences) -> the first call's
    (outcome, result, log, script); the later calls' tuples are appended to `run_real.later`"""
    log = []
    script = []
    for n, o in enumerate(seq):
        # what a successful call returns varies: a value, and the results a cache legitimately gives for a miss / an empty item (None, 0, b"", False, {})
        script.append(("ok", Val(n, FALSY[(n + len(seq) + attempts) % len(FALSY)])) if o == "ok" else ("exc", mk_exc(o, n, len(seq))))
    inner = inner_cls(script, log)
    retrying.sleep = lambda d: log.append(("sleep", d))
    conv = {"tuple": tuple, "list": list, "set": set}[spelling]
    kw = {}
    if rf is not None or empty == "empty":
        kw["retry_for"] = conv(CLS[c] for c in (rf or ()))          # an empty collection is a way of saying "no filter", like None
    if dnr is not None or empty == "empty":
        kw["do_not_retry_for"] = conv(CLS[c] for c in (dnr or ()))
    run_real.later = []
    try:
        rc = retrying.RetryingClient(inner, attempts=attempts, retry_delay=delay, **kw)
    except ValueError:
        return ("ctor-ValueError", None, log, script)
    try:
        r = getattr(rc, method)("k", x=1)
        first = ("value", r, log, script)
    except Exception as e:
        first = ("raised", e, log, script)
    for seq2 in more:
        log2 = []
        script2 = [("ok", Val(n, FALSY[(n + len(seq2)) % len(FALSY)])) if o == "ok" else ("exc", mk_exc(o, n, len(seq2))) for n, o in enumerate(seq2)]
        inner.script, inner.log, inner.i = script2, log2, 0
        retrying.sleep = lambda d, _l=log2: _l.append(("sleep", d))
        try:
            r2 = getattr(rc, method)("k", x=1)
            run_real.later.append(("value", r2, log2, script2))
        except Exception as e:
            run_real.later.append(("raised", e, log2, script2))
    return first


def monitor(ctx, case, attempts, rf, dnr, seq, delay, outcome, res, log, script, in_dir=True):
    calls = [e for e in log if e[0] == "call"]
    sleeps = [e for e in log if e[0] == "sleep"]
    inv = len(calls)

    def retryable(c):
        exc = CLS[c]
        ok = (not rf or issubclass(exc, tuple(CLS[x] for x in rf)))
        ok = ok and not (dnr and issubclass(exc, tuple(CLS[x] for x in dnr)))
        return ok and in_dir
    bad = None
    if inv < 1 or inv > attempts:
        bad = f"{inv} invocations with attempts={attempts}"
    elif len(sleeps) != inv - 1 or any(s[1] != delay for s in sleeps):
        bad = f"{len(sleeps)} sleeps for {inv} invocations (delay args {[s[1] for s in sleeps]})"
    elif [e[0] for e in log] != ["call"] + ["sleep", "call"] * (inv - 1):
        bad = "sleep not strictly between consecutive attempts"
    elif any(c[1] != ("k",) or c[2] != (("x", 1),) for c in calls):
        bad = "arguments not forwarded unchanged"
    else:
        for j in range(inv - 1):
            if seq[j] == "ok" or not retryable(seq[j]):
                bad = f"retried after outcome {seq[j]} at attempt {j}"
        last = seq[inv - 1]
        if last == "ok":
            if outcome != "value" or res is not script[inv - 1][1]:
                bad = "first successful result not returned unchanged"
        else:
            if outcome != "raised" or res is not script[inv - 1][1]:
                bad = "exception of the final attempt not re-raised"
            elif retryable(last) and inv < attempts:
                bad = "gave up before `attempts` although the exception is retryable"
    if bad:
        ctx.violation(bad, case)


def model_line(attempts, rf, dnr, seq, in_dir=True):
    def nl(x):
        return ",".join(map(str, x)) if x else "-"
    scr = ",".join(f"o:{n}" if o == "ok" else f"e:{o}:{n}" for n, o in enumerate(seq)) or "-"
    return f"retry attempts={attempts} rf={nl(rf or [])} dnr={nl(dnr or [])} dir={int(in_dir)} sub={SUB} script={scr}"


def model_history_line(attempts, rf, dnr, spelling, empty, seqs):
    """one object built by `Retrying.construct` (an empty collection is passed as such, not as None), the whole history run by `Retrying.runCalls`;
    the scripted method `op` is method 1 and is listed by dir()"""
    def nl(x):
        return ",".join(map(str, x)) if x else "-"
    rfk = spelling if (rf is not None or empty == "empty") else "none"
    dk = spelling if (dnr is not None or empty == "empty") else "none"
    calls = ";".join("1@" + (",".join(f"o:{n}" if o == "ok" else f"e:{o}:{n}" for n, o in enumerate(seq)) or "-") for seq in seqs)
    return (f"retrycalls attempts={attempts} rfk={rfk} rf={nl(rf or [])} dnrk={dk} dnr={nl(dnr or [])} exc=0,1,2,9 dirm=1 sub={SUB} calls={calls}")


def canon_real(outcome, res, log):
    inv = sum(1 for e in log if e[0] == "call")
    sl = sum(1 for e in log if e[0] == "sleep")
    if outcome == "value":
        # successful results are told apart by position: the (inv-1)-th scripted outcome is the one that must have been returned (identity is the monitor's job)
        r = f"value:{inv - 1}"
    else:
        r = f"raised:{IDS[type(res)]}:{res.args[0]}" if type(res) in IDS else f"raised-other:{type(res).__name__}"
    return f"ok res={r} inv={inv} sleeps={sl}"


def main(argv):
    ctx = Ctx("C17", argv)
    ctx.prepare_lean()
    import_repo()
    import pymemcache.client.retrying as retrying
    rng = ctx.rng
    classes = [0, 1, 2, 9]
    cfgs = []
    for rf in subsets(classes):
        for dnr in subsets(classes):
            cfgs.append((list(rf) or None, list(dnr) or None))
    exh_max = 4 if ctx.thorough else 3
    ctx.rule = (f"exhaustive: attempts 1..{exh_max} x all outcome sequences over {{ok,Base,Sub1,Sub2,Unrelated}} of length attempts "
                "x all 256 (retry_for, do_not_retry_for) subset pairs; random for attempts up to 5(7); spellings tuple/list/set; "
                "constructor grid; non-trivial = distinct (config, sequence) that constructs and performs >= 1 call")
    ctx.exhaustive = True
    todo = []
    for attempts in range(1, exh_max + 1):
        for seq in itertools.product(ALPHA, repeat=attempts):
            for rf, dnr in cfgs:
                todo.append((attempts, rf, dnr, seq))
    for _ in range(40000 if ctx.thorough else 4000):
        attempts = rng.choice([4, 5, 5, 6, 7] if ctx.thorough else [4, 5])
        seq = tuple(rng.choice(ALPHA if rng.random() < .5 else [0, 1, 1, 2, 9, "ok"]) for _ in range(attempts))
        rf, dnr = rng.choice(cfgs)
        todo.append((attempts, rf, dnr, seq))
    lines, metas = [], []
    for n, (attempts, rf, dnr, seq) in enumerate(todo):
        spelling = ("tuple", "list", "set")[n % 3]
        delay = (0, 0.5, 3)[n % 3]
        empty = "empty" if (n // 3) % 2 else "omit"
        outcome, res, log, script = run_real(retrying, attempts, rf, dnr, spelling, seq, delay, empty=empty)
        case = {"attempts": attempts, "retry_for": rf, "do_not_retry_for": dnr, "outcomes": list(seq), "spelling": spelling, "empty_filter_given_as": "an empty " + spelling if empty == "empty" else "not given"}
        overlap = bool(rf and dnr and set(rf) & set(dnr))
        if outcome == "ctor-ValueError":
            ctx.case(("ctor", attempts, tuple(rf or ()), tuple(dnr or ())), nontrivial=False)
            ctx.count("ctor-rejected")
            if not overlap:
                ctx.violation("valid configuration rejected at construction", case)
            continue
        if overlap:
            ctx.violation("a class in both retry_for and do_not_retry_for was accepted", case)
            continue
        ctx.case((attempts, tuple(rf or ()), tuple(dnr or ()), seq), sample=case if n % 9973 == 0 else None)
        ctx.count(f"attempts={attempts}")
        ctx.count("outcome:" + outcome)
        monitor(ctx, case, attempts, rf, dnr, seq, delay, outcome, res, log, script)
        lines.append(model_line(attempts, rf, dnr, seq))
        metas.append((case, canon_real(outcome, res, log), (attempts, rf, dnr, spelling, empty, seq, False) if empty == "empty" and (rf is None or dnr is None) else None))
    # several calls on ONE RetryingClient: each call has the whole budget of attempts and sleeps, whatever the calls before it did
    nh = 0
    hlines, hmetas = [], []

    def triage(attempts, rf, dnr, spelling, empty, seq_, model, reused=True):
        """which theorem a disagreement on call `seq_` of a reused client unties: the same call on a FRESH client agrees with the model -> the calls
        before it mattered (C17_calls_independent); it agrees once the empty filter is left out -> an empty filter is not "no filter"
        (C17_empty_filter_is_no_filter); otherwise the single call itself (C17_retry_spec)"""
        try:
            o_, r_, l_, _ = run_real(retrying, attempts, rf, dnr, spelling, seq_, 0.25, empty=empty)
            if reused and o_ != "ctor-ValueError" and canon_real(o_, r_, l_) == model:
                return "C17_calls_independent"
            if empty == "empty" and (rf is None or dnr is None):
                o_, r_, l_, _ = run_real(retrying, attempts, rf, dnr, spelling, seq_, 0.25, empty="omit")
                if o_ != "ctor-ValueError" and canon_real(o_, r_, l_) == model:
                    return "C17_empty_filter_is_no_filter"
        except Exception:
            pass
        return "C17_retry_spec"
    for attempts in (1, 2, 3, 4):
        firsts = list(itertools.product(["ok", 0, 9], repeat=attempts))
        for hi in range(len(firsts) * 3 if ctx.thorough else len(firsts)):
            first = firsts[hi % len(firsts)]
            rf, dnr = ([None, None], [[0], None], [None, [9]], [[0, 9], [1]])[(hi + attempts) % 4]
            more = [tuple(rng.choice(["ok", 0, 0, 1, 9]) for _ in range(attempts)) for _ in range(rng.randrange(1, 5))]
            spelling = ("tuple", "list", "set")[hi % 3]
            empty = "empty" if hi % 2 else "omit"
            outcome, res, log, script = run_real(retrying, attempts, rf, dnr, spelling, first, 0.25, empty=empty, more=more)
            calls_ = [(first, (outcome, res, log, script))] + list(zip(more, run_real.later))
            if outcome != "ctor-ValueError":
                # the whole history at once: the object as constructed (an empty filter given as an empty collection), every call in order
                hlines.append(model_history_line(attempts, rf, dnr, spelling, empty, [first] + more))
                hmetas.append(({"attempts": attempts, "retry_for": rf, "do_not_retry_for": dnr, "one_client_history": [list(x) for x in [first] + more], "spelling": spelling,
                                "empty_filter_given_as": "an empty " + spelling if empty == "empty" else "not given"},
                               [canon_real(o_, r_, l_) for _, (o_, r_, l_, _) in calls_], (attempts, rf, dnr, spelling, empty, [first] + more)))
                ctx.count("histories on a reused client run by the model (runCalls)")
            for ci, (seq_, (o_, r_, l_, sc_)) in enumerate(calls_):
                case = {"attempts": attempts, "retry_for": rf, "do_not_retry_for": dnr, "one_client_history": [list(x) for x in [first] + more][:ci + 1], "call_index": ci, "spelling": spelling,
                        "empty_filter_given_as": "an empty " + spelling if empty == "empty" else "not given"}
                ctx.case(("one-client", attempts, hi, ci, seq_, tuple(map(tuple, more[:ci]))))
                ctx.count("calls on a reused client")
                monitor(ctx, case, attempts, rf, dnr, seq_, 0.25, o_, r_, l_, sc_)
                lines.append(model_line(attempts, rf, dnr, seq_))
                metas.append((case, canon_real(o_, r_, l_), (attempts, rf, dnr, spelling, empty, seq_, True)))
            nh += 1
    # two calls through ONE RetryingClient that overlap in time (clients are shared between threads; here, deterministically, the wrapped method of
    # the outer call makes the inner call through the same object during one of its attempts): each call has its own attempt counter
    class Nesting:
        def __init__(self):
            self.rc = None
            self.cur = None            # the log that receives calls and sleeps at the moment

        def op(self, *a, **kw):
            lg = self.cur
            i = self.i1
            self.i1 += 1
            lg.append(("call", a, tuple(sorted(kw.items()))))
            if i == self.nest_at:
                self.cur = self.log2
                try:
                    self.res2 = ("value", self.rc.op2("k", x=1))
                except Exception as e:
                    self.res2 = ("raised", e)
                self.cur = lg
            o = self.script1[i]
            if o[0] == "ok":
                return o[1]
            raise o[1]

        def op2(self, *a, **kw):
            i = self.i2
            self.i2 += 1
            self.cur.append(("call", a, tuple(sorted(kw.items()))))
            o = self.script2[i]
            if o[0] == "ok":
                return o[1]
            raise o[1]
    for attempts in (2, 3, 4):
        for seq1 in itertools.product(["ok", 0], repeat=attempts):
            for seq2 in itertools.product(["ok", 0], repeat=attempts):
                for nest_at in range(attempts):
                    if nest_at >= len(seq1) or ("ok" in seq1[:nest_at]):
                        continue          # the outer call never reaches that attempt
                    if attempts == 4 and not ctx.thorough and (sum(1 for x_ in seq1 if x_ == "ok") + nest_at) % 2:
                        continue
                    N = Nesting()
                    N.script1 = [("ok", ("val", 1, n_)) if o_ == "ok" else ("exc", Base(n_)) for n_, o_ in enumerate(seq1)]
                    N.script2 = [("ok", ("val", 2, n_)) if o_ == "ok" else ("exc", Sub1(n_)) for n_, o_ in enumerate(seq2)]
                    N.i1 = N.i2 = 0
                    N.nest_at, N.log1, N.log2, N.res2 = nest_at, [], [], None
                    N.cur = N.log1
                    retrying.sleep = lambda d, _N=N: _N.cur.append(("sleep", d))
                    N.rc = retrying.RetryingClient(N, attempts=attempts, retry_delay=0.5)
                    try:
                        res1 = ("value", N.rc.op("k", x=1))
                    except Exception as e:
                        res1 = ("raised", e)
                    ctx.case(("overlapping", attempts, seq1, seq2, nest_at))
                    ctx.count("overlapping calls on one client")
                    for which, seq_, (o_, r_), lg_, sc_ in (("outer", seq1, res1, N.log1, N.script1), ("inner", seq2, N.res2, N.log2, N.script2)):
                        case = {"attempts": attempts, "retry_for": None, "do_not_retry_for": None, "outer_call_outcomes": list(seq1), "inner_call_outcomes": list(seq2),
                                "inner_call_made_during_outer_attempt": nest_at, "judged": which}
                        monitor(ctx, case, attempts, None, None, seq_, 0.5, o_, r_, lg_, sc_)
    # large budgets ("retry every 100 ms for half a minute"): the rule is the same for every value of `attempts`, not only for small ones
    for attempts in (6, 17, 255, 256, 257, 258, 259, 300, 1000, 1025):
        for shape in ("all-fail", "last-succeeds", "middle-succeeds", "not-retryable-late", "first-succeeds"):
            seq = [0] * attempts
            if shape == "last-succeeds":
                seq[-1] = "ok"
            elif shape == "middle-succeeds":
                seq[attempts // 2] = "ok"
            elif shape == "not-retryable-late":
                seq[attempts - 2] = 9
            elif shape == "first-succeeds":
                seq[0] = "ok"
            rf, dnr = (None, [9]) if shape == "not-retryable-late" else ([0], None) if attempts % 2 else (None, None)
            outcome, res, log, script = run_real(retrying, attempts, rf, dnr, "tuple", tuple(seq), 0.1)
            case = {"attempts": attempts, "retry_for": rf, "do_not_retry_for": dnr, "outcomes": shape, "spelling": "tuple"}
            ctx.case(("large-attempts", attempts, shape))
            ctx.count("large attempts")
            monitor(ctx, case, attempts, rf, dnr, tuple(seq), 0.1, outcome, res, log, script)
            lines.append(model_line(attempts, rf, dnr, tuple(seq)))
            metas.append((case, canon_real(outcome, res, log), None))
    # an operation that is an attribute of the wrapped INSTANCE rather than of its class: dir(client) lists it, so it is retried like any other
    for attempts in (1, 2, 3):
        for seq in itertools.product([0, 9, "ok"], repeat=attempts):
            for rf, dnr in ((None, None), ([0], None), (None, [9])):
                outcome, res, log, script = run_real(retrying, attempts, rf, dnr, "tuple", seq, 0.5, method="op_inst", inner_cls=InstAttr)
                case = {"attempts": attempts, "retry_for": rf, "do_not_retry_for": dnr, "outcomes": list(seq), "method_is_an_instance_attribute": True}
                ctx.case(("instance-attribute", attempts, seq, repr(rf), repr(dnr)))
                ctx.count("instance-attribute operations")
                monitor(ctx, case, attempts, rf, dnr, seq, 0.5, outcome, res, log, script)
                lines.append(model_line(attempts, rf, dnr, seq))
                metas.append((case, canon_real(outcome, res, log), None))
    # a method reachable but not listed in dir(): never retried
    for attempts in (1, 2, 3):
        for seq in itertools.product([0, "ok"], repeat=attempts):
            outcome, res, log, script = run_real(retrying, attempts, None, None, "tuple", seq, 0, method="ghost", inner_cls=Ghost)
            case = {"attempts": attempts, "outcomes": list(seq), "method_not_in_dir": True}
            ctx.case(("ghost", attempts, seq), sample=None)
            ctx.count("not-in-dir")
            lines.append(model_line(attempts, None, None, seq, in_dir=False))
            metas.append((case, canon_real(outcome, res, log), None))
    if ctx.lean.build_ok:
        for (case, real, reused), m in zip(metas, ctx.driver.batch(lines)):
            if m != real:
                if reused is None or not reused[-1]:
                    # (an empty collection given where the filter could have been left out: is that what makes the difference?)
                    ctx.disagreement("model retry differs from implementation", dict(case, impl=real, model=m),
                                     theorem="C17_retry_spec" if reused is None else triage(*reused[:-1], m, reused=False))
                else:
                    # a call on a reused client: by C17_calls_independent the model of this one call is all there is
                    ctx.disagreement("a call on a reused client differs from the model of that call alone (each call has the whole budget, whatever came before)",
                                     dict(case, impl=real, model=m), theorem=triage(*reused[:-1], m))
        for (case, reals, (attempts, rf, dnr, spelling, empty, seqs)), m in zip(hmetas, ctx.driver.batch(hlines)):
            models = ["ok " + x.replace(",", " ") for x in m[3:].split("|")] if m.startswith("ok res=") else [m]
            if models != reals:
                ci = next((i for i, (a_, b_) in enumerate(zip(models, reals)) if a_ != b_), 0)
                th = triage(attempts, rf, dnr, spelling, empty, seqs[ci], models[ci]) if len(models) == len(reals) else "C17_calls_length"
                ctx.disagreement("history of calls on one client differs from the model runCalls on the constructed object",
                                 dict(case, call_index=ci, impl=reals, model=models), theorem=th)
    # constructor validation grid
    clines, cmetas = [], []
    kinds = {"none": None, "tuple": tuple, "list": list, "set": set, "other": "str"}
    elems = [[], [0], [0, 1], [50], [0, 50]]   # 50 = not an exception class (int)
    for att in (-1, 0, 1, 2):
        for rk, rfe in itertools.product(kinds, elems):
            for dk, dne in itertools.product(kinds, elems):
                if (rk == "none" and rfe) or (dk == "none" and dne) or (rk == "other" and rfe) or (dk == "other" and dne):
                    continue
                def build(k, e):
                    if k == "none":
                        return None
                    if k == "other":
                        return "Exception"
                    return kinds[k]((CLS.get(c, int) for c in e))
                try:
                    retrying.RetryingClient(Inner([], []), attempts=att, retry_for=build(rk, rfe), do_not_retry_for=build(dk, dne))
                    real = "ok constructed"
                except ValueError:
                    real = "ok ValueError"
                except Exception as e:
                    real = "exc:" + type(e).__name__
                nl = lambda x: ",".join(map(str, x)) if x else "-"
                clines.append(f"retryctor attempts={att} rfk={rk} rf={nl(rfe)} dnrk={dk} dnr={nl(dne)} exc=0,1,2,9")
                case = {"attempts": att, "retry_for": (rk, rfe), "do_not_retry_for": (dk, dne), "impl": real}
                cmetas.append((case, real))
                ctx.case(("ctorgrid", att, rk, tuple(rfe), dk, tuple(dne)), nontrivial=True)
                ctx.count("ctor-grid")
                # monitor: the documented rule
                valid = att >= 1 and 50 not in rfe and 50 not in dne and rk != "other" and dk != "other" \
                    and not (set(rfe) & set(dne))
                if (real == "ok constructed") != valid:
                    ctx.violation("constructor validation differs from the documented rule", case)
    if ctx.lean.build_ok:
        for (case, real), m in zip(cmetas, ctx.driver.batch(clines)):
            if m != real:
                ctx.disagreement("model ctorOk differs from implementation", dict(case, model=m), theorem="C17_validate_spec")
    ctx.assumptions = ["isinstance/issubclass are modelled as an abstract subclass relation", "sleep is the module attribute `retrying.sleep`"]
    ctx.finish()
