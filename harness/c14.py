"""C14 — murmur3_32 equals the reference MurmurHash3 x86_32.
Tie: real `murmur3_32` vs the Lean model `murmurPy` (correspondence) and vs the Lean *specification*
`murmurRef` on byte strings (monitor, independent of the model)."""
import itertools
import os
import subprocess
import sys

from common import Ctx, REPO, hx, import_repo


def gen_cases(ctx):
    rng = ctx.rng
    seeds = [0, 1, 2 ** 31, 2 ** 32 - 1, rng.randrange(2 ** 32)]
    cases = []
    alpha7 = [0, 1, 0x7F, 0x80, 0xFF, ord("a"), ord("-")]
    for n in range(0, 4):
        for t in itertools.product(alpha7, repeat=n):
            cases.append((list(t), seeds[(len(cases)) % len(seeds)], "exh7"))
    for n in range(4, 6):
        for t in itertools.product([0, 0x80, 0xFF], repeat=n):
            cases.append((list(t), seeds[(len(cases)) % len(seeds)], "exh3"))
    reps = 200 if ctx.thorough else 12
    for n in range(0, 65):
        for _ in range(reps):
            cases.append(([rng.randrange(256) for _ in range(n)], rng.choice(seeds), "rand"))
    for n in range(0, 20):
        for s in seeds:
            cases.append(([0x80] * n, s, "hibit"))
            cases.append(([0xFF] * n, s, "ff"))
    # non-byte strings: range + determinism only
    for n in range(0, 12 if not ctx.thorough else 40):
        for _ in range(6):
            cases.append(([rng.choice([0x100, 0x3A9, 0xFFFF, 0x10FFFF, rng.randrange(0x110000)]) if rng.random() < .5
                           else rng.randrange(256) for _ in range(n)], rng.choice(seeds), "nonbyte"))
    # lone surrogates (what os.fsdecode() makes of undecodable bytes) are code points like any other: no encoding step may stumble over them
    for d_ in ([0xDC80], [99, 97, 102, 0xDCE9], [0xD800, 0xDC00], [0xDFFF] * 5, [65, 0xD800, 66, 67, 0xDBFF, 68, 69, 70, 71], [0x10000, 0xDC00, 0x1F600]):
        for s_ in (0, 2 ** 32 - 1):
            cases.append((list(d_), s_, "nonbyte"))
    if ctx.thorough:
        for _ in range(3000):
            n = rng.randrange(0, 300)
            cases.append(([rng.randrange(256) for _ in range(n)], rng.randrange(2 ** 32), "randlong"))
    # long inputs (the length enters the final mix: 2^8, 2^16 and 2^17 boundaries); content is a fixed function of the position, so the
    # length alone replays the case
    for n in [255, 256, 257, 1023, 4099, 65535, 65536, 65537, 70001, 131075] + ([262144, 300001] if ctx.thorough else []):
        for s in (0, 1, 2 ** 32 - 1):
            cases.append(([(i * 131 + 7) % 256 for i in range(n)], s, "long"))
    return cases


def search(ctx):
    """failing-input search after a broken correspondence: compare the implementation with the Lean spec on
    every byte string of length <= 8 over {0,0x80,0xff,'a'} and 20k random ones"""
    from pymemcache.client.murmur3 import murmur3_32
    rng = ctx.rng
    todo = []
    for n in range(0, 8):
        for t in itertools.product([0, 0x80, 0xFF, 97], repeat=n):
            todo.append((list(t), rng.choice([0, 1, 2 ** 32 - 1])))
    for _ in range(20000):
        todo.append(([rng.randrange(256) for _ in range(rng.randrange(0, 70))], rng.randrange(2 ** 32)))
    outs = ctx.driver.batch([f"murmurref {s} {hx(bytes(d))}" for d, s in todo])
    for (d, s), o in zip(todo, outs):
        got = murmur3_32("".join(map(chr, d)), s)
        if o != f"ok {got}":
            ctx.violation("murmur3_32 differs from MurmurHash3_x86_32", {"data": d, "seed": s, "impl": got, "spec": o})
            return True
    return None


def main(argv):
    ctx = Ctx("C14", argv)
    ctx.prepare_lean()
    import_repo()
    from pymemcache.client.murmur3 import murmur3_32
    ctx.rule = ("strings: exhaustive <=3 over 7 symbols and 4..5 over 3 symbols, lengths 0..64 x random bytes, "
                "0x80/0xFF runs of length 0..19, non-byte code points; seeds {0,1,2^31,2^32-1,random}; "
                "non-trivial = distinct (string, seed) with length >= 1")
    cases = gen_cases(ctx)
    lines = []
    for d, s, kind in cases:
        lines.append("murmur %d %s" % (s, " ".join(map(str, d))))
        if kind != "nonbyte":
            lines.append(f"murmurref {s} {hx(bytes(d))}")
    outs = iter(ctx.driver.batch(lines)) if ctx.lean.build_ok else None
    for d, s, kind in cases:
        data = "".join(map(chr, d))
        try:
            got = murmur3_32(data, s)
            got2 = murmur3_32(data, s)
        except Exception as e:
            got = got2 = f"exc:{type(e).__name__}"
        ctx.count("kind:" + kind)
        ctx.count("len%4=" + str(len(d) % 4))
        ctx.case((tuple(d), s), nontrivial=len(d) >= 1,
                 sample={"data": d, "seed": s, "impl": got} if len(d) in (5, 7) else None)
        if len(d) > 80:
            ctx.count("long-inputs")
        case = {"data": d if len(d) <= 80 else {"length": len(d), "byte_at_i": "(i*131+7) % 256"}, "seed": s, "impl": got}
        # monitor (model-independent)
        if not (isinstance(got, int) and 0 <= got < 2 ** 32 and type(got) is int):
            ctx.violation("result is not a 32-bit unsigned integer", case)
        if got != got2:
            ctx.violation("not deterministic within a process", case)
        if outs is not None:
            m = next(outs)
            if m != f"ok {got}":
                ctx.disagreement("model murmurPy differs from implementation", dict(case, model=m),
                                 theorem="C14_murmurPy_eq_ref")
            if kind != "nonbyte":
                r = next(outs)
                if r != f"ok {got}":
                    ctx.violation("murmur3_32 differs from MurmurHash3_x86_32 (Lean reference)", dict(case, spec=r))
    # process independence (hash randomisation must not matter)
    probe = [([rng_b for rng_b in range(40, 40 + n)], 7) for n in (0, 3, 9, 33)] + [([0x3A9, 0x10FFFF, 5], 1)]
    code = ("import sys; sys.path.insert(0, %r); from pymemcache.client.murmur3 import murmur3_32; "
            "print([murmur3_32(''.join(map(chr,d)),s) for d,s in %r])" % (REPO, probe))
    here = repr([murmur3_32("".join(map(chr, d)), s) for d, s in probe])
    for hs in ("0", "12345"):
        out = subprocess.run([sys.executable, "-c", code], env={"PYTHONHASHSEED": hs, "PATH": "/usr/bin:/bin", "PYTHONDONTWRITEBYTECODE": "1",
                                  "PYTHONPYCACHEPREFIX": os.environ.get("PYTHONPYCACHEPREFIX", "/nonexistent-pyc")},
                             capture_output=True, text=True, timeout=60).stdout.strip()
        ctx.count("fresh-interpreter")
        if out != here:
            ctx.violation("value differs between processes", {"PYTHONHASHSEED": hs, "here": here, "there": out})
    # environment independence: a host on which some optional third-party module happens to be importable must compute the same values.  A finder placed
    # *last* on sys.meta_path answers every import that would otherwise fail with a stand-in whose functions return -1; the unchanged library never asks for
    # a module it does not ship with or require, so there the finder is never consulted by the hash
    code2 = ("import sys, types, importlib.abc, importlib.machinery\n"
             "asked = []\n"
             "class Stub(types.ModuleType):\n"
             "    def __getattr__(self, n):\n"
             "        if n.startswith('__'): raise AttributeError(n)\n"
             "        return lambda *a, **k: -1\n"
             "class F(importlib.abc.MetaPathFinder, importlib.abc.Loader):\n"
             "    def find_spec(self, name, path, target=None):\n"
             "        return None if name.split('.')[0] == 'pymemcache' else importlib.machinery.ModuleSpec(name, self)\n"
             "    def create_module(self, spec): return Stub(spec.name)\n"
             "    def exec_module(self, m): asked.append(m.__name__)\n"
             "sys.meta_path.append(F())\n"
             "sys.path.insert(0, %r)\n"
             "from pymemcache.client.murmur3 import murmur3_32\n"
             "print([murmur3_32(''.join(map(chr,d)),s) for d,s in %r]); print(sorted(set(asked)))" % (REPO, probe))
    o2 = subprocess.run([sys.executable, "-c", code2], env={"PYTHONHASHSEED": "0", "PATH": "/usr/bin:/bin", "PYTHONDONTWRITEBYTECODE": "1",
                                                            "PYTHONPYCACHEPREFIX": os.environ.get("PYTHONPYCACHEPREFIX", "/nonexistent-pyc")},
                        capture_output=True, text=True, timeout=60)
    ctx.count("fresh-interpreter with every optional module importable")
    lines2 = o2.stdout.strip().split("\n")
    if not lines2 or lines2[0] != here:
        ctx.violation("value differs on a host where an optional third-party module is importable", {"here": here, "there": (lines2[0] if lines2 else "")[:200],
                                                                                                       "modules_asked_for": lines2[1][:200] if len(lines2) > 1 else o2.stderr[-300:]})
    ctx.assumptions = ["strings shorter than 2^32 code points", "ord() of a str element is its code point"]
    ctx.finish(search)
