"""C01 — a call only ever consumes the server's reply to its own request.
Byte-tag oracle on the fake socket: every byte a call reads must have been provoked by that call's own commands; a
noreply call never reads; a reply-expecting call under a complete script never blocks; a call that ends with the
socket still attached leaves nothing unread.  Correspondence: the Lean `Client.call` under the same script."""
import copy

from clientlib import call_tokens, cfg_tok, run_call
from common import Ctx, hx, import_repo
from faultrun import OPS, Scripted, ev_tokens, scripts_for


def has_reply(c, dnr=False):
    if c["op"] in ("get", "gets", "gat", "gats", "get_many", "gets_many", "version", "stats", "cache_memlimit", "shutdown"):
        return True
    nr = c.get("nr", False)
    if nr is None:
        nr = False if c["op"] in ("incr", "decr", "cas") else dnr     # incr/decr/cas: None is falsy, not "use the default"
    return not nr


def mk(kind, Scr, classes):
    Client, PooledClient, HashClient = classes
    if kind == "Client":
        return Client(("h", 1), socket_module=Scr.sm, default_noreply=False)
    if kind == "ClientDnr":
        return Client(("h", 1), socket_module=Scr.sm, default_noreply=True)
    if kind == "ClientDnr1":
        return Client(("h", 1), socket_module=Scr.sm, default_noreply=1)          # "true" as a number, e.g. from a config file
    if kind == "ClientUnix":
        return Client("/var/run/mc.sock", socket_module=Scr.sm, default_noreply=False)
    if kind == "HashUnix":
        return HashClient(["/var/run/mc.sock"], socket_module=Scr.sm, default_noreply=False, retry_attempts=0, retry_timeout=0, dead_timeout=0)
    if kind == "ClientIgn":
        return Client(("h", 1), socket_module=Scr.sm, default_noreply=False, ignore_exc=True)
    if kind == "ClientUtf8":
        return Client(("h", 1), socket_module=Scr.sm, default_noreply=True, encoding="utf8")
    if kind == "PooledUtf8":
        return PooledClient(("h", 1), socket_module=Scr.sm, default_noreply=True, encoding="utf8", max_pool_size=2)
    if kind == "HashUtf8":
        return HashClient([("h", 1)], socket_module=Scr.sm, default_noreply=True, encoding="utf8", retry_attempts=0, retry_timeout=0, dead_timeout=0)
    if kind == "ClientPfx":
        return Client(("h", 1), socket_module=Scr.sm, default_noreply=True, key_prefix=b"pfx:")
    if kind == "PooledPfx":
        return PooledClient(("h", 1), socket_module=Scr.sm, default_noreply=True, key_prefix=b"pfx:", max_pool_size=2)
    if kind == "HashPfx":
        return HashClient([("h", 1)], socket_module=Scr.sm, default_noreply=True, key_prefix=b"pfx:", retry_attempts=0, retry_timeout=0, dead_timeout=0)
    if kind == "PooledDnr":
        return PooledClient(("h", 1), socket_module=Scr.sm, default_noreply=True, max_pool_size=2)
    if kind == "Pooled":
        return PooledClient(("h", 1), socket_module=Scr.sm, default_noreply=False, max_pool_size=2)
    if kind == "Hash1":
        return HashClient([("h", 1)], socket_module=Scr.sm, default_noreply=False, retry_attempts=0, retry_timeout=0, dead_timeout=0)
    if kind == "Hash2":
        return HashClient([("h", 1), ("g", 2)], socket_module=Scr.sm, default_noreply=False, retry_attempts=1, retry_timeout=0, dead_timeout=0)
    if kind == "HashPooled":
        return HashClient([("h", 1), ("g", 2)], socket_module=Scr.sm, default_noreply=False, use_pooling=True, retry_attempts=0, retry_timeout=0, dead_timeout=0)
    raise ValueError(kind)


def client_socks(kind, obj):
    """sockets currently attached to the object's inner clients"""
    out = []

    def of_client(c):
        if getattr(c, "sock", None) is not None:
            out.append(c.sock)
    if kind in ("Client", "ClientDnr", "ClientDnr1", "ClientIgn", "ClientUtf8", "ClientUnix", "ClientPfx"):
        of_client(obj)
    elif kind in ("Pooled", "PooledDnr", "PooledUtf8", "PooledPfx"):
        for c in list(obj.client_pool._free_objs) + list(obj.client_pool._used_objs):
            of_client(c)
    else:
        for c in obj.clients.values():
            if hasattr(c, "client_pool"):
                for cc in list(c.client_pool._free_objs) + list(c.client_pool._used_objs):
                    of_client(cc)
            else:
                of_client(c)
    return out


def run_sequence(ctx, kind, classes, seq, rng, model_lines, model_meta):
    """seq = list of (call, script)"""
    S = Scripted(rng)
    obj = mk(kind, S, classes)
    W = S.world
    desc = []
    for n, (call, script) in enumerate(seq):
        is_client = kind in ("Client", "ClientDnr", "ClientDnr1", "ClientIgn", "ClientUtf8", "ClientUnix", "ClientPfx")
        dnr = kind in ("ClientDnr", "ClientDnr1", "PooledDnr", "ClientUtf8", "PooledUtf8", "HashUtf8", "ClientPfx", "PooledPfx", "HashPfx")
        open_before = is_client and obj.sock is not None
        leftover_before = []
        if open_before:
            leftover_before = [p[1] if p[0] == "data" else (p[0],) if p[0] != "exc" else ("exc", p[1]) for p in obj.sock.pipe]
        nfr = len(W.foreign_reads)
        nwb = len(W.would_block)
        nled = len(W.ledger)
        S.begin_call(n, script)
        r = run_call(obj, copy.deepcopy(call))
        desc.append({"call": call["op"] + (":nr" if call.get("nr") else ""), "script": {k: (v if not isinstance(v, tuple) else list(v)) for k, v in script.items()}, "result": r[:60]})
        case = {"class": kind, "sequence": desc}
        tags = ["class:" + kind, "op:" + call["op"]]
        base = any(k in repr(script) for k in ("kbd", "sysexit", "interrupt"))
        if base:
            tags.append("base-exception")
        if len(W.foreign_reads) > nfr:
            ctx.violation("a call read bytes that answer an earlier call", dict(case, foreign=W.foreign_reads[nfr]), tags=tags + ["foreign-read"])
            return False
        recvs = [e for e in W.ledger[nled:] if e[0] == "recv"]
        if not has_reply(call, dnr) and recvs:
            ctx.violation("a noreply call waited for a reply", case, tags=tags + ["noreply-reads"])
            return False
        complete = not script or script.get("mutation", "valid") in ("valid", "error-line", "server-error", "garbage-line", "wrong-key", "non-numeric-size", "extra-crlf-garbage")
        if len(W.would_block) > nwb and complete and "recv_fault" not in script:
            ctx.violation("a call blocked on a reply that was never going to come (recv with nothing scheduled)", case, tags=tags + ["would-block"])
            return False
        for s in client_socks(kind, obj):
            if not s.closed and W.leftover(s) > 0:
                ctx.violation("a call ended with the connection still in use and reply bytes left unread on it", dict(case, unread=W.leftover(s)), tags=tags + ["leftover"])
                return False
        if is_client and model_lines is not None:
            evs = list(leftover_before)
            for cid, pushed in S.pushed:
                evs += pushed
            cf = script.get("connect_fault")
            if cf and cf[0] == "getaddrinfo" and kind.endswith("Unix"):
                cf = None         # a UNIX-socket path is not resolved: that fault never fires
            sfk = script.get("send_fault")
            from clientlib import SOCK_CODES
            line = (f"call {cfg_tok(utf8=(kind == 'ClientUtf8'), dnr=dnr, ign=(kind == 'ClientIgn'), pfx=(b'pfx:' if kind == 'ClientPfx' else b''))} open={int(open_before)} {call_tokens(call)} "
                    f"cf={'x' + str(SOCK_CODES[cf[1]]) if cf else '-'} sf={'x' + str(SOCK_CODES[sfk]) if sfk else '-'} {ev_tokens(evs)}")
            sock_open = obj.sock is not None
            unread = W.leftover(obj.sock) if sock_open else None
            sent = b"".join(d for t, d in sum((c.sent for c in W.conns), []) if t == n)
            model_lines.append(line)
            model_meta.append((dict(case), r, sock_open, unread, sent, bool(sfk), bool(cf)))
    return True


def main(argv):
    ctx = Ctx("C01", argv)
    ctx.prepare_lean()
    import_repo()
    from pymemcache.client.base import Client, PooledClient
    from pymemcache.client.hash import HashClient
    classes = (Client, PooledClient, HashClient)
    rng = ctx.rng
    ctx.rule = ("sequences [optional healthy warm-up] + [one call under an adversary script] + 2..3 healthy follow-ups; the scripted call ranges over every entry of faultrun.OPS (all public "
                "data operations, and stats / cache_memlimit / shutdown) x every script (8 reply mutations, 4 connect faults, 3 send faults, 5 recv fault kinds x 8(14) positions) — exhaustive; "
                "classes Client, PooledClient, HashClient(1 and 2 servers, pooled); plus random sequences with several scripted calls; "
                "non-trivial = distinct (class, sequence)")
    model_lines, model_meta = [], []
    kinds = ["Client", "ClientDnr", "ClientDnr1", "ClientIgn", "Pooled", "PooledDnr", "Hash1", "Hash2", "HashPooled", "ClientUnix", "HashUnix"]
    followups = [c for c in OPS if c["op"] in ("get", "add", "set", "incr", "get_many", "delete", "gets", "version")]
    n = 0
    for kind in kinds:
        for oi, call in enumerate(OPS):
            scripts = scripts_for(has_reply(call, kind in ("ClientDnr", "PooledDnr")), rng, ctx.thorough)
            if kind not in ("Client", "Pooled") and not ctx.thorough:
                scripts = scripts[::3] if (kind.startswith("Hash") or kind in ("ClientDnr1", "ClientUnix")) else scripts[::2]
            # faults that are not Exceptions (C10 studies them in depth; the ownership clause itself does not care what kind of fault it was)
            if has_reply(call, kind in ("ClientDnr", "PooledDnr")):
                scripts = scripts + [{"recv_fault": (pos, bk), "chunk": "bytes"} for bk, pos in (("kbd", 0), ("interrupt", 1), ("sysexit", 3))]
            scripts = scripts + [{"send_fault": "interrupt"}]
            for si, script in enumerate(scripts):
                for warm in ((False, True) if (kind in ("Client", "ClientIgn") or ctx.thorough) else (bool((oi + si) % 2),)):
                    seq = []
                    if warm:
                        seq.append(({"op": "set", "k": "a", "v": b"7", "nr": False}, {}))
                    seq.append((call, script))
                    for j in range(3 if ctx.thorough else 2):
                        seq.append((followups[(oi * 7 + si * 3 + j * 5) % len(followups)], {}))
                    ok = run_sequence(ctx, kind, classes, seq, rng, model_lines if kind in ("Client", "ClientDnr", "ClientDnr1", "ClientIgn", "ClientUnix") else None, model_meta)
                    n += 1
                    ctx.case((kind, oi, si, warm), sample={"class": kind, "calls": [c["op"] for c, _ in seq], "script": repr(script)} if n in (50, 3000) else None)
                    ctx.count("class:" + kind)
                    ctx.count("script:" + (next(iter(script)) if script else "healthy"))
    # keys that try to carry a second command: they must be refused before anything is written - if one got through, the reply to the smuggled
    # command would be left on the connection for the next call
    hostile = [{"op": "get", "k": "nokey\r\nversion"}, {"op": "get", "k": b"nokey\nversion"}, {"op": "delete", "k": "a\r\ndelete b", "nr": False},
               {"op": "set", "k": "x\r\nversion", "v": b"1", "nr": False}, {"op": "touch", "k": "k\r\nversion", "e": 0, "nr": False},
               {"op": "get_many", "ks": ["a", "b\r\nget c"]}, {"op": "incr", "k": "n\tversion", "d": 1, "nr": False}, {"op": "gets", "k": "g\rversion"},
               {"op": "delete_many", "ks": ["a", "b\r\nversion"], "nr": True}, {"op": "set", "k": "x\r\nversion", "v": b"1", "nr": True},
               # a cas token (bytes, as `gets` hands it out) that is not a number: one that ends the command line early, an empty one, one that
               # carries the noreply marker itself
               {"op": "cas", "k": "a", "v": b"6", "cas": b"12\n", "nr": True}, {"op": "cas", "k": "a", "v": b"6", "cas": b"", "nr": True},
               {"op": "cas", "k": "a", "v": b"6", "cas": b"12 noreply", "nr": False}, {"op": "cas", "k": "a", "v": b"version", "cas": b"1\r\n", "nr": True},
               # keys at the length limit: legal / too long only once the prefix is counted (the Pfx classes) / too long anyway
               {"op": "set", "k": "k" * 246, "v": b"version", "nr": None}, {"op": "set", "k": "k" * 248, "v": b"version", "nr": None},
               {"op": "set", "k": "k" * 250, "v": b"version", "nr": True}, {"op": "set", "k": "k" * 251, "v": b"version", "nr": True},
               {"op": "set_many", "items": [("a", b"1"), ("k" * 249, b"version")], "nr": None}, {"op": "append", "k": b"k" * 247, "v": b"version", "nr": None},
               {"op": "delete", "k": "k" * 250, "nr": None}, {"op": "touch", "k": "k" * 247, "e": 1, "nr": None},
               # a number that is not an int where the protocol wants an integer, on a reply-less command: it must be refused before anything is written -
               # rendered as `60.0` the command line is refused by the server silently and the data block is then answered as a command of its own
               {"op": "set", "k": "a", "v": b"version", "e": 60.0, "nr": True}, {"op": "touch", "k": "a", "e": 2.0, "nr": True}, {"op": "incr", "k": "a", "d": 1.0, "nr": True},
               {"op": "flush_all", "d": 0.0, "nr": True}, {"op": "set_many", "items": [("a", b"version")], "e": 30.0, "nr": True}, {"op": "add", "k": "z", "v": b"version", "e": 1e3, "nr": None}]
    for kind in kinds + ["ClientPfx", "PooledPfx", "HashPfx"]:
        for hi, call in enumerate(hostile):
            for chunkmode in ("bytes", "rand"):
                seq = [({"op": "set", "k": "a", "v": b"7", "nr": False}, {}), (call, {"chunk": chunkmode}), (followups[hi % len(followups)], {"chunk": chunkmode}),
                       (followups[(hi + 3) % len(followups)], {}), ({"op": "version"}, {})]
                run_sequence(ctx, kind, classes, seq, rng, model_lines if kind in ("Client", "ClientDnr", "ClientIgn", "ClientPfx") else None, model_meta)
                ctx.case(("hostile-key", kind, hi, chunkmode))
                ctx.count("hostile-keys")
    # one memcached key spelled twice in one call (str and bytes), and text values whose encoded length differs from their character count
    special = [{"op": "set_many", "items": [("a", b"1"), (b"a", b"2"), ("b", b"3")], "nr": False}, {"op": "set_many", "items": [(b"b", b"1"), ("b", b"2")], "nr": False},
               {"op": "set_many", "items": [("a", b"1"), (b"a", b"2")], "nr": True}, {"op": "get_many", "ks": ["a", b"a", "b"]}, {"op": "gets_many", "ks": [b"b", "b"]},
               {"op": "delete_many", "ks": ["a", b"a"], "nr": False}]
    text = [{"op": "set", "k": "a", "v": "h\u00e9llo \u20ac", "nr": None}, {"op": "set", "k": "a", "v": "\u20ac\u20ac\u20ac", "nr": False}, {"op": "add", "k": "t", "v": "na\u00efve", "nr": True},
            {"op": "set_many", "items": [("a", "\u00e9"), ("b", "plain"), ("c", "\U0001F600")], "nr": None}, {"op": "append", "k": "a", "v": "\u00fc", "nr": None},
            {"op": "cas", "k": "a", "v": "\u00e9\u00e9", "cas": b"1", "nr": True}]
    for kind, calls in [(k_, special) for k_ in kinds] + [(k_, text + special[:2]) for k_ in ("ClientUtf8", "PooledUtf8", "HashUtf8")]:
        for ci, call in enumerate(calls):
            for chunkmode in ("bytes", "one"):
                seq = [({"op": "set", "k": "b", "v": b"7", "nr": False}, {}), (call, {"chunk": chunkmode}), (followups[ci % len(followups)], {"chunk": chunkmode}),
                       ({"op": "add", "k": "a", "v": b"9", "nr": False}, {}), ({"op": "get", "k": "a"}, {}), ({"op": "version"}, {})]
                run_sequence(ctx, kind, classes, seq, rng, model_lines if kind in ("Client", "ClientDnr", "ClientIgn", "ClientUtf8") else None, model_meta)
                ctx.case(("special", kind, ci, chunkmode))
                ctx.count("double-spelled keys / text values")
    # raw_command with the caller's own end token and a reply of several lines (a `stats` dump read up to END): the whole reply belongs to that call,
    # on every class that offers raw_command (HashClient does not); healthy replies in every segmentation, and recv faults inside the reply
    rawmulti = [{"op": "raw", "cmd": b"stats", "tok": b"END\r\n"}, {"op": "raw", "cmd": b"get a", "tok": b"END\r\n"}, {"op": "raw", "cmd": b"stats settings", "tok": b"END\r\n"},
                {"op": "raw", "cmd": b"gets a b", "tok": b"END\r\n"}]
    for kind in ("Client", "ClientDnr", "ClientIgn", "Pooled", "PooledDnr", "ClientUnix", "ClientPfx", "PooledPfx"):
        for ci, call in enumerate(rawmulti):
            for script in ({"chunk": "bytes"}, {"chunk": "rand"}, {"chunk": "one"}, {"recv_fault": (3, "timeout"), "chunk": "rand"}, {"recv_fault": (1, "eof"), "chunk": "bytes"},
                           {"recv_fault": (2, "kbd"), "chunk": "rand"}):
                seq = [({"op": "set", "k": "a", "v": b"7", "nr": False}, {}), (call, script), (followups[ci % len(followups)], {"chunk": "rand"}),
                       ({"op": "delete", "k": "a", "nr": False}, {}), ({"op": "version"}, {})]
                run_sequence(ctx, kind, classes, seq, rng, model_lines if kind in ("Client", "ClientDnr", "ClientIgn") else None, model_meta)
                ctx.case(("raw-own-token", kind, ci, repr(script)))
                ctx.count("raw_command with its own end token")
    # random sequences with several scripted calls
    for _ in range(20000 if ctx.thorough else 1500):
        kind = rng.choice(kinds)
        seq = []
        for _ in range(rng.randrange(3, 9)):
            call = rng.choice(OPS)
            script = rng.choice(scripts_for(has_reply(call, kind in ("ClientDnr", "PooledDnr")), rng, False)) if rng.random() < .4 else {}
            seq.append((call, script))
        run_sequence(ctx, kind, classes, seq, rng, model_lines if kind in ("Client", "ClientDnr", "ClientIgn") else None, model_meta)
        ctx.case(("rand", kind, repr(seq)))
        ctx.count("random-sequences")
    if ctx.lean.build_ok and model_lines:
        outs = ctx.driver.batch(model_lines)
        for line, (case, r, sock_open, unread, sent, sf, cf), o in zip(model_lines, model_meta, outs):
            ctx.count("model-compared-calls")
            want_sent = "none" if (not sent and not sf) else hx(sent)
            got = {kv.split("=", 1)[0]: kv.split("=", 1)[1] for kv in o.split(" ")[1:] if "=" in kv}
            ok = got.get("res") == r and got.get("open") == str(int(sock_open))
            if ok and sock_open:
                ok = got.get("unread") == str(unread)
            if ok and not sf and sent:
                ok = got.get("sent") == hx(sent)
            if not ok:
                ctx.disagreement("Lean Client.call differs from the implementation under the same script",
                                 {"sequence": case["sequence"][-3:], "impl": {"res": r, "open": sock_open, "unread": unread, "sent": hx(sent[:60])}, "model": o[:200], "line": line[:300]},
                                 theorem="C01_call_clean")
    # composed model PooledClient ∘ Client (Pymc/Model/PooledCall.lean): random histories with per-call scripts on the real PooledClient,
    # compared call by call (result, inner client, socket used / held, bytes left unread, order of closes)
    if ctx.lean.build_ok:
        import pooledcall_diff
        ncalls, bad = pooledcall_diff.differential(4000 if ctx.thorough else 600, rng, ctx.driver.batch)
        ctx.count("composed-model-calls", ncalls)
        for b in bad[:5]:
            ctx.disagreement("composed Lean model PooledClient∘Client differs from the real PooledClient", b, theorem="C01_pooled_own_bytes_only")
    # composed model HashClient ∘ Client (Pymc/Model/HashCall.lean): random histories of single-key calls with per-call scripts on the real
    # HashClient, compared call by call (result, server, inner client object, bookkeeping state, socket / unread bytes of every registered client)
    if ctx.lean.build_ok:
        import hashcall_diff
        ncalls, bad = hashcall_diff.differential(4000 if ctx.thorough else 600, rng, ctx.driver.batch)
        ctx.count("composed-hash-model-calls", ncalls)
        for b in bad[:5]:
            ctx.disagreement("composed Lean model HashClient∘Client differs from the real HashClient", b, theorem="C01_hash_own_bytes_only")
    # broadcasts of HashClient (Pymc/Model/HashBroadcast.lean): random histories that mix key-addressed calls, clock advances, servers going
    # down / coming back and flush_all / quit / close (disconnect_all) on the real HashClient, compared call by call (result or class of the
    # escaping exception — the ValueError of remove_node is its own class —, clients handed to _safely_run_func in order, client objects the
    # function was called on, bookkeeping state, socket / unread bytes of every registered client)
    if ctx.lean.build_ok:
        import hashbroadcast_diff
        ncalls, bad = hashbroadcast_diff.differential(3000 if ctx.thorough else 500, rng, ctx.driver.batch)
        ctx.count("composed-hash-broadcast-model-calls", ncalls)
        for k, v in hashbroadcast_diff.STATS.items():
            if k.startswith("broadcast"):
                ctx.count("hash-" + k, v)
        for b in bad[:5]:
            ctx.disagreement("composed Lean model HashClient∘Client with broadcasts (flush_all / quit / close) differs from the real HashClient", b,
                             theorem="C01_hash_broadcast_own_bytes_only")
    # composed model HashClient ∘ PooledClient ∘ Client (Pymc/Model/HashPooledCall.lean, HashPooledCallMany.lean): random histories of single-key
    # calls, get_many / gets_many, set_many and delete_many (keys spread over 1-3 servers, per-call fault scripts on individual servers) on the
    # real HashClient(use_pooling=True), compared call by call (result, servers contacted in order, PooledClient invoked, inner client, socket used,
    # bookkeeping state, and per registered pool: idle clients with socket / unread bytes, sockets closed in order, checked-out count)
    if ctx.lean.build_ok:
        import hashpooledcall_diff
        ncalls, bad = hashpooledcall_diff.differential(3000 if ctx.thorough else 400, rng, ctx.driver.batch)
        ctx.count("composed-hashpooled-model-calls", ncalls)
        for b in bad[:5]:
            ctx.disagreement("composed Lean model HashClient∘PooledClient∘Client differs from the real HashClient(use_pooling=True)", b,
                             theorem="C01_hashpooled_many_own_bytes_only" if b.get("multi") else "C01_hashpooled_own_bytes_only")
    ctx.assumptions = ["the server emits exactly one reply unit per reply-expecting command (framing grammar of DESIGN.md C01); content inside a unit is adversarial",
                       "late delivery after a timeout is modelled as bytes that stay in the pipe of that connection", "BaseException faults are C10"]
    ctx.finish()
