"""C19 — ElastiCache auto-discovery: rotation equals the advertised node list.
Real `AWSElastiCacheHashClient` over a multi-server fake socket module that also serves `config get cluster` on the
configuration endpoint (reply split at random).  Monitor: after construction and after every reconfigure_nodes() every
key of a corpus is served by an advertised node (by ip or host name, on the advertised port), none by a node that is no
longer advertised, sockets to replaced nodes are closed, and an ERROR endpoint makes the call fail with a memcached
error.  Correspondence: the Lean `Aws.discover` on the endpoint's reply bytes and `Aws.reconfigure` on the history."""
from common import FakeClock, Ctx, hx, import_repo
from fakesock import FakeSocketModule, World
from refserver import RefServer

CFG = "cfg.abc123.use1.cache.amazonaws.com:11211"


def render_reply(version, nodes):
    line = " ".join(f"{h}|{ip}|{p}" for h, ip, p in nodes)
    body = f"{version}\n{line}\n".encode()
    return b"CONFIG cluster 0 " + str(len(body)).encode() + b"\r\n" + body + b"\r\nEND\r\n"


class Cluster:
    def __init__(self, rng):
        self.rng = rng
        self.advertised = []
        self.version = 1
        self.mode = "ok"         # ok | error | error-eof
        self.servers = {}
        self.world = World(server=self.on_send)
        self.sm = FakeSocketModule(self.world)
        self.replies = []

    def server(self, addr):
        key = (str(addr[0]), str(addr[1]))
        if key not in self.servers:
            self.servers[key] = RefServer(name="%s:%s" % key)
        return self.servers[key]

    def on_send(self, conn, data):
        host = str(conn.addr[0])
        if host.startswith("cfg.") or data.startswith(b"config get cluster"):      # (every node of a cluster answers the configuration command)
            if self.mode == "ok":
                reply = render_reply(self.version, self.advertised)
            else:
                reply = b"ERROR\r\n"
            self.replies.append(reply)
            out, i = [], 0
            while i < len(reply):
                n = self.rng.choice([1, 2, 3, 5, 8, 13, 40, 4096])
                out.append(reply[i:i + n])
                i += n
            if self.mode == "error-eof":
                out.append(("eof",))
            return out
        return [self.server(conn.addr).feed(conn.id, data)]


def main(argv):
    ctx = Ctx("C19", argv)
    ctx.prepare_lean()
    import_repo()
    from pymemcache.client.ext.aws_ec_client import AWSElastiCacheHashClient
    from pymemcache.exceptions import MemcacheError
    rng = ctx.rng
    ctx.rule = ("node lists of 1..6 nodes x use_vpc on/off x sequences of up to 4 reconfigurations (scale-up, scale-down, replacement, identical) x random reply segmentation "
                "x a 60-key corpus after every reconfiguration; ERROR endpoints; non-trivial = distinct (use_vpc, history)")
    pool_nodes = [("node%d.abc.cache.amazonaws.com" % i, "10.0.%d.%d" % (i // 3, 10 + i), 11211 + (i % 2)) for i in range(9)]
    # "any cluster configuration the endpoint advertises": host names are not always *.amazonaws.com (private zones, single labels, long TLDs)
    pool_nodes += [("cache-1.prod.internal", "10.9.0.1", 11211), ("memcached-4", "10.9.0.2", 11212), ("node.example.localdomain", "172.16.200.7", 11300),
                   ("UPPER.Case.Example", "192.168.1.250", 11211),
                   # several nodes behind one address, told apart by their ports only (NAT, localhost test clusters)
                   ("shared.abc.cache.amazonaws.com", "10.7.7.7", 11211), ("shared.abc.cache.amazonaws.com", "10.7.7.7", 11212), ("shared.abc.cache.amazonaws.com", "10.7.7.7", 11213)]
    keys = ["key%d" % i for i in range(60)]
    lines, metas = [], []
    ncase = 0
    import logging
    pm_logger = logging.getLogger("pymemcache")
    pm_logger.addHandler(logging.NullHandler())
    for use_vpc in (True, False):
        for trial in range(60 if ctx.thorough else 14):
            # the logging level is configuration too: what the client does must not depend on whether somebody is listening to its debug messages
            pm_logger.setLevel(logging.DEBUG if trial % 3 == 2 else logging.NOTSET)
            C = Cluster(rng)
            # the configuration version the endpoint reports is a counter of the cluster's life so far: any number, growing with every change
            C.version = [0, 7, 8, 9, 97, 98, 99, 998, 2 ** 31 - 3, 1, 5, 12, 95, 4, 9999][trial % 15] - 1
            W = C.world
            hist = []
            steps = rng.randrange(1, 5) if trial % 3 else 4
            cur = rng.sample(pool_nodes, rng.randrange(1, 7))
            desc = []
            client = None
            ok = True
            for st in range(steps):
                if st > 0:
                    kind = rng.choice(["up", "down", "replace", "same", "down"])
                    if kind == "up":
                        extra = [n for n in pool_nodes if n not in cur]
                        cur = cur + rng.sample(extra, min(len(extra), rng.randrange(1, 3)))
                    elif kind == "down" and len(cur) > 1:
                        cur = rng.sample(cur, rng.randrange(1, len(cur)))
                    elif kind == "replace":
                        extra = [n for n in pool_nodes if n not in cur]
                        if extra:
                            cur = cur[1:] + [rng.choice(extra)]
                    cur = list(cur)
                    rng.shuffle(cur)
                C.advertised = list(cur)
                C.version += 1 if (trial + st) % 4 else 2
                hist.append(list(cur))
                desc.append([f"{h.split('.')[0]}|{ip}|{p}" for h, ip, p in cur])
                case = {"use_vpc": use_vpc, "history": desc, "config_version": C.version}
                W.tag = (trial, st)
                try:
                    if client is None:
                        client = AWSElastiCacheHashClient(CFG, socket_module=C.sm, use_vpc=use_vpc, default_noreply=False, retry_attempts=0, dead_timeout=0)
                    else:
                        client.reconfigure_nodes()
                except Exception as e:
                    ctx.violation("construction / reconfigure_nodes failed on a well-formed cluster configuration", dict(case, error=repr(e)[:100]), tags=["reconfigure-raises"])
                    ok = False
                    break
                adv = {((ip if use_vpc else h), str(p)) for h, ip, p in cur}
                # rotation membership
                names = {"%s:%s" % a for a in adv}
                tags = ["scale-down"] if any(len(hist[i + 1]) < len(hist[i]) or set(map(tuple, hist[i])) - set(map(tuple, hist[i + 1])) for i in range(len(hist) - 1)) else []
                if set(client.hasher.nodes) != names or set(client.clients.keys()) != names:
                    ctx.violation("rotation differs from the advertised node list", dict(case, rotation=sorted(client.hasher.nodes), clients=sorted(client.clients), advertised=sorted(names)),
                                  tags=tags + ["rotation"])
                    ok = False
                    break
                # traffic
                for srv in C.servers.values():
                    del srv.cmds[:]
                bad = None
                for k in keys:
                    try:
                        client.set(k, b"v", noreply=False)
                        if client.get(k) != b"v":
                            bad = ("value not found after set", k)
                            break
                    except Exception as e:
                        bad = ("operation raised " + type(e).__name__, k)
                        break
                if bad:
                    ctx.violation(f"a key could not be served after reconfiguration: {bad[0]}", dict(case, key=bad[1]), tags=tags + ["routing"])
                    ok = False
                    break
                served = {addr for addr, srv in C.servers.items() if srv.cmds}
                if not served <= adv:
                    ctx.violation("a key was routed to a node that is not advertised", dict(case, served=sorted(served), advertised=sorted(adv)), tags=tags + ["routing"])
                    ok = False
                    break
                if len(adv) > 1 and len(served) < 2 and len(keys) >= 60:
                    ctx.count("single-node-served")
                # sockets to nodes that are no longer advertised must be closed; the config connection too
                for c in W.conns:
                    if c.addr is None or c.closed:
                        continue
                    a = (str(c.addr[0]), str(c.addr[1]))
                    if a[0].startswith("cfg.") or a not in adv:
                        ctx.violation("a connection to a replaced node (or to the configuration endpoint) was left open", dict(case, address=a), tags=tags + ["not-closed"])
                        ok = False
                        break
                if not ok:
                    break
            ncase += 1
            ctx.case((use_vpc, repr(hist)), sample={"use_vpc": use_vpc, "history": desc} if ncase in (3, 20) else None)
            ctx.count(f"history-len={len(hist)}")
            # Lean: discovery on the actual reply bytes; rotation after the history
            for reply, nodes in zip(C.replies, hist):
                lines.append(f"aws.discover vpc={int(use_vpc)} reply={hx(reply)}")
                metas.append(("discover", {"use_vpc": use_vpc, "nodes": nodes}, "ok " + ",".join(hx((ip if use_vpc else h).encode()) + ":" + hx(str(p).encode()) for h, ip, p in nodes)))
            if ok and client is not None:
                advs = ";".join(",".join(hx(("%s:%s" % ((ip if use_vpc else h), p)).encode()) for h, ip, p in nodes) for nodes in hist)
                lines.append(f"aws.reconf advs={advs}")
                metas.append(("reconf", {"use_vpc": use_vpc, "history": desc}, sorted(client.hasher.nodes)))
    pm_logger.setLevel(logging.NOTSET)
    # a node REPLACED BEHIND ITS HOST NAME (the usual ElastiCache node replacement: same name and port, new machine): names are resolved through the
    # fake resolver, which follows the advertised list, so a connection is identified by the machine (IP) it reached.  After reconfigure_nodes()
    # no command may reach the replaced machine any more, its connection must be closed, and the new machine gets the name's keys.
    for use_vpc in (False, True):
        for nkeep in (0, 1, 2):
            for nrepl in (1, 2):
                C = Cluster(rng)
                W = C.world
                base = [("node%d.abc.cache.amazonaws.com" % i, "10.1.0.%d" % (10 + i), 11211) for i in range(nkeep + nrepl)]
                after = [(h, ip if i < nkeep else "10.2.0.%d" % (10 + i), p) for i, (h, ip, p) in enumerate(base)]
                dns = {}

                def resolve(host, port, _dns=dns):
                    import socket as _s
                    return [(_s.AF_INET, _s.SOCK_STREAM, _s.IPPROTO_TCP, "", (_dns.get(host, host), port))]
                W.addrinfo = resolve
                C.advertised = list(base)
                dns.update({h: ip for h, ip, p in base})
                case = {"use_vpc": use_vpc, "before": [f"{h.split('.')[0]}|{ip}|{p}" for h, ip, p in base], "after": [f"{h.split('.')[0]}|{ip}|{p}" for h, ip, p in after]}
                ctx.case(("replaced-behind-name", use_vpc, nkeep, nrepl))
                ctx.count("replaced-behind-host-name")
                try:
                    W.tag = "before"
                    client = AWSElastiCacheHashClient(CFG, socket_module=C.sm, use_vpc=use_vpc, default_noreply=False, retry_attempts=0, dead_timeout=0)
                    for k in keys:
                        client.set(k, b"v", noreply=False)
                    C.advertised = list(after)
                    C.version += 1
                    dns.update({h: ip for h, ip, p in after})
                    W.tag = "reconf"
                    client.reconfigure_nodes()
                    for srv in C.servers.values():
                        del srv.cmds[:]
                    W.tag = "after"
                    for k in keys:
                        client.set(k, b"w", noreply=False)
                        client.get(k)
                except Exception as e:
                    ctx.violation("a node replaced behind its host name: the scenario raised", dict(case, error=repr(e)[:100]), tags=["replaced-behind-name"])
                    continue
                new_machines = {(ip, str(p)) for h, ip, p in after}
                old_only = {(ip, str(p)) for h, ip, p in base} - new_machines
                served = {addr for addr, srv in C.servers.items() if srv.cmds}
                still_open = sorted((str(c.addr[0]), str(c.addr[1])) for c in W.conns if c.addr is not None and not c.closed and (str(c.addr[0]), str(c.addr[1])) in old_only)
                bad = None
                if served & old_only:
                    bad = f"commands still reach the replaced machine(s) {sorted(served & old_only)}"
                elif still_open:
                    bad = f"connection(s) to the replaced machine(s) {still_open} are still open"
                elif not (new_machines - {(ip, str(p)) for h, ip, p in base}) <= served and len(keys) >= 60 and len(after) <= 2:
                    bad = f"the new machine(s) {sorted(new_machines - served)} get no traffic"
                if bad:
                    ctx.violation("a node replaced behind its host name: " + bad, case, tags=["replaced-behind-name"])
    # failover episode + scale-down: a node that was marked dead and is then no longer advertised must stay out for good
    import pymemcache.client.hash as H
    clock = [1000.0]
    import pymemcache.client.ext.aws_ec_client as A
    real_time, real_time_a = H.time, A.time
    H.time = A.time = FakeClock(lambda: clock[0])
    try:
        for use_vpc in (True, False):
          for ra in (0, 1, 2):
           for interim in (False, True):
            for also_dropped in ((), (2,), (0, 3), (3,)):
                C = Cluster(rng)
                nodes = pool_nodes[:4]
                C.advertised = list(nodes)
                dead = nodes[1]
                dead_addr = ((dead[1] if use_vpc else dead[0]), str(dead[2]))

                def hook(conn, dead_addr=dead_addr, C=C):
                    if (str(conn.addr[0]), str(conn.addr[1])) == dead_addr and C.refuse:
                        conn.connected = False
                        raise ConnectionRefusedError(111, "refused")
                C.refuse = True
                C.world.connect_hook = hook
                C.world.tag = "failover"
                case = {"use_vpc": use_vpc, "retry_attempts": ra, "scenario": "node marked dead, " + ("then a reconfiguration that still advertises it (it is healthy again), " if interim else "")
                        + f"then dropped from the advertisement (together with healthy nodes {list(also_dropped)}), then dead_timeout elapses"}
                ctx.case(("failover-scaledown", use_vpc, ra, also_dropped, interim))
                ctx.count("failover-scale-down")
                try:
                    cl = AWSElastiCacheHashClient(CFG, socket_module=C.sm, use_vpc=use_vpc, default_noreply=False, retry_attempts=ra, retry_timeout=1, dead_timeout=60, ignore_exc=True)
                    for rnd in range(ra + 3):
                        clock[0] += 2
                        for k in keys:
                            cl.get(k)
                    if also_dropped == (3,) and not interim:
                        # the node answers again and a broadcast (which goes to every registered client, out of rotation or not) opens a connection to it
                        C.refuse = False
                        try:
                            cl.flush_all(noreply=False)
                        except Exception:
                            pass
                    if interim:
                        C.refuse = False
                        C.version += 1
                        cl.reconfigure_nodes()              # the list is unchanged: the node is advertised, so it is in rotation again
                        clock[0] += 2
                        for k in keys:
                            cl.set(k, b"i", noreply=False)
                        all_names = {"%s:%s" % ((ip if use_vpc else h), p) for h, ip, p in nodes}
                        if set(cl.hasher.nodes) != all_names or set(cl.clients) != all_names:
                            ctx.violation("after a reconfiguration that advertises a node the failover had taken out, the rotation is not the advertised list",
                                          dict(case, rotation=sorted(cl.hasher.nodes), clients=sorted(cl.clients), advertised=sorted(all_names)), tags=["failover-readvertised"])
                            continue
                    C.advertised = [n for i, n in enumerate(nodes) if n != dead and i not in also_dropped]
                    C.version += 1
                    cl.reconfigure_nodes()
                    C.refuse = False
                    nled = len(C.world.ledger)
                    for step in (30, 40, 61, 200):
                        clock[0] += step
                        for k in keys:
                            cl.set(k, b"v", noreply=False)
                            cl.get(k)
                    adv = {((ip if use_vpc else h), str(p)) for h, ip, p in C.advertised}
                    contacted = {(str(c.addr[0]), str(c.addr[1])) for c in C.world.conns if c.addr is not None and any(e[0] == "connect" and e[1] == c.id for e in C.world.ledger[nled:])}
                    bad = {a for a in contacted if a not in adv and not a[0].startswith("cfg.")}
                    names = {"%s:%s" % a for a in adv}
                    still_open = sorted((str(c.addr[0]), str(c.addr[1])) for c in C.world.conns if c.addr is not None and not c.closed
                                        and (str(c.addr[0]), str(c.addr[1])) not in adv and not str(c.addr[0]).startswith("cfg."))
                    if still_open:
                        ctx.violation("a connection to a node that is no longer advertised was left open after a failover episode", dict(case, open_connections=still_open, advertised=sorted(names)),
                                      tags=["failover-scale-down", "not-closed"])
                    if bad or set(cl.hasher.nodes) != names or set(cl.clients) != names:
                        ctx.violation("a node that is no longer advertised came back into rotation / was contacted after a failover episode",
                                      dict(case, contacted_unadvertised=sorted(bad), rotation=sorted(cl.hasher.nodes), clients=sorted(cl.clients), advertised=sorted(names)),
                                      tags=["failover-scale-down"])
                except Exception as e:
                    ctx.violation("the failover + scale-down scenario raised", dict(case, error=repr(e)[:120]), tags=["failover-scale-down"])
    finally:
        H.time, A.time = real_time, real_time_a
    # the configuration is asked of one of the cluster's own nodes (any node answers `config get cluster`): that node is advertised like the others
    for use_vpc in (True, False):
        for which in (0, 2):
            for n_nodes in (1, 3, 4):
                C = Cluster(rng)
                nodes = pool_nodes[:n_nodes]
                C.advertised = list(nodes)
                C.world.tag = "cfg-is-a-node"
                h_, ip_, p_ = nodes[min(which, n_nodes - 1)]
                endpoint = "%s:%s" % ((ip_ if use_vpc else h_), p_)
                case = {"use_vpc": use_vpc, "configuration_endpoint": endpoint, "advertised": ["%s|%s|%s" % n_ for n_ in nodes]}
                ctx.case(("cfg-is-a-node", use_vpc, which, n_nodes))
                ctx.count("configuration endpoint is one of the nodes")
                try:
                    cl = AWSElastiCacheHashClient(endpoint, socket_module=C.sm, use_vpc=use_vpc, default_noreply=False, retry_attempts=0, dead_timeout=0)
                    names = {"%s:%s" % ((ip if use_vpc else h), p) for h, ip, p in nodes}
                    after_ctor = (set(cl.hasher.nodes), set(cl.clients))
                    C.version += 1
                    cl.reconfigure_nodes()
                    if after_ctor != (names, names) or set(cl.hasher.nodes) != names or set(cl.clients) != names:
                        ctx.violation("the rotation is not the advertised node list when the configuration endpoint is one of the nodes",
                                      dict(case, rotation=sorted(cl.hasher.nodes), clients=sorted(cl.clients), rotation_after_construction=sorted(after_ctor[0])), tags=["cfg-is-a-node"])
                except Exception as e:
                    ctx.violation("discovery through one of the cluster's nodes raised", dict(case, error=repr(e)[:120]), tags=["cfg-is-a-node"])
    # ERROR endpoint: must fail with a memcached error, not an internal Python error
    for mode in ("error", "error-eof"):
        for use_vpc in (True, False):
            C = Cluster(rng)
            C.mode = mode
            C.world.tag = 0
            try:
                AWSElastiCacheHashClient(CFG, socket_module=C.sm, use_vpc=use_vpc, timeout=1)
                res = "constructed"
            except MemcacheError as e:
                res = "memcache:" + type(e).__name__
            except OSError as e:
                res = "oserror:" + type(e).__name__
            except Exception as e:
                res = "internal:" + type(e).__name__
            ctx.case(("error-endpoint", mode, use_vpc))
            ctx.count("error-endpoint")
            case = {"endpoint": mode, "use_vpc": use_vpc, "outcome": res}
            if res.startswith("internal") or res == "constructed":
                ctx.violation("an ERROR answer from the configuration endpoint surfaced as an internal Python error", case, tags=["error-endpoint", "internal-error"])
            elif res != "memcache:MemcacheUnknownCommandError":
                ctx.violation("an ERROR answer from the configuration endpoint did not fail with that memcached error (the 7-byte end token is awaited instead)", case,
                              tags=["error-endpoint", "not-recognised"])
            open_cfg = [c.id for c in C.world.conns if not c.closed]
            if open_cfg:
                ctx.violation("the connection to the configuration endpoint was left open after the failure", dict(case, open=open_cfg), tags=["error-endpoint"])
    if ctx.lean.build_ok:
        for (kind, case, want), o in zip(metas, ctx.driver.batch(lines)):
            if kind == "discover":
                if o != want:
                    ctx.disagreement("Lean discovery parser differs from the advertised nodes", dict(case, model=o[:200], want=want[:200]), theorem="C19_parse_render_nodes")
            else:
                nodes = o.split("nodes=[")[1].split("]")[0]
                got = sorted(bytes.fromhex(x).decode() for x in nodes.split(",") if x)
                if got != want:
                    ctx.disagreement("Lean reconfigure model differs from the implementation's rotation", dict(case, model=got, impl=want), theorem="C19_rotation_after_history")
    ctx.assumptions = ["host names and addresses contain no space, '|', CR or LF", "the endpoint answers in the documented CONFIG format"]
    ctx.finish()
