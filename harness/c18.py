"""C18 — FallbackClient: reads fall through in order, writes touch only the primary."""
import itertools

from common import Ctx, import_repo

NONE, EMPTY, HIT = "N", "E", "H"


class Cache:
    def __init__(self, idx, kind, log):
        self.idx, self.kind, self.log = idx, kind, log

    during = None          # called while this cache is answering a read (what another thread does meanwhile)

    def _read(self, op, multi, arg):
        self.log.append((self.idx, op, (arg,), ()))
        if self.during is not None:
            hook, self.during = self.during, None
            hook()
        if self.kind == NONE:
            return None
        if self.kind == EMPTY:
            return {} if multi else 0      # falsy but not None
        return {"k": ("hit", self.idx)} if multi else ("hit", self.idx)

    def get(self, key): return self._read("get", False, key)
    def gets(self, key): return self._read("gets", False, key)
    def get_many(self, keys): return self._read("get_many", True, keys)
    def gets_many(self, keys): return self._read("gets_many", True, keys)

    write_answer = "tuple"

    def __getattr__(self, name):
        def f(*a, **kw):
            self.log.append((self.idx, name, a, tuple(sorted(kw.items()))))
            wa = Cache.write_answer
            return ("ret", name, self.idx) if wa == "tuple" else wa
        return f


WRITES = {
    "set": ("key", "value", "expire", "noreply"), "add": ("key", "value", "expire", "noreply"),
    "replace": ("key", "value", "expire", "noreply"), "append": ("key", "value", "expire", "noreply"),
    "prepend": ("key", "value", "expire", "noreply"), "cas": ("key", "value", "cas", "expire", "noreply"),
    "delete": ("key", "noreply"), "incr": ("key", "value", "noreply"), "decr": ("key", "value", "noreply"),
    "touch": ("key", "expire", "noreply"), "flush_all": ("delay", "noreply"),
}
DEFAULTS = {"expire": 0, "noreply": True, "delay": 0}


def main(argv):
    ctx = Ctx("C18", argv)
    ctx.prepare_lean()
    import_repo()
    from pymemcache.fallback import FallbackClient
    ctx.rule = ("exhaustive: 1..4 caches (5 in thorough) x every assignment of {None, falsy-non-None, hit} x 4 read ops; "
                "every mutating op x positional/keyword/default argument forms x 1..4 caches; "
                "non-trivial = distinct (op, assignment)")
    ctx.exhaustive = True
    lines, metas = [], []
    for n in range(1, 6 if ctx.thorough else 5):
        for kinds in itertools.product([NONE, EMPTY, HIT], repeat=n):
            for op in ("get", "gets", "get_many", "gets_many"):
                log = []
                fc = FallbackClient([Cache(i, k, log) for i, k in enumerate(kinds)])
                arg = "k" if op in ("get", "gets") else ["k", "j"]
                res = getattr(fc, op)(arg)
                multi = op.endswith("many")
                case = {"op": op, "caches": list(kinds), "result": repr(res), "consulted": [e[0] for e in log]}
                ctx.case((op, kinds), sample=case if (n == 3 and kinds[1] == EMPTY and op == "get") else None)
                ctx.count(op)
                # monitor, straight from the statement
                hit = (lambda k: k == HIT) if multi else (lambda k: k != NONE)
                first = next((i for i, k in enumerate(kinds) if hit(k)), None)
                want_consulted = list(range(n)) if first is None else list(range(first + 1))
                if [e[0] for e in log] != want_consulted or any(e[1] != op or e[2] != (arg,) for e in log):
                    ctx.violation("caches not consulted in order up to and including the first hit", case)
                if first is None:
                    ok = (res == []) if multi else (res is None)
                else:
                    ok = res == ({"k": ("hit", first)} if multi else (("hit", first) if kinds[first] == HIT else 0))
                if not ok:
                    ctx.violation("read did not return the first hit / the fall-through value", case)
                enc = ",".join(k if k != HIT else f"H{i}" for i, k in enumerate(kinds))
                lines.append(f"fallback mode={'multi' if multi else 'single'} answers={enc}")
                if first is None:
                    real = f"ok result=FALLTHROUGH consulted={len(log)}"
                else:
                    # which cache's answer came back
                    who = str(first) if ok else "?"
                    real = f"ok result={kinds[first] if kinds[first] != HIT else 'H' + who} consulted={len(log)}"
                metas.append((case, real))
    # histories on ONE FallbackClient object: the caches change state between the calls ("for every state of the underlying caches");
    # every read of the history is judged like a single read, and consults the model for that state
    def judge(fc, log, kinds, op, hist, coll=list):
        del log[:]
        arg = "k" if op in ("get", "gets") else coll(["k", "j"])
        res = getattr(fc, op)(arg)
        multi = op.endswith("many")
        hit = (lambda k: k == HIT) if multi else (lambda k: k != NONE)
        first = next((i for i, k in enumerate(kinds) if hit(k)), None)
        want_consulted = list(range(len(kinds))) if first is None else list(range(first + 1))
        case = {"history": hist, "op": op, "caches": list(kinds), "result": repr(res), "consulted": [e[0] for e in log]}
        if [e[0] for e in log] != want_consulted or any(e[1] != op or e[2] != (arg,) for e in log):
            ctx.violation("caches not consulted in order up to and including the first hit (in a sequence of calls on one object)", case, tags=["history"])
            return False
        if first is None:
            ok = (res == []) if multi else (res is None)
        else:
            ok = res == ({"k": ("hit", first)} if multi else (("hit", first) if kinds[first] == HIT else 0))
        if not ok:
            ctx.violation("read did not return the first hit / the fall-through value (in a sequence of calls on one object)", case, tags=["history"])
            return False
        enc = ",".join(k if k != HIT else f"H{i}" for i, k in enumerate(kinds))
        lines.append(f"fallback mode={'multi' if multi else 'single'} answers={enc}")
        metas.append((case, f"ok result=FALLTHROUGH consulted={len(log)}" if first is None else
                      f"ok result={kinds[first] if kinds[first] != HIT else 'H' + str(first)} consulted={len(log)}"))
        return True
    # the keys of a multi-key read may be any iterable of keys (tuple, set, frozenset, dict view), not only a list
    for n in (1, 2, 3):
        for kinds in itertools.product([NONE, EMPTY, HIT], repeat=n):
            for op in ("get_many", "gets_many"):
                for cname, coll in (("tuple", tuple), ("set", set), ("frozenset", frozenset), ("dict-keys", lambda ks: dict.fromkeys(ks).keys())):
                    log = []
                    fc = FallbackClient([Cache(i, k, log) for i, k in enumerate(kinds)])
                    ctx.case(("coll", n, kinds, op, cname))
                    ctx.count("key-collection-types")
                    judge(fc, log, kinds, op, [op + "(" + cname + ")"], coll=coll)
    READS = ("get", "gets", "get_many", "gets_many")
    for n in (2, 3):
        states = list(itertools.product([NONE, EMPTY, HIT], repeat=n))
        for k1 in states:
            for k2 in states:
                for op1, op2 in (itertools.product(READS, repeat=2) if n == 2 else [(o, o) for o in READS] + [("get", "get_many"), ("gets_many", "get")]):
                    log = []
                    caches = [Cache(i, k, log) for i, k in enumerate(k1)]
                    fc = FallbackClient(caches)
                    ctx.case(("hist", n, k1, k2, op1, op2))
                    ctx.count("two-call-histories")
                    if not judge(fc, log, k1, op1, [op1]):
                        continue
                    for c, k in zip(caches, k2):
                        c.kind = k
                    if ctx.thorough or (hash((k1, k2, op1)) % 4 == 0):
                        fc.set("k", "v")          # a write in between goes to the primary only and changes nothing for the reads
                        if [e[0] for e in log if e[1] == "set"] != [0]:
                            ctx.violation("mutating operation not applied to exactly the first cache (in a sequence of calls on one object)",
                                          {"history": [op1, "set"], "log": repr(log)}, tags=["history"])
                            continue
                    if not judge(fc, log, k2, op2, [op1, op2]):
                        continue
                    if n == 2 or ctx.thorough:
                        for c, k in zip(caches, k1):
                            c.kind = k
                        judge(fc, log, k1, op1, [op1, op2, op1])
    if ctx.lean.build_ok:
        for (case, real), m in zip(metas, ctx.driver.batch(lines)):
            if m != real:
                ctx.disagreement("model firstHit differs from implementation", dict(case, impl=real, model=m),
                                 theorem="C18_read_first_hit")
    # writes
    for n in range(1, 5):
        for op, params in WRITES.items():
            for form in ("positional", "keyword", "defaults"):
                log = []
                fc = FallbackClient([Cache(i, HIT, log) for i in range(n)])
                vals = {p: ("arg", p) for p in params}
                if form == "positional":
                    getattr(fc, op)(*[vals[p] for p in params])
                    want = tuple(vals[p] for p in params)
                elif form == "keyword":
                    getattr(fc, op)(**vals)
                    want = tuple(vals[p] for p in params)
                else:
                    req = [p for p in params if p not in DEFAULTS]
                    getattr(fc, op)(*[vals[p] for p in req])
                    want = tuple(vals[p] if p not in DEFAULTS else DEFAULTS[p] for p in params)
                case = {"op": op, "form": form, "caches": n, "log": repr(log)}
                ctx.case(("write", op, form, n), sample=case if (op == "cas" and n == 2 and form == "defaults") else None)
                ctx.count("write:" + op)
                if len(log) != 1 or log[0][0] != 0 or log[0][1] != op:
                    ctx.violation("mutating operation not applied to exactly the first cache", case)
                else:
                    got = log[0][2] + tuple(v for _, v in log[0][3])
                    if got != want or log[0][3]:
                        # keyword forwarding would be fine too if names match; compare by binding
                        bound = dict(zip(params, log[0][2]))
                        bound.update(dict(log[0][3]))
                        if tuple(bound.get(p) for p in params) != want:
                            ctx.violation("caller's arguments not forwarded unchanged", case)
    # whatever the first cache answers to a mutating call (True, False, None = "no such key", 0), no other cache is asked
    try:
        for n in range(1, 5):
            for op, params in WRITES.items():
                for answer in (True, False, None, 0):
                    for form in ("positional", "keyword"):
                        Cache.write_answer = answer
                        log = []
                        fc = FallbackClient([Cache(i, HIT, log) for i in range(n)])
                        vals = {p_: ("arg", p_) for p_ in params}
                        try:
                            got = getattr(fc, op)(*[vals[p_] for p_ in params]) if form == "positional" else getattr(fc, op)(**vals)
                        except Exception as e:
                            got = e
                        case = {"op": op, "form": form, "caches": n, "first_cache_answers": repr(answer), "returned": repr(got)[:60], "log": repr(log)[:200]}
                        ctx.case(("write-answer", op, form, n, repr(answer)))
                        ctx.count("write-answers")
                        if len(log) != 1 or log[0][0] != 0 or log[0][1] != op:
                            ctx.violation("mutating operation not applied to exactly the first cache", case, tags=["write-answer"])
                        elif isinstance(got, Exception):
                            ctx.violation("a mutating operation raised on a healthy first cache", case, tags=["write-answer"])
                        # (what the call returns is not part of the property: the unchanged FallbackClient returns None from its writes)
    finally:
        Cache.write_answer = "tuple"
    # a read answered by a fallback cache, then every mutating operation on the SAME object: still the first cache only
    for n in (2, 3, 4):
        for pos in range(1, n):
            for rop in ("gets", "gets_many", "get", "get_many"):
                for wop, params in WRITES.items():
                    log = []
                    kinds = [NONE] * n
                    kinds[pos] = HIT
                    fc = FallbackClient([Cache(i, k, log) for i, k in enumerate(kinds)])
                    getattr(fc, rop)("k" if rop in ("get", "gets") else ["k", "j"])
                    del log[:]
                    vals = {p_: ("arg", p_) for p_ in params}
                    if "key" in params:
                        vals["key"] = "k"
                    try:
                        getattr(fc, wop)(**vals)
                    except Exception as e:
                        ctx.violation("a mutating operation raised after a read", {"read": rop, "answered_by_cache": pos, "write": wop, "error": repr(e)[:80]}, tags=["history"])
                        continue
                    ctx.case(("read-then-write", n, pos, rop, wop))
                    ctx.count("read-then-write-histories")
                    if [e[0] for e in log] != [0] or log[0][1] != wop:
                        ctx.violation("after a read that a fallback cache answered, a mutating operation was not applied to exactly the first cache",
                                      {"caches": n, "read": rop, "answered_by_cache": pos, "write": wop, "log": repr(log)[:200]}, tags=["history"])
    # the list of caches is a public attribute: after it is changed (a new first cache promoted, the first one replaced), reads and writes follow
    # the list as it is NOW - also on an object that has already been used
    for n in (1, 2, 3):
        for change in ("insert-first", "replace-first", "assign-new-list", "reverse"):
            for used_before in (False, True):
                log = []
                caches = [Cache(i, HIT if i == n - 1 else NONE, log) for i in range(n)]
                fc = FallbackClient(list(caches))
                if used_before:
                    fc.set("k", "v")
                    fc.get("k")
                new = Cache(9, NONE, log)
                if change == "insert-first":
                    fc.caches.insert(0, new)
                    now = [new] + caches
                elif change == "replace-first":
                    fc.caches[0] = new
                    now = [new] + caches[1:]
                elif change == "assign-new-list":
                    fc.caches = [new] + caches
                    now = [new] + caches
                else:
                    fc.caches.reverse()
                    now = caches[::-1]
                ctx.case(("reconfigure", n, change, used_before))
                ctx.count("reconfiguration-histories")
                case = {"caches_before": n, "change": change, "object_used_before": used_before}
                for wop, params in WRITES.items():
                    del log[:]
                    getattr(fc, wop)(**{p_: ("arg", p_) for p_ in params})
                    if [e[0] for e in log] != [now[0].idx] or log[0][1] != wop:
                        ctx.violation("after the list of caches was changed, a mutating operation was not applied to exactly the (new) first cache",
                                      dict(case, write=wop, went_to=[e[0] for e in log], first_cache_now=now[0].idx), tags=["history", "reconfigure"])
                        break
                del log[:]
                fc.get("k")
                kinds_now = [c_.kind for c_ in now]
                first = next((i for i, k_ in enumerate(kinds_now) if k_ != NONE), None)
                want = [c_.idx for c_ in (now if first is None else now[:first + 1])]
                if [e[0] for e in log] != want:
                    ctx.violation("after the list of caches was changed, a read did not consult the caches in the (new) configured order",
                                  dict(case, consulted=[e[0] for e in log], want=want), tags=["history", "reconfigure"])
    # operations that are neither reads nor writes (close, quit, stats) leave the configuration alone: afterwards - the application may go on using
    # the object, e.g. after a reconnect - writes still go to the first cache and reads still start there
    for n in (1, 2, 3, 4):
        for between in (["close"], ["close", "close"], ["quit"], ["stats"], ["close", "quit", "close"], ["get", "close"], ["set", "close", "get", "close", "close"]):
            for hitpos in range(n):
                log = []
                caches = [Cache(i, HIT if i == hitpos else NONE, log) for i in range(n)]
                fc = FallbackClient(list(caches))
                ctx.case(("non-data-ops", n, tuple(between), hitpos))
                ctx.count("non-data-operation-histories")
                case = {"caches": n, "operations_before": between, "hit_in_cache": hitpos}
                try:
                    for b_ in between:
                        fc.get("k") if b_ == "get" else fc.set("k", "v") if b_ == "set" else getattr(fc, b_)()
                except Exception as e:
                    ctx.violation("close/quit/stats raised", dict(case, error=repr(e)[:80]), tags=["history", "non-data-ops"])
                    continue
                bad = None
                for wop, params in WRITES.items():
                    del log[:]
                    getattr(fc, wop)(**{p_: ("arg", p_) for p_ in params})
                    if [e[0] for e in log] != [0] or log[0][1] != wop:
                        bad = f"{wop} was applied to cache(s) {[e[0] for e in log]}, not to the first one"
                        break
                for rop in ("get", "gets", "get_many", "gets_many"):
                    del log[:]
                    getattr(fc, rop)("k" if not rop.endswith("many") else ["k"])
                    if bad is None and [e[0] for e in log] != list(range(hitpos + 1)):
                        bad = f"{rop} consulted caches {[e[0] for e in log]}, configured order is {list(range(n))} with the hit in {hitpos}"
                if bad:
                    ctx.violation("after operations that are neither reads nor writes: " + bad, case, tags=["history", "non-data-ops"])
    # the list of caches is replaced (`fc.caches = [...]`, what a reconfiguring thread does) WHILE a read is waiting for some cache's answer: the read
    # consults the caches of ONE configuration in order up to the first answer - the one in force when it began, or the new one - never a mixture
    for n in (2, 3):
        for m in (1, 2, 3):
            for during_idx in range(n):
                for old_hit in list(range(during_idx, n)) + [None]:
                    for new_hit in list(range(m)) + [None]:
                        for rop in ("get", "gets", "get_many", "gets_many"):
                            log = []
                            old = [Cache(i, HIT if i == old_hit else NONE, log) for i in range(n)]
                            new_ = [Cache(10 + i, HIT if i == new_hit else NONE, log) for i in range(m)]
                            fc = FallbackClient(list(old))
                            old[during_idx].during = lambda _fc=fc, _new=new_: setattr(_fc, "caches", list(_new))
                            getattr(fc, rop)("k" if not rop.endswith("many") else ["k"])
                            got = [e[0] for e in log]
                            want_old = list(range(n if old_hit is None else old_hit + 1))
                            want_new = got[:during_idx + 1] == list(range(during_idx + 1)) and got[during_idx + 1:] == [10 + i for i in range(m if new_hit is None else new_hit + 1)]
                            ctx.case(("rebind-during-read", n, m, during_idx, old_hit, new_hit, rop))
                            ctx.count("reconfiguration during a read")
                            if got != want_old and not want_new:
                                ctx.violation("the list of caches was replaced while a read was in progress: the read consulted a mixture of the two configurations",
                                              {"old": list(range(n)), "new": [10 + i for i in range(m)], "replaced_while_waiting_for": during_idx, "old_hit": old_hit, "new_hit": new_hit,
                                               "read": rop, "consulted": got, "old_configuration_would_consult": want_old}, tags=["history", "reconfigure-during-read"])
    ctx.assumptions = ["caches are scripted objects; only the call log is observed"]
    ctx.finish()
