"""C18 — FallbackClient: reads fall through in order, writes touch only the primary.
Single calls are compared with `Fallback.firstHit` (driver `fallback`); histories on one object - state changes of the caches, reconfiguration
of `fc.caches`, close/quit/stats, random mixed histories - are recorded by `Hist` and compared step by step (call log and result, final list)
with the state machine `FallbackHist.run` (driver `fallbackhist`); disagreements name the `C18_hist_*` theorem about that kind of step."""
import itertools

from common import Ctx, import_repo

NONE, EMPTY, HIT = "N", "E", "H"


class Cache:
    def __init__(self, idx, kind, log):
        self.idx, self.kind, self.log = idx, kind, log

    during = None          # called while this cache is answering a read (what another thread does meanwhile)

    def _read(self, op, multi, arg):
        self.log.append((self.idx, op, (arg,), ()))
        if self.during is not None:
            hook, self.during = self.during, None
            hook()
        if self.kind == NONE:
            return None
        if self.kind == EMPTY:
            return {} if multi else 0      # falsy but not None
        return {"k": ("hit", self.idx)} if multi else ("hit", self.idx)

    def get(self, key): return self._read("get", False, key)
    def gets(self, key): return self._read("gets", False, key)
    def get_many(self, keys): return self._read("get_many", True, keys)
    def gets_many(self, keys): return self._read("gets_many", True, keys)

    write_answer = "tuple"

    def __getattr__(self, name):
        def f(*a, **kw):
            self.log.append((self.idx, name, a, tuple(sorted(kw.items()))))
            wa = Cache.write_answer
            return ("ret", name, self.idx) if wa == "tuple" else wa
        return f


class ColdCache(Cache):
    """a cache object that is FALSY (a dict-backed fake that is still empty: `len()` is 0) - it is a configured cache all the same"""
    def __len__(self):
        return 0


WRITES = {
    "set": ("key", "value", "expire", "noreply"), "add": ("key", "value", "expire", "noreply"),
    "replace": ("key", "value", "expire", "noreply"), "append": ("key", "value", "expire", "noreply"),
    "prepend": ("key", "value", "expire", "noreply"), "cas": ("key", "value", "cas", "expire", "noreply"),
    "delete": ("key", "noreply"), "incr": ("key", "value", "noreply"), "decr": ("key", "value", "noreply"),
    "touch": ("key", "expire", "noreply"), "flush_all": ("delay", "noreply"),
}
DEFAULTS = {"expire": 0, "noreply": True, "delay": 0}


# ---------------------------------------------------------------------------------------------------------------------------------
# histories on ONE object, compared step by step with the Lean model `FallbackHist.run` (driver command `fallbackhist`)
# ---------------------------------------------------------------------------------------------------------------------------------
READ_OPS = ("get", "gets", "get_many", "gets_many")


def ph(op, p_):
    """a well-typed, recognisable argument value for parameter p_ of the mutating operation op (a delta for incr / decr)"""
    if p_ == "value" and op in ("incr", "decr"):
        return 11
    return {"key": "kArg", "value": "vArg", "expire": 33, "noreply": False, "cas": "77", "delay": 9}[p_]


def tok(x):
    """one argument as a token of the model line (no blanks and none of , ; : + | ( ) =)"""
    if isinstance(x, tuple) and len(x) == 2 and x[0] == "arg":
        return str(x[1])
    if x is True or x is False or x is None:
        return repr(x)
    if isinstance(x, (int, str)):
        return str(x)
    try:
        return "[" + "&".join(sorted(map(str, x))) + "]"
    except TypeError:
        return "?" + type(x).__name__


def enc_caches(caches):
    """`<id>/<answers to get, gets, get_many, gets_many>`: a scripted cache answers all four reads according to its kind"""
    return "+".join(f"{c.idx}/{ {NONE: 'N', EMPTY: 'E', HIT: 'H'}[c.kind] * 4}" for c in caches) or "-"


def bound_args(name, a, kw):
    """the arguments a cache received, bound to the parameter order of the method (forwarding by keyword with the right names is the same call)"""
    kw = dict(kw)
    vals = [tok(v) for v in a]
    for p_ in WRITES.get(name, ())[len(a):]:
        if p_ not in kw:
            break
        vals.append(tok(kw.pop(p_)))
    return vals + [f"{k_}={tok(v_)}" for k_, v_ in sorted(kw.items())]


class Hist:
    """Performs a history on one FallbackClient and records it twice: as the operations of the model line, and as what really happened
    (per step: the calls the caches received and the result).  `configured` is the list of caches as the APPLICATION last set it."""

    def __init__(self, ctx, fc, log, case):
        self.ctx, self.fc, self.log, self.case = ctx, fc, log, case
        self.configured = list(fc.caches)
        self.init = enc_caches(self.configured)
        self.ops, self.real, self.kinds = [], [], []

    def sync(self):
        """the application has changed `fc.caches` (assignment or in-place edit) or the state of the caches: one `setCaches` step"""
        self.configured = list(self.fc.caches)
        self.ops.append("setc:" + enc_caches(self.configured))
        self.real.append("-=>None")
        self.kinds.append("setc")

    def call(self, op, *a, **kw):
        n0 = len(self.log)
        exc = None
        try:
            res = getattr(self.fc, op)(*a, **kw)
        except Exception as e:
            res, exc = None, e
        entries = self.log[n0:]
        if op in READ_OPS:
            self.ops.append(f"{op}:{tok(a[0])}")
            self.kinds.append("read")
            if exc is not None:
                r = "exc:" + type(exc).__name__
            elif res is None:
                r = "None"
            elif isinstance(res, list) and not res:
                r = "[]"
            elif isinstance(res, dict) and res and all(isinstance(v, tuple) and v[0] == "hit" for v in res.values()):
                r = "H" + "/".join(sorted({str(v[1]) for v in res.values()}))
            elif isinstance(res, tuple) and res[:1] == ("hit",):
                r = f"H{res[1]}"
            elif (res == 0 and isinstance(res, int)) or res == {}:
                r = "E"
            else:
                r = "?" + repr(res)[:40]
        else:
            if op in WRITES:
                params = WRITES[op]
                given = [tok(a[i]) if i < len(a) else tok(kw[p_]) if p_ in kw else "-" for i, p_ in enumerate(params)]
                given += [tok(v) for v in a[len(params):]] + [f"{k_}={tok(v_)}" for k_, v_ in sorted(kw.items()) if k_ not in params]
                self.ops.append(f"{op}:{','.join(given)}")
                self.kinds.append("write")
            else:
                self.ops.append(op)
                self.kinds.append(op)
            # what a mutating / non-data call returns is not part of the property; an exception is
            r = "None" if exc is None else type(exc).__name__ if isinstance(exc, (TypeError, IndexError)) else "exc:" + type(exc).__name__
        calls = "+".join(f"{i}.{name}({','.join(bound_args(name, a_, kw_))})" for i, name, a_, kw_ in entries) or "-"
        self.real.append(f"{calls}=>{r}")
        if exc is not None and op in READ_OPS:
            # the scripted caches never raise: a read that raises is a failure of the read itself (and the model comparison will name the step)
            self.ctx.violation("a read raised although no cache did", dict(self.case, history=list(self.ops), configured=[c_.idx for c_ in self.configured],
                                                                          error=repr(exc)[:80]), tags=["history", "read-raised"])
            return None
        if exc is not None:
            raise exc
        return res

    def line(self):
        return f"fallbackhist init={self.init} ops={';'.join(self.ops) or '-'}"

    THEOREM = {"close": "C18_hist_close_calls_every_cache_in_order", "quit": "C18_hist_quit_stats_do_nothing", "stats": "C18_hist_quit_stats_do_nothing",
               "setc": "C18_hist_state_is_last_assigned"}

    def compare(self, reply):
        """model reply vs what happened; the first differing step is reported under the theorem that speaks about that kind of step"""
        now = ",".join(str(c.idx) for c in self.fc.caches) or "-"
        case = dict(self.case, history=self.ops, init=self.init)
        if not reply.startswith("ok steps=") or " caches=" not in reply:
            self.ctx.disagreement("the model did not accept the history", dict(case, model=reply), theorem="C18_hist_step_output")
            return
        steps, ids = reply[len("ok steps="):].split(" caches=")
        steps = [] if steps == "-" else steps.split("|")
        if len(steps) != len(self.real):
            self.ctx.disagreement("model and implementation histories differ in length", dict(case, model=reply), theorem="C18_hist_outputs_length")
            return
        for n, (m, r, kind) in enumerate(zip(steps, self.real, self.kinds)):
            if m != r:
                if kind == "read":
                    th = "C18_hist_read_all_miss" if m.endswith(("=>None", "=>[]")) else "C18_hist_read_first_hit"
                elif kind == "write":
                    th = "C18_hist_write_failed_touches_nothing" if m.endswith("Error") else "C18_hist_write_first_only"
                else:
                    th = self.THEOREM[kind]
                self.ctx.disagreement("model FallbackHist.run differs from the implementation at one step of a history on one object",
                                      dict(case, step=n, operation=self.ops[n], impl=r, model=m), theorem=th)
                return
        if ids != now:
            self.ctx.disagreement("after the history the object's list of caches is not the one the application assigned last",
                                  dict(case, impl_caches=now, model_caches=ids), theorem="C18_hist_list_changes_only_by_setCaches")


def main(argv):
    ctx = Ctx("C18", argv)
    ctx.prepare_lean()
    import_repo()
    from pymemcache.fallback import FallbackClient
    ctx.rule = ("exhaustive: 1..4 caches (5 in thorough) x every assignment of {None, falsy-non-None, hit} x 4 read ops; "
                "every mutating op x positional/keyword/default argument forms x 1..4 caches; "
                "histories on one object (state changes of the caches, reconfiguration of the list, close/quit/stats, 500 (4000) random mixed histories) "
                "compared step by step with the model FallbackHist.run; non-trivial = distinct (op, assignment) / distinct history")
    ctx.exhaustive = True
    lines, metas = [], []
    hists = []            # recorded histories on one object (class Hist), compared with the model at the end
    for n in range(1, 6 if ctx.thorough else 5):
        for kinds in itertools.product([NONE, EMPTY, HIT], repeat=n):
            for op in ("get", "gets", "get_many", "gets_many"):
                log = []
                fc = FallbackClient([Cache(i, k, log) for i, k in enumerate(kinds)])
                arg = "k" if op in ("get", "gets") else ["k", "j"]
                res = getattr(fc, op)(arg)
                multi = op.endswith("many")
                case = {"op": op, "caches": list(kinds), "result": repr(res), "consulted": [e[0] for e in log]}
                ctx.case((op, kinds), sample=case if (n == 3 and kinds[1] == EMPTY and op == "get") else None)
                ctx.count(op)
                # monitor, straight from the statement
                hit = (lambda k: k == HIT) if multi else (lambda k: k != NONE)
                first = next((i for i, k in enumerate(kinds) if hit(k)), None)
                want_consulted = list(range(n)) if first is None else list(range(first + 1))
                if [e[0] for e in log] != want_consulted or any(e[1] != op or e[2] != (arg,) for e in log):
                    ctx.violation("caches not consulted in order up to and including the first hit", case)
                if first is None:
                    ok = (res == []) if multi else (res is None)
                else:
                    ok = res == ({"k": ("hit", first)} if multi else (("hit", first) if kinds[first] == HIT else 0))
                if not ok:
                    ctx.violation("read did not return the first hit / the fall-through value", case)
                enc = ",".join(k if k != HIT else f"H{i}" for i, k in enumerate(kinds))
                lines.append(f"fallback mode={'multi' if multi else 'single'} answers={enc}")
                if first is None:
                    real = f"ok result=FALLTHROUGH consulted={len(log)}"
                else:
                    # which cache's answer came back
                    who = str(first) if ok else "?"
                    real = f"ok result={kinds[first] if kinds[first] != HIT else 'H' + who} consulted={len(log)}"
                metas.append((case, real))
    # histories on ONE FallbackClient object: the caches change state between the calls ("for every state of the underlying caches");
    # every read of the history is judged like a single read, and consults the model for that state
    def judge(fc, log, kinds, op, hist, coll=list, rec=None):
        del log[:]
        arg = "k" if op in ("get", "gets") else coll(["k", "j"])
        res = rec.call(op, arg) if rec is not None else getattr(fc, op)(arg)
        multi = op.endswith("many")
        hit = (lambda k: k == HIT) if multi else (lambda k: k != NONE)
        first = next((i for i, k in enumerate(kinds) if hit(k)), None)
        want_consulted = list(range(len(kinds))) if first is None else list(range(first + 1))
        case = {"history": hist, "op": op, "caches": list(kinds), "result": repr(res), "consulted": [e[0] for e in log]}
        if [e[0] for e in log] != want_consulted or any(e[1] != op or e[2] != (arg,) for e in log):
            ctx.violation("caches not consulted in order up to and including the first hit (in a sequence of calls on one object)", case, tags=["history"])
            return False
        if first is None:
            ok = (res == []) if multi else (res is None)
        else:
            ok = res == ({"k": ("hit", first)} if multi else (("hit", first) if kinds[first] == HIT else 0))
        if not ok:
            ctx.violation("read did not return the first hit / the fall-through value (in a sequence of calls on one object)", case, tags=["history"])
            return False
        enc = ",".join(k if k != HIT else f"H{i}" for i, k in enumerate(kinds))
        lines.append(f"fallback mode={'multi' if multi else 'single'} answers={enc}")
        metas.append((case, f"ok result=FALLTHROUGH consulted={len(log)}" if first is None else
                      f"ok result={kinds[first] if kinds[first] != HIT else 'H' + str(first)} consulted={len(log)}"))
        return True
    # the keys of a multi-key read may be any iterable of keys (tuple, set, frozenset, dict view), not only a list
    for n in (1, 2, 3):
        for kinds in itertools.product([NONE, EMPTY, HIT], repeat=n):
            for op in ("get_many", "gets_many"):
                for cname, coll in (("tuple", tuple), ("set", set), ("frozenset", frozenset), ("dict-keys", lambda ks: dict.fromkeys(ks).keys())):
                    log = []
                    fc = FallbackClient([Cache(i, k, log) for i, k in enumerate(kinds)])
                    ctx.case(("coll", n, kinds, op, cname))
                    ctx.count("key-collection-types")
                    rec = Hist(ctx, fc, log, {"section": "keys given as a " + cname, "op": op})
                    hists.append(rec)
                    judge(fc, log, kinds, op, [op + "(" + cname + ")"], coll=coll, rec=rec)
    READS = ("get", "gets", "get_many", "gets_many")
    for n in (2, 3):
        states = list(itertools.product([NONE, EMPTY, HIT], repeat=n))
        for k1 in states:
            for k2 in states:
                for op1, op2 in (itertools.product(READS, repeat=2) if n == 2 else [(o, o) for o in READS] + [("get", "get_many"), ("gets_many", "get")]):
                    log = []
                    caches = [Cache(i, k, log) for i, k in enumerate(k1)]
                    fc = FallbackClient(caches)
                    ctx.case(("hist", n, k1, k2, op1, op2))
                    ctx.count("two-call-histories")
                    rec = Hist(ctx, fc, log, {"section": "two-call history, the caches change state between the calls", "ops": [op1, op2]})
                    hists.append(rec)
                    if not judge(fc, log, k1, op1, [op1], rec=rec):
                        continue
                    for c, k in zip(caches, k2):
                        c.kind = k
                    rec.sync()
                    if ctx.thorough or (hash((k1, k2, op1)) % 4 == 0):
                        rec.call("set", "k", "v")          # a write in between goes to the primary only and changes nothing for the reads
                        if [e[0] for e in log if e[1] == "set"] != [0]:
                            ctx.violation("mutating operation not applied to exactly the first cache (in a sequence of calls on one object)",
                                          {"history": [op1, "set"], "log": repr(log)}, tags=["history"])
                            continue
                    if not judge(fc, log, k2, op2, [op1, op2], rec=rec):
                        continue
                    if n == 2 or ctx.thorough:
                        for c, k in zip(caches, k1):
                            c.kind = k
                        rec.sync()
                        judge(fc, log, k1, op1, [op1, op2, op1], rec=rec)
    if ctx.lean.build_ok:
        for (case, real), m in zip(metas, ctx.driver.batch(lines)):
            if m != real:
                ctx.disagreement("model firstHit differs from implementation", dict(case, impl=real, model=m),
                                 theorem="C18_read_first_hit")
    # writes
    for n in range(1, 5):
        for op, params in WRITES.items():
            for form, style in [(f_, s_) for f_ in ("positional", "keyword", "defaults") for s_ in ("sentinel", "falsy", "none", "realistic", "negative", "large")]:
                log = []
                fc = FallbackClient([Cache(i, HIT, log) for i in range(n)])
                # the values the caller passes: recognisable sentinels; falsy ones (noreply=False, expire=0, an empty value, delay 0 - whatever the
                # parameter's default is, what was passed is what must arrive); None for everything optional; ordinary ones
                falsy = {"key": "k", "value": b"", "expire": 0, "noreply": False, "cas": b"0", "delay": 0}
                realistic = {"key": "user:1", "value": b"payload", "expire": 300, "noreply": False, "cas": b"12", "delay": 5}
                # expiry times beyond thirty days (memcached reads those as absolute timestamps - the caller's business, not the wrapper's), long delays
                large = dict(realistic, expire=[2592001, 86400 * 45, 86400 * 365, 2 ** 31 - 1][n - 1], delay=2592001 * n)
                vals = {p: (("arg", p) if style == "sentinel" else falsy[p] if style == "falsy" else large[p] if style == "large" else realistic[p] if style in ("realistic", "negative") else
                            (None if p in DEFAULTS else ("arg", p))) for p in params}
                if style == "large" and not ({"expire", "delay"} & set(params)):
                    continue
                if op in ("incr", "decr"):
                    # the second argument of incr / decr is a delta: zero, ordinary, negative and huge ones are all the caller's business (the server judges them)
                    vals["value"] = {"sentinel": ("arg", "value"), "falsy": 0, "none": ("arg", "value"), "realistic": 7, "negative": (-7 if n % 2 else -2 ** 63)}[style]
                elif style == "negative":
                    continue
                try:
                    if form == "positional":
                        getattr(fc, op)(*[vals[p] for p in params])
                        want = tuple(vals[p] for p in params)
                    elif form == "keyword":
                        getattr(fc, op)(**vals)
                        want = tuple(vals[p] for p in params)
                    else:
                        req = [p for p in params if p not in DEFAULTS]
                        getattr(fc, op)(*[vals[p] for p in req])
                        want = tuple(vals[p] if p not in DEFAULTS else DEFAULTS[p] for p in params)
                except Exception as e:
                    if style in ("sentinel", "none"):
                        ctx.count("write refused for placeholder argument values (no verdict)")
                    else:
                        ctx.violation("a mutating operation raised for ordinary argument values",
                                      {"op": op, "form": form, "argument_values": style, "passed": repr(vals)[:120], "caches": n, "error": repr(e)[:80]}, tags=["write-raised"])
                    continue
                case = {"op": op, "form": form, "argument_values": style, "passed": repr(vals)[:120], "caches": n, "log": repr(log)}
                ctx.case(("write", op, form, style, n), sample=case if (op == "cas" and n == 2 and form == "defaults" and style == "sentinel") else None)
                ctx.count("write:" + op)
                if len(log) != 1 or log[0][0] != 0 or log[0][1] != op:
                    ctx.violation("mutating operation not applied to exactly the first cache", case)
                else:
                    got = log[0][2] + tuple(v for _, v in log[0][3])
                    if got != want or log[0][3]:
                        # keyword forwarding would be fine too if names match; compare by binding
                        bound = dict(zip(params, log[0][2]))
                        bound.update(dict(log[0][3]))
                        if tuple(bound.get(p) for p in params) != want:
                            ctx.violation("caller's arguments not forwarded unchanged", case)
    # whatever the first cache answers to a mutating call (True, False, None = "no such key", 0), no other cache is asked
    try:
        for n in range(1, 5):
            for op, params in WRITES.items():
                for answer in (True, False, None, 0):
                    for form in ("positional", "keyword"):
                        Cache.write_answer = answer
                        log = []
                        fc = FallbackClient([Cache(i, HIT, log) for i in range(n)])
                        vals = {p_: ph(op, p_) for p_ in params}
                        try:
                            got = getattr(fc, op)(*[vals[p_] for p_ in params]) if form == "positional" else getattr(fc, op)(**vals)
                        except Exception as e:
                            got = e
                        case = {"op": op, "form": form, "caches": n, "first_cache_answers": repr(answer), "returned": repr(got)[:60], "log": repr(log)[:200]}
                        ctx.case(("write-answer", op, form, n, repr(answer)))
                        ctx.count("write-answers")
                        if len(log) != 1 or log[0][0] != 0 or log[0][1] != op:
                            ctx.violation("mutating operation not applied to exactly the first cache", case, tags=["write-answer"])
                        elif isinstance(got, Exception):
                            ctx.violation("a mutating operation raised on a healthy first cache", case, tags=["write-answer"])
                        # (what the call returns is not part of the property: the unchanged FallbackClient returns None from its writes)
    finally:
        Cache.write_answer = "tuple"
    # a read answered by a fallback cache, then every mutating operation on the SAME object: still the first cache only
    for n in (2, 3, 4):
        for pos in range(1, n):
            for rop in ("gets", "gets_many", "get", "get_many"):
                for wop, params in WRITES.items():
                    log = []
                    kinds = [NONE] * n
                    kinds[pos] = HIT
                    fc = FallbackClient([Cache(i, k, log) for i, k in enumerate(kinds)])
                    rec = Hist(ctx, fc, log, {"section": "a read answered by a fallback cache, then a mutating operation", "read": rop, "write": wop})
                    hists.append(rec)
                    rec.call(rop, "k" if rop in ("get", "gets") else ["k", "j"])
                    del log[:]
                    vals = {p_: ph(wop, p_) for p_ in params}
                    if "key" in params:
                        vals["key"] = "k"
                    try:
                        rec.call(wop, **vals)
                    except Exception as e:
                        ctx.violation("a mutating operation raised after a read", {"read": rop, "answered_by_cache": pos, "write": wop, "error": repr(e)[:80]}, tags=["history"])
                        continue
                    ctx.case(("read-then-write", n, pos, rop, wop))
                    ctx.count("read-then-write-histories")
                    if [e[0] for e in log] != [0] or log[0][1] != wop:
                        ctx.violation("after a read that a fallback cache answered, a mutating operation was not applied to exactly the first cache",
                                      {"caches": n, "read": rop, "answered_by_cache": pos, "write": wop, "log": repr(log)[:200]}, tags=["history"])
    # every mutating operation on a key, then a read of that key on the SAME object while the first cache misses and a fallback holds it: the read
    # falls through exactly as on a fresh object (the wrapper keeps no memory of what was written or deleted through it)
    for n in (2, 3, 4):
        for pos in range(1, n):
            for wop, params in WRITES.items():
                for rop in ("get", "gets", "get_many", "gets_many"):
                    log = []
                    kinds = [NONE] * n
                    kinds[pos] = HIT
                    fc = FallbackClient([Cache(i, k, log) for i, k in enumerate(kinds)])
                    rec = Hist(ctx, fc, log, {"section": "a mutating operation, then a read a fallback cache has to answer", "write": wop, "read": rop})
                    hists.append(rec)
                    vals = {p_: ph(wop, p_) for p_ in params}
                    if "key" in params:
                        vals["key"] = "k"
                    try:
                        rec.call(wop, **vals)
                        del log[:]
                        rec.call(rop, "k" if rop in ("get", "gets") else ["k", "j"])
                    except Exception as e:
                        ctx.violation("a call raised in a write-then-read history on healthy caches", {"write": wop, "read": rop, "holder": pos, "error": repr(e)[:80]}, tags=["history"])
                        continue
                    ctx.case(("write-then-read", n, pos, wop, rop))
                    ctx.count("write-then-read-histories")
                    if [e[0] for e in log] != list(range(pos + 1)):
                        ctx.violation("after a mutating operation on the same object a read did not consult the caches in order up to the one holding the key",
                                      {"caches": n, "write": wop, "read": rop, "key_held_by_cache": pos, "consulted": [e[0] for e in log]}, tags=["history"])
    # the list of caches is a public attribute: after it is changed (a new first cache promoted, the first one replaced), reads and writes follow
    # the list as it is NOW - also on an object that has already been used
    for n in (1, 2, 3):
        for change in ("insert-first", "replace-first", "assign-new-list", "reverse"):
            for used_before in (False, True):
                log = []
                caches = [Cache(i, HIT if i == n - 1 else NONE, log) for i in range(n)]
                fc = FallbackClient(list(caches))
                rec = Hist(ctx, fc, log, {"section": "reconfiguration history", "caches_before": n, "change": change, "object_used_before": used_before})
                hists.append(rec)
                if used_before:
                    rec.call("set", "k", "v")
                    rec.call("get", "k")
                new = Cache(9, NONE, log)
                if change == "insert-first":
                    fc.caches.insert(0, new)
                    now = [new] + caches
                elif change == "replace-first":
                    fc.caches[0] = new
                    now = [new] + caches[1:]
                elif change == "assign-new-list":
                    fc.caches = [new] + caches
                    now = [new] + caches
                else:
                    fc.caches.reverse()
                    now = caches[::-1]
                rec.sync()
                ctx.case(("reconfigure", n, change, used_before))
                ctx.count("reconfiguration-histories")
                case = {"caches_before": n, "change": change, "object_used_before": used_before}
                for wop, params in WRITES.items():
                    del log[:]
                    rec.call(wop, **{p_: ph(wop, p_) for p_ in params})
                    if [e[0] for e in log] != [now[0].idx] or log[0][1] != wop:
                        ctx.violation("after the list of caches was changed, a mutating operation was not applied to exactly the (new) first cache",
                                      dict(case, write=wop, went_to=[e[0] for e in log], first_cache_now=now[0].idx), tags=["history", "reconfigure"])
                        break
                del log[:]
                rec.call("get", "k")
                kinds_now = [c_.kind for c_ in now]
                first = next((i for i, k_ in enumerate(kinds_now) if k_ != NONE), None)
                want = [c_.idx for c_ in (now if first is None else now[:first + 1])]
                if [e[0] for e in log] != want:
                    ctx.violation("after the list of caches was changed, a read did not consult the caches in the (new) configured order",
                                  dict(case, consulted=[e[0] for e in log], want=want), tags=["history", "reconfigure"])
    # cache objects that are falsy (container-like fakes that are empty when the client is built - the cold new cache in front of the warm old one):
    # what is configured is what is consulted / written, whatever bool(cache) says
    for n in (1, 2, 3):
        for cold in itertools.product([False, True], repeat=n):
            if not any(cold):
                continue
            for hitpos in list(range(n)) + [None]:
                log = []
                try:
                    fc = FallbackClient([(ColdCache if cold[i] else Cache)(i, HIT if i == hitpos else NONE, log) for i in range(n)])
                except Exception as e:
                    ctx.violation("FallbackClient could not be built over its configured caches", {"caches": n, "falsy": list(cold), "error": repr(e)[:80]}, tags=["falsy-cache-object"])
                    continue
                ctx.case(("falsy-cache-object", n, cold, hitpos))
                ctx.count("falsy cache objects")
                case = {"caches": n, "falsy_cache_objects": [i for i in range(n) if cold[i]], "hit_in_cache": hitpos}
                bad = None
                for wop, params in WRITES.items():
                    del log[:]
                    try:
                        getattr(fc, wop)(**{p_: ph(wop, p_) for p_ in params})
                    except Exception as e:
                        bad = f"{wop} raised {e!r}"[:100]
                        break
                    if [e[0] for e in log] != [0] or log[0][1] != wop:
                        bad = f"{wop} was applied to cache(s) {[e[0] for e in log]}, not to the first configured one"
                        break
                for rop in READ_OPS:
                    del log[:]
                    try:
                        getattr(fc, rop)("k" if not rop.endswith("many") else ["k"])
                    except Exception as e:
                        bad = bad or f"{rop} raised {e!r}"[:100]
                        continue
                    want = list(range(n if hitpos is None else hitpos + 1))
                    if bad is None and [e[0] for e in log] != want:
                        bad = f"{rop} consulted caches {[e[0] for e in log]}, configured order says {want}"
                if bad:
                    ctx.violation("with cache objects that are falsy: " + bad, case, tags=["falsy-cache-object"])
    # operations that are neither reads nor writes (close, quit, stats) leave the configuration alone: afterwards - the application may go on using
    # the object, e.g. after a reconnect - writes still go to the first cache and reads still start there
    for n in (1, 2, 3, 4):
        for between in (["close"], ["close", "close"], ["quit"], ["stats"], ["close", "quit", "close"], ["get", "close"], ["set", "close", "get", "close", "close"]):
            for hitpos in range(n):
                log = []
                caches = [Cache(i, HIT if i == hitpos else NONE, log) for i in range(n)]
                fc = FallbackClient(list(caches))
                ctx.case(("non-data-ops", n, tuple(between), hitpos))
                ctx.count("non-data-operation-histories")
                case = {"caches": n, "operations_before": between, "hit_in_cache": hitpos}
                rec = Hist(ctx, fc, log, dict(case, section="operations that are neither reads nor writes (close, quit, stats)"))
                hists.append(rec)
                try:
                    for b_ in between:
                        rec.call("get", "k") if b_ == "get" else rec.call("set", "k", "v") if b_ == "set" else rec.call(b_)
                except Exception as e:
                    ctx.violation("close/quit/stats raised", dict(case, error=repr(e)[:80]), tags=["history", "non-data-ops"])
                    continue
                bad = None
                for wop, params in WRITES.items():
                    del log[:]
                    rec.call(wop, **{p_: ph(wop, p_) for p_ in params})
                    if [e[0] for e in log] != [0] or log[0][1] != wop:
                        bad = f"{wop} was applied to cache(s) {[e[0] for e in log]}, not to the first one"
                        break
                for rop in ("get", "gets", "get_many", "gets_many"):
                    del log[:]
                    rec.call(rop, "k" if not rop.endswith("many") else ["k"])
                    if bad is None and [e[0] for e in log] != list(range(hitpos + 1)):
                        bad = f"{rop} consulted caches {[e[0] for e in log]}, configured order is {list(range(n))} with the hit in {hitpos}"
                if bad:
                    ctx.violation("after operations that are neither reads nor writes: " + bad, case, tags=["history", "non-data-ops"])
    # the list of caches is replaced (`fc.caches = [...]`, what a reconfiguring thread does) WHILE a read is waiting for some cache's answer: the read
    # consults the caches of ONE configuration in order up to the first answer - the one in force when it began, or the new one - never a mixture
    for n in (2, 3):
        for m in (1, 2, 3):
            for during_idx in range(n):
                for old_hit in list(range(during_idx, n)) + [None]:
                    for new_hit in list(range(m)) + [None]:
                        for rop in ("get", "gets", "get_many", "gets_many"):
                            log = []
                            old = [Cache(i, HIT if i == old_hit else NONE, log) for i in range(n)]
                            new_ = [Cache(10 + i, HIT if i == new_hit else NONE, log) for i in range(m)]
                            fc = FallbackClient(list(old))
                            old[during_idx].during = lambda _fc=fc, _new=new_: setattr(_fc, "caches", list(_new))
                            getattr(fc, rop)("k" if not rop.endswith("many") else ["k"])
                            got = [e[0] for e in log]
                            want_old = list(range(n if old_hit is None else old_hit + 1))
                            want_new = got[:during_idx + 1] == list(range(during_idx + 1)) and got[during_idx + 1:] == [10 + i for i in range(m if new_hit is None else new_hit + 1)]
                            ctx.case(("rebind-during-read", n, m, during_idx, old_hit, new_hit, rop))
                            ctx.count("reconfiguration during a read")
                            if got != want_old and not want_new:
                                ctx.violation("the list of caches was replaced while a read was in progress: the read consulted a mixture of the two configurations",
                                              {"old": list(range(n)), "new": [10 + i for i in range(m)], "replaced_while_waiting_for": during_idx, "old_hit": old_hit, "new_hit": new_hit,
                                               "read": rop, "consulted": got, "old_configuration_would_consult": want_old}, tags=["history", "reconfigure-during-read"])
    # mixed histories on ONE object, every kind of step in any order: reads, mutating calls in every argument form (also calls that cannot be made:
    # a required argument left out, or no cache configured), close / quit / stats, the application re-assigning or editing `fc.caches` (also to the
    # empty list, also the same cache twice) and the caches changing state.  Reads and well-formed writes are judged by the statement against the list as
    # the APPLICATION last set it; every step (log and result) and the final list are compared with the model `FallbackHist.run`.
    rng = ctx.rng
    for hno in range(4000 if ctx.thorough else 500):
        log = []
        pool = [Cache(i, rng.choice([NONE, NONE, EMPTY, HIT]), log) for i in range(6)]
        fc = FallbackClient([rng.choice(pool) for _ in range(rng.randrange(1, 5))] if hno % 7 == 0 else rng.sample(pool, rng.randrange(1, 5)))
        rec = Hist(ctx, fc, log, {"section": "mixed history on one object", "history_number": hno})
        hists.append(rec)
        for _ in range(rng.randrange(1, 14)):
            step = rng.choice(["read"] * 4 + ["write"] * 4 + ["nondata"] * 3 + ["reconfigure"] * 2 + ["cache-state", "bad-write"])
            conf = rec.configured
            n0 = len(log)
            if step == "read":
                rop = rng.choice(READ_OPS)
                multi = rop.endswith("many")
                arg = rng.choice([["k", "j"], ("k",), {"k", "j"}]) if multi else rng.choice(["k", "j"])
                res = rec.call(rop, arg)
                entries = log[n0:]
                hitf = (lambda k_: k_ == HIT) if multi else (lambda k_: k_ != NONE)
                first = next((i for i, c_ in enumerate(conf) if hitf(c_.kind)), None)
                want = [c_.idx for c_ in (conf if first is None else conf[:first + 1])]
                case = dict(rec.case, history=list(rec.ops), configured=[c_.idx for c_ in conf], kinds=[c_.kind for c_ in conf], consulted=[e[0] for e in entries], result=repr(res)[:60])
                if [e[0] for e in entries] != want or any(e[1] != rop or e[2] != (arg,) or e[3] for e in entries):
                    ctx.violation("caches not consulted in the configured order up to and including the first hit (mixed history on one object)", case, tags=["history"])
                    break
                if first is None:
                    ok = (res == [] and isinstance(res, list)) if multi else res is None
                else:
                    c_ = conf[first]
                    ok = res == ({"k": ("hit", c_.idx)} if multi else (("hit", c_.idx) if c_.kind == HIT else 0))
                if not ok:
                    ctx.violation("read did not return the first hit / the fall-through value (mixed history on one object)", case, tags=["history"])
                    break
            elif step == "write":
                wop = rng.choice(list(WRITES))
                params = WRITES[wop]
                vals = {p_: rng.choice([ph(wop, p_), ph(wop, p_), {"key": "k2", "value": "", "expire": 0, "noreply": rng.choice([True, False, None]), "cas": "0", "delay": 0}[p_]
                                        if not (p_ == "value" and wop in ("incr", "decr")) else rng.choice([0, 1, -5, 2 ** 64 - 1])]) for p_ in params}
                form = rng.choice(["positional", "keyword", "defaults", "mixed"])
                if form == "positional":
                    a, kw = [vals[p_] for p_ in params], {}
                elif form == "keyword":
                    a, kw = [], dict(vals)
                elif form == "defaults":
                    a, kw = [vals[p_] for p_ in params if p_ not in DEFAULTS], {}
                else:
                    cut = rng.randrange(len(params) + 1)
                    a = [vals[p_] for p_ in params[:cut]]
                    kw = {p_: vals[p_] for p_ in params[cut:] if p_ not in DEFAULTS or rng.random() < .5}
                want = tuple(tok(vals[p_]) if (i < len(a) or p_ in kw) else tok(DEFAULTS[p_]) for i, p_ in enumerate(params))
                try:
                    rec.call(wop, *a, **kw)
                    err = None
                except Exception as e:
                    err = e
                entries = log[n0:]
                case = dict(rec.case, history=list(rec.ops), configured=[c_.idx for c_ in conf], write=wop, form=form, log=repr(entries)[:200], error=repr(err)[:80])
                if conf:
                    if err is not None:
                        ctx.violation("a mutating operation raised on a healthy first cache (mixed history on one object)", case, tags=["history"])
                        break
                    if [e[0] for e in entries] != [conf[0].idx] or entries[0][1] != wop:
                        ctx.violation("mutating operation not applied to exactly the first cache of the configured list (mixed history on one object)", case, tags=["history"])
                        break
                    if tuple(bound_args(wop, entries[0][2], entries[0][3])) != want:
                        ctx.violation("caller's arguments not forwarded unchanged (mixed history on one object)", dict(case, want=want), tags=["history"])
                        break
                elif entries:
                    ctx.violation("a mutating operation reached a cache although none is configured", case, tags=["history"])
                    break
            elif step == "bad-write":
                wop = rng.choice([w_ for w_ in WRITES if w_ != "flush_all"])
                try:
                    rec.call(wop) if rng.random() < .5 else rec.call(wop, noreply=False)     # `key` is missing: Python refuses the call
                except TypeError:
                    pass
                if log[n0:]:
                    ctx.violation("a call that cannot be made (required argument missing) reached a cache",
                                  dict(rec.case, history=list(rec.ops), log=repr(log[n0:])[:200]), tags=["history"])
                    break
            elif step == "nondata":
                try:
                    rec.call(rng.choice(["close", "close", "quit", "stats"]))
                except Exception as e:
                    ctx.violation("close/quit/stats raised", dict(rec.case, history=list(rec.ops), error=repr(e)[:80]), tags=["history", "non-data-ops"])
                    break
            elif step == "reconfigure":
                how = rng.choice(["insert-first", "replace-first", "assign", "reverse", "pop", "append", "assign-empty", "assign-same-twice"])
                cs = fc.caches
                if how == "insert-first":
                    cs.insert(0, rng.choice(pool))
                elif how == "replace-first" and cs:
                    cs[0] = rng.choice(pool)
                elif how == "reverse":
                    cs.reverse()
                elif how == "pop" and cs:
                    cs.pop(rng.randrange(len(cs)))
                elif how == "append":
                    cs.append(rng.choice(pool))
                elif how == "assign-empty":
                    fc.caches = []
                elif how == "assign-same-twice":
                    c_ = rng.choice(pool)
                    fc.caches = [c_, c_]
                else:
                    fc.caches = rng.sample(pool, rng.randrange(1, 5))
                rec.sync()
            else:
                for c_ in pool:
                    if rng.random() < .5:
                        c_.kind = rng.choice([NONE, EMPTY, HIT])
                rec.sync()
        ctx.case(("mixed-history", tuple(rec.ops), rec.init))
        ctx.count("mixed histories on one object")
        ctx.count("mixed-history steps", len(rec.ops))
    # every recorded history, step by step (log and result) and the final list of caches, against the model
    if ctx.lean.build_ok and hists:
        ctx.count("histories compared step by step with the model", len(hists))
        for rec, m in zip(hists, ctx.driver.batch([r.line() for r in hists])):
            rec.compare(m)
    ctx.assumptions = ["caches are scripted objects; only the call log is observed"]
    ctx.finish()
