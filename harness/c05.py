"""C05 — return values report the server's actual outcome over any history.
Real `Client` against the reference server behind the fake socket, stepped in lockstep with
(a) the Lean API contract `ApiSpec.spec` on the abstract map (monitor / oracle),
(b) the Lean client∘wire∘server model `Client.onServer` (correspondence),
and the reference server itself is validated against the Lean `Server.feed` on every byte it saw."""
import itertools

from clientlib import call_tokens, cfg_tok, run_call
from common import Ctx, hx, import_repo
from fakesock import FakeSocketModule, World
from refserver import RefServer

KEYS = ["a", "b"]


def alphabet(full=True):
    A = []
    for k in KEYS:
        for v in (b"1", b"x"):
            A.append({"op": "set", "k": k, "v": v, "nr": False})
        A.append({"op": "set", "k": k, "v": b"7", "nr": None})            # default_noreply decides
        A.append({"op": "set", "k": k, "v": b"", "nr": False})            # an empty value is a value, not a miss
        for op in ("add", "replace", "append", "prepend"):
            A.append({"op": op, "k": k, "v": b"1", "nr": False})
        A.append({"op": "cas", "k": k, "v": b"c", "cas": "FRESH"})
        A.append({"op": "cas", "k": k, "v": b"", "cas": "FRESH"})
        A.append({"op": "cas", "k": k, "v": b"c", "cas": b"99999"})
        A.append({"op": "get", "k": k})
        A.append({"op": "gets", "k": k})
        A.append({"op": "delete", "k": k, "nr": False})
        A.append({"op": "incr", "k": k, "d": 1})
        A.append({"op": "decr", "k": k, "d": 2})
        A.append({"op": "touch", "k": k, "e": 100, "nr": False})
    A.append({"op": "gat", "k": "a", "e": 100})
    A.append({"op": "gats", "k": "a", "e": 0})
    A.append({"op": "get_many", "ks": ["a", "b"]})
    A.append({"op": "gets_many", "ks": ["b", "a"]})
    A.append({"op": "delete_many", "ks": ["a", "b"], "nr": False})
    A.append({"op": "set_many", "items": [("a", b"1"), ("b", b"x")], "nr": False})
    A.append({"op": "set", "k": "a", "v": b"1", "e": 100, "nr": False})
    A.append({"op": "set", "k": "a", "v": b"1", "e": -1, "nr": False})
    A.append({"op": "add", "k": "a", "v": b"2", "e": 100, "nr": True})
    A.append({"op": "incr", "k": "a", "d": 5, "nr": True})
    A.append({"op": "delete", "k": "a", "nr": True})
    A.append({"op": "touch", "k": "a", "e": 0, "nr": None})
    # expiry times the server reads as absolute unix time (more than thirty days): just ahead of the server's clock, so the clock advances pass them;
    # and refresh commands with a time in the past (the item is gone at once)
    A.append({"op": "set", "k": "a", "v": b"1", "e": 1_000_000_100, "nr": False})
    A.append({"op": "add", "k": "a", "v": b"1", "e": 1_000_000_050, "nr": True})
    A.append({"op": "touch", "k": "a", "e": 1_000_000_100, "nr": False})
    A.append({"op": "set", "k": "a", "v": b"1", "e": 2592001, "nr": False})
    A.append({"op": "touch", "k": "a", "e": -1, "nr": False})
    A.append({"op": "gat", "k": "a", "e": -1})
    A.append({"op": "gats", "k": "a", "e": -5})
    # conditional store with an expiry (then the clock passes it)
    A.append({"op": "cas", "k": "a", "v": b"t", "cas": "FRESH", "e": 100, "nr": False})
    A.append({"op": "add", "k": "a", "v": b"t", "e": 100, "nr": False})
    A.append({"op": "replace", "k": "a", "v": b"t", "e": 50, "nr": False})
    A.append({"op": "gats", "k": "a", "e": 100})
    # every reply-less form: the documented constant is returned and the effect still takes place
    A.append({"op": "cas", "k": "a", "v": b"n", "cas": "FRESH", "nr": True})
    A.append({"op": "cas", "k": "a", "v": b"n", "cas": b"99999", "nr": True})
    A.append({"op": "replace", "k": "a", "v": b"r", "nr": True})
    A.append({"op": "append", "k": "a", "v": b"+", "nr": True})
    A.append({"op": "prepend", "k": "a", "v": b"-", "nr": True})
    A.append({"op": "decr", "k": "a", "d": 1, "nr": True})
    A.append({"op": "touch", "k": "a", "e": 100, "nr": True})
    A.append({"op": "delete_many", "ks": ["a", "b"], "nr": True})
    A.append({"op": "set_many", "items": [("a", b"5"), ("b", b"6")], "nr": True})
    A.append({"op": "flush_all", "d": 0, "nr": True})
    A.append({"op": "flush_all", "d": 0, "nr": False})
    A.append({"op": "flush_all", "d": 50, "nr": None})
    for dt in (49, 50, 99, 100, 101):
        A.append({"op": "ADVANCE", "dt": dt})
    if not full:
        keep = []
        for c in A:
            if c["op"] == "ADVANCE" and c["dt"] not in (99, 100):
                continue
            if c.get("k") == "b" and (c["op"] not in ("set", "get") or c.get("v") == b""):
                continue
            if c["op"] in ("append", "prepend", "replace", "decr", "gat", "gats", "gets_many") and not (c["op"] in ("replace",) and c.get("nr")) and not (c.get("e", 0) < 0):
                continue
            keep.append(c)
        A = keep
    return A


def run_history(Client, hist, dnr, pfx, idx, out, kind="Client"):
    srv = RefServer()
    world = World(server=lambda conn, data: [srv.feed(conn.id, data)])
    world.tag = 0
    if kind == "Client":
        client = Client(("h", 1), socket_module=FakeSocketModule(world), default_noreply=dnr, key_prefix=pfx)
    elif kind == "Pooled":
        from pymemcache.client.base import PooledClient
        client = PooledClient(("h", 1), socket_module=FakeSocketModule(world), default_noreply=dnr, key_prefix=pfx, max_pool_size=2)
    else:
        from pymemcache.client.hash import HashClient
        servers = [("h", 1)] if kind != "Hash2" else [("h", 1), ("g", 2), ("f", 3)]
        if kind == "Hash2":
            # one reference server per address: a key lives on exactly one of them, so the logical map is their union
            srvs = {}
            srv = type("Union", (), {})()
            srv.store = type("S", (), {"now": 1_000_000_000})()
            srv.wire_log = []

            def feed(conn, data, _srvs=srvs, _u=srv):
                s_ = _srvs.setdefault(conn.addr, RefServer())
                s_.store.now = _u.store.now
                return [s_.feed(conn.id, data)]
            world.server = feed
        client = HashClient(servers, socket_module=FakeSocketModule(world), default_noreply=dnr, key_prefix=pfx, use_pooling=(kind == "HashPooled"))
    cfg = cfg_tok(dnr=dnr, pfx=pfx)
    spec_lines = [f"srv.reset id=1"]
    cs_lines = [f"srv.reset id=2"]
    steps = []
    last_cas = {}
    for c in hist:
        if c["op"] == "ADVANCE":
            srv.store.now += c["dt"]
            spec_lines.append(f"srv.advance id=1 dt={c['dt']}")
            cs_lines.append(f"srv.advance id=2 dt={c['dt']}")
            steps.append((c, None))
            continue
        c = dict(c)
        if c.get("cas") == "FRESH":
            c["cas"] = last_cas.get(c["k"], b"1")
        r = run_call(client, c)
        if c["op"] in ("gets", "gats") and r.startswith("pair:"):
            last_cas[c["k"]] = bytes.fromhex(r.split(":")[2]) if r.split(":")[2] != "-" else b""
        toks = call_tokens(c)
        spec_lines.append(f"spec.call id=1 {cfg} {toks}")
        cs_lines.append(f"cs.call id=2 {cfg} {toks}")
        steps.append((c, r))
    # validation of the reference server
    feed_lines = ["srv.reset id=3"]
    feed_want = ["ok"]
    now = 1_000_000_000
    for (t, cid, data, reply) in srv.wire_log:
        if t != now:
            feed_lines.append(f"srv.advance id=3 dt={t - now}")
            feed_want.append("ok")
            now = t
        feed_lines.append(f"srv.feed id=3 data={hx(data)}")
        feed_want.append("ok " + hx(reply))
    out.append((idx, dnr, pfx, steps, spec_lines, cs_lines, feed_lines, feed_want, kind))


def main(argv):
    ctx = Ctx("C05", argv)
    ctx.prepare_lean()
    import_repo()
    from pymemcache.client.base import Client
    rng = ctx.rng
    full = alphabet(True)
    red = alphabet(False)
    ctx.rule = (f"histories over keys {{a,b}}: exhaustive length 2 over the full alphabet ({len(full)} symbols incl. clock advances), exhaustive length 3 "
                f"over a reduced alphabet ({len(red)}) (thorough: length 3 full), seeded random length 30; default_noreply on/off, prefix on/off; "
                "non-trivial = distinct history whose last op is not a clock advance")
    hists = [h for h in itertools.product(full, repeat=2)]
    hists += [h for h in itertools.product(full if ctx.thorough else red, repeat=3)]
    for _ in range(3000 if ctx.thorough else 300):
        hists.append(tuple(rng.choice(full) for _ in range(30)))
    # targeted histories: every way of giving an item an expiry, observed just before and just after it passes
    setup = [{"op": "set", "k": "a", "v": b"1", "nr": False}, {"op": "gets", "k": "a"}]
    with_exp = [{"op": "set", "k": "a", "v": b"1", "e": 100, "nr": False}, {"op": "set", "k": "a", "v": b"1", "e": 100, "nr": True},
                {"op": "add", "k": "z", "v": b"1", "e": 100, "nr": False}, {"op": "replace", "k": "a", "v": b"2", "e": 100, "nr": False},
                {"op": "cas", "k": "a", "v": b"2", "cas": "FRESH", "e": 100, "nr": False}, {"op": "cas", "k": "a", "v": b"2", "cas": "FRESH", "e": 100, "nr": True},
                {"op": "touch", "k": "a", "e": 100, "nr": False}, {"op": "touch", "k": "a", "e": 100, "nr": True}, {"op": "gat", "k": "a", "e": 100}, {"op": "gats", "k": "a", "e": 100},
                {"op": "set_many", "items": [("a", b"1"), ("b", b"2")], "e": 100, "nr": False}, {"op": "append", "k": "a", "v": b"x", "e": 100, "nr": False},
                {"op": "incr", "k": "a", "d": 1, "nr": False}]
    for w in with_exp:
        k = w.get("k", "a")
        for adv in (99, 100, 101):
            hists.append(tuple(setup + [w, {"op": "ADVANCE", "dt": adv}, {"op": "get", "k": k}, {"op": "add", "k": k, "v": b"n", "nr": False}, {"op": "gets", "k": k}]))
    ctx.exhaustive = True
    out = []
    for i, h in enumerate(hists):
        run_history(Client, h, dnr=(i % 2 == 0), pfx=(b"" if i % 3 else b"ns:"), idx=i, out=out)
    # the same contract through the wrapper classes (same histories, sampled): PooledClient, single-server HashClient plain and pooled
    nwrap = 0
    for i, h in enumerate(hists):
        if len(h) <= 3 and i % 7 and not ctx.thorough:
            continue
        if any(c["op"] in ("flush_all",) for c in h):
            continue          # HashClient.flush_all is a broadcast with its own noreply handling: not a key-addressed call
        kind = ("Pooled", "Hash1", "HashPooled", "Hash2")[i % 4]
        if kind == "Hash2" and any(c["op"] in ("cas", "gets", "gats", "gets_many") for c in h):
            kind = "Hash1"       # cas tokens are per server: with several servers they are not those of one logical map
        run_history(Client, h, dnr=((i // 4) % 2 == 1), pfx=(b"" if i % 3 else b"ns:"), idx=len(hists) + i, out=out, kind=kind)
        nwrap += 1
    # every operation called WITHOUT naming noreply (each has its own default: cas / incr / decr wait for the answer whatever default_noreply says),
    # with an outcome that differs from the reply-less constant, on every class x default_noreply x prefix
    s_a = {"op": "set", "k": "a", "v": b"5", "nr": False}
    unnamed = [[s_a, {"op": "gets", "k": "a"}, {"op": "set", "k": "a", "v": b"6", "nr": False}, {"op": "cas", "k": "a", "v": b"c", "cas": "FRESH"}, {"op": "get", "k": "a"}],
               [{"op": "cas", "k": "a", "v": b"c", "cas": b"1"}, {"op": "get", "k": "a"}],
               [s_a, {"op": "gets", "k": "a"}, {"op": "cas", "k": "a", "v": b"c", "cas": "FRESH"}, {"op": "get", "k": "a"}],
               [{"op": "incr", "k": "a", "d": 1}, s_a, {"op": "incr", "k": "a", "d": 1}, {"op": "decr", "k": "a", "d": 9}, {"op": "get", "k": "a"}],
               [{"op": "set", "k": "a", "v": b"x", "nr": False}, {"op": "incr", "k": "a", "d": 1}, {"op": "get", "k": "a"}],
               [{"op": "touch", "k": "a", "e": 100, "nr": None}, s_a, {"op": "touch", "k": "a", "e": 100, "nr": None}, {"op": "ADVANCE", "dt": 50}, {"op": "get", "k": "a"}],
               [{"op": "set", "k": "a", "v": b"1", "e": 10, "nr": False}, {"op": "touch", "k": "a", "e": 100, "nr": False}, {"op": "ADVANCE", "dt": 50}, {"op": "get", "k": "a"},
                {"op": "touch", "k": "a", "e": 100, "nr": True}, {"op": "ADVANCE", "dt": 60}, {"op": "get", "k": "a"}]]
    # keys at the length limit: 250 bytes WITH the prefix is the longest legal key; what is refused is refused before anything is sent, so the item
    # is neither stored nor reported as stored
    for L_ in (246, 247, 248, 250, 251):
        lk = "k" * L_
        unnamed.append([{"op": "set", "k": lk, "v": b"1", "nr": None}, {"op": "get", "k": lk}, {"op": "add", "k": lk, "v": b"2", "nr": False}, {"op": "delete", "k": lk, "nr": None},
                        {"op": "get", "k": lk}, {"op": "set", "k": "a", "v": b"after", "nr": False}, {"op": "get", "k": "a"}])
    j = 0
    for kind in ("Client", "Pooled", "Hash1", "HashPooled", "Hash2"):
        for h in unnamed:
            if kind == "Hash2" and any(c["op"] in ("cas", "gets") for c in h):
                continue
            for dnr in (True, False):
                for pfx in (b"", b"ns:"):
                    j += 1
                    run_history(Client, tuple(h), dnr=dnr, pfx=pfx, idx=3 * len(hists) + j, out=out, kind=kind)
                    ctx.count("noreply-left-unnamed histories")
    ctx.count("wrapper-histories", nwrap)
    # ---- a server with an item size limit (as every real one has): a refused item inside a pipelined set_many, or on its own, and then the
    #      calls that follow - every return value is compared with what that server did (a plain dict with the same limit) -----------------------
    from pymemcache.client.base import PooledClient
    from pymemcache.client.hash import HashClient
    from pymemcache.exceptions import MemcacheServerError
    big = b"B" * 5000
    for kind in ("Client", "Pooled", "Hash1", "HashPooled"):
        for first in ("set_many-big-in-the-middle", "set_many-big-first", "set-big", "add-big", "set_many-big-last"):
            for mode in ("lines", "bytes", "one"):
                srv = RefServer()
                srv.max_item = 4096

                def pieces(reply, _m=mode):
                    if not reply or _m == "one":
                        return [reply] if reply else []
                    if _m == "bytes":
                        return [reply[i:i + 1] for i in range(len(reply))]
                    return [ln + b"\r\n" for ln in reply.split(b"\r\n")[:-1]]
                world = World(server=lambda conn, data, _s=srv: pieces(_s.feed(conn.id, data)))
                world.tag = 0
                sm_ = FakeSocketModule(world)
                if kind == "Client":
                    cl = Client(("h", 1), socket_module=sm_, default_noreply=False)
                elif kind == "Pooled":
                    cl = PooledClient(("h", 1), socket_module=sm_, default_noreply=False, max_pool_size=2)
                else:
                    cl = HashClient([("h", 1)], socket_module=sm_, default_noreply=False, use_pooling=(kind == "HashPooled"))
                oracle = {}
                log = []

                def step(desc, fn, want, _log=log):
                    try:
                        got = fn()
                    except MemcacheServerError:
                        got = "ServerError"
                    except Exception as e:
                        got = "exc:" + type(e).__name__
                    _log.append((desc, repr(got)[:40]))
                    return got == want, got
                seq = [("set a", lambda: cl.set("a", b"1"), True), ("set k1", lambda: cl.set("k1", b"v1"), True), ("set n", lambda: cl.set("n", b"5"), True)]
                if first == "set_many-big-in-the-middle":
                    seq.append(("set_many x,big,c", lambda: cl.set_many({"x": b"1", "big": big, "c": b"3"}), "ServerError"))
                    stored_c = True
                elif first == "set_many-big-first":
                    seq.append(("set_many big,x,c", lambda: cl.set_many({"big": big, "x": b"1", "c": b"3"}), "ServerError"))
                    stored_c = True
                elif first == "set_many-big-last":
                    seq.append(("set_many x,c,big", lambda: cl.set_many({"x": b"1", "c": b"3", "big": big}), "ServerError"))
                    stored_c = True
                elif first == "set-big":
                    seq.append(("set big", lambda: cl.set("big", big), "ServerError"))
                    stored_c = False
                else:
                    seq.append(("add big", lambda: cl.add("big", big), "ServerError"))
                    stored_c = False
                seq += [("add c", lambda: cl.add("c", b"9"), not stored_c), ("get c", lambda: cl.get("c"), b"3" if stored_c else b"9"),
                        ("delete x", lambda: cl.delete("x"), stored_c), ("delete x again", lambda: cl.delete("x"), False), ("get k1", lambda: cl.get("k1"), b"v1"),
                        ("incr n", lambda: cl.incr("n", 1), 6), ("touch k1", lambda: cl.touch("k1", 100), True), ("get big", lambda: cl.get("big"), None),
                        ("set k2", lambda: cl.set("k2", b"v2"), True), ("get k2", lambda: cl.get("k2"), b"v2")]
                ctx.case(("size-limit", kind, first, mode))
                ctx.count("size-limit-histories")
                for desc, fn, want in seq:
                    ok, got = step(desc, fn, want)
                    if not ok:
                        ctx.violation("after the server refused an oversized item, a return value does not report what the server did",
                                      {"class": kind, "history": [d_ for d_, _ in log], "results": [r_ for _, r_ in log], "step": desc, "got": repr(got)[:60], "server_did": repr(want)[:60],
                                       "reply_pieces": mode}, tags=["class:" + kind, "size-limit"])
                        break
    # ---- stats(): the type conversion of the reply, against the Lean model `Stats.convert` (C05_stats_*) and a monitor of what the docstring promises
    #      (the monitor needs no model, so it runs before a broken build ends the check: it is the search for a failing input) ----
    import statsconv_diff
    statsconv_diff.run(ctx, Client)
    if not ctx.lean.build_ok:
        ctx.finish()
    lines = []
    for o in out:
        lines += o[4] + o[5] + o[6]
    res = iter(ctx.driver.batch(lines))
    for (idx, dnr, pfx, steps, spec_lines, cs_lines, feed_lines, feed_want, kind) in out:
        spec_out = [next(res) for _ in spec_lines][1:]
        cs_out = [next(res) for _ in cs_lines][1:]
        feed_out = [next(res) for _ in feed_lines]
        hist_desc = [(c["op"] + ":" + str(c.get("k", c.get("dt", "")))) for c, _ in steps]
        ctx.case(tuple(map(repr, (c for c, _ in steps))) + (dnr, pfx, kind), nontrivial=steps[-1][0]["op"] != "ADVANCE",
                 sample={"history": hist_desc, "results": [r for _, r in steps], "default_noreply": dnr, "prefix": hx(pfx)} if idx in (3, 2500, 20000) else None)
        ctx.count(f"len={len(steps)}")
        for n, ((c, real), so, co) in enumerate(zip(steps, spec_out, cs_out)):
            if real is None:
                continue
            ctx.count("op:" + c["op"])
            case = {"class": kind, "history": hist_desc[:n + 1], "step": n, "call": repr(c), "default_noreply": dnr, "prefix": hx(pfx), "impl": real}
            if so != "ok res=" + real:
                ctx.violation("return value differs from the documented contract on the abstract map", dict(case, spec=so), tags=["op:" + c["op"], "class:" + kind])
                break
            if kind == "Client" and not co.startswith("ok res=" + real + " "):
                ctx.disagreement("Lean client∘server model differs from the implementation", dict(case, model=co), theorem="C05_client_server_refines_absmap")
                break
        for fl, fw, fo in zip(feed_lines, feed_want, feed_out):
            if fw != fo:
                ctx.disagreement("reference server (harness) differs from the Lean server model", {"history": hist_desc, "line": fl[:200], "refserver": fw[:200], "lean": fo[:200]},
                                 theorem="(harness) refserver.py vs Server.feed")
                break
    # ---- what is found is what a plain map would hold - also when the values carry serializer flags (one set_many with values of different kinds), when they
    #      end in CR, and however the reply is cut into pieces (every single cut of every fetch reply) ---------------------------------------------------
    from pymemcache import serde as serde_mod
    from pymemcache.client.base import PooledClient as Pooled_
    mixed_sets = [[("a", "text"), ("b", b"more"), ("c", 5), ("d", {"k": [1]}), ("e", b"")], [("c", 5), ("b", b"more"), ("a", "text")], [("d", {"k": [1]}), ("b", b"raw"), ("e", None), ("f", b"z")],
                  [("b", b"raw"), ("a", "text"), ("b2", b"more")], [("t", True), ("b", b"bytes after a bool"), ("n", 10 ** 30), ("s", "x")]]
    for kind_ in ("Client", "Pooled"):
        for sd_name, sd_ in (("pickle", serde_mod.pickle_serde), ("compressed", serde_mod.compressed_serde)):
            for ms in mixed_sets:
                srv_ = RefServer()
                world_ = World(server=lambda conn, data, _s=srv_: [_s.feed(conn.id, data)])
                world_.tag = 0
                kw_ = dict(socket_module=FakeSocketModule(world_), serde=sd_, default_noreply=False)
                c_ = Client(("h", 1), **kw_) if kind_ == "Client" else Pooled_(("h", 1), max_pool_size=1, **kw_)
                ctx.case(("mixed-set_many", kind_, sd_name, repr(ms)))
                ctx.count("set_many with values of different kinds")
                case = {"class": kind_, "serde": sd_name, "set_many": repr(ms)[:120]}
                try:
                    failed_ = c_.set_many(dict(ms))
                    found = {k_: c_.get(k_) for k_, _ in ms}
                    found_many = c_.get_many([k_ for k_, _ in ms])
                except Exception as e:
                    ctx.violation("a store or fetch raised on a healthy server", dict(case, error=repr(e)[:100]), tags=["mixed-set_many"])
                    continue
                want_ = dict(ms)
                if failed_ or any(found[k_] != v_ or type(found[k_]) is not type(v_) for k_, v_ in want_.items()) or found_many != want_:
                    ctx.violation("the items found after set_many are not those a plain map would hold", dict(case, failed=repr(failed_), found=repr(found)[:160]), tags=["mixed-set_many"])
    cr_values = [b"abc\r", b"\r", b"\r\r", b"line\r\n\r", b"x" * 30 + b"\r", b"no cr", b""]
    for v_ in cr_values:
        for fetch in ("get", "gets", "get_many", "gat"):
            srv_ = RefServer()
            srv_.feed(0, b"set k 0 0 %d\r\n" % len(v_) + v_ + b"\r\n")
            cmd = {"get": b"get k\r\n", "gets": b"gets k\r\n", "get_many": b"get k zz\r\n", "gat": b"gat 100 k\r\n"}[fetch]
            reply_len = len(RefServer.feed(srv_, 1, cmd))
            for cut in range(1, reply_len):
                world_ = World(server=lambda conn, data, _s=srv_, _c=cut: (lambda r_: [r_[:_c], r_[_c:]] if len(r_) > _c else [r_])(_s.feed(conn.id, data)))
                world_.tag = 0
                c_ = Client(("h", 1), socket_module=FakeSocketModule(world_), default_noreply=False)
                ctx.case(("cr-values", repr(v_), fetch, cut))
                ctx.count("values ending in CR x every cut of the reply")
                try:
                    got_ = c_.get("k") if fetch == "get" else c_.gets("k")[0] if fetch == "gets" else c_.get_many(["k", "zz"]).get("k") if fetch == "get_many" else c_.gat("k", 100)
                except Exception as e:
                    got_ = e
                if got_ != v_:
                    ctx.violation("the value found is not the value stored", {"value": repr(v_), "fetched_with": fetch, "reply_cut_after_byte": cut, "got": repr(got_)[:80]}, tags=["cr-values"])
                    break
    ctx.assumptions = ["CPython's float() (the one converter of stats() that is not modelled)", "faithful memcached = AbsMap (no eviction, no size limits, decr does not pad)", "time is in whole seconds and constant during a call"]
    ctx.finish()
