"""Deterministic thread scheduler over the REAL pool.py (search support + trace source for C08).

Real threads are gated by one condition variable so that exactly one runs at a time; yield points are
`sys.settrace` line (optionally opcode) events inside pool.py and every recorded lock/deque event.  A plan
{yield index -> thread id} pre-empts the running thread at chosen points (pre-emption-bounded enumeration)."""
import collections
import sys
import threading


class DeadlockAbort(BaseException):
    """raised inside a thread that waits for a lock nobody will ever release, so that a deadlocked schedule ends at once"""


class Sched:
    def __init__(self, plan, opcodes=False):
        self.plan = dict(plan)
        self.pos = 0
        self.turn = None
        self.cv = threading.Condition()
        self.alive = set()
        self.blocked = {}
        self.trace = []          # (tid, event) for recorded events
        self.deadlock = False
        self.opcodes = opcodes
        self.tids = {}
        self.errors = []

    def tid(self):
        return self.tids[threading.get_ident()]

    def pick(self):
        runnable = sorted(t for t in self.alive if t not in self.blocked or not self.blocked[t].held)
        if not runnable:
            if self.alive:
                self.deadlock = True
            return None
        k = self.pos
        self.pos += 1
        if k in self.plan and self.plan[k] in runnable:
            return self.plan[k]
        return self.turn if self.turn in runnable else runnable[0]

    def yield_point(self, tid):
        with self.cv:
            self.turn = self.pick()
            self.cv.notify_all()
            while self.turn != tid and not self.deadlock:
                self.cv.wait(0.5)

    def event(self, ev):
        tid = self.tid()
        self.yield_point(tid)
        self.trace.append((tid, ev))

    def finish(self, tid):
        with self.cv:
            self.alive.discard(tid)
            self.turn = self.pick()
            self.cv.notify_all()

    def run(self, bodies, filename):
        self.alive = set(range(len(bodies)))

        def wrap(tid, body):
            def tracer(frame, event, arg):
                if frame.f_code.co_filename != filename:
                    return None
                if self.opcodes:
                    frame.f_trace_opcodes = True

                def local(frame, event, arg):
                    if event == "line" or event == "opcode":
                        self.yield_point(tid)
                    return local
                return local

            def go():
                self.tids[threading.get_ident()] = tid
                with self.cv:
                    while self.turn != tid and not self.deadlock:
                        self.cv.wait(0.5)
                sys.settrace(tracer)
                try:
                    body()
                except DeadlockAbort:
                    pass
                except BaseException as e:  # noqa
                    self.errors.append((tid, type(e).__name__, str(e)[:80]))
                finally:
                    sys.settrace(None)
                    self.finish(tid)
            return threading.Thread(target=go, daemon=True)
        ths = [wrap(i, b) for i, b in enumerate(bodies)]
        with self.cv:
            self.turn = self.pick()
        for t in ths:
            t.start()
        for t in ths:
            t.join(10)
        return not any(t.is_alive() for t in ths)


class SLock:
    """scheduler-aware recording lock handed to ObjectPool through lock_generator"""

    def __init__(self, sched):
        self.s = sched
        self.held = False
        self.owner = None

    def __enter__(self):
        tid = self.s.tid()
        self.s.yield_point(tid)
        while self.held:
            if self.s.deadlock:
                raise DeadlockAbort()
            self.s.blocked[tid] = self
            self.s.yield_point(tid)
            if self.held and self.s.deadlock:
                raise DeadlockAbort()
        self.s.blocked.pop(tid, None)
        self.held = True
        self.owner = tid
        self.s.trace.append((tid, f"acq {tid}"))
        hook = getattr(self.s, "on_acquire", None)
        if hook is not None:
            hook(tid)

    def __exit__(self, et, ev, tb):
        tid = self.s.tid()
        if et is RuntimeError:
            self.s.trace.append((tid, "raise-too-many"))
        self.s.trace.append((tid, f"rel {tid}"))
        self.held = False
        self.owner = None
        hook = getattr(self.s, "on_release", None)
        if hook is not None:
            hook(tid)

    # the rest of the threading.Lock interface: code that takes the lock with acquire()/release() instead of `with` is the same code
    def acquire(self, blocking=True, timeout=-1):
        if not blocking and self.held:
            return False
        self.__enter__()
        return True

    def release(self):
        if not self.held:
            raise RuntimeError("release unlocked lock")
        self.__exit__(None, None, None)

    def locked(self):
        return self.held


def make_deques(sched):
    class RDeque(collections.deque):
        name = "?"
        in_get = False

        def __bool__(self):
            n = collections.deque.__len__(self)
            sched.event(f"len-{self.name} {n}")
            return n > 0

        def __len__(self):
            n = super().__len__()
            if self.name == "used" and sched.in_get.get(sched.tid()):
                sched.event(f"len-used {n}")
            return n

        def popleft(self):
            sched.yield_point(sched.tid())
            o = super().popleft()
            sched.trace.append((sched.tid(), f"popleft {o.i}"))
            return o

        def append(self, o):
            sched.event(f"append-{self.name} {o.i}")
            super().append(o)

        def remove(self, o):
            sched.yield_point(sched.tid())
            try:
                super().remove(o)
            except ValueError:
                sched.trace.append((sched.tid(), f"silent-miss {o.i}"))
                raise
            sched.trace.append((sched.tid(), f"remove-used {o.i}"))

        def clear(self):
            sched.event(f"clear-{self.name}")
            super().clear()

    class Used(RDeque):
        name = "used"

    class UsedSet(set):
        """the same recording for a pool that keeps its checked-out objects in a set (no order, `add`, KeyError on a missing element)"""
        name = "used"

        def __len__(self):
            n = set.__len__(self)
            if sched.in_get.get(sched.tid()):
                sched.event(f"len-used {n}")
            return n

        def add(self, o):
            sched.event(f"append-used {o.i}")
            set.add(self, o)

        append = add

        def remove(self, o):
            sched.yield_point(sched.tid())
            try:
                set.remove(self, o)
            except KeyError:
                sched.trace.append((sched.tid(), f"silent-miss {o.i}"))
                raise
            sched.trace.append((sched.tid(), f"remove-used {o.i}"))

        def clear(self):
            sched.event("clear-used")
            set.clear(self)
    make_deques.UsedSet = UsedSet

    class Free(RDeque):
        name = "free"
    return Used(), Free()
