import sys, random, subprocess
sys.path.insert(0, "/repo")
from pymemcache.client import hash as H
from pymemcache.exceptions import MemcacheError

CLOCK = [0]
class FakeTime:
    @staticmethod
    def time(): return CLOCK[0]
H.time = FakeTime
ENV = {}
LOG = []
class Boom(Exception): pass
class Fake:
    def __init__(self, server, **kw):
        self.server = server
    def _do(self):
        i = self.server[1]
        o = ENV.get(i, "ok")
        LOG.append((i, CLOCK[0], o))
        if o == "oserror": raise OSError("x")
        if o == "othererror": raise Boom("y")
    def get(self, key, default=None, **kw):
        self._do(); return "v"
    def get_many(self, keys, *a, **kw):
        self._do(); return {k: "v" for k in keys}
    def set_many(self, values, *a, **kw):
        self._do(); return []
class PrefHasher:
    def __init__(self): self.nodes = []
    def add_node(self, n):
        if n not in self.nodes: self.nodes.append(n)
    def remove_node(self, n):
        if n in self.nodes: self.nodes.remove(n)
        else: raise ValueError("no")
    def get_node(self, key):
        if not self.nodes: return None
        prefs = key.split("_")[1:]
        for p in prefs:
            if "h:%s" % p in self.nodes: return "h:%s" % p
        return self.nodes[0]

def state(c):
    nodes = "[" + ",".join(n.split(":")[1] for n in c.hasher.nodes) + "]"
    failed = "[" + ",".join("%d:%d@%d" % (s[1], m["attempts"], m["failed_time"]) for s, m in c._failed_clients.items()) + "]"
    dead = "[" + ",".join("%d@%d" % (s[1], t) for s, t in c._dead_clients.items()) + "]"
    return "nodes=%s failed=%s dead=%s ldc=%d" % (nodes, failed, dead, c._last_dead_check_time)

def run(cfg, n, evs):
    ra, rt, dt, ign = cfg
    CLOCK[0] = 0
    class HC(H.HashClient):
        client_class = Fake
    c = HC([("h", i) for i in range(n)], hasher=PrefHasher, retry_attempts=ra, retry_timeout=rt, dead_timeout=dt, ignore_exc=ign)
    out = []
    for (now, oserr, other, op, keys) in evs:
        CLOCK[0] = now
        ENV.clear()
        for s in other: ENV[s] = "othererror"
        for s in oserr: ENV[s] = "oserror"
        del LOG[:]
        ks = ["k%d_" % j + "_".join(map(str, p)) for j, p in enumerate(keys)]
        try:
            if op == "runCmd":
                r = c.get(ks[0], default="DEF")
                res = "default" if r == "DEF" else "value"
            elif op == "getMany":
                r = c.get_many(ks)
                res = "multi:" + "".join("1" if k in r else "0" for k in ks)
            else:
                r = c.set_many({k: 1 for k in ks})
                res = "multi:" + "".join("0" if k in r else "1" for k in ks)
        except OSError:
            res = "raise:%d:oserror" % LOG[-1][0]
        except Boom:
            res = "raise:%d:othererror" % LOG[-1][0]
        except MemcacheError:
            res = "alldown"
        except (KeyError, ValueError):
            res = "internal"
        out.append("res=%s contacts=[%s] %s" % (res, ",".join("%d@%d:%s" % x for x in LOG), state(c)))
    return out

def lean_list(l): return "[" + ",".join(map(str, l)) + "]"
def lean_ev(e):
    now, oserr, other, op, keys = e
    if op == "runCmd": o = ".runCmd " + lean_list(keys[0])
    else: o = ".%s [%s]" % (op, ",".join(lean_list(k) for k in keys))
    return "{now := %d, oserr := %s, other := %s, op := %s}" % (now, lean_list(oserr), lean_list(other), o)

random.seed(int(sys.argv[1]) if len(sys.argv) > 1 else 1)
cases = []
for t in range(150):
    n = random.choice([1, 2, 3])
    ra = random.choice([0, 1, 2, 3]); rt = random.choice([0, 2, 10]); dt = rt + random.choice([1, 5, 50])
    ign = random.choice([True, False])
    now = 0; evs = []
    pfail = random.choice([0.2, 0.6, 0.95])
    for i in range(random.randint(5, 40)):
        now += random.choice([0, 0, 1, rt, rt + 1, dt, dt + 1, 2 * dt + 1])
        oserr = [s for s in range(n) if random.random() < pfail]
        other = [s for s in range(n) if random.random() < 0.15]
        op = random.choice(["runCmd", "runCmd", "getMany", "setMany"])
        nk = 1 if op == "runCmd" else random.randint(0, 4)
        keys = [random.sample(range(n), n) for _ in range(nk)]
        evs.append((now, oserr, other, op, keys))
    cases.append(((ra, rt, dt, ign), n, evs))
with open("/root/work/c13/lean/scratch/Diff.lean", "w") as f:
    f.write("import Pymc.Model.Failover\nopen Failover\n")
    for i, (cfg, n, evs) in enumerate(cases):
        f.write("#eval (runTrace {ra := %d, rt := %d, dt := %d, ignoreExc := %s} %d 0 [%s]).forM IO.println\n" % (
            cfg[0], cfg[1], cfg[2], "true" if cfg[3] else "false", n, ",".join(lean_ev(e) for e in evs)))
exp = []
for cfg, n, evs in cases: exp += run(cfg, n, evs)
got = subprocess.run(["lake", "env", "lean", "scratch/Diff.lean"], cwd="/root/work/c13/lean", capture_output=True, text=True).stdout.strip().split("\n")
print(len(exp), len(got))
bad = 0
for i, (a, b) in enumerate(zip(exp, got)):
    if a != b:
        bad += 1
        if bad < 6: print("MISMATCH", i, "\n py  ", a, "\n lean", b)
print("mismatches", bad)
