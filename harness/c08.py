"""C08 — pooled connections are never shared between threads.
(K) every sequential branch of the real ObjectPool (free hit, idle-expired, create, full, silent miss, quit, clear)
    produces exactly the micro-step events of the Lean model `PoolConc` (`pool.seq`);
(S) a deterministic scheduler explores interleavings of real threads running the real pool.py under a pre-emption
    bound, judges the property's invariants on the real objects, and every interleaved event trace is validated
    against the Lean micro-step model (`pool.validate`)."""
import collections
import itertools
import os
import types

from common import Ctx, REPO, import_repo
from sched import SLock, Sched, make_deques

OPS = ["useOk", "useFail", "quitOk", "quitFail", "clear"]


def load_pool():
    """pool.py of the tree under test, compiled under a recognisable file name (for the tracer)"""
    path = os.path.join(REPO, "pymemcache", "pool.py")
    src = open(path).read()
    mod = types.ModuleType("pool_under_test")
    mod.__file__ = path
    exec(compile(src, "POOLSRC", "exec"), mod.__dict__)
    return mod


class Abort(BaseException):
    """an interruption that is not an Exception (KeyboardInterrupt, a gevent-style timeout) cutting the holder short"""


class Obj:
    """a pooled connection; `_last_used` is a property so that every idle test of the pool (its only reader) is recorded"""
    answers = None        # list shared with the run: 'f' fresh / 'e' expired / 'c' creation failed
    clock = None
    on_stamp = None       # (timed traces, C09) called with (obj, value) at every `obj._last_used = value` of the pool

    def __init__(self, i):
        self.i = i
        self.closed = 0
        self.reopened = False
        self._lu = 0.0

    @property
    def _last_used(self):
        if Obj.answers is not None and Obj.clock is not None:
            Obj.answers.append("f" if Obj.clock["t"] - self._lu <= 5 else "e")
        return self._lu

    @_last_used.setter
    def _last_used(self, v):
        if Obj.on_stamp is not None:
            Obj.on_stamp(self, v)
        self._lu = v


def run_schedule(mod, max_size, programs, plan, opcodes=False, idle=None, fail_create=(), timed=False):
    """run thread programs over the real pool under a schedule plan; returns observations.
    idle: the pool has an idle timeout (5) and the Op `tick` advances the clock by 10; fail_create: indices of the creator calls that raise;
    timed (with idle; C09, `pool.validate.timed`): the trace also records every advance of the clock (`tick d`), every call of the pool's
    clock (`clock v`) and every write of `_last_used` (`stamp o v`), in execution order; these records are no yield points, so the
    schedule numbering is the same with and without them (C08 never sets it: its traces are unchanged)"""
    sched = Sched(plan, opcodes=opcodes)
    sched.in_get = {}
    created = []
    attempts = [0]
    sched.answers = []
    Obj.answers, Obj.clock, Obj.on_stamp = None, None, None
    timed = bool(timed and idle is not None)

    def creator():
        k = attempts[0]
        attempts[0] += 1
        if k in fail_create:
            sched.event("create-failed")
            sched.answers.append("c")
            raise OSError("could not connect")
        o = Obj(len(created))
        created.append(o)
        sched.answers.append("k")
        sched.event(f"create {o.i}")
        return o

    sched.early_expiry = []       # (C09's clause, recorded for its check) a connection closed as idled-out although it had just been given back

    def after_remove(o):
        sched.event(f"after_remove {o.i}")
        o.closed += 1
        if idle is not None and sched.in_get.get(sched.tid()) and getattr(o, "freed_at", None) is not None and clock["t"] - o.freed_at <= 5:
            sched.early_expiry.append(f"connection {o.i} was closed as idled-out {clock['t'] - o.freed_at:g} s after it was given back (pool_idle_timeout 5)")
    pool = mod.ObjectPool(creator, after_remove=after_remove, max_size=max_size, lock_generator=lambda: SLock(sched),
                          idle_timeout=(5 if idle is not None else 0))
    used, free = make_deques(sched)
    if isinstance(pool._used_objs, (set, frozenset)):
        used = make_deques.UsedSet()        # a pool that keeps its checked-out objects in a set gets a recording set
    pool._used_objs, pool._free_objs = used, free
    clock = {"t": 0.0}
    if idle is not None:
        def idle_clock():
            if timed:
                sched.trace.append((sched.tid(), f"clock {int(clock['t'])}"))
            return clock["t"]
        pool._idle_clock = idle_clock
        Obj.answers, Obj.clock = sched.answers, clock
        if timed:
            Obj.on_stamp = lambda o, v: sched.trace.append((sched.tid(), f"stamp {o.i} {int(v)}"))
        sched.late_expiry = []        # (C09's clause) a connection handed out although it had idled out by the time the caller got hold of the pool
        acq_clock = {}
        sched.on_acquire = lambda tid_: acq_clock.__setitem__(tid_, clock["t"])
        used_append = used.append

        def append_checked(o):
            # judged against the clock at the moment this caller ACQUIRED the pool's lock: whatever clock value the pool decides on, it reads it no
            # earlier than that if it reads it inside the lock hold - a value read before waiting for the lock may be arbitrarily stale
            t_acq = acq_clock.get(sched.tid())
            t_rel = getattr(o, "freed_rel", None)        # the clock when the lock hold that gave the connection back ENDED (no stamp can be later than that)
            if t_rel is not None and t_acq is not None and t_acq - t_rel > 5:
                sched.late_expiry.append(f"connection {o.i} was handed out although it had been idle for {t_acq - t_rel:g} s when the caller got hold of the pool (pool_idle_timeout 5)")
            o.freed_rel = None
            used_append(o)
        used.append = append_checked
        free_append = free.append

        pending_free = {}

        def on_release(tid_):
            for o_ in pending_free.pop(tid_, []):
                o_.freed_rel = clock["t"]
        sched.on_release = on_release

        def append_stamped(o):
            o.freed_at = clock["t"]           # the moment the connection becomes available again
            pending_free.setdefault(sched.tid(), []).append(o)
            free_append(o)
        free.append = append_stamped
    holding = {}
    viol = []

    def check_invariants(where):
        u = list((set if isinstance(used, set) else collections.deque).__iter__(used))
        f = list(collections.deque.__iter__(free))
        ids = [o.i for o in u + f]
        if len(ids) > pool.max_size:
            viol.append(f"{where}: pool holds {len(ids)} > max_size {pool.max_size}")
        if len(set(ids)) != len(ids):
            viol.append(f"{where}: a connection is listed twice {ids}")
        hs = [o.i for o in holding.values() if o is not None]
        if len(set(hs)) != len(hs):
            viol.append(f"{where}: a connection is held by two threads {hs}")
        for o in f:
            if o.i in hs:
                viol.append(f"{where}: connection {o.i} is idle in the pool while a thread holds it")

    def body(tid, prog):
        def f():
            for op in prog:
                if op == "tick":
                    clock["t"] += 10
                    if timed:
                        sched.trace.append((tid, "tick 10"))
                    continue
                if op == "clear":
                    pool.clear()
                    check_invariants("after clear")
                    continue
                sched.in_get[tid] = True
                try:
                    with pool.get_and_release(destroy_on_fail=True) as o:
                        sched.in_get[tid] = False
                        holding[tid] = o
                        check_invariants("after get")
                        sched.event(f"work {o.i}")
                        if o.closed:
                            o.reopened = True
                        if op == "useLong":
                            clock["t"] += 10          # a call that takes longer than the idle timeout
                            if timed:
                                sched.trace.append((tid, "tick 10"))
                        check_invariants("while held")
                        if op.startswith("quit"):
                            try:
                                if op == "quitFail":
                                    raise OSError("quit failed")
                            finally:
                                holding[tid] = None
                                pool.destroy(o)
                        holding[tid] = None
                        if op == "useFail":
                            raise OSError("boom")
                        if op == "useAbort":
                            raise Abort()
                except OSError:
                    pass
                except Abort:
                    pass
                except RuntimeError as e:
                    if "Too many objects" not in str(e):
                        raise
                finally:
                    sched.in_get[tid] = False
                    holding[tid] = None
                check_invariants("after op")
        return f
    ok = sched.run([body(i, p) for i, p in enumerate(programs)], "POOLSRC")
    Obj.on_stamp = None
    u = list((set if isinstance(used, set) else collections.deque).__iter__(used))
    f = list(collections.deque.__iter__(free))
    if not ok or sched.deadlock:
        viol.append("deadlock: some thread never finished")
    for e in sched.errors:
        viol.append(f"internal error escaped thread {e[0]}: {e[1]}: {e[2]}")
    if ok and not sched.deadlock:
        if u:
            viol.append(f"quiescent but {len(u)} connection(s) still checked out")
        for o in created:
            infree = o in f
            if infree and o.closed != 0:
                viol.append(f"connection {o.i} is idle in the pool but was closed")
            if not infree and o.closed != 1:
                viol.append(f"connection {o.i} left the pool and was closed {o.closed} times")
    leak = [o.i for o in created if o.reopened and o not in f]
    return sched, viol, leak


def run_pc_schedule(mod, base, max_size, programs, plan):
    """the same thread programs, but through the REAL PooledClient methods (get / failing set / quit / failing quit / close) with REAL Client
    objects in the pool; pool.py is the traced module, the socket module is a stub.  Returns (sched, violations, leaked sockets)."""
    sched = Sched(plan)
    sched.in_get = {}
    sched.answers = []
    Obj.answers, Obj.clock = None, None
    socks = []
    failing = {}          # tid -> the current op's sendall must fail
    holding = {}
    viol = []

    class PSock:
        def __init__(self):
            self.id = len(socks)
            socks.append(self)
            self.closed = 0
            self.buf = b""

        def settimeout(self, t): pass
        def setsockopt(self, *a): pass
        def connect(self, addr): pass

        def sendall(self, data):
            tid = sched.tid()
            o = holding.get(tid)
            sched.event(f"work {o.i if o is not None else '?'}")
            users = [t for t, h in holding.items() if h is o and o is not None]
            if len(users) > 1:
                viol.append(f"during I/O: connection {o.i} is held by two threads {sorted(users)}")
            if self.closed:
                raise OSError(9, "closed")
            if failing.get(tid) == "abort":
                raise Abort()
            if failing.get(tid):
                raise OSError(32, "broken pipe")
            if data.startswith(b"get"):
                self.buf += b"END\r\n"
            elif data.startswith(b"set"):
                self.buf += b"STORED\r\n"

        def recv(self, n):
            out, self.buf = self.buf[:n], self.buf[n:]
            return out

        def close(self):
            self.closed += 1

    class SM:
        AF_UNIX, AF_INET, AF_UNSPEC, SOCK_STREAM, IPPROTO_TCP, TCP_NODELAY = 1, 2, 0, 1, 6, 1
        timeout, error = __import__("socket").timeout, OSError

        @staticmethod
        def socket(*a):
            return PSock()

        @staticmethod
        def getaddrinfo(host, port, *a):
            return [(2, 1, 6, "", (host, port))]
    real_pool_mod = base.pool
    base.pool = mod
    try:
        pc = base.PooledClient(("h", 1), socket_module=SM, max_pool_size=max_size, lock_generator=lambda: SLock(sched), default_noreply=False)
    finally:
        base.pool = real_pool_mod
    pool = pc.client_pool
    used, free = make_deques(sched)
    if isinstance(pool._used_objs, (set, frozenset)):
        used = make_deques.UsedSet()        # a pool that keeps its checked-out objects in a set gets a recording set
    pool._used_objs, pool._free_objs = used, free
    created = []
    orig_create, orig_after = pool._obj_creator, pool._after_remove

    def creator():
        o = orig_create()
        o.i = len(created)
        o.closes = 0
        created.append(o)
        sched.event(f"create {o.i}")
        return o

    def after_remove(o):
        sched.event(f"after_remove {o.i}")
        o.closes += 1
        orig_after(o)
    pool._obj_creator, pool._after_remove = creator, after_remove

    def check_invariants(where):
        u = list((set if isinstance(used, set) else collections.deque).__iter__(used))
        f = list(collections.deque.__iter__(free))
        if len(u) + len(f) > pool.max_size:
            viol.append(f"{where}: pool holds {len(u) + len(f)} > max_size {pool.max_size}")
        if len({id(o) for o in u + f}) != len(u + f):
            viol.append(f"{where}: a connection is listed twice (used={[o.i for o in u]} free={[o.i for o in f]})")
        hs = [o for o in holding.values() if o is not None]
        if len({id(o) for o in hs}) != len(hs):
            viol.append(f"{where}: a connection is held by two threads {[o.i for o in hs]}")
        for o in f:
            if any(o is h for h in hs):
                viol.append(f"{where}: connection {o.i} is idle in the pool while a thread holds it")
    real_get, real_release, real_destroy = pool.get, pool.release, pool.destroy

    def get():
        tid = sched.tid()
        sched.in_get[tid] = True
        try:
            o = real_get()
        finally:
            sched.in_get[tid] = False
        holding[tid] = o
        check_invariants("after get")
        return o

    def release(o, *a, **kw):
        holding[sched.tid()] = None            # the thread declares it is done with the connection
        r = real_release(o, *a, **kw)
        check_invariants("after release")
        return r

    def destroy(o, *a, **kw):
        holding[sched.tid()] = None
        r = real_destroy(o, *a, **kw)
        check_invariants("after destroy")
        return r
    pool.get, pool.release, pool.destroy = get, release, destroy

    def body(tid, prog):
        def f():
            for op in prog:
                failing[tid] = "abort" if op == "useAbort" else op in ("useFail", "quitFail")
                try:
                    if op == "clear":
                        pc.close()
                    elif op == "useOk":
                        pc.get("k")
                    elif op in ("useFail", "useAbort"):
                        pc.set("k", b"v", noreply=False)
                    else:
                        pc.quit()
                except OSError:
                    pass
                except Abort:
                    pass
                except RuntimeError as e:
                    if "Too many objects" not in str(e):
                        raise
                finally:
                    holding[tid] = None
                check_invariants("after op")
        return f
    ok = sched.run([body(i, p) for i, p in enumerate(programs)], "POOLSRC")
    u = list((set if isinstance(used, set) else collections.deque).__iter__(used))
    f = list(collections.deque.__iter__(free))
    if not ok or sched.deadlock:
        viol.append("deadlock: some thread never finished")
    for e in sched.errors:
        viol.append(f"internal error escaped thread {e[0]}: {e[1]}: {e[2]}")
    leak = []
    if ok and not sched.deadlock:
        if u:
            viol.append(f"quiescent but {len(u)} connection(s) still checked out")
        pooled = {id(o.sock) for o in f if o.sock is not None}
        for sk in socks:
            if not sk.closed and id(sk) not in pooled:
                leak.append(sk.id)
            if sk.closed and id(sk) in pooled:
                viol.append(f"socket {sk.id} of an idle pooled client is closed")
    return sched, viol, leak


def trace_tok(trace):
    return ",".join(f"{t}:{e.replace(' ', '~')}" for t, e in trace) or "-"


def plans(points, nthreads, bound):
    yield ()
    if bound >= 1:
        for p in points:
            for t in range(nthreads):
                yield ((p, t),)
    if bound >= 2:
        for p, q in itertools.combinations(points, 2):
            for t in range(nthreads):
                for u in range(nthreads):
                    yield ((p, t), (q, u))


def main(argv):
    ctx = Ctx("C08", argv)
    ctx.prepare_lean()
    import_repo()
    mod = load_pool()
    rng = ctx.rng
    ctx.rule = ("(K) sequential programs over {useOk,useFail,quitOk,quitFail,clear} of length 1..3 x max_size 1,2 x idle answers, every event compared with the model; "
                "(S) 2 threads x all program pairs of length 1 (and sampled length 2), 3 threads sampled, max_size 1,2, line-level yield points in pool.py, "
                "all schedules with <= 1 pre-emption (quick) / <= 2 (thorough, plus opcode-level sampling); non-trivial = distinct (programs, plan)")
    lines, metas = [], []
    # ---- (K) sequential branch coverage vs the model ------------------------------------------------------
    for L in (1, 2, 3):
        for prog in itertools.product(OPS, repeat=L):
            for mx in (1, 2):
                sched, viol, leak = run_schedule(mod, mx, [list(prog)], ())
                ctx.case(("seq", prog, mx))
                ctx.count("sequential-programs")
                case = {"programs": [list(prog)], "max_size": mx, "trace": [e for _, e in sched.trace][:40]}
                for v in viol:
                    ctx.violation(v, case)
                lines.append(f"pool.seq max={mx} progs={','.join(prog)} order={','.join('0' * L)} idle={','.join('f' * 8)}")
                metas.append(("seq", case, " | ".join(e for _, e in sched.trace)))
    # two-thread sequential (thread 0 whole program, then thread 1): full pool, clear vs idle
    for p0, p1 in itertools.product(OPS, repeat=2):
        sched, viol, leak = run_schedule(mod, 1, [[p0], [p1]], ())
        case = {"programs": [[p0], [p1]], "max_size": 1, "trace": [e for _, e in sched.trace][:40]}
        ctx.case(("seq2", p0, p1))
        for v in viol:
            ctx.violation(v, case)
        lines.append(f"pool.seq max=1 progs={p0};{p1} order=0,1 idle={','.join('f' * 8)}")
        metas.append(("seq", case, " | ".join(e for _, e in sched.trace)))
    # idle expiry and a failing creator (an eagerly connecting client class and a server that is down): sequential, vs the model
    IOPS = ["useOk", "useFail", "quitOk", "tick", "clear"]
    for L in (2, 3, 4):
        for prog in itertools.product(IOPS, repeat=L):
            if "tick" not in prog and L > 2:
                continue
            if L == 4 and not ctx.thorough and (prog[0] != "useOk" or prog.count("tick") != 1):
                continue
            for mx in (1, 2):
                for fc in ((), (1,), (0,), (1, 2)):
                    sched, viol, leak = run_schedule(mod, mx, [list(prog)], (), idle=True, fail_create=fc)
                    ctx.case(("seq-idle", prog, mx, fc))
                    ctx.count("sequential-idle-programs")
                    case = {"programs": [list(prog)], "max_size": mx, "idle_timeout": 5, "tick": 10, "failing_creator_calls": list(fc), "trace": [e for _, e in sched.trace][:40]}
                    for v in viol:
                        ctx.violation(v, case, tags=["idle-expiry"])
                    mprog = [o for o in prog if o != "tick"]
                    if mprog:
                        lines.append(f"pool.seq max={mx} progs={','.join(mprog)} order={','.join('0' * len(mprog))} idle={','.join(sched.answers) or '-'}")
                        metas.append(("seq", case, " | ".join(e for _, e in sched.trace)))
    # the holder is cut short by a BaseException: for the pool this is the same as a failing use (destroy); model program `useFail`
    for prog in (["useAbort"], ["useOk", "useAbort"], ["useAbort", "useOk"], ["useAbort", "useAbort", "useOk"], ["useAbort", "clear"]):
        for mx in (1, 2):
            sched, viol, leak = run_schedule(mod, mx, [list(prog)], ())
            ctx.case(("seq-abort", tuple(prog), mx))
            ctx.count("sequential-programs")
            case = {"programs": [list(prog)], "max_size": mx, "trace": [e for _, e in sched.trace][:40]}
            for v in viol:
                ctx.violation(v, case, tags=["base-exception"])
            mprog = ["useFail" if o == "useAbort" else o for o in prog]
            lines.append(f"pool.seq max={mx} progs={','.join(mprog)} order={','.join('0' * len(mprog))} idle={','.join('f' * 8)}")
            metas.append(("seq", case, " | ".join(e for _, e in sched.trace)))
    # ---- (S) interleavings on the real code ------------------------------------------------------------------
    bound = 2 if ctx.thorough else 1
    progsets = [([a], [b]) for a in OPS for b in OPS]
    progsets += [tuple(rng.choice(OPS) for _ in range(2)) and ([rng.choice(OPS), rng.choice(OPS)], [rng.choice(OPS), rng.choice(OPS)]) for _ in range(40 if ctx.thorough else 8)]
    progsets += [([rng.choice(OPS)], [rng.choice(OPS)], [rng.choice(OPS)]) for _ in range(20 if ctx.thorough else 4)]
    nruns = 0
    idle_sets = [(["useOk", "tick", "useOk"], ["useOk"], (2,)), (["useOk", "tick", "useOk"], ["useOk"], ()), (["useOk", "tick", "useFail"], ["tick", "useOk"], (1,)),
                 (["useOk", "tick", "useOk"], ["clear"], (1,)), (["useOk"], ["useOk", "tick", "quitOk"], (2, 3))]
    for (p0, p1, fc) in idle_sets:
        programs = [p0, p1]
        mprogs = [[o for o in p if o != "tick"] for p in programs]
        for mx in (1, 2):
            s0, _, _ = run_schedule(mod, mx, programs, (), idle=True, fail_create=fc)
            npoints = min(s0.pos, 120)
            for plan in plans(range(0, npoints, 1 if ctx.thorough else 2), 2, 1):
                sched, viol, leak = run_schedule(mod, mx, programs, plan, idle=True, fail_create=fc)
                nruns += 1
                case = {"programs": programs, "max_size": mx, "idle_timeout": 5, "tick": 10, "failing_creator_calls": list(fc), "plan": [list(x) for x in plan],
                        "trace_tail": [f"{t}:{e}" for t, e in sched.trace][-25:]}
                ctx.case(("il-idle", tuple(map(tuple, programs)), mx, fc, plan))
                ctx.count("interleavings idle-expiry/failing-creator")
                for v in viol:
                    ctx.violation(v, case, tags=["idle-expiry"] + (["clear-race"] if ("clear" in p1 and "closed" in v) else []))
                if leak:
                    ctx.violation(f"connection(s) {leak} were closed by clear() while checked out, re-opened by their holder and never closed again", case, tags=["clear-vs-holder"])
                lines.append(f"pool.validate max={mx} progs={';'.join(','.join(p) for p in mprogs)} trace={trace_tok(sched.trace)}")
                metas.append(("val", case, None))
    for programs in progsets:
        programs = [list(p) for p in programs]
        for mx in (1, 2):
            # dry run to learn the number of yield points
            s0, _, _ = run_schedule(mod, mx, programs, ())
            npoints = min(s0.pos, 90 if ctx.thorough else 70)
            step = 1 if len(programs[0]) == 1 and len(programs) == 2 else 3
            b = bound if (len(programs) == 2 and len(programs[0]) == 1) else 1
            if programs in ([["useOk"], ["useOk"]], [["useFail"], ["clear"]]) and mx == 1:
                b = 2             # two plain callers of a pool of one: there-and-back schedules also in the quick tier (the size check and the creation are one lock hold)
            pts = range(0, npoints, step)
            if b == 2:
                pts2 = list(pts)[::2]
            for plan in plans(pts, len(programs), 1) if b == 1 else itertools.chain(plans(pts, len(programs), 1), (pl for pl in plans(pts2, len(programs), 2) if len(pl) == 2)):
                sched, viol, leak = run_schedule(mod, mx, programs, plan)
                nruns += 1
                has_clear = any("clear" in p for p in programs)
                case = {"programs": programs, "max_size": mx, "plan": [list(x) for x in plan], "trace_tail": [f"{t}:{e}" for t, e in sched.trace][-25:]}
                ctx.case(("il", tuple(map(tuple, programs)), mx, plan), sample=case if nruns in (100, 4000) else None)
                ctx.count(f"interleavings threads={len(programs)}")
                for v in viol:
                    ctx.violation(v, case, tags=["clear-race"] if (has_clear and "closed" in v) else [])
                if leak:
                    ctx.violation(f"connection(s) {leak} were closed by clear() while checked out, re-opened by their holder and never closed again", case,
                                  tags=["clear-vs-holder"])
                lines.append(f"pool.validate max={mx} progs={';'.join(','.join(p) for p in programs)} trace={trace_tok(sched.trace)}")
                metas.append(("val", case, None))
    # ---- (P) the same programs through the real PooledClient methods with real Client objects in the pool -----------------------------------
    import pymemcache.client.base as base_mod
    pc_sets = [([a], [b]) for a in OPS for b in OPS] + [(["useAbort"], ["useOk"]), (["useAbort", "useOk"], ["useOk"]), (["useOk"], ["useAbort"]), (["useAbort"], ["useAbort"]), (["useOk"], ["useOk"], ["useOk"]), (["quitOk"], ["useOk"], ["useOk"]), (["quitFail"], ["useOk"], ["useOk"]),
                                                          (["useOk", "useOk"], ["useOk", "quitOk"]), (["useFail"], ["useOk"], ["clear"])]
    for programs in pc_sets:
        programs = [list(p_) for p_ in programs]
        for mx in (1, 2, 3):
            if (mx == 3) != (len(programs) == 3) and not ctx.thorough:
                continue
            s0, _, _ = run_pc_schedule(mod, base_mod, mx, programs, ())
            npoints = min(s0.pos, 110)
            three = len(programs) == 3
            pl = plans(range(0, npoints, 1 if ctx.thorough else 2), len(programs), 1)
            if programs in ([["quitOk"], ["useOk"]], [["quitFail"], ["useOk"]]) or (ctx.thorough and not three and any(o_.startswith("quit") for p_ in programs for o_ in p_)):
                # two pre-emptions (there and back) around the two pool calls of quit()
                pts2 = list(range(0, npoints, 1 if ctx.thorough else 2))
                pl = itertools.chain(pl, (((p_, 1), (q_, 0)) for p_, q_ in itertools.combinations(pts2, 2)))
            if three:
                pts3 = list(range(0, npoints, 3))
                pl = itertools.chain(pl, (((p_, t_), (q_, u_)) for p_, q_ in itertools.combinations(pts3, 2) for t_ in range(3) for u_ in range(3) if t_ != u_))
            for plan in pl:
                if three and len(plan) == 2 and not ctx.thorough and (plan[0][0] + plan[1][0]) % 4:
                    continue
                sched, viol, leak = run_pc_schedule(mod, base_mod, mx, programs, plan)
                nruns += 1
                has_clear = any("clear" in p_ for p_ in programs)
                case = {"level": "PooledClient methods, real Client objects", "programs": programs, "max_size": mx, "plan": [list(x) for x in plan],
                        "trace_tail": [f"{t}:{e}" for t, e in sched.trace][-25:]}
                ctx.case(("pc", tuple(map(tuple, programs)), mx, plan))
                ctx.count(f"pooled-client interleavings threads={len(programs)}")
                for v in viol:
                    ctx.violation(v, case, tags=["pooled-client-level"] + (["clear-race"] if (has_clear and "closed" in v) else []))
                if leak:
                    if has_clear:
                        ctx.violation(f"socket(s) {leak} opened by a holder after clear() closed its client were never closed", case, tags=["clear-vs-holder"])
                    else:
                        ctx.violation(f"socket(s) {leak} were never closed and belong to no idle pooled client", case, tags=["pooled-client-level", "leak"])
                mprogs_ = [["useFail" if o_ == "useAbort" else o_ for o_ in p_] for p_ in programs]
                lines.append(f"pool.validate max={mx} progs={';'.join(','.join(p_) for p_ in mprogs_)} trace={trace_tok(sched.trace)}")
                metas.append(("val", case, None))
    if ctx.thorough:
        # opcode-level yield points, random single pre-emptions
        for _ in range(300):
            programs = [[rng.choice(OPS)], [rng.choice(OPS)]]
            s0, _, _ = run_schedule(mod, 1, programs, (), opcodes=True)
            plan = ((rng.randrange(0, max(1, s0.pos)), rng.randrange(2)),)
            sched, viol, leak = run_schedule(mod, 1, programs, plan, opcodes=True)
            case = {"programs": programs, "max_size": 1, "plan": [list(x) for x in plan], "granularity": "opcode"}
            ctx.case(("op", tuple(map(tuple, programs)), plan))
            ctx.count("opcode-level-runs")
            for v in viol:
                ctx.violation(v, case)
    ctx.extra["real_interleavings_explored"] = nruns
    if ctx.lean.build_ok:
        for (kind, case, want), o in zip(metas, ctx.driver.batch(lines)):
            if kind == "seq":
                if o != "ok " + want:
                    ctx.disagreement("event sequence of the real pool differs from the Lean micro-step model", dict(case, model=o[:400], impl=want[:400]), theorem="C08_mutex")
            else:
                if not o.startswith("ok valid"):
                    ctx.disagreement("an interleaved event trace of the real pool is not a run of the Lean micro-step model", dict(case, verdict=o[:300]),
                                     theorem="C08_no_duplicates_and_capacity")
    ctx.assumptions = ["threading.Lock is a correct mutex; single deque operations are atomic (GIL)", "interleaving granularity: source lines of pool.py (opcodes sampled in thorough)",
                       "the idle test is a nondeterministic boolean in the model (time is C09's subject)"]
    ctx.finish()
