"""C15 — serializers round-trip every value with its exact type.
Real PickleSerde / CompressedSerde / LegacyWrappingSerde on a recursive value corpus: equality and exact type of the
round trip, transmittable payload, flags < 2^16, compression decision (monitor); flags / payload kind / compression
decision compared with the Lean model `Serde.serialize` / `cserialize` (correspondence)."""
import bz2
import lzma
import pickle
import zlib

from common import Ctx, hx, import_repo


class IntSub(int): pass
class StrSub(str): pass
class BytesSub(bytes): pass
class DictSub(dict): pass
class ListSub(list): pass


class Point:
    def __init__(self, x, y):
        self.x, self.y = x, y

    def __eq__(self, o):
        return type(o) is Point and (self.x, self.y) == (o.x, o.y)


def corpus(rng, thorough):
    vs = [b"", b"x", b"bytes" * 100, bytes(range(256)), "", "text", "é€\U0001F600", "x" * 399, "x" * 400, "x" * 401, "\x00",
          0, 1, -1, 7, 255, 2 ** 31, 2 ** 63, -2 ** 63, 2 ** 64, 10 ** 9, 10 ** 10, 10 ** 11, 10 ** 399, 10 ** 400, 10 ** 401, -10 ** 400, 10 ** 3000, -10 ** 2999,
          True, False, None, 0.0, 1.5, -2.25, float("inf"), 1e300, complex(1, -1),
          [], [1, 2, 3], [1, "a", b"b", None, [2.5, {"k": (1, 2)}]], (), (1,), (1, (2, (3, (4,)))), {}, {"a": 1}, {1: {2: {3: [4, 5, {6}]}}}, set(), {1, 2, 3}, frozenset({"x"}),
          IntSub(5), IntSub(10 ** 50), StrSub("s"), StrSub(""), BytesSub(b"b"), DictSub(a=1), ListSub([1, 2]), Point(1, [2, 3]),
          b"\x00" * 1000, bytes(rng.randrange(256) for _ in range(1000)), "a" * 10000, list(range(1000)), "0" * 500, b"9" * 11, "12", b"12"]
    # values whose compressed form is exactly as long as the plain form under some codec (the "equal" boundary)
    vs += [b"a" * n for n in range(1, 40)] + [b"\x00" * n for n in (11, 12, 13, 401, 402)] + ["ab" * k for k in range(1, 12)]
    # equal-but-differently-typed scalars next to each other, in both orders (history dependence)
    vs += [1.0, True, 1.0, 0.0, False, 0.0, -0.0, 0.0, 1, 1.0, True, 1, None, 0, False]
    # large before compression, small after it (the server's item limit applies to what is stored)
    vs += [b"\x00" * ((1 << 20) + 1), "a" * 1_100_000, [0] * 600_000]
    # incompressible as a whole although a part of it compresses: a compressible head (of 1, 4 and 8 KiB) or tail on random data - what is stored must not
    # be longer than the value
    import random as _rnd
    _r = _rnd.Random(20260101)
    noise = lambda n_: bytes(_r.randrange(256) for _ in range(n_))
    vs += [noise(4000) + b"\x00" * 96 + noise(100_000), b"\x00" * 400 + noise(3696) + noise(60_000), noise(900) + b"ab" * 62 + noise(30_000), noise(8000) + b"\x00" * 192 + noise(50_000),
           noise(50_000) + b"\x00" * 64, noise(5000)]
    # the other built-in types that compare equal to a basic one without being it (a bytearray equals the bytes it holds, a range / dict view ...)
    import array, collections, datetime, decimal, fractions
    vs += [bytearray(b"abc"), bytearray(), bytearray(b"12"), bytearray(range(256)) * 3, [bytearray(b"in a list")], range(5), range(0), slice(1, 5, 2),
           array.array("b", [1, 2, 3]), collections.OrderedDict(a=1, b=2), collections.deque([1, 2]), collections.Counter("abca"), collections.defaultdict(list, a=[1]),
           decimal.Decimal("1.50"), fractions.Fraction(1, 3), datetime.date(2024, 2, 29), datetime.datetime(2024, 2, 29, 12, 0, 1, 5), datetime.timedelta(0),
           Ellipsis, NotImplemented, int, b"".join, float("-inf")]
    for d in (9, 10, 11, 12):
        vs.append(int("9" * d))
        vs.append(-int("9" * d))

    def rec(depth):
        t = rng.randrange(9)
        if depth <= 0 or t < 4:
            return rng.choice([rng.randrange(-10 ** 12, 10 ** 12), rng.random(), "s%d" % rng.randrange(100), bytes(rng.randrange(256) for _ in range(rng.randrange(20))), None, True])
        if t == 4:
            return [rec(depth - 1) for _ in range(rng.randrange(4))]
        if t == 5:
            return tuple(rec(depth - 1) for _ in range(rng.randrange(4)))
        if t == 6:
            return {("k%d" % i): rec(depth - 1) for i in range(rng.randrange(4))}
        if t == 7:
            return StrSub("sub") if rng.random() < .5 else IntSub(rng.randrange(10 ** 6))
        return int(rng.choice(["1", "-1"]) + "".join(rng.choice("0123456789") for _ in range(rng.choice([1, 9, 10, 11, 50, 399, 400, 401, 2000]))))
    for _ in range(3000 if thorough else 300):
        vs.append(rec(4))
    # object graphs that refer back to themselves (picklable at every protocol): compared structurally by `cyclic_ok`
    l1 = [1, 2]
    l1.append(l1)
    d1 = {"name": "root"}
    d1["self"] = d1
    d2 = {"child": []}
    d2["child"].append(d2)
    p1 = Point(1, None)
    p1.y = [p1]
    shared = [7]
    # text that starts with / contains a byte-order mark, and a value whose pickling itself serializes something (re-entrant use of the serializer)
    vs += ["\ufeff", "\ufeffid,name", "a\ufeffb", "\ufeff\ufeff", Envelope({"user": "alice", "visits": [1, 2, 3]}), [Envelope(b"inner bytes"), Envelope("txt"), 5]]
    vs += [Cyclic(l1, "list"), Cyclic(d1, "dict"), Cyclic(d2, "dict-child"), Cyclic(p1, "object"), [shared, shared, (shared,)]]
    return vs


class Envelope:
    """a value that keeps its body in serialized form: pickling it calls the library's serializer again (from inside the outer serialization)"""

    def __init__(self, body):
        self.body = body

    def __eq__(self, o):
        return type(o) is Envelope and o.body == self.body

    def __repr__(self):
        return "Envelope(%r)" % (self.body,)

    def __reduce__(self):
        from pymemcache import serde as _serde
        payload, flags = _serde.pickle_serde.serialize("inner", self.body)
        return (_open_envelope, (payload, flags))


def _open_envelope(payload, flags):
    from pymemcache import serde as _serde
    if isinstance(payload, str):
        payload = payload.encode("ascii")
    return Envelope(_serde.pickle_serde.deserialize("inner", payload, flags))


class Cyclic:
    """marker around a self-referential value (== would recurse for ever)"""

    def __init__(self, value, shape):
        self.value, self.shape = value, shape

    def __repr__(self):
        return "<cyclic %s>" % self.shape


def cyclic_ok(shape, back):
    try:
        if shape == "list":
            return type(back) is list and back[:2] == [1, 2] and back[2] is back
        if shape == "dict":
            return type(back) is dict and back["name"] == "root" and back["self"] is back
        if shape == "dict-child":
            return type(back) is dict and back["child"][0] is back
        if shape == "object":
            return type(back) is Point and back.x == 1 and back.y[0] is back
    except Exception:
        return False
    return False


def model_val(v):
    t = type(v)
    if t is bytes:
        return "b:" + hx(v)
    if t is str:
        return None      # utf-8 is a codec parameter of the model: compare flags/kind only
    if t is int:
        return f"i:{v}"
    return None


def main(argv):
    ctx = Ctx("C15", argv)
    ctx.prepare_lean()
    import_repo()
    from pymemcache import serde
    rng = ctx.rng
    ctx.rule = ("value corpus (bytes/str/int incl. thousands of digits and sizes straddling every threshold, bool/None/float/containers/subclasses/objects, plus a recursive "
                "random generator) x PickleSerde protocols 0..5 x CompressedSerde {zlib,bz2,lzma,identity,inflating} x min_compress_len {0,1,10,400} + LegacyWrappingSerde; "
                "non-trivial = distinct (serde, value)")
    vals = corpus(rng, ctx.thorough)
    serdes = [("pickle%d" % p, serde.PickleSerde(pickle_version=p), None) for p in range(pickle.HIGHEST_PROTOCOL + 1)]
    codecs = {"zlib": (zlib.compress, zlib.decompress), "bz2": (bz2.compress, bz2.decompress), "lzma": (lzma.compress, lzma.decompress),
              "identity": (lambda b: b, lambda b: b), "inflating": (lambda b: b"Z" + b + b"padding", lambda b: b[1:-7])}
    for cname, (cz, dz) in codecs.items():
        for thr in (0, 1, 10, 400):
            serdes.append((f"compressed-{cname}-{thr}", serde.CompressedSerde(compress=cz, decompress=dz, min_compress_len=thr), (cname, cz, thr)))
    serdes.append(("default-compressed", serde.compressed_serde, ("zlib", zlib.compress, 400)))
    serdes.append(("compressed-defaultcodec-10", serde.CompressedSerde(min_compress_len=10), ("zlib", zlib.compress, 10)))       # the codec left to its default
    serdes.append(("pickle_serde", serde.pickle_serde, None))
    lines, metas = [], []
    n = 0
    for sname, sd, comp in serdes:
        for vi, v in enumerate(vals):
            cyc = None
            if isinstance(v, Cyclic):
                cyc, v = v.shape, v.value
            if not ctx.thorough and sname.startswith("pickle") and sname not in ("pickle0", "pickle2", "pickle5", "pickle_serde") and vi % 3:
                continue
            n += 1
            case = {"serde": sname, "value": ("<self-referential %s>" % cyc) if cyc else repr(v)[:70], "type": type(v).__name__}
            tags = ["serde:" + sname.split("-")[0]]
            if type(v) is int:
                tags.append("int-value")
            ctx.case((sname, vi), sample=None)
            ctx.count("serde:" + sname.split("-")[0])
            ctx.count("type:" + (type(v).__name__ if type(v).__module__ == "builtins" else "user-class"))
            try:
                payload, flags = sd.serialize("k", v)
            except Exception as e:
                ctx.violation("serialize raised", dict(case, error=repr(e)[:100]), tags=tags)
                continue
            if n % 997 == 0 and len(ctx.samples) < 5:
                ctx.samples.append(dict(case, flags=flags, payload_type=type(payload).__name__, payload_len=len(payload)))
            # transmittable: bytes, or ASCII text
            if isinstance(payload, bytes):
                wire = payload
            elif isinstance(payload, str):
                try:
                    wire = payload.encode("ascii")
                except UnicodeEncodeError:
                    ctx.violation("serialized form is text that is not ASCII", case, tags=tags)
                    continue
            else:
                ctx.violation("serialized form is neither bytes nor text", dict(case, payload_type=type(payload).__name__), tags=tags)
                continue
            if not (isinstance(flags, int) and 0 <= flags < 65536):
                ctx.violation("flags outside 16 bits", dict(case, flags=flags), tags=tags)
            # the pickle protocol that was configured is the one the payload is written in (a frame of protocol >= 2 starts with PROTO <n>;
            # protocols 0 and 1 have no such header) - another protocol may round-trip today and not be readable by the peer that asked for this one
            if sname.startswith("pickle") and sname[6:].isdigit() and isinstance(flags, int) and flags & serde.FLAG_PICKLE and isinstance(payload, bytes):
                want_p = int(sname[6:])
                got_p = payload[1] if payload[:1] == b"\x80" and len(payload) > 1 else None
                if (want_p >= 2 and got_p != want_p) or (want_p < 2 and got_p is not None):
                    ctx.violation("the value was pickled with another protocol than the configured one", dict(case, configured=want_p, payload_starts=hx(payload[:4])), tags=tags + ["pickle-protocol"])
            try:
                back = sd.deserialize("k", wire, flags)
            except Exception as e:
                ctx.violation("deserialize raised on the serializer's own output", dict(case, error=repr(e)[:100]), tags=tags)
                continue
            same = cyclic_ok(cyc, back) if cyc else ((back == v or (back != back and v != v)) and type(back) is type(v))
            if not same:
                ctx.violation("round trip does not return an equal value of exactly the same type", dict(case, got=repr(back)[:70], got_type=type(back).__name__), tags=tags)
            if comp is not None:
                cname, cz, thr = comp
                base_payload, base_flags = serde.pickle_serde.serialize("k", v)
                base_wire = base_payload if isinstance(base_payload, bytes) else base_payload.encode("ascii")
                compressed_flag = bool(flags & serde.FLAG_COMPRESSED)
                stored_compressed = wire == cz(base_wire) and not (wire == base_wire)
                if compressed_flag and wire != cz(base_wire):
                    ctx.violation("item marked compressed but the stored form is not the compressed form", case, tags=tags)
                if not compressed_flag and wire != base_wire:
                    ctx.violation("item not marked compressed but the stored form is not the plain form", case, tags=tags)
                if len(wire) > len(base_wire):
                    ctx.violation("stored form is larger than the uncompressed one", dict(case, stored=len(wire), plain=len(base_wire)), tags=tags)
                if (flags & ~serde.FLAG_COMPRESSED) != base_flags:
                    ctx.violation("compression changed the type flags", dict(case, flags=flags, base=base_flags), tags=tags)
            # Lean model: flags + payload kind (+ payload bytes for bytes/int) and the compression decision
            mv = model_val(v)
            kind = "b" if type(v) is bytes else "s" if type(v) is str else "i" if type(v) is int else "o"
            if comp is None:
                lines.append(f"serde kind={kind} val={mv or '-'}")
                metas.append((case, f"flags={flags} payload={'text' if isinstance(payload, str) else 'bytes'}" + (f" wire={hx(wire)}" if mv and len(wire) < 5000 else "")))
            elif comp[0] in ("identity", "inflating"):
                cname, cz, thr = comp
                base_payload, _ = serde.pickle_serde.serialize("k", v)
                plen = len(base_payload)
                zlen = len(cz(base_payload if isinstance(base_payload, bytes) else base_payload.encode("ascii")))
                lines.append(f"cserde kind={kind} thr={thr} plen={plen} zlen={zlen}")
                metas.append((case, f"flags={flags} compressed={int(bool(flags & 8))}"))
    # LegacyWrappingSerde
    lw = serde.LegacyWrappingSerde(None, None)
    for v in (b"x", "s", 5):
        if lw.serialize("k", v) != (v, 0) or lw.deserialize("k", v, 0) is not v:
            ctx.violation("LegacyWrappingSerde default is not the identity with flags 0", {"value": repr(v)})
        ctx.count("serde:legacy")
    if ctx.lean.build_ok:
        for (case, want), o in zip(metas, ctx.driver.batch(lines)):
            if o != "ok " + want:
                ctx.disagreement("Lean serializer model differs from the implementation (flags / payload kind / compression decision)", dict(case, impl=want[:200], model=o[:200]),
                                 theorem="C15_serde_roundtrip")
    # ---- items this client did not write: the flag cascade of the default deserialiser on ANY flags word (python-memcached's long flag, several flags at
    #      once, unknown bits) and on payloads that do not decode / unpickle - compared with `Serde.deserialize` (C15_cascade_order).  Integer payloads are
    #      the canonical decimal spellings and non-numbers (the model's integer syntax is the serialiser's own output, not everything int() accepts) ----
    import pickle as _pickle
    from pymemcache import serde as _sd
    payloads = [b"", b"0", b"123", b"-7", b"18446744073709551616", b"abc", b"12a", "\u00e9".encode(), b"\xff\xfe", _pickle.dumps({"a": [1, 2]}), _pickle.dumps(None),
                b"\x80\x04garbage", b"\x80", _pickle.dumps(7)[:-1]]
    dlines, dreal = [], []
    for flags_ in list(range(0, 64)) + [64, 128, 65, 1 << 16, (1 << 16) | 2]:
        for pl in payloads:
            try:
                pl.decode("utf8")
                u_ok = True
            except UnicodeDecodeError:
                u_ok = False
            try:
                _pickle.loads(pl)
                k_ok = True
            except Exception:
                k_ok = False
            try:
                r_ = _sd.python_memcache_deserializer("k", pl, flags_)
                got_ = ("bytes:" + hx(r_)) if type(r_) is bytes else "str" if type(r_) is str else f"int:{r_}" if type(r_) is int else "None" if r_ is None and not k_ok else "other"
                got_ = "ok " + got_
            except UnicodeDecodeError:
                got_ = "err decode"
            except ValueError:
                got_ = "err value"
            except Exception as e_:
                got_ = "raised " + type(e_).__name__
            dlines.append(f"deser flags={flags_} val={hx(pl)} utf8ok={int(u_ok)} pickleok={int(k_ok)}")
            dreal.append((flags_, pl, got_))
            ctx.case(("foreign-flags", flags_, pl))
            ctx.count("deserialisation of items with arbitrary flags")
    if ctx.driver.available and ctx.lean.build_ok:
        for (flags_, pl, got_), m_ in zip(dreal, ctx.driver.batch(dlines)):
            if m_ != got_:
                ctx.disagreement("model Serde.deserialize differs from python_memcache_deserializer on a stored item", {"flags": flags_, "payload": repr(pl)[:60], "implementation": got_, "model": m_},
                                 theorem="C15_cascade_order")
    ctx.assumptions = ["pickle, utf-8 and the compression codecs are left-inverse pairs (exercised here, hypotheses of the theorems)",
                       "'equal' is Python ==, NaN compared by identity of being NaN"]
    ctx.finish()
