"""Shared helpers for the client-level checks: call descriptions, their invocation on real client objects,
their rendering as Lean driver tokens, and canonical results/exceptions."""
import errno
import socket as _real

from common import hx, unhx

DEFAULT = type("DEFAULT", (), {"__repr__": lambda s: "DEFAULT"})()
CASDEFAULT = type("CASDEFAULT", (), {"__repr__": lambda s: "CASDEFAULT"})()


def key_tok(k):
    if isinstance(k, str):
        return "s:" + (",".join(str(ord(c)) for c in k) or "-")
    return "b:" + hx(k)


def val_tok(v):
    if isinstance(v, bytes):
        return "b:" + hx(v)
    if isinstance(v, str):
        return "t:" + (",".join(str(ord(c)) for c in v) or "-")
    if isinstance(v, int) and not isinstance(v, bool):
        return f"i:{v}"
    raise ValueError(v)


def intarg_tok(x):
    return f"i:{x}" if isinstance(x, int) and not isinstance(x, bool) else "x"


def optbool_tok(x):
    return "n" if x is None else "1" if x else "0"


def cas_tok(c):
    if c is None:
        return "n"
    if isinstance(c, bool):
        return "o"
    if isinstance(c, int):
        return f"i:{c}"
    if isinstance(c, str):
        return "s:" + (",".join(str(ord(ch)) for ch in c) or "-")
    if isinstance(c, bytes):
        return "b:" + hx(c)
    return "o"


def cfg_tok(au=False, utf8=False, dnr=True, ign=False, pfx=b""):
    return f"cfg={int(au)}{int(utf8)}{int(dnr)}{int(ign)}:{hx(pfx)}"


def call_tokens(c):
    """driver tokens for a call description (dict)"""
    op = c["op"]
    t = [f"op={op}"]
    if op in ("set", "add", "replace", "append", "prepend", "cas"):
        t += [f"k={key_tok(c['k'])}", f"v={val_tok(c['v'])}", f"e={intarg_tok(c.get('e', 0))}", f"nr={optbool_tok(c.get('nr'))}",
              "fl=" + ("n" if c.get("fl") is None else str(c["fl"])), f"cas={cas_tok(c.get('cas'))}"]
    elif op == "set_many":
        items = "|".join(f"{key_tok(k)}~{val_tok(v)}" for k, v in c["items"]) or "-"
        t += [f"items={items}", f"e={intarg_tok(c.get('e', 0))}", f"nr={optbool_tok(c.get('nr'))}", "fl=" + ("n" if c.get("fl") is None else str(c["fl"]))]
    elif op in ("get", "gets"):
        t += [f"k={key_tok(c['k'])}"]
    elif op in ("gat", "gats"):
        t += [f"k={key_tok(c['k'])}", f"e={intarg_tok(c.get('e', 0))}"]
    elif op in ("get_many", "gets_many"):
        t += ["ks=" + ("|".join(key_tok(k) for k in c["ks"]) or "-")]
    elif op == "delete":
        t += [f"k={key_tok(c['k'])}", f"nr={optbool_tok(c.get('nr'))}"]
    elif op == "delete_many":
        t += ["ks=" + ("|".join(key_tok(k) for k in c["ks"]) or "-"), f"nr={optbool_tok(c.get('nr'))}"]
    elif op in ("incr", "decr"):
        t += [f"k={key_tok(c['k'])}", f"d={intarg_tok(c['d'])}", f"nr={int(bool(c.get('nr', False)))}"]
    elif op == "touch":
        t += [f"k={key_tok(c['k'])}", f"e={intarg_tok(c.get('e', 0))}", f"nr={optbool_tok(c.get('nr'))}"]
    elif op == "flush_all":
        t += [f"d={intarg_tok(c.get('d', 0))}", f"nr={optbool_tok(c.get('nr'))}"]
    elif op in ("version", "quit"):
        pass
    elif op == "raw":
        t += [f"cmd={hx(c['cmd'])}", f"tok={hx(c['tok'])}"]
    elif op == "stats":
        t += ["args=" + ("|".join(key_tok(k) for k in c.get("args", ())) or "-")]
    elif op == "cache_memlimit":
        t += [f"m={intarg_tok(c['m'])}"]
    elif op == "shutdown":
        t += [f"g={int(bool(c.get('g', False)))}"]
    else:
        raise ValueError(op)
    return " ".join(t)


KEYS_AS = {"list": list, "tuple": tuple, "gen": lambda ks: (k for k in ks), "iter": lambda ks: iter(list(ks)), "map": lambda ks: map(lambda k: k, ks),
           "dictkeys": lambda ks: dict.fromkeys(ks).keys()}


def invoke(client, c, keys_as=list):
    """perform the call on a real client object (Client / PooledClient / HashClient / RetryingClient)"""
    op = c["op"]
    if "as" in c:
        keys_as = KEYS_AS[c["as"]]          # the kind of collection the keys are handed over in (a one-shot iterator is always truthy)
    kw = {}
    if op in ("set", "add", "replace", "append", "prepend"):
        if "e" in c: kw["expire"] = c["e"]
        if c.get("nr") is not None or "nr" in c: kw["noreply"] = c.get("nr")
        if c.get("fl") is not None: kw["flags"] = c["fl"]
        return getattr(client, op)(c["k"], c["v"], **kw)
    if op == "cas":
        if "e" in c: kw["expire"] = c["e"]
        if "nr" in c: kw["noreply"] = c.get("nr")
        if c.get("fl") is not None: kw["flags"] = c["fl"]
        return client.cas(c["k"], c["v"], c["cas"], **kw)
    if op == "set_many":
        if "e" in c: kw["expire"] = c["e"]
        if "nr" in c: kw["noreply"] = c.get("nr")
        if c.get("fl") is not None: kw["flags"] = c["fl"]
        return client.set_many(dict(c["items"]), **kw)
    if op == "get":
        return client.get(c["k"], DEFAULT)
    if op == "gets":
        return client.gets(c["k"], default=DEFAULT, cas_default=CASDEFAULT)
    if op == "gat":
        return client.gat(c["k"], c.get("e", 0), DEFAULT) if c.get("positional", True) else client.gat(c["k"], expire=c.get("e", 0), default=DEFAULT)
    if op == "gats":
        return client.gats(c["k"], expire=c.get("e", 0), default=DEFAULT, cas_default=CASDEFAULT)
    if op == "get_many":
        return client.get_many(keys_as(c["ks"]))
    if op == "gets_many":
        return client.gets_many(keys_as(c["ks"]))
    if op == "delete":
        return client.delete(c["k"], noreply=c.get("nr"))
    if op == "delete_many":
        return client.delete_many(keys_as(c["ks"]), noreply=c.get("nr"))
    if op in ("incr", "decr"):
        return getattr(client, op)(c["k"], c["d"], noreply=c.get("nr", False))
    if op == "touch":
        return client.touch(c["k"], expire=c.get("e", 0), noreply=c.get("nr"))
    if op == "flush_all":
        return client.flush_all(delay=c.get("d", 0), noreply=c.get("nr"))
    if op == "version":
        return client.version()
    if op == "quit":
        return client.quit()
    if op == "raw":
        return client.raw_command(c["cmd"], c["tok"])
    if op == "getitem":                 # the mapping protocol of Client / PooledClient
        return client[c["k"]]
    if op == "setitem":
        client[c["k"]] = c["v"]
        return None
    if op == "delitem":
        del client[c["k"]]
        return None
    if op == "stats":
        return client.stats(*c.get("args", ()))
    if op == "cache_memlimit":
        return client.cache_memlimit(c["m"])
    if op == "shutdown":
        return client.shutdown(c.get("g", False))
    raise ValueError(op)


# ---- stats: the Lean model returns the raw dict of `_fetch_cmd` (the type conversion of `Client.stats` is outside the
# model); both sides are brought to the same form: the converted dict, keys sorted, values rendered without spaces

def stat_val_tok(v):
    if v is True:
        return "True"
    if v is False:
        return "False"
    if isinstance(v, int):
        return f"int:{v}"
    if isinstance(v, float):
        return "float:" + repr(v)
    if isinstance(v, bytes):
        return "b:" + hx(v)
    return "r:" + hx(repr(v).encode())


def canon_stats_dict(d):
    return "stats:{" + ";".join(sorted(f"{key_tok(k)}={stat_val_tok(v)}" for k, v in d.items())) + "}"


def _parse_key_tok(t):
    if t.startswith("b:"):
        return bytes.fromhex(t[2:])
    if t.startswith("s:"):
        return "" if t[2:] == "-" else "".join(chr(int(x)) for x in t[2:].split(","))
    raise ValueError(t)


def model_sval_tok(t):
    """a value token printed by the Lean driver for a converted stats value -> the form of `stat_val_tok`.
    `int:` / `True` / `False` / `b:` are already in that form; `f:<arg>:<raw>` is the one conversion the model leaves to
    CPython: `float(arg)` if it accepts `arg`, else the raw value"""
    if t.startswith("f:"):
        _, a, r = t.split(":")
        try:
            return "float:" + repr(float(unhx(a)))
        except ValueError:
            return "b:" + hx(unhx(r))
    return t


def canon_model_stats(tok):
    """`stats:{<key>=<value token>;…}` as printed by the Lean driver (values converted by `Stats.statsConvert`) -> the form of `canon_stats_dict`"""
    body = tok[len("stats:{"):-1]
    items = []
    for item in (body.split(";") if body else []):
        k, v = item.split("=", 1)
        items.append(f"{k}={model_sval_tok(v)}")
    return "stats:{" + ";".join(sorted(items)) + "}"


def canon_model_line(line):
    """rewrite the `res=stats:{…}` token of a driver reply line (no other token is touched)"""
    if "res=stats:{" not in line:
        return line
    toks = line.split(" ")
    return " ".join(("res=" + canon_model_stats(t[4:])) if t.startswith("res=stats:{") and t.endswith("}") else t for t in toks)


def canon_value(op, r):
    """canonical rendering of a return value, same grammar as the Lean driver's `showRes`"""
    if r is DEFAULT:
        return "DEFAULT"
    if isinstance(r, tuple) and len(r) == 2 and r[0] is DEFAULT and r[1] is CASDEFAULT:
        return "DEFAULTPAIR"
    if r is None:
        return "None"
    if r is True:
        return "True"
    if r is False:
        return "False"
    if isinstance(r, int):
        return f"int:{r}"
    if isinstance(r, bytes):
        return "b:" + hx(r)
    if isinstance(r, tuple) and len(r) == 2 and isinstance(r[0], bytes) and isinstance(r[1], bytes):
        return f"pair:{hx(r[0])}:{hx(r[1])}"
    if isinstance(r, dict) and op == "stats":
        try:
            return canon_stats_dict(r)
        except Exception:
            return "stats-malformed:" + repr(r)[:100]
    if isinstance(r, dict):
        if op == "gets_many":
            try:
                return "casdict:{" + ";".join(sorted(f"{key_tok(k)}={hx(v[0])}/{hx(v[1])}" for k, v in r.items())) + "}"
            except Exception:
                return "casdict-malformed:" + repr(r)[:100]
        try:
            return "dict:{" + ";".join(sorted(f"{key_tok(k)}={hx(v)}" for k, v in r.items())) + "}"
        except Exception:
            return "dict-malformed:" + repr(r)[:100]
    if isinstance(r, list):
        try:
            return "keys:[" + ";".join(key_tok(k) for k in r) + "]"
        except Exception:
            return "list-malformed:" + repr(r)[:100]
    return "other:" + repr(r)[:100]


SOCK_CODES = {"timeout": 1, "reset": 2, "refused": 3, "pipe": 4, "oserror": 5, "eintr": 5, "gaierror": 6, "valueerror": 7,
              "kbd": 100, "sysexit": 101, "interrupt": 102}


def canon_exc(e):
    from pymemcache import exceptions as X
    t = type(e)
    if t is X.MemcacheIllegalInputError: return "exc:IllegalInput"
    if t is X.MemcacheUnknownCommandError: return "exc:UnknownCommand"
    if t is X.MemcacheClientError: return "exc:ClientError"
    if t is X.MemcacheUnexpectedCloseError: return "exc:UnexpectedClose"
    if t is X.MemcacheServerError: return "exc:ServerError"
    if t is X.MemcacheUnknownError: return "exc:UnknownError"
    if t is X.MemcacheError: return "exc:MemcacheError"
    if isinstance(e, _real.timeout): return "exc:Sock1"
    if isinstance(e, ConnectionResetError): return "exc:Sock2"
    if isinstance(e, ConnectionRefusedError): return "exc:Sock3"
    if isinstance(e, BrokenPipeError): return "exc:Sock4"
    if isinstance(e, _real.gaierror): return "exc:Sock6"
    if isinstance(e, OSError): return "exc:Sock5"
    if t is ValueError and e.args == ("boom",): return "exc:Sock7"
    if t is KeyboardInterrupt: return "exc:Sock100"
    if t is SystemExit: return "exc:Sock101"
    if t.__name__ == "Interrupt": return "exc:Sock102"
    return "exc:" + t.__name__


def run_call(client, c, keys_as=list):
    try:
        return canon_value(c["op"], invoke(client, c, keys_as))
    except BaseException as e:   # noqa: the harness must survive KeyboardInterrupt/SystemExit injected by itself
        return canon_exc(e)
