"""C13 — HashClient failover: bounded probing, eviction, rerouting, recovery.
Real `HashClient` with a scripted `client_class`, a preference-list hasher and a virtual clock patched into the hash
module.  Breadth-first exploration with state de-duplication over {operation on a key owned by server i, clock advance,
server i starts/stops failing}; every explored step is compared with the Lean model `Failover.runTrace`; a monitor
judges the contact log of the real code (sliding windows, escapes, eviction, recovery)."""
import itertools

from common import FakeClock, Ctx, import_repo

CLOCK = [0]
ENV = {}
LOG = []


class Boom(Exception):
    pass


# "the server failed" comes in many classes, all of them OSError: every raise takes the next one (the first of a run is the run's number),
# so that each kind is the *first* failure of many histories; the classes raised in a run are listed in the case description
import socket as _socket
OS_ERRORS = [OSError, ConnectionRefusedError, ConnectionResetError, TimeoutError, BrokenPipeError, _socket.gaierror, ConnectionAbortedError, _socket.herror]
KIND = [0]
RUNS = [0]
ERRKINDS = []
OTHER_ERRORS = [Boom]        # main() adds the client's own error classes that say "your request was wrong", not "the server failed"


class Fake:
    def __init__(self, server, **kw):
        self.server = server

    def _do(self):
        i = self.server[1]
        o = ENV.get(i, "ok")
        LOG.append((i, CLOCK[0], o))
        if o == "oserror":
            cls = OS_ERRORS[KIND[0] % len(OS_ERRORS)]
            KIND[0] += 1
            ERRKINDS.append(cls.__name__)
            raise cls("x")
        if o == "othererror":
            # an error that is not a failure of the server: an arbitrary exception, or one of memcached's "bad request" answers
            raise OTHER_ERRORS[(i + int(CLOCK[0])) % len(OTHER_ERRORS)]("y")

    def close(self):
        pass

    def get(self, key, default=None, **kw):
        self._do()
        # a successful exchange may well be a miss (a server that came back with an empty cache): then the caller's default is the answer
        return default if (self.server[1] + int(CLOCK[0])) % 2 == 0 else "v"

    def set(self, key, value, *a, **kw):
        self._do()
        return True

    def delete(self, key, *a, **kw):
        self._do()
        return True

    def get_many(self, keys, *a, **kw):
        self._do()
        return {k: "v" for k in keys}

    def set_many(self, values, *a, **kw):
        self._do()
        return []


class PrefHasher:
    """key 'k<j>_<s0>_<s1>…' prefers servers in that order: the first one in rotation wins"""

    def __init__(self):
        self.nodes = []

    def add_node(self, n):
        if n not in self.nodes:
            self.nodes.append(n)

    def remove_node(self, n):
        if n in self.nodes:
            self.nodes.remove(n)
        else:
            raise ValueError("no")

    def get_node(self, key):
        if not self.nodes:
            return None
        for p in key.split("_")[1:]:
            if "h:%s" % p in self.nodes:
                return "h:%s" % p
        return self.nodes[0]


def state(c):
    nodes = "[" + ",".join(n.split(":")[1] for n in c.hasher.nodes) + "]"
    failed = "[" + ",".join("%d:%d@%d" % (s[1], m["attempts"], m["failed_time"]) for s, m in c._failed_clients.items()) + "]"
    dead = "[" + ",".join("%d@%d" % (s[1], t) for s, t in c._dead_clients.items()) + "]"
    return "nodes=%s failed=%s dead=%s ldc=%d" % (nodes, failed, dead, c._last_dead_check_time)


def rel_state(c, env, now):
    """state with times relative to now (for de-duplication)"""
    return (tuple(c.hasher.nodes), tuple((s, m["attempts"], min(now - m["failed_time"], 10 ** 6)) for s, m in c._failed_clients.items()),
            tuple((s, now - t) for s, t in c._dead_clients.items()), now - c._last_dead_check_time, tuple(sorted(env.items())))


class Runner:
    def __init__(self, H, MemcacheError):
        self.H, self.ME = H, MemcacheError

    def run(self, cfg, n, evs):
        """evs: list of (now, oserr, other, op, keys) — returns (lines, contact log per event, final client)"""
        ra, rt, dt, ign = cfg
        CLOCK[0] = 0
        H = self.H
        RUNS[0] += 1
        KIND[0] = RUNS[0]
        del ERRKINDS[:]

        class HC(H.HashClient):
            client_class = Fake
        c = HC([("h", i) for i in range(n)], hasher=PrefHasher, retry_attempts=ra, retry_timeout=rt, dead_timeout=dt, ignore_exc=ign)
        out, logs = [], []
        self.snaps = []
        for (now, oserr, other, op, keys) in evs:
            CLOCK[0] = now
            ENV.clear()
            for s in other:
                ENV[s] = "othererror"
            for s in oserr:
                ENV[s] = "oserror"
            del LOG[:]
            ks = ["k%d_" % j + "_".join(map(str, p)) for j, p in enumerate(keys)]
            try:
                if op in ("c", "set", "delete"):
                    if op == "c":
                        r = c.get(ks[0], default="DEF")
                        # "value" = the answer of a successful exchange (a hit or a miss); "default" = no server gave an answer
                        res = "value" if (LOG and LOG[-1][2] == "ok") else "default"
                    elif op == "set":
                        r = c.set(ks[0], b"v")
                        res = "default" if r is False else "value"
                    else:
                        r = c.delete(ks[0])
                        res = "default" if r is False else "value"
                elif op == "dm":
                    r = c.delete_many(ks)
                    res = "value" if r is True else "other:" + repr(r)[:20]
                elif op == "g":
                    r = c.get_many(ks)
                    res = "multi:" + "".join("1" if k in r else "0" for k in ks)
                else:
                    r = c.set_many({k: 1 for k in ks})
                    res = "multi:" + "".join("0" if k in r else "1" for k in ks)
            except OSError:
                res = "raise:%d:oserror" % LOG[-1][0] if LOG else "raise:?:oserror"
            except tuple(OTHER_ERRORS):
                res = "raise:%d:othererror" % LOG[-1][0] if LOG else "raise:?:othererror"
            except self.ME:
                res = "alldown"
            except Exception as e:
                res = "internal:" + type(e).__name__
            out.append("res=%s contacts=[%s] %s" % (res, ",".join("%d@%d:%s" % x for x in LOG), state(c)))
            logs.append(list(LOG))
            self.snaps.append({"nodes": [int(x.split(":")[1]) for x in c.hasher.nodes], "dead": {sv[1]: t for sv, t in c._dead_clients.items()}})
        return out, logs, c


def ev_text(e):
    now, oserr, other, op, keys = e
    lop = {"c": "c", "set": "c", "delete": "c", "g": "g", "s": "s", "dm": "dm"}[op]
    return "ev=%d/%s/%s/%s/%s" % (now, ",".join(map(str, oserr)), ",".join(map(str, other)), lop, ";".join(",".join(map(str, k)) for k in keys))


def monitor(ctx, cfg, n, evs, lines, logs, case_tags, snaps=None):
    ra, rt, dt, ign = cfg
    case = {"cfg": {"retry_attempts": ra, "retry_timeout": rt, "dead_timeout": dt, "ignore_exc": ign}, "servers": n,
            "events": [ev_text(e) for e in evs], "trace": lines[-3:], "oserror_classes_in_order": list(ERRKINDS)[:12]}
    tags = list(case_tags)
    for ln in lines:
        if "res=internal" in ln:
            ctx.violation("an internal bookkeeping error escaped a key-addressed call", case, tags=tags)
            return
        if ign and ("res=raise" in ln or "res=alldown" in ln):
            ctx.violation("an exception escaped although ignore_exc is set", case, tags=tags)
            return
    if snaps:
        # never bypassed: a key whose preferred server never had a failed contact (and is not failing now) is served by exactly that server;
        # recovery: a dead record older than two dead_timeouts does not survive the next routed call (unless the server fails again in that call)
        ever_failed = set()
        prev_dead = {}
        since_ok, evicted_before = {}, set()
        for j, ((now, oserr, other, op, keys), lg, sn) in enumerate(zip(evs, logs, snaps)):
            if op in ("c", "set", "delete") and keys:
                p = keys[0][0]
                if p not in ever_failed and p not in oserr and [x for x, _, _ in lg] != [p]:
                    ctx.violation(f"server {p} never failed, yet a key it owns was not served by (exactly one contact to) it",
                                  dict(case, event=j, contacts=[list(x) for x in lg]), tags=tags + ["bypassed"])
                    return
            routed = op in ("c", "set", "delete") or bool(keys)
            if routed:
                for sv, td in prev_dead.items():
                    if now > td + 2 * dt and sv not in oserr and sv not in sn["nodes"]:
                        ctx.violation(f"server {sv} was taken out at t={td}; a routed call at t={now} > t+2*dead_timeout did not bring it back into rotation",
                                      dict(case, event=j, rotation=sn["nodes"], dead=sn["dead"]), tags=tags + ["recovery"])
                        return
            ever_failed |= {x for x, _, o in lg if o == "oserror"}
            prev_dead = sn["dead"]
            # a single failure does not take a server out when retries are configured - "single" counted since its last successful exchange, up to
            # the beginning of the call that takes it out (with retries configured a server is only ever taken out at the start of a call)
            if ra >= 1:
                for x in range(n):
                    # (delete_many is several key-addressed calls in one event: failures of its earlier keys count too)
                    in_event = sum(1 for y, _, o in lg if y == x and o == "oserror") if op == "dm" else 0
                    if x not in sn["nodes"] and x not in evicted_before and since_ok.get(x, 0) + in_event <= 1:
                        ctx.violation(f"server {x} was taken out of rotation after {since_ok.get(x, 0)} failed contact(s) since its last successful exchange, although retries are configured",
                                      dict(case, event=j, rotation=sn["nodes"]), tags=tags + ["single-failure-evicts"])
                        return
            for x, _, o in lg:
                since_ok[x] = 0 if o == "ok" else since_ok.get(x, 0) + (1 if o == "oserror" else 0)
            evicted_before = {x for x in range(n) if x not in sn["nodes"]}
    if rt >= dt:
        return
    # contacts per server over the whole history
    per = {}
    for lg in logs:
        for s, t, o in lg:
            per.setdefault(s, []).append((t, o))
    for s, cs in per.items():
        fails = [t for t, o in cs if o == "oserror"]
        for i in range(len(fails) - 2):
            if fails[i + 2] - fails[i] <= rt:
                ctx.violation(f"server {s} was contacted 3 times while failing within a retry_timeout-long window", dict(case, times=fails[i:i + 3]), tags=tags + ["rt-window"])
                return
        # dead_timeout windows without a success to s
        for i in range(len(cs)):
            t0 = cs[i][0]
            win = [(t, o) for t, o in cs[i:] if t <= t0 + dt]
            k = 0
            for t, o in win:
                if o == "ok":
                    break
                if o == "oserror":
                    k += 1
            if k > ra + 2:
                ctx.violation(f"server {s} was contacted {k} > retry_attempts+2 times while failing within a dead_timeout-long window", dict(case, window_start=t0), tags=tags + ["dt-window"])
                return


def main(argv):
    ctx = Ctx("C13", argv)
    ctx.prepare_lean()
    import_repo()
    from pymemcache.client import hash as H
    from pymemcache.exceptions import MemcacheError

    FakeTime = FakeClock(lambda: CLOCK[0])
    H.time = FakeTime
    from pymemcache.exceptions import MemcacheClientError, MemcacheIllegalInputError, MemcacheServerError, MemcacheUnknownError
    del OTHER_ERRORS[1:]
    OTHER_ERRORS.extend([MemcacheClientError, MemcacheIllegalInputError, MemcacheUnknownError, MemcacheServerError])
    R = Runner(H, MemcacheError)
    rng = ctx.rng
    depth = 7 if not ctx.thorough else 9
    ctx.rule = (f"breadth-first over event sequences up to depth {depth} (state de-duplication on relative times) over {{get/set/delete/get_many/set_many on keys owned by "
                "each server, advance by 0/rt/rt+1/dt/dt+1/2dt+1, server i starts/stops failing with OSError or another error}} for 2-3 servers x retry_attempts 0..2 x "
                "ignore_exc; plus seeded random histories of length 15..40; non-trivial = distinct (config, event sequence) containing >= 1 failed contact")
    lines, metas = [], []
    total_states = 0
    for n in (2, 3):
        for ra in (0, 1, 2):
            for ign in (False, True):
                rt, dt = 10, 60
                cfg = (ra, rt, dt, ign)
                perm = list(range(n))
                keysets = {i: [perm[i:] + perm[:i]] for i in range(n)}
                alphabet = []
                for i in range(n if n == 2 else 2):
                    alphabet.append(("op", "c", [keysets[i][0]]))
                    alphabet.append(("op", "s", [keysets[i][0]]))
                alphabet.append(("op", "g", [keysets[0][0], keysets[1][0]]))
                alphabet.append(("op", "set", [keysets[0][0]]))
                for d in (1, rt, rt + 1, dt + 1, 2 * dt + 1):
                    alphabet.append(("adv", d))
                alphabet.append(("fail", 0, "oserror"))
                alphabet.append(("fail", 0, "ok"))
                alphabet.append(("fail", 1, "oserror"))
                alphabet.append(("fail", 0, "othererror"))
                # BFS over symbol sequences; a state is identified after replay
                frontier = [()]
                seen = set()
                for level in range(depth):
                    nxt = []
                    for path in frontier:
                        for sym in alphabet:
                            p2 = path + (sym,)
                            # translate the symbol path into events
                            now, env, evs = 0, {}, []
                            for sy in p2:
                                if sy[0] == "adv":
                                    now += sy[1]
                                elif sy[0] == "fail":
                                    if sy[2] == "ok":
                                        env.pop(sy[1], None)
                                    else:
                                        env[sy[1]] = sy[2]
                                else:
                                    evs.append((now, [s for s, o in env.items() if o == "oserror"], [s for s, o in env.items() if o == "othererror"], sy[1], sy[2]))
                            if sym[0] != "op":
                                # pure environment change: carry on without running
                                key = ("env", p2[-1], level)
                                nxt.append(p2) if level < depth - 1 and len([1 for s in p2 if s[0] != "op"]) <= 4 else None
                                continue
                            out, logs, c = R.run(cfg, n, evs)
                            total_states += 1
                            rs = (rel_state(c, env, now), out[-1].split(" contacts")[0])
                            tags = ["setmany-ignoreexc"] if ign and any(e[3] == "s" for e in evs) else []
                            monitor(ctx, cfg, n, evs, out, logs, tags, R.snaps)
                            ctx.case((cfg, n, tuple(map(ev_text, evs))), nontrivial=any("oserror" in l for l in out),
                                     sample={"cfg": cfg, "events": [ev_text(e) for e in evs], "last": out[-1]} if total_states in (500, 9000) else None)
                            lines.append(f"failover cfg={ra},{rt},{dt},{int(ign)} n={n} t0=0 " + " ".join(ev_text(e) for e in evs))
                            metas.append((cfg, n, evs, out, tags))
                            if rs not in seen:
                                seen.add(rs)
                                nxt.append(p2)
                    frontier = nxt
                    if len(frontier) > (4000 if ctx.thorough else 700):
                        frontier = rng.sample(frontier, 4000 if ctx.thorough else 700)
                ctx.count(f"bfs n={n} ra={ra} ign={int(ign)} states", len(seen))
    # random long histories (other timing constants too)
    for t in range(3000 if ctx.thorough else 400):
        n = rng.choice([1, 2, 3])
        ra = rng.choice([0, 1, 2, 3])
        rt = rng.choice([0, 2, 10])
        dt = rt + rng.choice([1, 5, 50])
        ign = rng.choice([True, False])
        now, evs = 0, []
        pfail = rng.choice([0.2, 0.6, 0.95])
        for i in range(rng.randint(15, 40)):
            now += rng.choice([0, 0, 1, rt, rt + 1, dt, dt + 1, 2 * dt + 1])
            oserr = [s for s in range(n) if rng.random() < pfail]
            other = [s for s in range(n) if rng.random() < 0.15]
            op = rng.choice(["c", "c", "set", "delete", "g", "s"])
            nk = 1 if op in ("c", "set", "delete") else rng.randint(0, 4)
            keys = [rng.sample(range(n), n) for _ in range(nk)]
            evs.append((now, oserr, other, op, keys))
        cfg = (ra, rt, dt, ign)
        out, logs, c = R.run(cfg, n, evs)
        tags = ["setmany-ignoreexc"] if ign and any(e[3] == "s" for e in evs) else []
        monitor(ctx, cfg, n, evs, out, logs, tags, R.snaps)
        ctx.case((cfg, n, tuple(map(ev_text, evs))), nontrivial=True)
        ctx.count("random-histories")
        lines.append(f"failover cfg={ra},{rt},{dt},{int(ign)} n={n} t0=0 " + " ".join(ev_text(e) for e in evs))
        metas.append((cfg, n, evs, out, tags))
    # ---- delete_many: a loop of key-addressed deletes inside ONE public call - several keys of one failing server, keys of several servers; judged
    #      by the same monitor (what may escape, window bounds, never bypassed, recovery); monitor only (the composed model HashCallMany is compared
    #      with the real class in the differential below) -----------------------------------------------------------------------------------------
    dm_hists = []
    for n in (2, 3):
        two0 = [(0, 1), (0, 1)]
        mixed = [(0, 1), (1, 0), (0, 1), (1, 0)] if n == 2 else [(0, 1, 2), (1, 2, 0), (0, 2, 1), (2, 0, 1)]
        dm_hists += [(n, [(1, [0], [], "dm", two0)]), (n, [(1, [0], [], "dm", two0), (2, [0], [], "dm", two0), (3, [0], [], "c", [(0, 1)])]),
                     (n, [(1, [0], [], "dm", mixed), (1, [0], [], "dm", mixed), (12, [0], [], "dm", mixed), (13, [0], [], "dm", two0), (80, [], [], "dm", mixed), (200, [], [], "c", [(0, 1)])]),
                     (n, [(1, [0], [], "c", [(0, 1)]), (2, [0], [], "dm", two0 + two0), (3, [0], [], "g", two0)]),
                     (n, [(1, [], [0], "dm", two0), (2, [0, 1], [], "dm", mixed), (3, [0, 1], [], "dm", mixed), (100, [], [], "dm", mixed), (200, [], [], "dm", mixed)])]
        for _ in range(60 if ctx.thorough else 12):
            t_, evs_ = 0, []
            for _ in range(rng.randrange(2, 9)):
                t_ += rng.choice([0, 1, 1, 11, 61, 130])
                down = [sv for sv in range(n) if rng.random() < .4]
                opx = rng.choice(["dm", "dm", "c", "g"])
                evs_.append((t_, down, [], opx, [tuple(rng.sample(range(n), n)) for _ in range(1 if opx == "c" else rng.randrange(2, 5))]))
            dm_hists.append((n, evs_))
    for n, evs in dm_hists:
        for ign in (False, True):
            for ra in (0, 1, 2):
                cfg = (ra, 10, 60, ign)
                out, logs, _c = R.run(cfg, n, evs)
                ctx.case(("delete_many", cfg, n, tuple(map(ev_text, evs))))
                ctx.count("delete_many-histories")
                monitor(ctx, cfg, n, evs, out, logs, ["delete_many"], R.snaps)
    # ---- the same window bounds with REAL inner Client objects (the scripted client_class above ignores the constructor arguments the
    #      HashClient passes down): a server that refuses connections, read and write traffic on its keys, contacts = connect() attempts ---------
    from fakesock import FakeSocketModule, World
    from refserver import RefServer
    for ign in (False, True):
        for ra in (0, 1, 2):
            for traffic in ("get", "set", "get_many", "gets", "mixed"):
                rt, dt = 10, 60
                CLOCK[0] = 0
                srvs = {}
                world = World(server=lambda conn, data: [srvs.setdefault(conn.addr, RefServer()).feed(conn.id, data)])
                world.refuse_addrs = {("h", 0)}

                class HCR(H.HashClient):
                    pass
                c = HCR([("h", 0), ("h", 1)], hasher=PrefHasher, socket_module=FakeSocketModule(world), retry_attempts=ra, retry_timeout=rt, dead_timeout=dt,
                        ignore_exc=ign, default_noreply=False)
                contacts = []          # (time) of connect attempts to the failing server
                served_elsewhere_after = None
                key = "k0_0_1"         # prefers server 0, then 1
                ops = {"get": lambda: c.get(key), "set": lambda: c.set(key, b"v"), "get_many": lambda: c.get_many([key, "k1_0_1"]), "gets": lambda: c.gets(key)}
                t = 0
                for step in range(40):
                    t += (1, 1, 3, 1, 11, 1, 1, 2)[step % 8]
                    CLOCK[0] = t
                    nled = len(world.ledger)
                    f = ops[traffic] if traffic != "mixed" else ops[("get", "set", "get_many", "gets")[step % 4]]
                    try:
                        f()
                    except Exception:
                        pass
                    for e in world.ledger[nled:]:
                        if e[0] == "connect" and e[2] and e[2][0] == ("h", 0):
                            contacts.append(t)
                case = {"cfg": {"retry_attempts": ra, "retry_timeout": rt, "dead_timeout": dt, "ignore_exc": ign}, "inner_clients": "real Client objects", "traffic": traffic,
                        "failing_server_contacted_at": contacts[:20]}
                ctx.case(("real-inner", ign, ra, traffic))
                ctx.count("real-inner-client-histories")
                tags = ["real-inner-clients"]
                bad = None
                for i in range(len(contacts) - 2):
                    if contacts[i + 2] - contacts[i] <= rt:
                        bad = f"the failing server was contacted 3 times within a retry_timeout-long window (t={contacts[i:i + 3]})"
                        break
                if bad is None:
                    for i in range(len(contacts)):
                        k_ = len([x for x in contacts[i:] if x <= contacts[i] + dt])
                        if k_ > ra + 2:
                            bad = f"the failing server was contacted {k_} > retry_attempts+2 times within a dead_timeout-long window starting at t={contacts[i]}"
                            break
                if bad:
                    ctx.violation(bad, case, tags=tags + ["rt-window" if "retry_timeout" in bad else "dt-window"])
                    continue
                # once it is out, its keys are served by the remaining server
                CLOCK[0] = t + 1
                srvs.setdefault(("h", 1), RefServer())
                try:
                    c.set(key, b"vv", noreply=False)
                    got = c.get(key)
                except Exception as e:
                    got = e
                if ("h:0" in c.hasher.nodes) or got != b"vv":
                    ctx.violation("after the probing budget was used up the failing server is still in rotation / its keys are not served by the remaining server",
                                  dict(case, rotation=list(c.hasher.nodes), get=repr(got)[:60]), tags=tags + ["not-evicted"])
    # ---- server spellings: the failing server given as a (host, port) pair, as a UNIX-socket path, as an IPv6 pair - through the whole cycle
    #      failure -> probing -> eviction -> recovery -> revival, with real inner Clients.  Judged: only the failing server's own error or "all
    #      servers down" escapes (nothing with ignore_exc), and once the server is healthy again two dead_timeout periods of traffic bring its keys back ----
    class OrderHasher:
        PREF = []

        def __init__(self):
            self.nodes = []

        def add_node(self, n_):
            if n_ not in self.nodes:
                self.nodes.append(n_)

        def remove_node(self, n_):
            if n_ in self.nodes:
                self.nodes.remove(n_)
            else:
                raise ValueError("no such node")

        def get_node(self, key_):
            for p_ in self.PREF:
                if p_ in self.nodes:
                    return p_
            return self.nodes[0] if self.nodes else None
    for failing in (("h", 0), "/var/run/mc0.sock", ("::1", 11211), "unix:/tmp/mc.sock"):
        for ign in (False, True):
            for ra in (0, 1, 2):
                rt, dt = 10, 60
                CLOCK[0] = 0
                srvs = {}
                world = World(server=lambda conn, data: [srvs.setdefault(conn.addr, RefServer()).feed(conn.id, data)])
                c = H.HashClient([failing, ("h", 1)], hasher=OrderHasher, socket_module=FakeSocketModule(world), retry_attempts=ra, retry_timeout=rt, dead_timeout=dt,
                                 ignore_exc=ign, default_noreply=False)
                fkey = c._make_client_key(failing) if not (isinstance(failing, str) and failing.startswith("unix:")) else None
                nodes0 = list(c.hasher.nodes)
                OrderHasher.PREF = list(nodes0)
                faddr = failing if isinstance(failing, tuple) else (failing[5:] if failing.startswith("unix:") else failing)
                world.refuse_addrs = {faddr}
                case = {"cfg": {"retry_attempts": ra, "retry_timeout": rt, "dead_timeout": dt, "ignore_exc": ign}, "failing_server": repr(failing), "inner_clients": "real Client objects"}
                ctx.case(("spelling", repr(failing), ign, ra))
                ctx.count("server-spelling-cycles")
                escaped, t, bad = [], 0, None
                for step in range(70):
                    t += (1, 1, 3, 1, 11, 1, 1, 2)[step % 8] if step < 40 else 7
                    if step == 40:
                        world.refuse_addrs = set()           # the server is healthy again
                    CLOCK[0] = t
                    try:
                        [lambda: c.get("k"), lambda: c.set("k", b"v"), lambda: c.get_many(["k", "j"]), lambda: c.delete("k")][step % 4]()
                    except OSError:
                        if ign:
                            escaped.append((t, "OSError"))
                    except MemcacheError as e_:
                        if ign or "All servers" not in str(e_) and "servers seem to be down" not in str(e_):
                            escaped.append((t, "MemcacheError:" + str(e_)[:40]))
                    except Exception as e_:
                        escaped.append((t, type(e_).__name__ + ":" + str(e_)[:60]))
                if escaped:
                    bad = f"escaped from a key-addressed call: {escaped[:3]}"
                elif list(c.hasher.nodes)[:1] != nodes0[:1] and sorted(map(str, c.hasher.nodes)) != sorted(map(str, nodes0)):
                    bad = f"two dead_timeout periods of traffic after the recovery the rotation is {list(c.hasher.nodes)}, originally {nodes0}"
                else:
                    CLOCK[0] = t + 1
                    try:
                        c.set("k", b"final", noreply=False)
                    except Exception as e_:
                        bad = f"a call after the recovery raised {type(e_).__name__}"
                    if bad is None and faddr not in [cn.addr for cn in world.conns if cn.sent and b"final" in cn.sent[-1][1]]:
                        bad = "after the recovery the key is not served by its original server"
                if bad:
                    ctx.violation("server spelling " + repr(failing) + ": " + bad, case, tags=["server-spelling"])
    if ctx.lean.build_ok:
        for (cfg, n, evs, out, tags), o in zip(metas, ctx.driver.batch(lines)):
            got = o[3:].split(" || ") if o.startswith("ok ") else [o]
            if got != out:
                k = next((i for i, (a, b) in enumerate(zip(got, out)) if a != b), min(len(got), len(out)))
                ctx.disagreement("Lean failover model differs from HashClient", {"cfg": cfg, "servers": n, "events": [ev_text(e) for e in evs][:k + 1],
                                                                                 "impl": out[k] if k < len(out) else None, "model": got[k] if k < len(got) else None},
                                 theorem="C13_le_two_per_rt_window", tags=[])
    # composed model HashClient ∘ Client (Pymc/Model/HashCall.lean): random histories of single-key calls with per-call scripts on the real
    # HashClient over a scripted socket module, compared call by call (result, server, inner client object, bookkeeping state, sockets)
    if ctx.lean.build_ok:
        import hashcall_diff
        ncalls, bad = hashcall_diff.differential(4000 if ctx.thorough else 600, rng, ctx.driver.batch)
        ctx.count("composed-hash-model-calls", ncalls)
        for b in bad[:5]:
            ctx.disagreement("composed Lean model HashClient∘Client differs from the real HashClient", b, theorem="C13_hash_projection")
    # broadcasts of HashClient (Pymc/Model/HashBroadcast.lean): flush_all / quit / close (disconnect_all) walk over every registered client, also
    # those of servers out of rotation; random histories mixing them with key-addressed calls, clock advances and servers going down / coming
    # back on the real HashClient (result or class of the escaping exception — the ValueError of remove_node is its own class —, clients handed
    # to _safely_run_func in order, bookkeeping state with failed / dead dicts, sockets of every registered client)
    if ctx.lean.build_ok:
        import hashbroadcast_diff
        ncalls, bad = hashbroadcast_diff.differential(3000 if ctx.thorough else 500, rng, ctx.driver.batch)
        ctx.count("composed-hash-broadcast-model-calls", ncalls)
        for k, v in hashbroadcast_diff.STATS.items():
            if k.startswith("broadcast"):
                ctx.count("hash-" + k, v)
        for b in bad[:5]:
            ctx.disagreement("composed Lean model HashClient∘Client with broadcasts (flush_all / quit / close) differs from the real HashClient", b,
                             theorem="C13_hash_broadcast_bookkeeping_error_iff")
    # composed model HashClient ∘ PooledClient ∘ Client (Pymc/Model/HashPooledCall.lean, HashPooledCallMany.lean): the same on the real
    # HashClient(use_pooling=True), single-key calls and get_many / gets_many / set_many / delete_many
    # (result, server, PooledClient invoked, inner client, socket used, bookkeeping state, every registered pool)
    if ctx.lean.build_ok:
        import hashpooledcall_diff
        ncalls, bad = hashpooledcall_diff.differential(3000 if ctx.thorough else 400, rng, ctx.driver.batch)
        ctx.count("composed-hashpooled-model-calls", ncalls)
        for b in bad[:5]:
            ctx.disagreement("composed Lean model HashClient∘PooledClient∘Client differs from the real HashClient(use_pooling=True)", b,
                             theorem="C13_hashpooled_many_projection" if b.get("multi") else "C13_hashpooled_projection")
    ctx.extra["explored_op_steps"] = total_states
    ctx.assumptions = ["time is an integer number of ticks, constant during one public call", "'failing' = raising OSError (other errors do not mark a server)",
                       "routing is abstracted to a preference order (the rendezvous choice over the remaining set is C11/C12)"]
    ctx.finish()
