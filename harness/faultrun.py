"""Fault-plan runs shared by C01 / C07 / C09 / C10: a client object (Client, PooledClient, HashClient) driven through a
sequence of calls, each under an adversary script (connect fault, send fault, reply mutation, chunking, a fault event
at some position of the reply), with byte tags, socket ledger and pool counters observed after every call."""
import itertools

from clientlib import SOCK_CODES, call_tokens, cfg_tok, run_call
from common import hx
from fakesock import FakeSocketModule, World, mk_exc
from refserver import RefServer

# every public data operation, single- and multi-key, noreply on/off; then stats / cache_memlimit / shutdown
OPS = [
    {"op": "set", "k": "a", "v": b"1", "nr": False}, {"op": "set", "k": "a", "v": b"22", "nr": True},
    {"op": "add", "k": "b", "v": b"x", "nr": False}, {"op": "replace", "k": "a", "v": b"3", "nr": False},
    {"op": "append", "k": "a", "v": b"4", "nr": False}, {"op": "prepend", "k": "a", "v": b"5", "nr": True},
    {"op": "cas", "k": "a", "v": b"6", "cas": b"1", "nr": False}, {"op": "cas", "k": "a", "v": b"6", "cas": b"1", "nr": True},
    {"op": "set_many", "items": [("a", b"1"), ("b", b"2"), ("c", b"3")], "nr": False},
    {"op": "set_many", "items": [("a", b"1"), ("b", b"2")], "nr": True},
    {"op": "get", "k": "a"}, {"op": "gets", "k": "a"}, {"op": "gat", "k": "a", "e": 10}, {"op": "gats", "k": "a", "e": 10},
    {"op": "get_many", "ks": ["a", "b", "zz"]}, {"op": "gets_many", "ks": ["b", "a"]},
    {"op": "delete", "k": "a", "nr": False}, {"op": "delete", "k": "a", "nr": True},
    {"op": "delete_many", "ks": ["a", "b"], "nr": False}, {"op": "delete_many", "ks": ["a", "b"], "nr": True},
    {"op": "incr", "k": "a", "d": 1, "nr": False}, {"op": "incr", "k": "a", "d": 1, "nr": True}, {"op": "decr", "k": "a", "d": 1, "nr": False},
    {"op": "touch", "k": "a", "e": 5, "nr": False}, {"op": "touch", "k": "a", "e": 5, "nr": True},
    {"op": "flush_all", "d": 0, "nr": False}, {"op": "version"},
    # noreply=None: the client's default_noreply decides (incr/decr: None means "wait for the reply")
    {"op": "incr", "k": "a", "d": 1, "nr": None}, {"op": "decr", "k": "a", "d": 1, "nr": None}, {"op": "set", "k": "a", "v": b"9", "nr": None},
    {"op": "delete", "k": "a", "nr": None}, {"op": "touch", "k": "a", "e": 5, "nr": None}, {"op": "cas", "k": "a", "v": b"6", "cas": b"1", "nr": None},
    {"op": "delete_many", "ks": ["a", "b"], "nr": None}, {"op": "set_many", "items": [("a", b"1"), ("b", b"2")], "nr": None}, {"op": "flush_all", "d": 0, "nr": None},
    # noreply given as a truthy value that is not the object True (a positional 1, a number from a config file)
    {"op": "incr", "k": "a", "d": 1, "nr": 1}, {"op": "decr", "k": "a", "d": 1, "nr": 1}, {"op": "delete", "k": "a", "nr": 1}, {"op": "touch", "k": "a", "e": 5, "nr": 1},
    {"op": "delete_many", "ks": ["a", "b"], "nr": 1}, {"op": "flush_all", "d": 0, "nr": 1}, {"op": "set", "k": "a", "v": b"1", "nr": 1},
    # the administrative operations (always wait for a reply; `shutdown` against a server without --enable-shutdown gets an error line,
    # the fault scripts give it the closing server).  PooledClient has no cache_memlimit, HashClient neither that nor shutdown: AttributeError there.
    {"op": "stats"}, {"op": "stats", "args": ("items",)}, {"op": "stats", "args": ("cachedump", "1", "1")},
    {"op": "cache_memlimit", "m": 64}, {"op": "shutdown", "g": False}, {"op": "shutdown", "g": True},
    # raw_command: one request line, the reply read up to the caller's end token - here the line end, which every reply the adversary substitutes
    # still has (with a longer token a substituted error line would not contain it: the caller's choice, C19's finding).  HashClient has no raw_command.
    {"op": "raw", "cmd": b"version", "tok": b"\r\n"}, {"op": "raw", "cmd": b"delete a", "tok": b"\r\n"},
]
READ_OPS = [c for c in OPS if c["op"] in ("get", "gets", "gat", "gats", "get_many", "gets_many")]

MUTATIONS = ["valid", "error-line", "server-error", "garbage-line", "wrong-key", "non-numeric-size", "truncate-eof", "truncate-timeout", "extra-crlf-garbage",
             "client-error-format", "client-error-exptime", "client-error-chunk", "server-error-large",
             # a VALUE line of the wrong FORM for the command that was sent: a cas-less line for gets/gats (a proxy without cas support), a token too many for get/gat
             "value-missing-cas", "value-extra-token"]
ERROR_LINES = {"client-error-format": b"CLIENT_ERROR bad command line format", "client-error-exptime": b"CLIENT_ERROR invalid exptime argument",
               "client-error-chunk": b"CLIENT_ERROR bad data chunk", "server-error-large": b"SERVER_ERROR object too large for cache"}
FAULT_KINDS = ["timeout", "reset", "oserror", "eof"]
BASE_KINDS = ["kbd", "sysexit", "interrupt"]


def mutate(reply, how, rng):
    """adversarial content inside the reply, keeping one unit per reply-expecting command"""
    if not reply or how == "valid":
        return reply, None
    lines = reply.split(b"\r\n")
    if how == "error-line":
        return b"ERROR\r\n" + reply.split(b"\r\n", 1)[1] if b"\r\n" in reply else reply, None
    if how == "server-error":
        return b"SERVER_ERROR out of memory\r\n" + reply.split(b"\r\n", 1)[1], None
    if how in ERROR_LINES:
        return ERROR_LINES[how] + b"\r\n" + reply.split(b"\r\n", 1)[1], None
    if how == "garbage-line":
        return b"\rWHAT EVER\r\r\n" + reply.split(b"\r\n", 1)[1], None
    if how == "wrong-key" and reply.startswith(b"VALUE "):
        parts = reply.split(b" ", 2)
        return b"VALUE other " + parts[2], None
    if how == "non-numeric-size" and reply.startswith(b"VALUE "):
        p = reply.split(b"\r\n", 1)
        f = p[0].split(b" ")
        f[3] = b"x1"
        return b" ".join(f) + b"\r\n" + p[1], None
    if how in ("value-missing-cas", "value-extra-token") and reply.startswith(b"VALUE "):
        p = reply.split(b"\r\n", 1)
        f = p[0].split(b" ")
        if how == "value-missing-cas":
            if len(f) != 5:
                return reply, None
            f = f[:4]
        else:
            f = f + [b"99"]
        return b" ".join(f) + b"\r\n" + p[1], None
    if how in ("truncate-eof", "truncate-timeout"):
        cut = rng.randrange(0, len(reply))
        return reply[:cut], ("eof",) if how == "truncate-eof" else ("exc", mk_exc("timeout"))
    if how == "extra-crlf-garbage":
        return reply, None
    return reply, None


def chunk(reply, rng, mode):
    if not reply:
        return []
    if mode == "one":
        return [reply]
    if mode == "bytes":
        return [reply[i:i + 1] for i in range(len(reply))]
    out, i = [], 0
    while i < len(reply):
        n = rng.choice([1, 2, 3, 5, 9, 40])
        out.append(reply[i:i + n])
        i += n
    return out


class Scripted:
    """the server side of one client object: reference memcached + per-call adversary"""

    def __init__(self, rng, nservers=1):
        self.rng = rng
        self.srvs = {}
        self.world = World(server=self.on_send)
        self.sm = FakeSocketModule(self.world)
        self.script = {}         # settings for the current call
        self.pushed = []         # events pushed during the current call (for the Lean model)
        self.exchange = 0
        self.n_altered = 0

    def server_for(self, conn):
        key = conn.addr if conn.addr is not None else "unix"
        key = repr(key)
        if key not in self.srvs:
            self.srvs[key] = RefServer(name=key)
        return self.srvs[key]

    def on_send(self, conn, data):
        if getattr(self, "duration", 0) and getattr(self, "clock", None) is not None:
            self.clock[0] += self.duration          # the server takes its time to answer
            self.duration = 0
        reply = self.server_for(conn).feed(conn.id, data)
        sc = self.script
        ex = self.exchange
        self.exchange += 1
        if sc.get("only_exchange") is not None and sc["only_exchange"] != ex:
            evs = chunk(reply, self.rng, sc.get("chunk", "rand"))
        else:
            body, tail = mutate(reply, sc.get("mutation", "valid"), self.rng)
            if body != reply:
                self.n_altered += 1          # the adversary really changed what the server said (a mutation that does not apply leaves the reply alone)
            evs = chunk(body, self.rng, sc.get("chunk", "rand"))
            if tail is not None:
                evs.append(tail)
            f = sc.get("recv_fault")
            if f is not None and reply:
                pos, kind = f
                pos = min(pos, len(evs))
                ev = ("eof",) if kind == "eof" else ("eintr",) if kind == "eintr" else ("exc", mk_exc(kind))
                evs.insert(pos, ev)
        self.pushed.append((conn.id, evs))
        return evs

    def begin_call(self, tag, script):
        self.world.tag = tag
        self.script = script
        self.pushed = []
        self.exchange = 0
        self.n_altered = 0
        plan = {}
        if script.get("connect_fault"):
            cfv = script["connect_fault"]
            plan[(cfv[0], cfv[2] if len(cfv) > 2 else 0)] = mk_exc(cfv[1])      # (api, kind[, occurrence of that api within this call])
        if script.get("send_fault"):
            after = script.get("send_after")       # None = nothing delivered; -1 = everything; n = first n bytes
            if after is None:
                plan[("sendall", script.get("send_fault_at", 0))] = mk_exc(script["send_fault"])
            else:
                plan[("sendall-after", script.get("send_fault_at", 0))] = (after, mk_exc(script["send_fault"]))
        self.world.close_fault_leaves_open = bool(script.get("close_leaves_open"))
        if script.get("close_fault"):
            plan[("close", 0)] = mk_exc(script["close_fault"])       # the first close() of this call raises (before or after releasing the descriptor)
        self.world.arm(plan)


def ev_tokens(evs):
    out = []
    for e in evs:
        if isinstance(e, (bytes, bytearray)):
            out.append("ev=d:" + hx(e))
        elif e[0] == "eintr":
            out.append("ev=i")
        elif e[0] == "eof":
            out.append("ev=d:-")
        elif e[0] == "exc":
            from clientlib import canon_exc
            code = canon_exc(e[1]).replace("exc:Sock", "")
            out.append("ev=x:" + (code if code.isdigit() else "5"))
    return " ".join(out)


def scripts_for(op_has_reply, rng, thorough):
    """the adversary's choices for one call: every mutation, every fault kind at every position (bounded), connect/send faults"""
    out = [{}]
    for m in MUTATIONS[1:]:
        out.append({"mutation": m})
    for api in ("getaddrinfo", "socket", "connect", "settimeout"):
        out.append({"connect_fault": (api, "refused" if api == "connect" else "oserror")})
    for k in ("pipe", "reset", "timeout"):
        out.append({"send_fault": k})
    # the send fails after everything / after part of the data reached the server (which answers what it got)
    for after in (-1, 16, 9):
        out.append({"send_fault": "timeout", "send_after": after})
        out.append({"send_fault": "reset", "send_after": after})
        out.append({"send_fault": "eintr", "send_after": after})      # sendall interrupted by a signal after part of the data went out
    out.append({"send_fault": "eintr"})
    if op_has_reply:
        for kind in FAULT_KINDS + ["eintr"]:
            for pos in range(0, 14 if thorough else 8):
                out.append({"recv_fault": (pos, kind), "chunk": "bytes" if pos % 2 else "rand"})
    return out
