"""C02 — requests are well-formed memcached commands; arguments cannot inject.
The bytes the real client gives to sendall() are parsed by the Lean strict parser (`Wire.parseAll`, a
specification, not the client model) and compared with the command the arguments *mean*; an input error must
come before the first byte.  Correspondence: the Lean client model must send the same bytes / reject the same calls."""
import copy
import itertools

from clientlib import call_tokens, cfg_tok, key_tok, run_call
from common import FakeClock, Ctx, hx, import_repo
from fakesock import FakeSocketModule, World
from refserver import RefServer

FORBIDDEN = set(b" \t\n\x0b\x0c\r\x00")
CLASSES = [0x00, 0x09, 0x0A, 0x0D, 0x20, 0x0B, 0x01, 0x41, 0x7F, 0x80, 0xFF, 0x3A]


def enc_key(k, au, pfx):
    if isinstance(k, str):
        try:
            e = k.encode("utf8" if au else "ascii")
        except UnicodeEncodeError:
            return None
    else:
        e = k
    return pfx + e


def legal(w):
    return w is not None and 1 <= len(w) <= 250 and not (set(w) & FORBIDDEN)


def is_int(x):
    return isinstance(x, int) and not isinstance(x, bool)


def render_val(v, utf8):
    if isinstance(v, bytes):
        return v
    try:
        return str(v).encode("utf8" if utf8 else "ascii")
    except UnicodeEncodeError:
        return None


def intent(c, au, utf8, dnr, pfx, serde_flags=0):
    """what the call means, as the canonical request string(s) of the Lean driver; None = must be rejected.
    'OUT' = outside the quantifier of the property (e.g. negative flags): no verdict."""
    op = c["op"]

    def nr(default):
        x = c.get("nr")
        return bool(default if x is None else x)

    def key(k):
        w = enc_key(k, au, pfx)
        return w if legal(w) else None
    if op in ("set", "add", "replace", "append", "prepend", "cas", "set_many"):
        items = c["items"] if op == "set_many" else [(c["k"], c["v"])]
        verb = "set" if op == "set_many" else op
        e = c.get("e", 0)
        if not is_int(e):
            return None
        fl = c.get("fl")
        if fl is not None and (not is_int(fl) or fl < 0):
            return "OUT"
        casv = "-"
        if op == "cas":
            cas = c["cas"]
            if is_int(cas):
                cb = str(cas).encode()
            elif isinstance(cas, str):
                try:
                    cb = cas.encode("ascii")
                except UnicodeEncodeError:
                    return None
            elif isinstance(cas, bytes):
                cb = cas
            else:
                return None
            if not cb or not all(48 <= x <= 57 for x in cb):
                return None
            casv = str(int(cb))
        noreply = nr(False if op == "cas" else dnr)
        out = []
        for k, v in items:
            w = key(k)
            d = render_val(v, utf8)
            if w is None or d is None:
                return None
            out.append(f"store {verb} key={hx(w)} flags={serde_flags if fl is None else fl} exp={e} data={hx(d)} cas={casv} nr={int(noreply)}")
        return " ; ".join(out) if out else "NOTHING"
    if op in ("get", "gets", "gat", "gats", "get_many", "gets_many"):
        ks = c["ks"] if op.endswith("many") else [c["k"]]
        verb = {"get_many": "get", "gets_many": "gets"}.get(op, op)
        if not ks:
            return "NOTHING"
        ws = [key(k) for k in ks]
        e = "-"
        if op in ("gat", "gats"):
            if not is_int(c.get("e", 0)):
                return None
            e = str(c.get("e", 0))
        if any(w is None for w in ws):
            return None
        return f"fetch {verb} exp={e} keys={','.join(hx(w) for w in ws)}"
    if op in ("delete", "delete_many"):
        ks = c["ks"] if op == "delete_many" else [c["k"]]
        if not ks:
            return "NOTHING"
        ws = [key(k) for k in ks]
        if any(w is None for w in ws):
            return None
        return " ; ".join(f"delete key={hx(w)} nr={int(nr(dnr))}" for w in ws)
    if op in ("incr", "decr"):
        w = key(c["k"])
        if w is None or not is_int(c["d"]):
            return None
        if c["d"] < 0:
            return "OUT"
        return f"{op} key={hx(w)} delta={c['d']} nr={int(bool(c.get('nr', False)))}"
    if op == "touch":
        w = key(c["k"])
        if w is None or not is_int(c.get("e", 0)):
            return None
        return f"touch key={hx(w)} exp={c.get('e', 0)} nr={int(nr(dnr))}"
    if op == "flush_all":
        d = c.get("d", 0)
        if not is_int(d):
            return None
        if d < 0:
            return "OUT"
        return f"flush_all delay={d} nr={int(nr(dnr))}"
    raise ValueError(op)


def gen(ctx):
    rng = ctx.rng
    cases = []
    cfgs = [(False, False, True, b""), (True, True, False, b"ns:"), (False, False, False, b"p" * 249), (True, False, True, b" ")]
    # keys: exhaustive short byte keys on get and set
    for n in (1, 2, 3):
        for t in itertools.product(CLASSES, repeat=n):
            k = bytes(t)
            cases.append(((False, False, len(cases) % 2 == 0, b""), {"op": "get", "k": k}))
            if n < 3 or len(cases) % 4 == 0:
                cases.append(((False, False, False, b""), {"op": "set", "k": k, "v": b"v", "nr": bool(len(cases) % 2)}))
    # the same alphabet spelled as text keys (the str and the bytes branch of the key check are different code), short and at the length limit
    for n in (1, 2, 3):
        for t in itertools.product([c for c in CLASSES if c < 0x80], repeat=n):
            k = bytes(t).decode("ascii")
            if n < 3 or len(cases) % 3 == 0:
                cases.append(((False, False, len(cases) % 2 == 0, b""), {"op": "get" if len(cases) % 3 else "delete", "k": k, "nr": False}))
            cases.append(((len(cases) % 4 == 0, False, False, b"" if len(cases) % 8 else b"ns:"), {"op": "set", "k": k, "v": b"flush_all", "nr": bool(len(cases) % 2)}))
    for tail in ("\n", "\r", "\r\n", " ", "\t", "\x0b", "\x0c", "\x00", "\n\n", "\x1c", "\x85", "\u2028"):
        for body in ("key", "k" * 249, "k" * 250, "A:z~!"):
            for k in (body + tail, tail + body, body + tail + "x"):
                for cfg in cfgs[:2]:
                    cases.append((cfg, {"op": "set", "k": k, "v": b"flush_all", "nr": None}))
                    cases.append((cfg, {"op": "get_many", "ks": ["a", k]}))
                    cases.append((cfg, {"op": "delete_many", "ks": [k, "b"], "nr": True}))
                    if tail.isascii():
                        cases.append((cfg, {"op": "incr", "k": k.encode(), "d": 1, "nr": False}))
    keys = [b"", "", b" ", " ", b"\r\n", "\t\n", b"k", "k", "k k", b"k\r\nset x 0 0 1\r\nX", "é", "€" * 83, "€" * 84, b"k" * 250, b"k" * 251,
            "k" * 249, b"\x00", b"a\x00b", b"noreply", "delete", b"\x7f\x01", "\x85", "k ",
            # text with more than one Unicode spelling: the key on the wire is the UTF-8 form of the text as given
            "e\u0301", "cafe\u0301", "A\u030a", "\u1100\u1161\u11a8", "\u212b"]
    vals = [b"", b"v", b"\r\n", b"x\r\nset y 0 0 1\r\nINJECTED\r\n", b"END\r\n", b"VALUE k 0 1\r\n", "text", "é", 5, -7, 10 ** 30, b"\x00\xff" * 10]
    ints = [0, 1, -1, 2 ** 31, 2 ** 32 - 1, -2 ** 63, 2 ** 63 - 1, 2 ** 64 - 1, "5", 1.5, None, b"1", 60.0, 0.0, -2.0, 2.0 ** 40]      # (integral floats are floats)
    cass = [0, 1, 2 ** 64 - 1, "12", b"007", "x", b"", "", -1, 1.5, None, "٣", b"1 2", "1\r\n"]
    # long multi-key calls: every key is validated before anything is written, however long the list and wherever the bad key sits
    for cfg in cfgs[:2]:
        for n in (300, 513, 1025, 2050):
            ks = ["key%d" % i for i in range(n)]
            for bad_at in (None, n - 1, 512, 1024, n // 2):
                if bad_at is not None and bad_at >= n:
                    continue
                kk = list(ks)
                if bad_at is not None:
                    kk[bad_at] = "bad key"
                if n > 600 and bad_at is None:
                    continue          # the legal long lists are covered by the two shorter sizes
                cases.append((cfg, {"op": "delete_many", "ks": kk, "nr": bad_at is None or bad_at % 2 == 0}))
                cases.append((cfg, {"op": "get_many", "ks": kk}))
                if n <= 1025:
                    cases.append((cfg, {"op": "set_many", "items": [(k_, b"v") for k_ in kk], "nr": True}))
                    cases.append((cfg, {"op": "gets_many", "ks": kk}))
    for cfg in cfgs:
        for k in keys:
            cases.append((cfg, {"op": "get", "k": k}))
            cases.append((cfg, {"op": "gets", "k": k}))
            cases.append((cfg, {"op": "delete", "k": k, "nr": None}))
            cases.append((cfg, {"op": "delete", "k": k, "nr": False}))
            cases.append((cfg, {"op": "touch", "k": k, "e": 10, "nr": False}))
            cases.append((cfg, {"op": "incr", "k": k, "d": 1}))
            cases.append((cfg, {"op": "gat", "k": k, "e": 5}))
            for op in ("set", "add", "replace", "append", "prepend"):
                cases.append((cfg, {"op": op, "k": k, "v": b"v", "nr": rng.choice([None, True, False])}))
            cases.append((cfg, {"op": "cas", "k": k, "v": b"v", "cas": 1}))
            # multi-key with the key in the middle
            cases.append((cfg, {"op": "get_many", "ks": ["a", k, "b"]}))
            cases.append((cfg, {"op": "gets_many", "ks": [k, "b"]}))
            cases.append((cfg, {"op": "delete_many", "ks": ["a", "b", k], "nr": False}))
            cases.append((cfg, {"op": "set_many", "items": [("a", b"1"), (k, b"2"), ("c", b"3")], "nr": False}))
        for v in vals:
            for op in ("set", "append", "cas"):
                cases.append((cfg, {"op": op, "k": "k", "v": v, "nr": rng.choice([True, False]), "cas": 3}))
            cases.append((cfg, {"op": "set_many", "items": [("a", v), ("b", b"z")], "nr": True}))
        for i in ints:
            cases.append((cfg, {"op": "set", "k": "k", "v": b"v", "e": i, "nr": False}))
            cases.append((cfg, {"op": "set", "k": "k", "v": b"v", "fl": i, "nr": True}))
            cases.append((cfg, {"op": "touch", "k": "k", "e": i, "nr": False}))
            cases.append((cfg, {"op": "gat", "k": "k", "e": i}))
            cases.append((cfg, {"op": "gats", "k": "k", "e": i}))
            cases.append((cfg, {"op": "incr", "k": "k", "d": i}))
            cases.append((cfg, {"op": "decr", "k": "k", "d": i, "nr": True}))
            cases.append((cfg, {"op": "flush_all", "d": i, "nr": False}))
            cases.append((cfg, {"op": "set_many", "items": [("a", b"1")], "e": i, "nr": False}))
        for cs in cass:
            cases.append((cfg, {"op": "cas", "k": "k", "v": b"v", "cas": cs, "nr": rng.choice([None, True, False])}))
    # a serializer that returns non-zero flags: an explicit flags argument (including 0) must override it
    for fl in (None, 0, 1, 5, 2 ** 32 - 1):
        for op in ("set", "add", "replace", "append", "prepend", "cas"):
            cases.append((cfgs[0] + (7,), {"op": op, "k": "k", "v": b"v", "fl": fl, "nr": rng.choice([True, False]), "cas": 3}))
        cases.append((cfgs[1] + (7,), {"op": "set_many", "items": [("a", b"1"), ("b", b"2")], "fl": fl, "nr": False}))
    # key collections of every kind, empty ones included: an empty one-shot iterator is truthy, and still means "no keys, send nothing"
    for how in ("list", "tuple", "gen", "iter", "map", "dictkeys"):
        for ks in ([], ["a"], ["a", "b", "c"], ["a", "bad key"], ["bad key"]):
            for cfg in cfgs[:2]:
                cases.append((cfg, {"op": "get_many", "ks": ks, "as": how}))
                cases.append((cfg, {"op": "gets_many", "ks": ks, "as": how}))
                cases.append((cfg, {"op": "delete_many", "ks": ks, "as": how, "nr": len(ks) % 2 == 0}))
    cases.append((cfgs[0], {"op": "get_many", "ks": []}))
    cases.append((cfgs[0], {"op": "delete_many", "ks": [], "nr": False}))
    cases.append((cfgs[0], {"op": "set_many", "items": [], "nr": False}))
    # random long keys with one substituted byte
    for _ in range(4000 if ctx.thorough else 400):
        n = rng.choice([5, 50, 249, 250])
        k = bytearray(rng.randrange(33, 127) for _ in range(n))
        if rng.random() < .6:
            k[rng.randrange(n)] = rng.choice(CLASSES)
        op = rng.choice(["get", "set", "delete", "incr", "touch"])
        c = {"op": op, "k": bytes(k) if rng.random() < .5 else bytes(k).decode("latin-1"), "v": b"v", "d": 1, "e": 0, "nr": rng.choice([True, False])}
        cases.append((rng.choice(cfgs[:2]), c))
    return cases


def cfgs_for_sequences():
    return [(False, False, True, b"app:"), (False, False, False, b""), (True, True, False, b"ns:")]


def model_supported(c):
    """the Lean `Call` type covers str/bytes keys, bytes/str/int values, int-or-not integer arguments"""
    def okv(v):
        return isinstance(v, (bytes, str)) or is_int(v)
    if "v" in c and not okv(c["v"]):
        return False
    if "items" in c and not all(okv(v) for _, v in c["items"]):
        return False
    if c.get("fl") is not None and not is_int(c["fl"]):
        return False
    return True


def main(argv):
    ctx = Ctx("C02", argv)
    ctx.prepare_lean()
    import_repo()
    from pymemcache.client.base import Client
    ctx.rule = ("all store/fetch/delete/arith/touch/flush operations x keys (exhaustive 1..3 bytes over 12 byte classes on get/set; boundary lengths; "
                "whitespace/NUL/CRLF/injection keys; str and bytes; unicode on/off; prefixes incl. 249 bytes and a space) x values with protocol text x "
                "integer grids at protocol bounds and non-integers x cas spellings; multi-key calls with one illegal key; "
                "non-trivial = distinct (config, call)")
    cases = gen(ctx)
    parse_lines, model_lines, metas = [], [], []
    class FlagSerde:
        def __init__(self, fl):
            self.fl = fl

        def serialize(self, key, value):
            return value, self.fl

        def deserialize(self, key, value, flags):
            return value
    for i, (cfg5, c) in enumerate(cases):
        au, utf8, dnr, pfx = cfg5[:4]
        serde_flags = cfg5[4] if len(cfg5) > 4 else 0
        srv = RefServer()
        world = World(server=lambda conn, data: [srv.feed(conn.id, data)])
        world.tag = i
        try:
            client = Client(("h", 1), socket_module=FakeSocketModule(world), allow_unicode_keys=au, encoding="utf8" if utf8 else "ascii",
                            default_noreply=dnr, key_prefix=pfx, **({"serde": FlagSerde(serde_flags)} if serde_flags else {}))
        except Exception as e:
            ctx.violation("client construction failed", {"cfg": (au, utf8, dnr, hx(pfx)), "exc": repr(e)})
            continue
        r = run_call(client, c)
        sent = b"".join(d for cn in world.conns for _, d in cn.sent)
        want = intent(c, au, utf8, dnr, pfx, serde_flags)
        case = {"cfg": {"au": au, "utf8": utf8, "default_noreply": dnr, "prefix": hx(pfx)}, "call": repr(c)[:300], "result": r, "sent": hx(sent[:300])}
        ctx.case((au, utf8, dnr, pfx, repr(c)), sample=case if i in (11, 5000, 9000) else None)
        ctx.count("op:" + c["op"])
        ctx.count("intent:" + ("reject" if want is None else "out-of-range" if want == "OUT" else "send"))
        tags = ["op:" + c["op"]]
        ks = c.get("ks") or ([k for k, _ in c["items"]] if "items" in c else [c.get("k")])
        if any(k is not None and enc_key(k, au, pfx) == b"" for k in ks):
            tags.append("empty-wire-key")
        if c["op"] in ("gat", "gats") and c.get("e", 0) is None:
            tags.append("expire-none-fetch")
        if want is None:
            # must raise an input error before writing a single byte
            if sent:
                ctx.violation("bytes were written although the arguments are illegal", case, tags=tags + ["sent-on-illegal"])
            elif r != "exc:IllegalInput":
                # other exception classes (TypeError for None etc.) are still "raises before sending"; only note them
                ctx.count("rejected-with:" + r[:30])
        elif want == "OUT":
            pass
        elif want == "NOTHING":
            if sent:
                ctx.violation("an empty multi-key call wrote bytes", case, tags=tags)
        else:
            parse_lines.append("srv.parse data=" + hx(sent))
            metas.append(("parse", case, want, tags))
        if model_supported(c) and not serde_flags:
            model_lines.append(f"call {cfg_tok(au, utf8, dnr, False, pfx)} open=1 {call_tokens(c)}")
            metas.append(("model", case, (sent, r), tags))
    # ---- sequences on ONE client: stats arguments that are also used as keys, repeated keys, alternating prefixes of use ----------
    seq_lines, seq_metas = [], []
    for (au, utf8, dnr, pfx) in [c[:4] for c in cfgs_for_sequences()]:
        srv = RefServer()
        world = World(server=lambda conn, data: [srv.feed(conn.id, data)])
        client = Client(("h", 1), socket_module=FakeSocketModule(world), allow_unicode_keys=au, encoding="utf8" if utf8 else "ascii", default_noreply=dnr, key_prefix=pfx)
        # a call that is rejected half-way through its arguments must leave nothing behind for the next one
        leftovers = [("call", {"op": "set_many", "items": [("a", b"1"), ("b", b"2"), ("bad key", b"3")], "nr": False}), ("call", {"op": "set", "k": "x", "v": b"1", "nr": False}),
                     ("call", {"op": "set_many", "items": [("c", b"1"), ("d", 1.5)], "nr": True}), ("call", {"op": "add", "k": "y", "v": b"2", "nr": None}),
                     ("call", {"op": "delete_many", "ks": ["a", "b", "no\nkey"], "nr": False}), ("call", {"op": "delete", "k": "a", "nr": False}),
                     ("call", {"op": "get_many", "ks": ["a", "b c"]}), ("call", {"op": "get", "k": "a"}),
                     ("call", {"op": "set", "k": "k", "v": b"v", "e": "soon", "nr": False}), ("call", {"op": "cas", "k": "k", "v": b"v", "cas": b"1", "nr": False})]
        steps = leftovers + [("stats", ("items",)), ("call", {"op": "get", "k": "items"}), ("call", {"op": "incr", "k": "settings", "d": 1}), ("stats", ("settings",)),
                 ("stats", (b"sizes",)), ("call", {"op": "get_many", "ks": [b"a", b"sizes", b"b"]}), ("call", {"op": "set", "k": "items", "v": b"v", "nr": True}),
                 ("call", {"op": "delete", "k": "slabs", "nr": False}), ("stats", ("slabs",)), ("call", {"op": "gets", "k": "slabs"}),
                 ("call", {"op": "touch", "k": "items", "e": 3, "nr": False}), ("call", {"op": "get", "k": "items"})]
        for n, (kind, arg) in enumerate(steps):
            world.tag = ("seq", n)
            before = sum(len(c.sent) for c in world.conns)
            if kind == "stats":
                try:
                    client.stats(*arg)
                except Exception:
                    pass
                sent = b"".join(d for c in world.conns for t, d in c.sent if t == ("seq", n))
                want_ = b"stats" + b"".join(b" " + (a_ if isinstance(a_, bytes) else a_.encode()) for a_ in arg) + b"\r\n"
                ctx.case(("seq-stats", au, utf8, dnr, pfx, n))
                if sent != want_:
                    ctx.violation("stats did not send exactly `stats <arguments>` (its arguments are not keys: no prefix applies to them)",
                                  {"cfg": {"default_noreply": dnr, "prefix": hx(pfx)}, "arguments": repr(arg), "sent": hx(sent), "intended": hx(want_)}, tags=["sequence", "stats-args"])
                continue
            r = run_call(client, arg)
            sent = b"".join(d for c in world.conns for t, d in c.sent if t == ("seq", n))
            want = intent(arg, au, utf8, dnr, pfx)
            case = {"cfg": {"au": au, "utf8": utf8, "default_noreply": dnr, "prefix": hx(pfx)}, "sequence_step": n, "steps_before": [repr(x)[:50] for x in steps[:n]],
                    "call": repr(arg), "sent": hx(sent)}
            ctx.case(("seq", au, utf8, dnr, pfx, n))
            ctx.count("one-client-sequences")
            if want and want not in ("OUT", "NOTHING"):
                seq_lines.append("srv.parse data=" + hx(sent))
                seq_metas.append((case, want))
            elif not want and sent:
                ctx.violation("bytes were written although the arguments are illegal (in a sequence of calls on one client)", case, tags=["sequence", "sent-on-illegal"])
    # ---- the same through the wrapper classes, on every path by which they reach the inner client: a fresh HashClient, one whose server is in
    #      its retry window after a failure (a different branch of the failover code invokes the inner client), a pooled client after a failure ----
    import pymemcache.client.hash as hash_mod
    from pymemcache.client.base import PooledClient
    from pymemcache.client.hash import HashClient
    wclock = [100.0]
    real_ht = hash_mod.time
    hash_mod.time = FakeClock(lambda: wclock[0])
    wcalls = [{"op": "set", "k": "k", "v": b"v", "e": 100, "nr": False, "fl": 7}, {"op": "add", "k": "k", "v": b"v", "e": -1, "nr": True}, {"op": "replace", "k": "k", "v": b"v", "e": 5, "nr": False},
              {"op": "append", "k": "k", "v": b"v", "nr": False}, {"op": "prepend", "k": "k", "v": b"v", "nr": None}, {"op": "cas", "k": "k", "v": b"v", "cas": b"12", "e": 9, "nr": False, "fl": 3},
              {"op": "gat", "k": "k", "e": 300}, {"op": "gats", "k": "k", "e": 30}, {"op": "touch", "k": "k", "e": 77, "nr": False}, {"op": "incr", "k": "k", "d": 5, "nr": False},
              {"op": "decr", "k": "k", "d": 2, "nr": True}, {"op": "delete", "k": "k", "nr": False}, {"op": "get", "k": "k"}, {"op": "gets", "k": "k"}]
    try:
        for wkind in ("Hash", "Hash-retry-window", "HashPooled-retry-window", "Pooled-after-failure"):
            for (au, utf8, dnr, pfx) in [(False, False, True, b""), (False, False, False, b"ns:")]:
                for c in wcalls:
                    srv = RefServer()
                    world = World(server=lambda conn, data: [srv.feed(conn.id, data)])
                    sm_ = FakeSocketModule(world)
                    kwc = dict(socket_module=sm_, allow_unicode_keys=au, default_noreply=dnr, key_prefix=pfx)
                    if wkind == "Pooled-after-failure":
                        obj = PooledClient(("h", 1), max_pool_size=1, **kwc)
                    else:
                        obj = HashClient([("h", 1)], retry_attempts=2, retry_timeout=1, dead_timeout=60, use_pooling=wkind.startswith("HashPooled"), **kwc)
                    if wkind != "Hash":
                        world.refuse_addrs = {("h", 1)}
                        world.tag = "pre"
                        try:
                            obj.get("warm")
                        except Exception:
                            pass
                        world.refuse_addrs = set()
                        wclock[0] += 5            # past retry_timeout: the next call is the retry
                    world.tag = "call"
                    r = run_call(obj, c)
                    sent = b"".join(d for cn in world.conns for t, d in cn.sent if t == "call")
                    want = intent(c, au, utf8, dnr, pfx)
                    case = {"class": wkind, "cfg": {"default_noreply": dnr, "prefix": hx(pfx)}, "call": repr(c), "result": r, "sent": hx(sent)}
                    ctx.case(("wrapper", wkind, dnr, pfx, repr(c)))
                    ctx.count("wrapper-paths")
                    if want and want not in ("OUT", "NOTHING"):
                        seq_lines.append("srv.parse data=" + hx(sent))
                        seq_metas.append((case, want))
    finally:
        hash_mod.time = real_ht
    # ---- "and nothing more" when the send itself is cut short: whatever the failure of sendall (interrupted by a signal, timed out, reset) after
    #      part of the request went out, the connection has carried a prefix of the intended command(s) - never the request a second time behind
    #      its own fragment, whose middle a server would read as commands.  The intended bytes are those of the same call on a healthy
    #      connection (checked against the strict parser above); the quantifier here is call x cut position x kind of failure x class.
    from faultrun import Scripted
    icalls = [{"op": "set", "k": "session", "v": b"x\r\nflush_all\r\n" + b"y" * 60, "nr": None}, {"op": "get", "k": "some_key"}, {"op": "incr", "k": "n", "d": 3, "nr": False},
              {"op": "delete_many", "ks": ["a", "b", "c"], "nr": False}, {"op": "set_many", "items": [("a", b"flush_all"), ("b", b"2")], "nr": True},
              {"op": "get_many", "ks": ["a", "b", "c", "d"]}, {"op": "touch", "k": "k", "e": 10, "nr": None}, {"op": "cas", "k": "k", "v": b"v", "cas": b"7", "nr": False},
              # the reply-less forms of the commands that carry no data block
              {"op": "delete", "k": "session", "nr": True}, {"op": "incr", "k": "counter", "d": 1, "nr": True}, {"op": "delete_many", "ks": ["k%d" % i_ for i_ in range(12)], "nr": True},
              {"op": "flush_all", "d": 0, "nr": None}, {"op": "touch", "k": "session", "e": 30, "nr": True}]
    for ikind in ("Client", "Pooled", "Hash"):
        for c in icalls:
            def fresh():
                S_ = Scripted(ctx.rng)
                kw_ = dict(socket_module=S_.sm, default_noreply=True)
                o_ = (Client(("h", 1), **kw_) if ikind == "Client" else PooledClient(("h", 1), max_pool_size=1, **kw_) if ikind == "Pooled"
                      else HashClient([("h", 1)], retry_attempts=0, retry_timeout=0, dead_timeout=0, **kw_))
                return S_, o_
            S0, o0 = fresh()
            S0.begin_call("call", {})
            run_call(o0, copy.deepcopy(c))
            healthy = b"".join(d for cn in S0.world.conns for t, d in cn.sent if t == "call")
            cuts = sorted({1, 5, 10, len(healthy) // 2, len(healthy) - 1, -1})
            for cut in cuts:
                for fk in ("eintr", "timeout", "reset", "pipe"):
                    S1, o1 = fresh()
                    S1.begin_call("call", {"send_fault": fk, "send_after": cut})
                    r = run_call(o1, copy.deepcopy(c))
                    per_conn = [b"".join(d for t, d in cn.sent if t == "call") for cn in S1.world.conns]
                    ctx.case(("interrupted-send", ikind, repr(c), cut, fk))
                    ctx.count("interrupted-sends")
                    bad_ = False
                    for got in per_conn:
                        if not healthy.startswith(got):
                            bad_ = True
                            ctx.violation("after an interrupted send the connection carried more than (a prefix of) the intended command",
                                          {"class": ikind, "call": repr(c), "fault": fk, "delivered_before_fault": cut, "result": r, "intended": hx(healthy), "carried": hx(got)},
                                          tags=["interrupted-send", "class:" + ikind])
                    if bad_ or not r.startswith("exc:"):
                        continue
                    # the object is used again: a connection that carries a FRAGMENT of the interrupted request must carry nothing after it - the next
                    # request written behind the fragment would be read by the server as the tail of the unfinished command
                    S1.begin_call("next", {})
                    r2 = run_call(o1, {"op": "set", "k": "foo", "v": b"flush_all", "nr": None})
                    for cn in S1.world.conns:
                        first = b"".join(d for t, d in cn.sent if t == "call")
                        after_ = b"".join(d for t, d in cn.sent if t == "next")
                        if after_ and 0 < len(first) < len(healthy):
                            ctx.violation("the next request was written on the connection behind the fragment of an interrupted one",
                                          {"class": ikind, "interrupted_call": repr(c), "fault": fk, "delivered_before_fault": cut, "fragment": hx(first), "then": hx(after_[:60]),
                                           "results": [r, r2]}, tags=["interrupted-send", "fragment-then-request", "class:" + ikind])
    if ctx.lean.build_ok:
        for (case, want), o in zip(seq_metas, ctx.driver.batch(seq_lines)):
            if o != "ok " + want:
                ctx.violation("in a sequence of calls on one object, the bytes sent are not the intended command (key, flags, expiry, noreply marker)", dict(case, parsed=o[:200], intended=want[:200]),
                              tags=["sequence"])
    if ctx.lean.build_ok:
        outs = iter(ctx.driver.batch(parse_lines + model_lines))
        for kind, case, want, tags in [m for m in metas if m[0] == "parse"]:
            o = next(outs)
            if o != "ok " + want:
                ctx.violation("sent bytes are not read by a strict parser as exactly the intended command(s)", dict(case, parsed=o[:300], intended=want[:300]), tags=tags)
        for kind, case, (sent, r), tags in [m for m in metas if m[0] == "model"]:
            o = next(outs)
            msent = o.split(" sent=")[1].split(" ")[0] if " sent=" in o else "?"
            mres = o.split("res=")[1].split(" ")[0] if "res=" in o else "?"
            if msent != (hx(sent) if sent else "none") and not (msent in ("none", "-") and not sent):
                ctx.disagreement("Lean client model sends different bytes", dict(case, model=o[:300]), theorem="C02_parse_encode_store", tags=tags)
            elif (mres == "exc:IllegalInput") != (r == "exc:IllegalInput") and not sent:
                if not (r.startswith("exc:") and mres == "exc:IllegalInput"):
                    ctx.disagreement("Lean client model and implementation disagree on rejecting the arguments", dict(case, model=o[:300]), theorem="C02_illegal_key_sends_nothing", tags=tags)
    ctx.assumptions = ["bool arguments and negative flags/delta/delay are outside the property's quantifier ('integer arguments within the protocol's ranges')",
                       "encoding is ASCII-compatible (ascii or utf-8 generated)"]
    ctx.finish()
