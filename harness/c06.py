"""C06 — connection lifecycle: errors close, next call reconnects, no socket leaks.
Real `Client` over the fake socket module with exhaustive small fault plans over the socket API.
Monitor = socket ledger (created/closed/current, timeout in force, TLS wrapper); correspondence = the Lean model
`Conn.connect` on the connect-phase plans (event log compared)."""
import copy
import itertools
import socket as _real

from clientlib import run_call
from common import FakeClock, Ctx, import_repo
from fakesock import FakeSocketModule, World, mk_exc
from refserver import RefServer

CT, IOT = 1.5, 2.5


def mk_client(Client, world, sm, cfg):
    kw = {}
    if cfg["keepalive"]:
        from pymemcache.client.base import KeepaliveOpts
        kw["socket_keepalive"] = KeepaliveOpts()
    if cfg["tls"]:
        kw["tls_context"] = sm.tls_context()
    server = "/tmp/mc.sock" if cfg["unix"] else ("mc.example", 11211)
    return Client(server, socket_module=sm, connect_timeout=cfg.get("ct", CT), timeout=cfg.get("iot", IOT), no_delay=cfg["nodelay"], default_noreply=False,
                  ignore_exc=cfg.get("ign", False), **kw)


def connect_plan_to_faults(cfg, naddr, fails, kind="oserror"):
    """translate a Lean-style connect plan into (api, occurrence) faults of the fake socket module"""
    plan = {}
    sso = 0   # setsockopt occurrences so far
    sock_calls = 0
    wrap_calls = 0
    chosen = None
    if "gai" in fails and not cfg["unix"]:
        plan[("getaddrinfo", 0)] = mk_exc("gaierror")
        return plan
    addrs = [0] if cfg["unix"] else range(naddr)
    for i in addrs:
        k = sock_calls
        sock_calls += 1
        if f"socket:{i}" in fails:
            plan[("socket", k)] = mk_exc(kind)
            if cfg["unix"]:
                return plan
            continue
        if cfg["unix"]:
            chosen = i
            break
        if cfg["nodelay"]:
            k2 = sso
            sso += 1
            if f"nodelay:{i}" in fails:
                plan[("setsockopt", k2)] = mk_exc(kind)
                continue
        if cfg["tls"]:
            k3 = wrap_calls
            wrap_calls += 1
            if f"wrap:{i}" in fails:
                plan[("wrap_socket", k3)] = mk_exc(kind)
                continue
        chosen = i
        break
    if chosen is None:
        return plan
    if "toc" in fails:
        plan[("settimeout", 0)] = mk_exc(kind)
        return plan
    if cfg["keepalive"] and "ka" in fails:
        plan[("setsockopt", sso)] = mk_exc(kind)
        return plan
    if "connect" in fails:
        plan[("connect", 0)] = mk_exc("refused")
        return plan
    if "toi" in fails:
        plan[("settimeout", 1)] = mk_exc(kind)
    return plan


def _unused():
    return None


def canon_log(world, start, cfg, sock_id):
    """socket-API ledger of one call -> the Lean model's event vocabulary"""
    out = []
    ka_seen = {}
    for name, cid, args, tag in world.ledger[start:]:
        if name == "created":
            # address index = number of socket() calls before this one in this call
            out.append(f"created:{cid}:{canon_log.sockcalls - 1}")
        elif name == "socket":
            canon_log.sockcalls += 1
        elif name == "wrapped":
            out.append(f"wrapped:{cid}:{args[0]}")
        elif name == "setsockopt":
            if len(args) >= 2 and args[1] == _real.TCP_NODELAY:
                out.append(f"nodelay:{cid}")
            else:
                ka_seen[cid] = ka_seen.get(cid, 0) + 1
                if ka_seen[cid] == 4:
                    out.append(f"ka:{cid}")
        elif name == "settimeout":
            out.append(("toc" if args[0] == CT else "toi" if args[0] == IOT else f"to?{args[0]}") + f":{cid}")
        elif name == "connect":
            out.append(f"connect:{cid}:{canon_log.sockcalls - 1}")
        elif name == "close":
            out.append(f"close:{cid}")
    # failed API calls appear in the ledger before raising; drop the event of the call that raised
    return out


def ledger_events(world, start):
    """like canon_log but drops events whose API call raised (the model logs only completed calls, except close)"""
    evs = []
    L = world.ledger[start:]
    sockcalls = 0
    ka = {}
    nto = {}
    i = 0
    while i < len(L):
        name, cid, args, tag = L[i]
        failed = i + 1 < len(L) and L[i + 1][0] == "fault" and L[i + 1][2][0] == name
        if name == "socket":
            sockcalls += 1
        elif name == "created":
            evs.append(f"created:{cid}:{sockcalls - 1}")
        elif name == "wrapped":
            evs.append(f"wrapped:{cid}:{args[0]}")
        elif name == "setsockopt" and not failed:
            if len(args) >= 2 and args[1] == _real.TCP_NODELAY:
                evs.append(f"nodelay:{cid}")
            else:
                ka[cid] = ka.get(cid, 0) + 1
                if ka[cid] == 4:
                    evs.append(f"ka:{cid}")
        elif name == "settimeout":
            nto[cid] = nto.get(cid, 0) + 1
            if not failed:
                evs.append(("toc" if nto[cid] == 1 else "toi") + f":{cid}")
        elif name == "connect" and not failed:
            evs.append(f"connect:{cid}:{sockcalls - 1}")
        elif name == "close":
            evs.append(f"close:{cid}")
        i += 1
    return evs


def audit(ctx, world, client, case, when):
    """the ledger judgments of the property at a public call boundary"""
    cur = client.sock
    cur_id = getattr(cur, "id", None)
    allowed = set()
    if cur_id is not None:
        allowed.add(cur_id)
        if world.conns[cur_id].wraps is not None:
            allowed.add(world.conns[cur_id].wraps)
    open_ids = [c.id for c in world.conns if not c.closed]
    leaked = [i for i in open_ids if i not in allowed]
    tags = list(case.get("tags", []))
    if leaked:
        ctx.violation(f"socket(s) {leaked} left open and not owned by the client ({when})", case, tags=tags + ["leak"])
        return False
    if cur_id is not None and world.conns[cur_id].closed:
        ctx.violation(f"client keeps a closed socket ({when})", case, tags=tags)
        return False
    for c in world.conns:
        if c.close_calls == 0 and c.closed and c.wrapped_by is None:
            pass
    return True


def main(argv):
    ctx = Ctx("C06", argv)
    ctx.prepare_lean()
    import_repo()
    from pymemcache.client.base import Client
    ctx.rule = ("configs {TCP 1..3 addresses, UNIX, TLS} x {no_delay, keepalive} x all connect-phase plans with <= 2 faults over {getaddrinfo, socket(i), "
                "setsockopt(i), wrap_socket(i), settimeout(connect), keepalive, connect, settimeout(io)} followed by a healthy call; then all single faults "
                "(and pairs in thorough) over every socket-API occurrence of a 3-call scenario x 6 error kinds; non-trivial = distinct (config, plan)")
    ctx.exhaustive = True
    lines, metas = [], []
    cfgs = []
    for unix, tls in ((False, False), (True, False), (False, True)):
        for nodelay in (False, True):
            for keepalive in (False, True):
                if unix and (nodelay and keepalive):
                    continue
                for ct, iot in ((1.5, 2.5), (1.5, None), (None, 2.5), (None, None), (2.0, 2.0)):
                    if (ct, iot) != (1.5, 2.5) and (nodelay or keepalive) and not tls:
                        continue
                    cfgs.append({"unix": unix, "tls": tls, "nodelay": nodelay, "keepalive": keepalive, "ct": ct, "iot": iot})
    # ---- part 1: connect-phase plans, compared with the Lean model --------------------------------------
    for cfg in cfgs:
        for naddr in ((1,) if cfg["unix"] else (1, 2, 3)):
            atoms = []
            if not cfg["unix"]:
                atoms.append("gai")
            for i in range(naddr):
                atoms.append(f"socket:{i}")
                if cfg["nodelay"] and not cfg["unix"]:
                    atoms.append(f"nodelay:{i}")
                if cfg["tls"]:
                    atoms.append(f"wrap:{i}")
            atoms += ["toc", "connect", "toi"] + (["ka"] if cfg["keepalive"] else [])
            plans = [()] + [(a,) for a in atoms] + list(itertools.combinations(atoms, 2))
            if ctx.thorough:
                plans += list(itertools.combinations(atoms, 3))
            # which errno an OSError carries is one more axis of the plans that make socket() / setsockopt() / wrap_socket fail
            plans = [(f_, "oserror") for f_ in plans] + [(f_, k_) for f_ in plans if naddr >= 2 and len(f_) <= 2 and any(a_.split(":")[0] in ("socket", "nodelay", "wrap") for a_ in f_)
                                                       for k_ in (("emfile", "enfile", "eafnosupport") if (len(f_) == 1 or ctx.thorough) else ("emfile",))]
            for fails, okind in plans:
                srv = RefServer()
                world = World(server=lambda conn, data: [srv.feed(conn.id, data)],
                              addrinfo=lambda h, p: [(_real.AF_INET, _real.SOCK_STREAM, _real.IPPROTO_TCP, "", ("10.0.0.%d" % i, p)) for i in range(naddr)])
                sm = FakeSocketModule(world)
                client = mk_client(Client, world, sm, cfg)
                world.tag = 0
                world.arm(connect_plan_to_faults(cfg, naddr, fails, kind=okind))
                r1 = run_call(client, {"op": "get", "k": "k"})
                evs = ledger_events(world, 0)
                # cut the log at the end of the connect phase (before sendall)
                sock1 = getattr(client.sock, "id", None)
                tags = []
                if any(f.startswith("socket:") or f.startswith("nodelay:") or f.startswith("wrap:") for f in fails) and r1.startswith("exc:"):
                    tags.append("address-fallback")
                case = {"cfg": cfg, "naddr": naddr, "faults": list(fails), "errno_of_the_faults": okind, "first_call": r1, "events": evs[:20], "tags": tags}
                ctx.case((tuple(cfg.items()), naddr, fails, okind), sample={k: v for k, v in case.items() if k != "tags"} if len(fails) == 2 and naddr == 3 and len(ctx.samples) < 3 else None)
                ctx.count("connect-plans")
                ok = audit(ctx, world, client, case, "after the first call")
                # fallback: if an address can yield a socket and no phase-2 fault, the call must succeed
                usable = None
                if "gai" not in fails:
                    for i in (range(1) if cfg["unix"] else range(naddr)):
                        if f"socket:{i}" in fails or (cfg["nodelay"] and not cfg["unix"] and f"nodelay:{i}" in fails) or (cfg["tls"] and f"wrap:{i}" in fails):
                            continue
                        usable = i
                        break
                phase2_fault = any(f in fails for f in ("toc", "connect", "toi")) or ("ka" in fails and cfg["keepalive"])
                if usable is not None and not phase2_fault and r1 != "DEFAULT":
                    ctx.violation("a usable later address was not used: the call failed although a socket could be created and connected", case, tags=tags + ["stale-error"])
                if r1.startswith("exc:") and client.sock is not None:
                    ctx.violation("a failed call left a socket attached to the client", case, tags=tags)
                # timeouts
                for cid, api, tmo in world.io_timeouts:
                    if tmo != cfg["iot"]:
                        ctx.violation(f"{api} performed with timeout {tmo!r} in force instead of the configured I/O timeout {cfg['iot']!r}", case, tags=tags + ["io-timeout"])
                        break
                for n, (name, cid, args, tag) in enumerate(world.ledger):
                    if name == "connect":
                        before = [e for e in world.ledger[:n] if e[0] == "settimeout" and e[1] == cid and not (world.ledger[world.ledger.index(e) + 1][0] == "fault" if world.ledger.index(e) + 1 < len(world.ledger) else False)]
                        in_force = before[-1][2][0] if before else "unset"
                        if in_force != cfg["ct"]:
                            ctx.violation(f"connect() performed with timeout {in_force!r} in force instead of the configured connect timeout {cfg['ct']!r}", case, tags=tags + ["connect-timeout"])
                if world.violations:
                    ctx.violation("I/O on the raw socket instead of the TLS wrapper", dict(case, detail=world.violations[:2]), tags=tags)
                # next call on a healthy plan reconnects and works
                world.arm({})
                world.tag = 1
                start2 = len(world.ledger)
                r2 = run_call(client, {"op": "set", "k": "k", "v": b"v", "nr": False})
                r3 = run_call(client, {"op": "get", "k": "k"})
                if (r2, r3) != ("True", "b:76"):
                    ctx.violation("after a failed call the next call did not reconnect and work", dict(case, next_calls=[r2, r3]), tags=tags)
                audit(ctx, world, client, case, "after the follow-up calls")
                if r1.startswith("exc:") and not any(e[0] == "connect" for e in world.ledger[start2:]):
                    ctx.violation("no fresh connection after a failed call", case, tags=tags)
                # Lean correspondence (connect phase of the first call)
                conn_evs = []
                for e in evs:
                    conn_evs.append(e)
                if r1 == "DEFAULT":
                    conn_evs = [e for e in evs]
                    conn_evs.append(f"assign:{[c.id for c in world.conns if any(x[0]=='sendall' and x[1]==c.id for x in world.ledger)][0]}" if True else "")
                lines.append(f"conn cfg={int(cfg['unix'])}{int(cfg['nodelay'])}{int(cfg['tls'])}{int(cfg['keepalive'])} naddr={naddr} fail={','.join(fails) or '-'} prev=none next=0")
                first_evs = ledger_events(world, 0)
                # events of call 1 only: up to start2, excluding the close caused by later calls
                n1 = len([1 for e in world.ledger[:start2] if e[0] != "fault"])
                metas.append((case, r1, world, start2))
    if ctx.lean.build_ok:
        outs = ctx.driver.batch(lines)
        for (case, r1, world, start2), o in zip(metas, outs):
            # model log vs the ledger of the first call's connect phase
            mlog = o.split(" log=")[1].split(",") if " log=" in o and o.split(" log=")[1] else []
            mres = o.split("res=")[1].split(" ")[0]
            sub = World()
            sub.ledger = world.ledger[:start2]
            real = ledger_events(sub, 0)
            # the real ledger continues with sendall/recv (not part of the connect model) and possibly the close after an exchange error
            mlog_cmp = [e for e in mlog if not e.startswith("assign") and e != "unassign"]
            real_cmp = real[:len(mlog_cmp)]
            real_ok = not r1.startswith("exc:")
            if (mres == "ok") != real_ok or mlog_cmp != real_cmp:
                ctx.disagreement("Lean connect model differs from the implementation's socket-API log", dict(case, model=o[:300], impl_events=real[:20]),
                                 theorem="C06_no_leak", tags=case.get("tags", []))
    # ---- part 2: single (and double) faults anywhere in a 3-call scenario ------------------------------
    kinds = ["timeout", "reset", "kbd", "pipe", "oserror", "refused", "valueerror"]     # (kbd: what is raised need not be an Exception)
    scenario = [{"op": "set", "k": "a", "v": b"1", "nr": False}, {"op": "get", "k": "a"}, {"op": "get_many", "ks": ["a", "b"]}, {"op": "delete", "k": "a", "nr": False}]
    cfgs2 = [c for c in cfgs if (c["ct"], c["iot"]) == (1.5, 2.5)]
    cfgs2 += [dict(c, ign=True) for c in cfgs2 if not c["keepalive"]]
    # the second scenario is made of the reply-less forms (nothing is read back: the only socket calls that can fail are the connect phase and sendall)
    scenario_replyless = [{"op": "set", "k": "a", "v": b"1", "nr": True}, {"op": "delete", "k": "a", "nr": True}, {"op": "touch", "k": "a", "e": 5, "nr": True},
                          {"op": "incr", "k": "n", "d": 1, "nr": True}, {"op": "delete_many", "ks": ["a", "b"], "nr": True}, {"op": "flush_all", "d": 0, "nr": True}]
    for scenario in (scenario, scenario_replyless):
        for cfg in cfgs2:
            # dry run to count API occurrences
            def fresh():
                srv = RefServer()
                world = World(server=lambda conn, data: [srv.feed(conn.id, data)])
                sm = FakeSocketModule(world)
                return world, mk_client(Client, world, sm, cfg)
            world, client = fresh()
            for c in scenario:
                run_call(client, c)
            occ = dict(world.api_count)
            points = [(api, k) for api, n in occ.items() for k in range(n) if api != "getaddrinfo" or True]
            combos = [(p,) for p in points]
            if ctx.thorough:
                combos += list(itertools.combinations(points, 2))
            for combo in combos:
                for kind in (kinds if len(combo) == 1 else kinds[:2]):
                    if kind == "kbd" and any(p[0] not in ("sendall", "recv") for p in combo):
                        # an interruption (not an Exception) is injected only where the client has a connection in use: during the connection phase the
                        # half-made socket is a local variable that the runtime reclaims, which the fake socket's ledger cannot see - no claim there
                        continue
                    world, client = fresh()
                    world.arm({p: mk_exc(kind) for p in combo})
                    res = []
                    for n, c in enumerate(scenario):
                        world.tag = n
                        nled = len(world.ledger)
                        res.append(run_call(client, c))
                        case = {"cfg": cfg, "faults": [list(p) for p in combo], "kind": kind, "results": res, "tags": []}
                        if not audit(ctx, world, client, case, f"after call {n}"):
                            break
                        # a socket on which a send/receive/connect-phase call failed must be closed and given up, whether or not the error was swallowed
                        hit = {e[1] for e in world.ledger[nled:] if e[0] == "fault" and e[1] is not None and e[2][0] != "close"}
                        bad = [cid for cid in hit if not world.conns[cid].closed or getattr(client.sock, "id", None) == cid]
                        if bad:
                            ctx.violation("a socket on which a call failed was not closed / is still attached to the client", dict(case, sockets=bad), tags=["failed-socket-kept"])
                            break
                        if res[-1].startswith("exc:") and client.sock is not None and res[-1] not in ("exc:IllegalInput",):
                            ctx.violation("a failed call left a socket attached to the client", case)
                            break
                    ctx.case((scenario[1]["op"], tuple(cfg.items()), combo, kind), sample=None)
                    ctx.count("scenario-fault-plans")
                    for cid, api, tmo in world.io_timeouts:
                        if tmo != cfg["iot"]:
                            ctx.violation(f"{api} performed with timeout {tmo!r} in force instead of the configured I/O timeout {cfg['iot']!r}", case, tags=["io-timeout"])
                            break
                    # after the faults are consumed a further call must work on a fresh or healthy connection
                    world.arm({})
                    world.tag = 99
                    r = run_call(client, {"op": "set", "k": "z", "v": b"z", "nr": False})
                    if r != "True":
                        ctx.violation("client not usable after the fault plan was exhausted", dict(case, final=r))
                    audit(ctx, world, client, case, "at the end")
    # ---- part 2b: the address fallback on a RE-connection: the host resolves to addresses of two families; after a call failed, the reconnection
    #      finds that no socket can be had for the address (family) that served before - the other one is used, as on a first connection -----------
    for order in ("v6-first", "v4-first"):
        for cfg in [c for c in cfgs2 if not c["unix"] and not c["keepalive"]][:4]:
            for first_via in (0, 1):
                for fail_api in ("socket", "setsockopt", "wrap_socket"):
                    if (fail_api == "setsockopt" and not cfg["nodelay"]) or (fail_api == "wrap_socket" and not cfg["tls"]):
                        continue
                    fams = [_real.AF_INET6, _real.AF_INET] if order == "v6-first" else [_real.AF_INET, _real.AF_INET6]
                    srv = RefServer()
                    world = World(server=lambda conn, data: [srv.feed(conn.id, data)],
                                  addrinfo=lambda h, p, _f=fams: [(_f[0], _real.SOCK_STREAM, _real.IPPROTO_TCP, "", ("addr0", p)), (_f[1], _real.SOCK_STREAM, _real.IPPROTO_TCP, "", ("addr1", p))])
                    client = mk_client(Client, world, FakeSocketModule(world), cfg)
                    case = {"cfg": cfg, "resolved_families": order, "first_connection_through_address": first_via, "on_reconnect_fails": fail_api + " for the address used before", "tags": []}
                    ctx.case(("reconnect-fallback", tuple(cfg.items()), order, first_via, fail_api))
                    ctx.count("reconnect-fallback")
                    world.tag = 0
                    if first_via == 1:
                        world.arm({("socket", 0): mk_exc("eafnosupport")})        # the first address cannot be used from the start
                    r1 = run_call(client, {"op": "set", "k": "a", "v": b"1", "nr": False})
                    used1 = getattr(client.sock, "addr", None) or (world.conns[client.sock.wraps].addr if getattr(client.sock, "wraps", None) is not None else None)
                    world.tag = 1
                    world.arm({("recv", 0): mk_exc("reset")})
                    r2 = run_call(client, {"op": "get", "k": "a"})
                    world.tag = 2
                    # on the reconnection the address that served before yields no socket (index of that address's attempt within this call)
                    world.arm({(fail_api, 0): mk_exc("eafnosupport" if fail_api == "socket" else "oserror")} if first_via == 0 else {})
                    r3 = run_call(client, {"op": "get", "k": "a"})
                    res = [r1, r2, r3]
                    if r1 != "True" or not r2.startswith("exc:"):
                        ctx.count("reconnect-fallback scenario not established")
                        continue
                    if first_via == 0 and r3 != "b:31":
                        ctx.violation("on a re-connection a usable later address was not used: the call failed although a socket could be created and connected",
                                      dict(case, results=res), tags=["address-fallback", "reconnect"])
                    elif first_via == 1 and r3 != "b:31":
                        ctx.violation("the re-connection after a failed call did not work", dict(case, results=res), tags=["reconnect"])
                    audit(ctx, world, client, case, "after the re-connection")
    # ---- part 3: calls that fail because of what the server ANSWERED (error lines, garbage, truncated replies), on pipelined commands whose
    #      remaining replies arrive later: whatever the client does with the connection, the next calls work ----
    from faultrun import MUTATIONS, Scripted
    rng = ctx.rng
    multi = [{"op": "set_many", "items": [("a", b"1"), ("b", b"2"), ("c", b"3")], "nr": False}, {"op": "delete_many", "ks": ["a", "b", "c"], "nr": False},
             {"op": "get_many", "ks": ["a", "b"]}, {"op": "set", "k": "a", "v": b"1", "nr": False}, {"op": "incr", "k": "a", "d": 1, "nr": False},
             {"op": "gets_many", "ks": ["a", "b"]}, {"op": "touch", "k": "a", "e": 0, "nr": False}]
    for cls in ("Client",):          # (a HashClient answers the next call from its failover bookkeeping: C13's subject)
        for call in multi:
            for mut in MUTATIONS[1:]:
                for chunkmode in ("bytes", "rand", "one"):
                    for only in (None, 0, 1):
                        S = Scripted(rng)
                        if cls == "Client":
                            client = Client(("h", 1), socket_module=S.sm, default_noreply=False)
                            inner = lambda: client
                        else:
                            from pymemcache.client.hash import HashClient
                            client = HashClient([("h", 1)], socket_module=S.sm, default_noreply=False, retry_attempts=5)
                            inner = lambda: next(iter(client.clients.values()))
                        S.begin_call(0, {})
                        run_call(client, {"op": "set", "k": "a", "v": b"5", "nr": False})
                        run_call(client, {"op": "set", "k": "b", "v": b"6", "nr": False})
                        first_sock = inner().sock
                        sc = {"mutation": mut, "chunk": chunkmode}
                        if only is not None:
                            sc["only_exchange"] = only
                        S.begin_call(1, sc)
                        r = run_call(client, dict(call))
                        case = {"class": cls, "call": call["op"], "reply_mutation": mut, "chunking": chunkmode, "result": r[:60]}
                        ctx.case(("reply-fail", cls, call["op"], mut, chunkmode, only))
                        ctx.count("reply-level-failures")
                        if not r.startswith("exc:") or r == "exc:IllegalInput":
                            continue
                        # (a call that failed on the CONTENT of a completely read reply may keep its connection - e.g. incr answered with a
                        # non-number; whether anything is left unread on it is C01's subject.  What C06 promises is that the next call works.)
                        kept = inner().sock is not None
                        nled = len(S.world.ledger)
                        S.begin_call(2, {})
                        r2 = run_call(client, {"op": "set", "k": "z", "v": b"z", "nr": False})
                        r3 = run_call(client, {"op": "get", "k": "z"})
                        if (r2, r3) != ("True", "b:7a") or (not kept and not any(e[0] == "connect" for e in S.world.ledger[nled:])):
                            ctx.violation("after a call failed on the server's answer the next calls did not work (on a fresh connection, or on the kept one)",
                                          dict(case, connection_kept=kept, next_calls=[r2, r3]), tags=["reply-level"])
    # ---- part 4: Clients inside a pool or a hash client ("on its own or inside a pool or hash client"): histories with idle gaps beyond
    #      pool_idle_timeout and with failures; at every moment each Client object has at most one open socket, every open socket belongs to a
    #      Client the wrapper still knows, and after close() nothing is open -----------------------------------------------------------------------
    import pymemcache.pool as pool_mod
    from pymemcache.client.base import PooledClient
    from pymemcache.client.hash import HashClient
    pclock = [1000.0]
    real_pt = pool_mod.time
    pool_mod.time = FakeClock(lambda: pclock[0])
    try:
        for wkind in ("Pooled", "Pooled1", "HashPooled"):
            for idle in (0, 30):
                for hist in ((0, 120, 0, 0), (0, 10, 120, 1, 120), (40, 40, 40), (0, 0, 31, 29, 31)):
                    for fault_at in (None, 1, 2):
                        pclock[0] = 1000.0
                        S = Scripted(rng)
                        kwp = dict(socket_module=S.sm, default_noreply=False, pool_idle_timeout=idle, max_pool_size=(1 if wkind == "Pooled1" else 3))
                        obj = PooledClient(("h", 1), **kwp) if wkind.startswith("Pooled") else HashClient([("h", 1)], use_pooling=True, retry_attempts=0, retry_timeout=0, dead_timeout=0, **kwp)
                        case = {"class": wkind, "pool_idle_timeout": idle, "gaps": list(hist), "fault_at_call": fault_at}
                        ctx.case(("pooled", wkind, idle, hist, fault_at))
                        ctx.count("pooled-lifecycle-histories")
                        seen_clients = []
                        bad = None
                        res = []
                        for n, gap in enumerate(hist):
                            pclock[0] += gap
                            S.begin_call(n, {"recv_fault": (0, "timeout")} if fault_at == n else {})
                            res.append(run_call(obj, {"op": "set", "k": "k", "v": b"%d" % n, "nr": False} if n % 2 == 0 else {"op": "get", "k": "k"}))
                            pools = [obj.client_pool] if wkind.startswith("Pooled") else [c_.client_pool for c_ in obj.clients.values()]
                            known = [o for p_ in pools for o in list(p_.free) + list(p_.used)]
                            attached = {id(o.sock) for o in known if o.sock is not None}
                            stray = [c_.id for c_ in S.world.conns if not c_.closed and id(c_) not in attached]
                            if stray:
                                bad = f"after call {n}: open socket(s) {stray} belong to no Client the pool knows (2 sockets for one call, or a leak)"
                                break
                            if any(len(p_.used) for p_ in pools):
                                bad = f"after call {n}: a client is still checked out"
                                break
                            if fault_at != n and res[-1].startswith("exc:"):
                                bad = f"call {n} failed although no fault was scheduled for it: {res[-1]}"
                                break
                        if bad is None:
                            try:
                                obj.close()
                            except Exception as e:
                                bad = "close() raised " + repr(e)[:60]
                            still = [c_.id for c_ in S.world.conns if not c_.closed]
                            if bad is None and still:
                                bad = f"after close(): socket(s) {still} are still open"
                        if bad:
                            ctx.violation("a Client inside a pool: " + bad, dict(case, results=res), tags=["pooled-lifecycle"])
    finally:
        pool_mod.time = real_pt
    # ---- part 5: the connection settings of a Client "inside a pool or hash client" - the wrappers build their Clients themselves, so what the
    #      caller configured must reach every one of them, the first and those built after a failure: each connection is established under the
    #      connect timeout, used under the I/O timeout, and with a TLS context configured all traffic goes through a wrapped socket --------------
    for wkind in ("Client", "Pooled", "Hash", "HashPooled", "Hash2"):
        for tls in (False, True):
            for ct, iot in ((1.5, 2.5), (None, 2.5), (3.0, None), (0.25, 0.25)):
                S = Scripted(rng)
                kw5 = dict(socket_module=S.sm, default_noreply=False, connect_timeout=ct, timeout=iot)
                if tls:
                    kw5["tls_context"] = S.sm.tls_context()
                if wkind == "Client":
                    obj = Client(("h", 1), **kw5)
                elif wkind == "Pooled":
                    obj = PooledClient(("h", 1), max_pool_size=2, **kw5)
                else:
                    obj = HashClient([("h", 1)] if wkind != "Hash2" else [("h", 1), ("g", 2)], use_pooling=(wkind == "HashPooled"), retry_attempts=0, retry_timeout=0, dead_timeout=0, **kw5)
                case = {"class": wkind, "tls": tls, "connect_timeout": ct, "timeout": iot}
                ctx.case(("wrapper-settings", wkind, tls, ct, iot))
                ctx.count("wrapper-settings")
                res = []
                for n, c5 in enumerate([{"op": "set", "k": "k", "v": b"1", "nr": False}, {"op": "get", "k": "k"}, {"op": "get", "k": "k"}, {"op": "get", "k": "k"},
                                        {"op": "set", "k": "q", "v": b"2", "nr": False}, {"op": "get_many", "ks": ["k", "q", "r", "s"]}]):
                    S.begin_call(n, {"recv_fault": (0, "timeout")} if n == 2 else {})
                    res.append(run_call(obj, c5))
                W5 = S.world
                cur, bad = {}, None
                for i5, ent in enumerate(W5.ledger):
                    name, cid = ent[0], ent[1]
                    if name == "settimeout":
                        cur[cid] = ent[2][0]
                    elif name == "connect" and cur.get(cid, "unset") != ct:
                        bad = f"connection {cid} was established under timeout {cur.get(cid, 'unset')!r}, not the connect timeout {ct!r}"
                    if name in ("connect", "sendall", "recv") and tls and W5.conns[cid].wraps is None:
                        bad = f"{name} on socket {cid}, which is not a TLS-wrapped socket, although a TLS context is configured"
                for cid, api, t in W5.io_timeouts:
                    if t != iot:
                        bad = bad or f"{api} on connection {cid} under timeout {t!r}, not the I/O timeout {iot!r}"
                if W5.violations:
                    bad = bad or f"{W5.violations[0]}"
                nconn = sum(1 for e in W5.ledger if e[0] == "connect")
                if nconn < 2:
                    bad = bad or "the scenario did not reconnect after the failed call"
                if bad:
                    ctx.violation("a Client built by a wrapper does not connect / talk as configured: " + bad, dict(case, results=res), tags=["wrapper-settings", "class:" + wkind])
    # ---- part 6: close() of a pooled client while one of its calls is in flight (what another thread does when it shuts the client down): at the
    #      moment the request has gone out and the reply has not come, close() runs to completion.  The Client that was in flight is dropped by the
    #      pool, so its socket must be closed by the time its call has ended - whether that call then fails or (reply-less) succeeds ----------
    for wkind in ("Pooled", "Pooled1", "HashPooled"):
        for c6 in ({"op": "get", "k": "k"}, {"op": "set", "k": "k", "v": b"1", "nr": False}, {"op": "set", "k": "k", "v": b"1", "nr": True},
                   {"op": "get_many", "ks": ["a", "b"]}, {"op": "delete_many", "ks": ["a", "b"], "nr": False}, {"op": "incr", "k": "n", "d": 1, "nr": True}):
            for warm in (0, 1, 2):
                S = Scripted(rng)
                kwp = dict(socket_module=S.sm, default_noreply=False, max_pool_size=(1 if wkind == "Pooled1" else 3))
                obj = PooledClient(("h", 1), **kwp) if wkind.startswith("Pooled") else HashClient([("h", 1)], use_pooling=True, retry_attempts=0, retry_timeout=0, dead_timeout=0, **kwp)
                case = {"class": wkind, "call_in_flight": repr(c6), "calls_before": warm}
                ctx.case(("close-in-flight", wkind, repr(c6), warm))
                ctx.count("close-while-in-flight")
                for n in range(warm):
                    S.begin_call(n, {})
                    run_call(obj, {"op": "set", "k": "w%d" % n, "v": b"w", "nr": False})
                inner = S.world.server
                fired = []

                def during(conn, data, _inner=inner, _obj=obj, _fired=fired):
                    evs = _inner(conn, data)
                    if not _fired:
                        _fired.append(conn.id)
                        _obj.close()
                    return evs
                S.world.server = during
                S.begin_call(warm, {})
                r_in = run_call(obj, copy.deepcopy(c6))
                S.world.server = inner
                still = [c_.id for c_ in S.world.conns if not c_.closed]
                bad = None
                if not fired:
                    bad = "scenario did not reach the send"
                elif still:
                    bad = f"after the in-flight call ended ({r_in[:40]}): socket(s) {still} still open, and the pool no longer knows their Client"
                    pools = [obj.client_pool] if wkind.startswith("Pooled") else [c_.client_pool for c_ in obj.clients.values()]
                    known = [o for p_ in pools for o in list(p_.free) + list(p_.used)]
                    if any(o.sock is not None and not o.sock.closed for o in known):
                        bad = None        # still pooled: it will be reused or closed by the next close()
                if bad is None:
                    S.begin_call(warm + 1, {})
                    r_next = run_call(obj, {"op": "set", "k": "z", "v": b"z", "nr": False})
                    S.begin_call(warm + 2, {})
                    r_next2 = run_call(obj, {"op": "get", "k": "z"})
                    if (r_next, r_next2) != ("True", "b:7a"):
                        bad = f"the calls after the interrupted one did not work: {r_next}, {r_next2}"
                    obj.close()
                    still = [c_.id for c_ in S.world.conns if not c_.closed]
                    if bad is None and still:
                        bad = f"after the final close(): socket(s) {still} are still open"
                if bad:
                    ctx.violation("close() while a pooled call is in flight: " + bad, case, tags=["close-in-flight", "class:" + wkind])
    ctx.assumptions = ["OS-level descriptors are modelled by ids in a ledger; close() counts as closed even if it raises",
                       "faults are Exception-class (BaseException is C10)"]
    ctx.finish()
