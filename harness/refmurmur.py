"""Independent reference: MurmurHash3_x86_32 (Appleby's public-domain algorithm) over a byte string, written from the published
description, not from the repo's code.  pymemcache feeds it the code points of the text masked to 8 bits (C14's subject); `of_text` does that."""


def _rotl(x, r):
    return ((x << r) | (x >> (32 - r))) & 0xFFFFFFFF


def murmur3_x86_32(data: bytes, seed: int = 0) -> int:
    c1, c2 = 0xCC9E2D51, 0x1B873593
    h = seed & 0xFFFFFFFF
    n = len(data)
    for i in range(0, n - n % 4, 4):
        k = data[i] | (data[i + 1] << 8) | (data[i + 2] << 16) | (data[i + 3] << 24)
        k = (k * c1) & 0xFFFFFFFF
        k = _rotl(k, 15)
        k = (k * c2) & 0xFFFFFFFF
        h ^= k
        h = _rotl(h, 13)
        h = (h * 5 + 0xE6546B64) & 0xFFFFFFFF
    k = 0
    tail = data[n - n % 4:]
    if len(tail) == 3:
        k ^= tail[2] << 16
    if len(tail) >= 2:
        k ^= tail[1] << 8
    if len(tail) >= 1:
        k ^= tail[0]
        k = (k * c1) & 0xFFFFFFFF
        k = _rotl(k, 15)
        k = (k * c2) & 0xFFFFFFFF
        h ^= k
    h ^= n
    h ^= h >> 16
    h = (h * 0x85EBCA6B) & 0xFFFFFFFF
    h ^= h >> 13
    h = (h * 0xC2B2AE35) & 0xFFFFFFFF
    h ^= h >> 16
    return h


def of_text(s: str, seed: int = 0) -> int:
    return murmur3_x86_32(bytes(ord(c) & 0xFF for c in s), seed)


assert murmur3_x86_32(b"", 0) == 0 and murmur3_x86_32(b"", 1) == 0x514E28B7 and murmur3_x86_32(b"\0\0\0\0", 0) == 0x2362F9DE
assert murmur3_x86_32(b"The quick brown fox jumps over the lazy dog", 0x9747B28C) == 0x2FA826CD and murmur3_x86_32(b"Hello, world!", 1234) == 0xFAF6CDB3
