"""C10 — asynchronous interruption cannot desynchronise a client or leak a pool slot.
Same reply-ownership oracle as C01, with KeyboardInterrupt / SystemExit / a BaseException subclass raised from every
socket call of every operation, followed by further calls; plus the pool's checked-out count after the aborted call."""
from c01 import client_socks, has_reply, mk, run_sequence
from common import FakeClock, Ctx, import_repo
from faultrun import BASE_KINDS, OPS


def pool_used(kind, obj):
    if kind == "Pooled":
        return len(obj.client_pool.used)
    if kind == "HashPooled":
        return sum(len(c.client_pool.used) for c in obj.clients.values())
    return 0


def main(argv):
    ctx = Ctx("C10", argv)
    ctx.prepare_lean()
    import_repo()
    from pymemcache.client.base import Client, PooledClient
    from pymemcache.client.hash import HashClient
    classes = (Client, PooledClient, HashClient)
    rng = ctx.rng
    ctx.rule = ("every entry of faultrun.OPS (all public data operations, stats, cache_memlimit, shutdown) x interruption point {getaddrinfo, socket, connect, settimeout, sendall, every recv position 0..7(13)} x "
                "{KeyboardInterrupt, SystemExit, BaseException subclass} x with/without a healthy warm-up call, followed by 2-3 healthy calls; classes Client, "
                "PooledClient (max_pool_size 1 and 2), HashClient (plain and pooled); non-trivial = distinct (class, op, point, kind, warm-up)")
    ctx.exhaustive = True
    model_lines, model_meta = [], []
    followups = [c for c in OPS if c["op"] in ("add", "get", "set", "incr", "get_many", "delete", "gets")]
    n = 0
    ALL = OPS + [{"op": "quit"}]
    for kind in ("Client", "ClientIgn", "ClientUnix", "Pooled", "Pooled1", "Hash1", "HashUnix", "HashPooled"):
        for oi, call in enumerate(ALL):
            if call["op"] == "quit" and kind.startswith("Hash"):
                continue          # HashClient.quit is a broadcast, not a key-addressed call
            scripts = []
            for bk in BASE_KINDS:
                for api in ("getaddrinfo", "socket", "connect", "settimeout"):
                    scripts.append({"connect_fault": (api, bk)})
                scripts.append({"send_fault": bk})
                for after in (-1, 16, 9):       # interrupted after all / part of the request was written
                    scripts.append({"send_fault": bk, "send_after": after})
                if has_reply(call):
                    for pos in range(0, 14 if ctx.thorough else 8):
                        scripts.append({"recv_fault": (pos, bk), "chunk": "bytes" if pos % 2 else "rand"})
            if call["op"] == "quit":
                scripts += [{"close_fault": bk} for bk in BASE_KINDS] + [{"close_fault": bk, "close_leaves_open": True} for bk in BASE_KINDS]
            if kind not in ("Client", "Pooled") and not ctx.thorough and call["op"] != "quit":
                scripts = scripts[::2]
            # an ordinary failure whose clean-up (the close() of the socket) is itself interrupted
            if has_reply(call):
                for bk in BASE_KINDS:
                    for mut in ("server-error", "garbage-line", "truncate-timeout"):
                        scripts.append({"mutation": mut, "close_fault": bk, "chunk": "bytes"})
                        scripts.append({"mutation": mut, "close_fault": bk, "close_leaves_open": True, "chunk": "bytes"})
                    scripts.append({"recv_fault": (1, "reset"), "close_fault": bk, "chunk": "bytes"})
                    scripts.append({"recv_fault": (1, "timeout"), "close_fault": bk, "close_leaves_open": True, "chunk": "bytes"})
            for si, script in enumerate(scripts):
                for warm in (False, True):
                    seq = []
                    if warm:
                        seq.append(({"op": "set", "k": "a", "v": b"7", "nr": False}, {}))
                    seq.append((call, script))
                    if "close_fault" in script:
                        # an interruption inside close() must leave no lasting mark on the object: a LATER call that fails in the ordinary way
                        # (reply not read in time) still has its connection closed, and the call after it reads nothing stale
                        seq.append(({"op": "set", "k": "n", "v": b"5", "nr": False}, {}))
                        seq.append(({"op": "incr", "k": "n", "d": 5, "nr": False}, {"recv_fault": (0, "timeout")}))
                        seq.append(({"op": "incr", "k": "n", "d": 1, "nr": False}, {}))
                    for j in range(3 if ctx.thorough else 2):
                        seq.append((followups[(oi * 7 + si * 3 + j * 5) % len(followups)], {}))
                    # run with the pool observed after every call
                    from faultrun import Scripted
                    import c01 as C01
                    real_kind = "Pooled" if kind == "Pooled1" else kind
                    holder = {}
                    orig_mk = C01.mk

                    def mk_obs(k, S, cl):
                        if kind == "Pooled1":
                            o = cl[1](("h", 1), socket_module=S.sm, default_noreply=False, max_pool_size=1)
                        else:
                            o = orig_mk(k, S, cl)
                        holder["obj"] = o
                        return o
                    C01.mk = mk_obs
                    try:
                        ok = run_sequence(ctx, real_kind, classes, seq, rng, model_lines if (kind in ("Client", "ClientIgn", "ClientUnix") and "close_fault" not in script) else None, model_meta)
                    finally:
                        C01.mk = orig_mk
                    n += 1
                    case = {"class": kind, "op": call["op"], "script": repr(script), "warm_up": warm}
                    ctx.case((kind, oi, si, warm), sample=case if n in (10, 2000) else None)
                    ctx.count("class:" + kind)
                    ctx.count("kind:" + next(k for k in BASE_KINDS if k in repr(script)))
                    used = pool_used(real_kind, holder["obj"])
                    if used:
                        ctx.violation("the pool slot of the aborted call was lost (connection still checked out after the call)", dict(case, checked_out=used),
                                      tags=["class:" + kind, "pool-slot-lost", "base-exception"])
    # ---- interruption while the pool discards a connection that idled out (pool_idle_timeout): the close() of the stale socket is the
    #      interruption point; afterwards the pool must still hand out its full capacity and calls behave
    import pymemcache.pool as pool_mod
    from fakesock import mk_exc
    from faultrun import Scripted

    class FakeTime(FakeClock):
        now = 1_000_000.0
    FakeTime = FakeTime(lambda: FakeTime.now)
    real_time = pool_mod.time
    pool_mod.time = FakeTime
    try:
        for kind in ("Pooled1", "Pooled2", "HashPooled1"):
            for bk in BASE_KINDS:
                for nfollow in (2, 4):
                    S = Scripted(rng)
                    S.begin_call(0, {"chunk": "one"})
                    size = 2 if kind == "Pooled2" else 1
                    if kind.startswith("Pooled"):
                        obj = PooledClient(("h", 1), socket_module=S.sm, default_noreply=False, max_pool_size=size, pool_idle_timeout=30)
                        pools = lambda: [obj.client_pool]
                    else:
                        obj = HashClient([("h", 1)], socket_module=S.sm, default_noreply=False, use_pooling=True, max_pool_size=size, pool_idle_timeout=30)
                        pools = lambda: [c.client_pool for c in obj.clients.values()]
                    case = {"class": kind, "interruption": bk, "at": "close() of an idled-out pooled connection", "pool_idle_timeout": 30}
                    ctx.case(("idle-close", kind, bk, nfollow))
                    ctx.count("idle-close-interruptions")
                    try:
                        assert obj.set("a", b"1", noreply=False) is True
                        FakeTime.now += 31
                        S.world.arm({("close", 0): mk_exc(bk)})
                        try:
                            obj.get("a")
                        except BaseException as e:
                            if isinstance(e, Exception):
                                raise
                        S.world.arm({})
                        for j in range(nfollow):
                            v = b"%d" % j
                            if obj.set("a", v, noreply=False) is not True or obj.get("a") != v:
                                ctx.violation("a call after the interruption returned a wrong result", dict(case, call=j), tags=["base-exception", "idle-close"])
                                break
                            FakeTime.now += 31 if j % 2 else 1
                    except Exception as e:
                        ctx.violation("after an interruption while discarding an idle connection, later calls fail (pool slot lost)", dict(case, error=repr(e)[:120]),
                                      tags=["base-exception", "idle-close", "pool-slot-lost"])
                        continue
                    used = sum(len(p_.used) for p_ in pools())
                    if used:
                        ctx.violation("the pool slot of the aborted call was lost (connection still checked out after the call)", dict(case, checked_out=used),
                                      tags=["base-exception", "idle-close", "pool-slot-lost"])
    finally:
        pool_mod.time = real_time
    # ---- the application runs with warnings escalated to errors (`python -W error`): an interruption at send / receive still closes the connection, and the
    #      next call gets its own reply on a fresh one (whatever the handler does besides closing must not stand in the way of closing) ----------------------
    import warnings
    from clientlib import run_call
    from fakesock import FakeSocketModule, World, mk_exc
    from refserver import RefServer
    from pymemcache.client.base import Client as _Client
    wcalls = [{"op": "get", "k": "a"}, {"op": "set", "k": "b", "v": b"2", "nr": False}, {"op": "delete", "k": "zz", "nr": False}, {"op": "incr", "k": "n", "d": 1, "nr": False},
              {"op": "get_many", "ks": ["a", "b"]}, {"op": "touch", "k": "a", "e": 5, "nr": False}, {"op": "version"}]
    with warnings.catch_warnings():
        warnings.simplefilter("error")
        for wc in wcalls:
            for api in ("sendall", "recv"):
                for kind_ in ("kbd", "sysexit") if "sysexit" in BASE_KINDS else ("kbd",):
                    srv_ = RefServer()
                    world_ = World(server=lambda conn, data, _s=srv_: [_s.feed(conn.id, data)])
                    world_.tag = 0
                    cl_ = _Client(("h", 1), socket_module=FakeSocketModule(world_), default_noreply=False)
                    first = run_call(cl_, {"op": "set", "k": "a", "v": b"1", "nr": False})
                    world_.arm({(api, 0): mk_exc(kind_)})
                    r1 = run_call(cl_, dict(wc))
                    world_.arm({})
                    still_open = [c.id for c in world_.conns if not c.closed]
                    r2 = run_call(cl_, {"op": "get", "k": "a"})
                    ctx.case(("warnings-as-errors", wc["op"], api, kind_))
                    ctx.count("interruptions with warnings escalated to errors")
                    if not r1.startswith("exc:"):
                        ctx.count("warnings-as-errors: the interruption did not strike (no verdict)")
                        continue
                    if first != "True" or still_open or r2 != "b:31":
                        ctx.violation("with warnings escalated to errors an interrupted exchange did not close its connection, or the next call did not get its own reply",
                                      {"call": wc["op"], "interrupted_in": api, "interruption": kind_, "result": r1, "connections_left_open": still_open, "next_get_a": r2},
                                      tags=["base-exception", "warnings-as-errors"])
    if ctx.lean.build_ok and model_lines:
        outs = ctx.driver.batch(model_lines)
        for line, (case, r, sock_open, unread, sent, sf, cf), o in zip(model_lines, model_meta, outs):
            got = {kv.split("=", 1)[0]: kv.split("=", 1)[1] for kv in o.split(" ")[1:] if "=" in kv}
            ok = got.get("res") == r and got.get("open") == str(int(sock_open))
            if ok and sock_open:
                ok = got.get("unread") == str(unread)
            ctx.count("model-compared-calls")
            if not ok:
                ctx.disagreement("Lean Client.call differs from the implementation under an interruption script",
                                 {"sequence": case["sequence"][-3:], "impl": {"res": r, "open": sock_open, "unread": unread}, "model": o[:200], "line": line[:300]},
                                 theorem="C10_own_bytes_only_interrupt", tags=["base-exception"])
    ctx.assumptions = ["interruptions are delivered inside socket calls (signal delivery between other bytecodes is not modelled)"]
    ctx.finish()
