# Records the event trace of the REAL pymemcache ObjectPool (recording lock + recording deques).
import sys, collections
sys.path.insert(0, "/repo")
from pymemcache import pool as P

EV = []
class RLock:
    def __enter__(self): EV.append("acq 0")
    def __exit__(self, et, ev, tb):
        if et is RuntimeError: EV.append("raise-too-many")
        EV.append("rel 0")
class Obj:
    def __init__(self, i): self.i = i
class RDeque(collections.deque):
    name = "?"
    def __bool__(self):
        n = collections.deque.__len__(self); EV.append(f"len-{self.name} {n}"); return n > 0
    def __len__(self):
        n = super().__len__()
        if self.name == "used": EV.append(f"len-used {n}")
        return n
    def popleft(self): o = super().popleft(); EV.append(f"popleft {o.i}"); return o
    def append(self, o): EV.append(f"append-{self.name} {o.i}"); super().append(o)
    def remove(self, o):
        try: super().remove(o)
        except ValueError: EV.append(f"silent-miss {o.i}"); raise
        EV.append(f"remove-used {o.i}")
    def clear(self): EV.append(f"clear-{self.name}"); super().clear()
class UsedDeque(RDeque): name = "used"
class FreeDeque(RDeque): name = "free"

def mkpool(max_size, idle_timeout=0, clock=None):
    n = [0]
    def creator():
        o = Obj(n[0]); n[0] += 1; EV.append(f"create {o.i}"); return o
    p = P.ObjectPool(creator, after_remove=lambda o: EV.append(f"after_remove {o.i}"),
                     max_size=max_size, idle_timeout=idle_timeout, lock_generator=RLock)
    p._used_objs = UsedDeque(); p._free_objs = FreeDeque()
    if clock is not None: p._idle_clock = clock
    return p

def use(p, fail=False, quit=None):
    try:
        with p.get_and_release(destroy_on_fail=True) as o:
            EV.append(f"work {o.i}")
            if quit is not None:
                try:
                    if quit == "fail": raise OSError("x")
                finally:
                    p.destroy(o)
            if fail: raise OSError("boom")
    except OSError: pass
    except RuntimeError as e:
        assert "Too many objects" in str(e)

def show(title):
    print(title); print("  " + ", ".join(EV)); EV.clear()

p = mkpool(1); use(p); use(p, quit="ok"); show("useOk; quitOk (fresh)")
p = mkpool(1); use(p); use(p, quit="fail"); show("useOk; quitFail (fresh)")
p = mkpool(1); use(p, fail=True); show("useFail")
t = [0.0]
p = mkpool(1, idle_timeout=5, clock=lambda: t[0]); use(p); t[0] = 100.0; use(p); show("useOk; (expired) useOk")
p = mkpool(1); use(p); p.clear(); show("useOk; clear")
p = mkpool(1)
o = p.get(); EV.clear()
use(p); show("get while full (max 1)")
p = mkpool(1)
o = p.get(); EV.append(f"-- holder has {o.i}; clear:"); p.clear(); EV.append("-- holder releases:"); p.release(o); show("clear vs holder")
